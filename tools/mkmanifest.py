#!/usr/bin/env python3
"""Regenerates /verif/MANIFEST.json from the table below (keeps it valid at all times)."""
import json, os
HERE = os.path.dirname(os.path.dirname(os.path.abspath(__file__)))

NOTE = ("Trusted base: Coq 8.16.1 kernel + vm_compute (no native_compute); no axioms (Print Assumptions of every "
        "theorem in coq/theories/Props/<id>.v must be 'Closed under the global context'); the hand-written Gallina "
        "model is tied to /repo by the correspondence relations run on every invocation (model evaluated inside Coq); "
        "the Python harness (recorder, encoder, verdict parser); CPython, PuLP expression algebra, CBC, numpy RNG, "
        "argparse, file system and clock are modelled or oracles, not verified. ")

CLAIMED = {
 'C13': dict(
   text="Machine-checked Coq theorems about a Gallina model of the tie writer (create_string_pref) and tie reader "
        "(_get_simple_pref_list_and_ranks), for every list length and every decision vector: balanced non-nested "
        "groups equal to the maximal tied runs, last decision irrelevant, dense ranks after the round trip, at token "
        "and at character level. The model is tied to the code by exhaustive differential runs (all 2^n vectors up to "
        "n=8 quick / 11 thorough) and whole-file round trips through both generators and import_model.",
   ref='DESIGN.md section 6 C13',
   note=NOTE + "C13: python int()/str() modelled by DecimalString (sign and digits only).",
   technique='Coq proof by induction over the list with the (in_tie, rank) state + in-Coq differential correspondence'),
}

CLAIMED['C17'] = dict(
   text="Coq theorems over exact rationals (forall n >= 1, forall s > 0 in Q, which contains every float): weights positive, "
        "sum to one, equal steps, last = s * first (n >= 2), single agent = 1. Partial with respect to floating point: the "
        "rounding of the double operations and of numpy.sum is not modelled; the correspondence converts the "
        "implementation's doubles exactly to rationals and requires them within 2^-40 (relative to the largest weight) of "
        "the model evaluated in Coq, over n in 1..200 and a dense skew grid; the evaluator used in Coq is proved equal to "
        "the model. The weights handed to the RNG are checked to be that vector, unchanged.",
   ref='DESIGN.md section 6 C17',
   note=NOTE + "C17: float rounding and numpy.sum's reduction order are not modelled (tolerance 2^-40 of the largest weight).",
   technique='Coq proof over Q (field/lra) + exact-rational differential correspondence')

NOT_YET = {}

def main():
    props = [json.loads(l) for l in open(os.path.join(HERE, 'properties.jsonl'))]
    checks = []
    na = []
    for p in props:
        pid = p['id']
        if pid in CLAIMED:
            c = CLAIMED[pid]
            checks.append(dict(
                property_id=pid,
                quick_cmd='./check %s --tier quick' % pid,
                thorough_cmd='./check %s --tier thorough' % pid,
                evidence_file='evidence/%s.json' % pid,
                replay_cmd_template='./check %s --replay {path}' % pid,
                engine='coq-proof+correspondence',
                level_claimed=dict(category='proof', text=c['text'], design_ref=c['ref']),
                level_note=c['note'],
                technique=c['technique']))
        else:
            na.append(dict(property_id=pid, reason=NOT_YET.get(pid, 'not claimed yet: the Coq model, theorems and '
                           'correspondence for this property are still being built (see DESIGN.md section 9)')))
    m = dict(
        version=1,
        setup_cmd='cd /verif/coq && coq_makefile -f _CoqProject -o Makefile && timeout 3000 make -j16',
        hooks=dict(guard='MATCHINGPROBLEMS_VERIF',
                   enable='no source hooks: all instrumentation is applied from the harness process (monkey-patching); '
                          './check exports MATCHINGPROBLEMS_VERIF=1 and PYTHONPATH=/repo',
                   baseline_off_cmd='cd /repo && /venv/bin/python -m pytest -ra -q -p no:cacheprovider --timeout=900 '
                                    '--continue-on-collection-errors',
                   source_commits=[], add_only=True),
        engines=[dict(name='coq-proof+correspondence', path='check',
                      serves_properties=[c['property_id'] for c in checks],
                      kind_free_text='Coq 8.16.1 theorems about a hand-written Gallina model; model evaluated inside Coq '
                                     '(vm_compute) against the Python implementation on generated cases')],
        checks=checks,
        notes='See DESIGN.md. known_findings.json lists genuine defects (fixed: / known).',
        not_applicable=na)
    json.dump(m, open(os.path.join(HERE, 'MANIFEST.json'), 'w'), indent=1)
    print('claimed:', [c['property_id'] for c in checks])

if __name__ == '__main__':
    main()
