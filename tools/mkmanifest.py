#!/usr/bin/env python3
"""Regenerates /verif/MANIFEST.json from the table below (keeps it valid at all times)."""
import json, os
HERE = os.path.dirname(os.path.dirname(os.path.abspath(__file__)))

NOTE = ("Trusted base: Coq 8.16.1 kernel + vm_compute (no native_compute); no axioms (Print Assumptions of every "
        "theorem in coq/theories/Props/<id>.v must be 'Closed under the global context'); the hand-written Gallina "
        "model is tied to /repo by the correspondence relations run on every invocation (model evaluated inside Coq); "
        "the Python harness (recorder, encoder, verdict parser); CPython, PuLP expression algebra, CBC, numpy RNG, "
        "argparse, file system and clock are modelled or oracles, not verified. ")

CLAIMED = {
 'C13': dict(
   text="Machine-checked Coq theorems about a Gallina model of the tie writer (create_string_pref) and tie reader "
        "(_get_simple_pref_list_and_ranks), for every list length and every decision vector: balanced non-nested "
        "groups equal to the maximal tied runs, last decision irrelevant, dense ranks after the round trip, at token "
        "and at character level. The model is tied to the code by exhaustive differential runs (all 2^n vectors up to "
        "n=8 quick / 11 thorough) and whole-file round trips through both generators and import_model.",
   ref='DESIGN.md section 6 C13',
   note=NOTE + "C13: python int()/str() modelled by DecimalString (sign and digits only).",
   technique='Coq proof by induction over the list with the (in_tie, rank) state + in-Coq differential correspondence'),
}

CLAIMED['C17'] = dict(
   text="Coq theorems over exact rationals (forall n >= 1, forall s > 0 in Q, which contains every float): weights positive, "
        "sum to one, equal steps, last = s * first (n >= 2), single agent = 1. Partial with respect to floating point: the "
        "rounding of the double operations and of numpy.sum is not modelled; the correspondence converts the "
        "implementation's doubles exactly to rationals and requires them within 2^-40 (relative to the largest weight) of "
        "the model evaluated in Coq, over n in 1..200 and a dense skew grid; the evaluator used in Coq is proved equal to "
        "the model. The weights handed to the RNG are checked to be that vector, unchanged.",
   ref='DESIGN.md section 6 C17',
   note=NOTE + "C17: float rounding and numpy.sum's reduction order are not modelled (tolerance 2^-40 of the largest weight).",
   technique='Coq proof over Q (field/lra) + exact-rational differential correspondence')


def claim(pid, text, note='', technique='Coq proof + in-Coq differential correspondence and spec monitors'):
    CLAIMED[pid] = dict(text=text, ref='DESIGN.md section 6 ' + pid, note=NOTE + note, technique=technique)

claim('C01',
  "Coq theorems: every 0/1 point of the basic constraints denotes a valid matching (forall instance sizes, closures included); "
  "every problem of a run contains those constraints; hence for ANY oracle satisfying the MILP contract (any optimal solution at "
  "any stage) and any option set an Optimal run prints a valid matching. Tied to the code by R_lp: every problem handed to "
  "pulp.LpProblem.solve (constraints as canonical multisets, objective, bounds, duplicate names) equals the model's, with recorded "
  "answers replayed as the oracle; the printed matching of every Optimal run is judged by valid_b in Coq.",
  "C01: CBC assumed to satisfy milp_ok (integral values, feasibility, optimality); PuLP expression algebra observed, not proved.")
claim('C06',
  "Coq theorem check_correct: on every well-formed two-sided instance and every assignment to acceptable projects the model of "
  "check_stability returns Ok (no blocking pair by the SPA-STL definition), never an exception. Tied to the code by R_checker "
  "(value or exception class on enumerated assignments incl. zero capacities); M_checker judges the implementation's answer by "
  "stable_b evaluated in Coq. The repaired defect F08 (TypeError on zero capacity) is in corpus/C06.")
claim('C07',
  "Coq theorem bf_correct: for every well-formed instance the brute-force model never fails and prints exactly the declarative "
  "optima over all valid matchings (all nine statistics; Infeasible iff none), every profile with one entry per rank. Tied to "
  "the code by R_bf (text or exception class through Solver -bf) and judged by M_bf against the Coq specification. Cross-check "
  "theorems: for any correct MILP back end the value the integer-programming mode reaches for -maxsize, -maxsize -mincost, -lmb, -lsb, "
  "-gre, -maxsize -gre, -maxsize -gen equals the optimum brute-force mode prints; M_crosscheck runs both modes on the same instances. "
  "F09 repaired.")
claim('C08',
  "Coq theorems: quotas/targets/projects-per-lecturer are spread evenly (length, sum, max-min<=1, larger first, pointwise monotone in "
  "the total so lower<=target<=upper), tie probability 0 gives no parenthesis and 1 one group. File assembly is tied byte-for-byte to "
  "the code from recorded RNG draws (R_genfile), create_quotas is compared exhaustively on small values and sampled beyond 2^53 (F15 "
  "repaired) and its result judged by the property's words (M_quota), and every written file is re-read by the C10-proved model importer and judged in Coq "
  "(M_genfile). Also proved: the lists read back from a generated file ARE the drawn lists (pmin..pmax distinct agents of the other side) "
  "and every vector of lengths in [pmin, pmax] results from draws honouring the RNG contract. That numpy draws each with positive "
  "probability, and the tie frequencies, are requests to numpy's RNG (checked), its distribution is trusted: partial.",
  "C08: numpy.random / random.shuffle are oracles (their recorded results are replayed); float formatting of the parameter block is "
  "taken from python's str().")
claim('C10',
  "Coq theorem import_render: for every abstract file of the documented format, na=2/3, with/without -twopl, with any trailing "
  "lines, the character-level model of the importer returns exactly the denoted instance (dense tie-group ranks, 2-agent embedding, "
  "ignored second side without -twopl); import_render_ws: the same for ANY blank/tab layout and an optional final newline; "
  "import_render_pad_nonneg: additionally any number of leading zeros on every number (non-negative files; refuted with a witness "
  "otherwise). Tied to the code by R_import (all Model attributes, pairs and derived lists) and judged by M_import against denote; files "
  "with more than 1000 agents, str.split()'s other whitespace characters and DOS line ends are exercised by the correspondence.")
claim('C11',
  "Coq theorems: every printed quantity and listing computed from the assigned pairs equals the value computed from the instance and "
  "the matching line alone (all 11 fields), and the assigned pairs of any 0/1 point are the pairs of its matching line; C11_command_line: "
  "on the Solver built from its command line the whole getter text after an Optimal solve is the frame around exactly that block. Tied to the code "
  "by R_results (byte-exact get_results short/long on synthetic values) and judged by M_results against the Coq specification text.")
claim('C12',
  "Coq theorems: the inversion lists agent i under j exactly once iff i lists j, and a student's lecturer list is exactly the lecturers "
  "offering a listed project, each once. random.shuffle is a permutation oracle: R_invert/R_genfile check each written list is a "
  "permutation of the model's inversion; M_second_side compares second-side lines with first-side lines of the same file in Coq. "
  "generated_file_second_side: every two-sided file the generator model writes is, line by line up to blanks, the rendering of an abstract "
  "file whose second-side lists contain each first-side agent that finds the owner acceptable exactly once and nobody else.")
claim('C14',
  "Coq theorems for an ARBITRARY oracle (any status/values at any solve): all performed solves but the last were Optimal and the "
  "last one's status is reported; when the status is not Optimal or the run timed out the result text does not depend on the variable "
  "values (no matching, no statistic) and is produced; a limit stop implies Timeout. Tied to the code by R_faults (exhaustive/sampled "
  "fault plans injected at pulp.LpProblem.solve, scripted clock) and judged by c14_verdict in Coq. F07 repaired. The total=limit clock "
  "corner and CBC's own time accounting are outside the model: partial.")
claim('C15',
  "Coq theorem decide_spec: the model of the argument checks accepts exactly the documented argument sets, never raises, rejects all "
  "others; composed generator (parser -> defaults -> instance writers): every documented set writes exactly numinst files 0.txt.. for any "
  "draws honouring the RNG contract, any other set ends in the usage error, never an exception. Tied to the code by R_genargs (legal "
  "vectors and all single-fault perturbations, accepted / exit 2 / exception), R_generator (files byte-exact from the composed model) and judged by "
  "M_genargs (documented rule; no directory may exist after a rejection). F11 repaired. argparse itself is trusted.")
claim('C16',
  "Coq theorems: the slot-array parser returns the criteria in increasing position order with their extras and refuses out-of-range, "
  "duplicate positions and -stab without -twopl; the logged optimisation lines are a prefix of that list; on the Solver as a whole "
  "(solver_new = parse, then open/import the file, then the session) the usage error occurs exactly for the unacceptable option sets "
  "whatever the file is, and an acceptable set on a documented file starts the session on the denoted instance with the criteria in "
  "position order. Tied to the code by R_opts and R_main (Solver(argv) with the file absent / well-formed / malformed), judged by M_opts / "
  "M_refuse (SystemExit before the file is read) / M_info on full runs. Flag-order independence is argparse's (sampled).")
claim('C18',
  "Coq theorems: getters leave the state unchanged and return one fixed text; two runs against any correct MILP oracles (different "
  "tie-breaks allowed) hand over the same problems (same frozen optimum per stage), same status, same log, and print a valid matching; "
  "the same for the Solver object solved twice, also when built from its command line (C18_command_line). "
  "Tied to the code by R_session (histories over solve/get_* incl. re-solves, limits and idle gaps under a scripted clock) and judged by "
  "M_getters. F12, F13 repaired.")

claim('C02',
  "Coq theorems (stage invariant, ~660 lines + stability encoding): for every well-formed instance, admissible option set and oracle "
  "satisfying the MILP contract the run never fails (no builder failure, no duplicate variable name), reports Optimal iff a matching "
  "satisfying the requested constraints exists and Infeasible otherwise; every objective-variable bound admits every attainable value. "
  "Tied to the code by R_lp (problems incl. bounds and name partition); M_status compares the reported status with feasibility by "
  "enumeration in Coq and flags any escaping exception. F01-F06 repaired (corpus/C02). F16 (criterion values of nine or more digits came back "
  "rounded from CBC's solution file: a feasible run reported Infeasible) repaired too; its witnesses run first (corpus/C02, corpus/C04).",
  "C02: CBC assumed to satisfy milp_ok; 'admissible' = -stab only on two-sided instances, distinct criteria, non-negative multipliers "
  "(any generous / greedy cut-off).")
claim('C03',
  "Coq theorems: the stages run for each criterion are the documented objectives (defaults included), and with one criterion the printed "
  "matching is lexicographically optimal for them among ALL matchings satisfying the requested constraints, for every oracle satisfying the "
  "MILP contract (any tie-break). Tied to the code by R_lp; M_lex judges the printed matching by enumeration in Coq (trade-off instances "
  "included so that criteria disagree).",
  "C03: CBC assumed to satisfy milp_ok.")
claim('C04',
  "Coq theorems: the printed matching is LexOpt for the concatenated stage lists in list order over all feasible matchings (so a later "
  "criterion never worsens an earlier one), and the list order is the position order whatever the flag order (parser theorem). Tied to the "
  "code by R_lp and R_opts; M_lex judges runs with 2-4 criteria at shuffled flags / gapped positions by enumeration in Coq; M_backend "
  "records the back end's configuration at every solve (plain exact MILP solve) incl. one instance of more than 5000 residents.",
  "C04: CBC assumed to satisfy milp_ok; flag-order independence of the namespace is argparse's (sampled).")
claim('C05',
  "Coq theorems: the alpha/beta/gamma rows are sound (every 0/1 point denotes a matching without blocking pair by the SPA-STL definition) "
  "and complete (every stable valid matching's canonical assignment satisfies them), for all two-sided well-formed instances incl. ties, "
  "shared lecturers, zero capacities, closures; an Optimal -stab run prints a stable matching; with C02/C04 feasibility and optima range "
  "over all stable valid matchings. Tied to the code by R_lp on the stability rows; M_stable / M_status / M_lex judge printed matchings, "
  "statuses and max/min stable sizes by enumeration in Coq.",
  "C05: CBC assumed to satisfy milp_ok.")

claim('C09',
  "Coq composition theorem generated_file_imports (1 400 lines): for accepted arguments and draws honouring numpy's contract, the "
  "generator model's text is imported character by character, without error, as a WELL-FORMED instance with the requested counts and "
  "sidedness; hence (corollaries) LP mode never fails, reports Optimal iff feasible and prints a valid matching for any correct MILP back "
  "end, and brute-force mode prints the exact optima; pipeline_constructs composes the two command lines (generator_run -> solver_new). "
  "Tied to the code by R_pipeline (on generator output: importer, every integer program, brute-force text equal to the model's) and "
  "M_pipeline: Generator(argv) -> Solver with the documented flags (all four types, -stab on two-sided, -pc, 0..3 criteria, or -bf), "
  "judged by R_import/m_genfile and the C01/C02/C05/C07 monitors.",
  "C09: numpy RNG contract (distinct choice, permutation shuffle) is the hypothesis draws_contract; CBC assumed to satisfy milp_ok; file "
  "system effects trusted.")

NOT_YET = {}

def main():
    props = [json.loads(l) for l in open(os.path.join(HERE, 'properties.jsonl'))]
    checks = []
    na = []
    for p in props:
        pid = p['id']
        if pid in CLAIMED:
            c = CLAIMED[pid]
            checks.append(dict(
                property_id=pid,
                quick_cmd='./check %s --tier quick' % pid,
                thorough_cmd='./check %s --tier thorough' % pid,
                evidence_file='evidence/%s.json' % pid,
                replay_cmd_template='./check %s --replay {path}' % pid,
                engine='coq-proof+correspondence',
                level_claimed=dict(category='proof', text=c['text'], design_ref=c['ref']),
                level_note=c['note'],
                technique=c['technique']))
        else:
            na.append(dict(property_id=pid, reason=NOT_YET.get(pid, 'not claimed yet: the Coq model, theorems and '
                           'correspondence for this property are still being built (see DESIGN.md section 9)')))
    m = dict(
        version=1,
        setup_cmd='cd /verif/coq && coq_makefile -f _CoqProject -o Makefile && timeout 3000 make -j16',
        hooks=dict(guard='MATCHINGPROBLEMS_VERIF',
                   enable='no source hooks: all instrumentation is applied from the harness process (monkey-patching); '
                          './check exports MATCHINGPROBLEMS_VERIF=1 and PYTHONPATH=/repo',
                   baseline_off_cmd='cd /repo && /venv/bin/python -m pytest -ra -q -p no:cacheprovider --timeout=900 '
                                    '--continue-on-collection-errors',
                   source_commits=[], add_only=True),
        engines=[dict(name='coq-proof+correspondence', path='check',
                      serves_properties=[c['property_id'] for c in checks],
                      kind_free_text='Coq 8.16.1 theorems about a hand-written Gallina model; model evaluated inside Coq '
                                     '(vm_compute) against the Python implementation on generated cases')],
        checks=checks,
        notes='See DESIGN.md. known_findings.json lists genuine defects (fixed: / known).',
        not_applicable=na)
    json.dump(m, open(os.path.join(HERE, 'MANIFEST.json'), 'w'), indent=1)
    print('claimed:', [c['property_id'] for c in checks])

if __name__ == '__main__':
    main()
