#!/bin/bash
# runs the quick (or given tier) check of every listed property, a few at a time; prints one line each
tier=${TIER:-quick}
props="$@"
[ -z "$props" ] && props=$(python3 -c "import json;print(' '.join(c['property_id'] for c in json.load(open('/verif/MANIFEST.json'))['checks']))")
mkdir -p /verif/_work/logs
printf "%s\n" $props | xargs -P ${PAR:-4} -I{} bash -c "cd /verif && ./check {} --tier $tier > /verif/_work/logs/{}.log 2>&1; echo {} exit=\$? \$(tail -1 /verif/_work/logs/{}.log)"
