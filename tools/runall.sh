#!/bin/bash
# runs the quick (or given tier) check of every listed property, a few at a time; prints one line each
tier=${TIER:-quick}
props="$@"
[ -z "$props" ] && props=$(python3 -c "import json;print(' '.join(c['property_id'] for c in json.load(open('MANIFEST.json'))['checks']))")
HERE="$(cd "$(dirname "$0")/.." && pwd)"
mkdir -p $HERE/_work/logs
printf "%s\n" $props | xargs -P ${PAR:-4} -I{} bash -c "cd $HERE && ./check {} --tier $tier > $HERE/_work/logs/{}.log 2>&1; echo {} exit=\$? \$(tail -1 $HERE/_work/logs/{}.log)"
