#!/bin/bash
# usage: tools/try_mutation.sh <seed-id> <property> <worktree> [more properties to run]
# confirms a sub-agent's change (tests pass, demo fails with / passes without), runs the checks against it, records it
sid=$1; pid=$2; wt=$3; shift 3; extra="$@"
out=/verif/seeded/$sid; mkdir -p $out
cd $wt || exit 2
git -C $wt diff -- matchingproblems > $out/patch.diff
cp $wt/demo.py $out/demo.py 2>/dev/null; cp $wt/notes.md $out/notes.md 2>/dev/null
t_with=$(cd $wt && /venv/bin/python -m pytest -q -p no:cacheprovider 2>&1 | tail -1)
PYTHONPATH=$wt /venv/bin/python $wt/demo.py > $out/demo_with.log 2>&1; d_with=$?
git -C $wt apply -R $out/patch.diff
PYTHONPATH=$wt /venv/bin/python $wt/demo.py > $out/demo_without.log 2>&1; d_without=$?
git -C $wt apply $out/patch.diff
echo "tests_with_change: $t_with | demo exit with=$d_with without=$d_without"
# run the checks against /repo with the change applied
if ! git -C /repo apply --check $out/patch.diff 2>/dev/null; then echo "patch does not apply to /repo"; exit 3; fi
cp -r /verif/evidence /verif/_work/evidence_backup_$$
git -C /repo apply $out/patch.diff
res=""
for p in $pid $extra; do
  cd /verif && ./check $p --tier quick > $out/check_$p.log 2>&1; rc=$?
  res="$res $p:exit=$rc:$(grep -c '^VIOLATION' $out/check_$p.log)viol$(grep -q no-failing-input-found $out/check_$p.log && echo ':nofailing')"
  mkdir -p $out/replays; cp /verif/replays/${p}_*.json $out/replays/ 2>/dev/null
done
git -C /repo checkout -- .
rm -rf /verif/evidence; mv /verif/_work/evidence_backup_$$ /verif/evidence
echo "checks:$res"
python3 - "$sid" "$pid" "$t_with" "$d_with" "$d_without" "$res" <<'PY'
import json,sys
sid,pid,t,dw,dwo,res=sys.argv[1:7]
notes=''
try: notes=open('/verif/seeded/%s/notes.md'%sid).read()
except Exception: pass
json.dump(dict(seed=sid,property=pid,tests_with_change=t,demo_exit_with_change=int(dw),demo_exit_without_change=int(dwo),
  checks_run=res.strip(),needs_to_manifest=notes[:1500],
  what_i_ran='pytest in the worktree with the change; demo.py with and without the change; git -C /repo apply patch.diff; ./check <P> --tier quick; git -C /repo checkout -- .'),
  open('/verif/seeded/%s/meta.json'%sid,'w'),indent=1)
PY
