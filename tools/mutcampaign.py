#!/usr/bin/env python3
"""Automated mutation campaign: AST-level mutants of /repo's package, each applied to a private copy of the
repository; mutants the repository's own 35 tests do not kill are run against the checks that cover the mutated
file (VERIF_REPO=<copy>, evidence/replays redirected).  Survivors are listed for triage (many are equivalent).
usage: tools/mutcampaign.py <outdir> [--files a.py,b.py] [--workers 6] [--max N]"""
import argparse, ast, copy, json, os, random, shutil, subprocess, sys, time
from concurrent.futures import ThreadPoolExecutor

REPO = '/repo'
PKG = 'matchingproblems'
FILES = {
    'generator/generator_shared.py': ['C13', 'C17', 'C08', 'C12'],
    'generator/generator_ha_sm_hr.py': ['C08', 'C12', 'C09'],
    'generator/generator_spa.py': ['C08', 'C12', 'C09'],
    'generator/instance_options_parser.py': ['C15', 'C08'],
    'generator/generator.py': ['C15', 'C08'],
    'solver/fileIO.py': ['C10', 'C13', 'C01'],
    'solver/model.py': ['C11', 'C06', 'C18', 'C01', 'C14'],
    'solver/lp_solver.py': ['C02', 'C03', 'C05', 'C04', 'C14', 'C16'],
    'solver/options_parser.py': ['C16', 'C04'],
    'solver/solver.py': ['C18', 'C14', 'C10', 'C07'],
    'solver/brute_force_solver.py': ['C07'],
}
CMP = {ast.Lt: ast.LtE, ast.LtE: ast.Lt, ast.Gt: ast.GtE, ast.GtE: ast.Gt, ast.Eq: ast.NotEq, ast.NotEq: ast.Eq,
       ast.Is: ast.IsNot, ast.IsNot: ast.Is}
BIN = {ast.Add: ast.Sub, ast.Sub: ast.Add, ast.Mult: ast.Add}


class Collector(ast.NodeVisitor):
    """enumerates mutation points: (kind, node index)"""
    def __init__(self):
        self.points = []
        self.n = 0

    def generic_visit(self, node):
        idx = self.n
        self.n += 1
        node._idx = idx
        if isinstance(node, ast.Compare) and len(node.ops) == 1 and type(node.ops[0]) in CMP:
            self.points.append(('cmp', idx))
        if isinstance(node, ast.BinOp) and type(node.op) in BIN:
            self.points.append(('bin', idx))
        if isinstance(node, ast.BoolOp):
            self.points.append(('bool', idx))
        if isinstance(node, ast.UnaryOp) and isinstance(node.op, ast.Not):
            self.points.append(('not', idx))
        if isinstance(node, ast.Constant) and isinstance(node.value, bool):
            self.points.append(('boolconst', idx))
        elif isinstance(node, ast.Constant) and isinstance(node.value, int) and -3 <= node.value <= 10:
            self.points.append(('int+', idx))
            self.points.append(('int-', idx))
        if isinstance(node, (ast.Assign, ast.AugAssign)) or (isinstance(node, ast.Expr) and isinstance(node.value, ast.Call)):
            self.points.append(('del', idx))
        if isinstance(node, ast.If):
            self.points.append(('iftrue', idx))
            self.points.append(('iffalse', idx))
        super().generic_visit(node)


class Mutator(ast.NodeTransformer):
    def __init__(self, kind, idx):
        self.kind, self.idx, self.n, self.done = kind, idx, 0, False

    def generic_visit(self, node):
        idx = self.n
        self.n += 1
        node = super().generic_visit(node)
        if idx != self.idx:
            return node
        self.done = True
        k = self.kind
        if k == 'cmp':
            node.ops = [CMP[type(node.ops[0])]()]
        elif k == 'bin':
            node.op = BIN[type(node.op)]()
        elif k == 'bool':
            node.op = ast.Or() if isinstance(node.op, ast.And) else ast.And()
        elif k == 'not':
            return node.operand
        elif k == 'boolconst':
            node.value = not node.value
        elif k == 'int+':
            node.value = node.value + 1
        elif k == 'int-':
            node.value = node.value - 1
        elif k == 'del':
            return ast.Pass()
        elif k == 'iftrue':
            node.test = ast.Constant(True)
        elif k == 'iffalse':
            node.test = ast.Constant(False)
        return node


def mutants_of(src):
    tree = ast.parse(src)
    c = Collector()
    c.visit(tree)
    out = []
    for kind, idx in c.points:
        t = ast.parse(src)
        m = Mutator(kind, idx)
        t2 = m.visit(t)
        ast.fix_missing_locations(t2)
        try:
            new = ast.unparse(t2)
        except Exception:
            continue
        if new != ast.unparse(ast.parse(src)):
            out.append((kind, idx, new))
    return out


def describe(src, new):
    a = ast.unparse(ast.parse(src)).splitlines()
    b = new.splitlines()
    for i, (x, y) in enumerate(zip(a, b)):
        if x != y:
            return '%d: %s  ==>  %s' % (i + 1, x.strip(), y.strip())
    return 'line count differs'


def run(cmd, env=None, cwd=None, timeout=900):
    try:
        p = subprocess.run(cmd, cwd=cwd, env=env, stdout=subprocess.PIPE, stderr=subprocess.STDOUT, text=True, timeout=timeout)
        return p.returncode, p.stdout
    except subprocess.TimeoutExpired:
        return 124, 'timeout'


def worker(job):
    k, rel, kind, idx, new, desc, checks, outdir = job
    copy_dir = os.path.join(outdir, 'repo_%d' % (k % 1000000))
    wdir = os.path.join(outdir, 'w%d' % (os.getpid()))
    slot = None
    # one repo copy per thread
    import threading
    tid = threading.get_ident()
    copy_dir = os.path.join(outdir, 'repo_t%d' % tid)
    if not os.path.exists(copy_dir):
        shutil.copytree(REPO, copy_dir, ignore=shutil.ignore_patterns('.git', '__pycache__', 'Evaluations'))
    target = os.path.join(copy_dir, PKG, rel)
    orig = open(os.path.join(REPO, PKG, rel)).read()
    open(target, 'w').write(new)
    res = dict(k=k, file=rel, kind=kind, desc=desc, tests='?', caught_by=None, ran=[])
    try:
        rc, out = run(['/venv/bin/python', '-m', 'pytest', '-q', '-x', '-p', 'no:cacheprovider'], cwd=copy_dir, timeout=300)
        res['tests'] = 'pass' if rc == 0 else 'fail'
        if rc != 0:
            return res
        env = dict(os.environ, VERIF_REPO=copy_dir, VERIF_OUT=os.path.join(outdir, 'out_t%d' % tid), VERIF_NCPU='3')
        for c in checks:
            rc, out = run(['/verif/check', c, '--tier', 'quick'], env=env, cwd='/verif', timeout=900)
            res['ran'].append([c, rc])
            if rc == 1 and 'VIOLATION' in out:
                res['caught_by'] = c
                res['how'] = 'no-failing-input-found' if ('no-failing-input-found' in out and out.count('VIOLATION') == 1) else 'failing-input'
                break
    finally:
        open(target, 'w').write(orig)
    return res


def main():
    ap = argparse.ArgumentParser()
    ap.add_argument('outdir')
    ap.add_argument('--files', default='')
    ap.add_argument('--workers', type=int, default=5)
    ap.add_argument('--max', type=int, default=0)
    ap.add_argument('--seed', type=int, default=0)
    a = ap.parse_args()
    os.makedirs(a.outdir, exist_ok=True)
    global REPO
    base = os.path.join(a.outdir, 'base')
    if not os.path.exists(base):
        shutil.copytree(REPO, base, ignore=shutil.ignore_patterns('.git', '__pycache__', 'Evaluations'))
    REPO = base
    rng = random.Random(a.seed)
    jobs = []
    k = 0
    files = [f for f in FILES if not a.files or f in a.files.split(',')]
    for rel in files:
        src = open(os.path.join(REPO, PKG, rel)).read()
        ms = mutants_of(src)
        if a.max and len(ms) > a.max:
            ms = rng.sample(ms, a.max)
        for kind, idx, new in ms:
            jobs.append((k, rel, kind, idx, new, describe(src, new), FILES[rel], a.outdir))
            k += 1
    print('mutants:', len(jobs), flush=True)
    results = []
    t0 = time.time()
    with ThreadPoolExecutor(max_workers=a.workers) as ex:
        for r in ex.map(worker, jobs):
            results.append(r)
            if len(results) % 10 == 0:
                surv = [x for x in results if x['tests'] == 'pass' and not x['caught_by']]
                print('%d done, %d survive the tests, %d not caught  (%.0fs)' % (
                    len(results), sum(1 for x in results if x['tests'] == 'pass'), len(surv), time.time() - t0), flush=True)
            json.dump(results, open(os.path.join(a.outdir, 'results.json'), 'w'), indent=1)
    surv = [x for x in results if x['tests'] == 'pass' and not x['caught_by']]
    print('SURVIVORS (%d):' % len(surv))
    for x in surv:
        print(' ', x['file'], x['kind'], x['desc'])


if __name__ == '__main__':
    main()
