#!/bin/bash
# usage: tools/try_harmless.sh <seed-id> <worktree> <properties...>
# a behaviour-preserving refactoring: every listed check must stay quiet (exit 0, no VIOLATION) with it applied
sid=$1; wt=$2; shift 2; props="$@"
out=/verif/seeded/$sid; mkdir -p $out
git -C $wt diff -- matchingproblems > $out/patch.diff
cp $wt/notes.md $out/notes.md 2>/dev/null
t_with=$(cd $wt && /venv/bin/python -m pytest -q -p no:cacheprovider 2>&1 | tail -1)
if ! git -C /repo apply --check $out/patch.diff 2>/dev/null; then echo "patch does not apply to /repo"; exit 3; fi
cp -r /verif/evidence /verif/_work/evidence_backup_$$
git -C /repo apply $out/patch.diff
res=""
for p in $props; do
  (cd /verif && ./check $p --tier quick > $out/check_$p.log 2>&1; echo "$p:exit=$?:$(grep -c '^VIOLATION' $out/check_$p.log)viol" > $out/res_$p.txt) &
  while [ $(jobs -r | wc -l) -ge 4 ]; do sleep 1; done
done
wait
res=$(cat $out/res_*.txt | tr '\n' ' '); rm -f $out/res_*.txt
git -C /repo apply -R $out/patch.diff 2>/dev/null || git -C /repo checkout -- .; git -C /repo clean -fdq -- matchingproblems
rm -rf /verif/evidence; mv /verif/_work/evidence_backup_$$ /verif/evidence
echo "tests: $t_with"; echo "checks: $res"
python3 - "$sid" "$t_with" "$res" <<'PY'
import json,sys
sid,t,res=sys.argv[1:4]
notes=''
try: notes=open('/verif/seeded/%s/notes.md'%sid).read()
except Exception: pass
json.dump(dict(seed=sid,property='none (harmless refactoring)',tests_with_change=t,checks_run=res.strip(),expected='no alarm',
  what=notes[:1500]),open('/verif/seeded/%s/meta.json'%sid,'w'),indent=1)
PY
