"""C04 — several criteria compose lexicographically in the user-given order."""
from ..lpcommon import RLp, MLex, MBackend
from .c16 import Opts


def two_or_more(rng):
    from ..lpcommon import ALL
    return rng.sample(ALL, rng.choice([2, 2, 2, 3, 3, 4]))


class RLpN(RLp):
    gen_kwargs = dict(crit_names=two_or_more)


class MLexN(MLex):
    gen_kwargs = dict(crit_names=two_or_more)
    n_quick = 220
    describe = (MLex.describe + '; two to four criteria per run at positions with gaps and shuffled flag order, so that '
                'the order is decided by the position numbers alone')


RELATIONS = [RLpN(), MLexN(), Opts(), MBackend()]
