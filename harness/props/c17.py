"""C17 — popularity skew is linear with the requested ratio."""
from .. import common as C
from ..engine import Relation

REQ = ['Gen.Dist', 'Corr.C17Corr']


def cq(x):
    """float (or [num, den]) -> Coq Q literal, exact."""
    if isinstance(x, (list, tuple)):
        num, den = int(x[0]), int(x[1])
    else:
        num, den = float(x).as_integer_ratio()
    return '(Qmake %s %d%%positive)' % (C.cz(num), den)


def ratio(x):
    a, b = float(x).as_integer_ratio()
    return [str(a), str(b)]


NS_QUICK = [1, 2, 3, 4, 5, 7, 10, 16, 33, 64, 100, 200]
S_GRID = [1.0, 0.5, 0.1, 0.01, 2.0, 3.0, 10.0, 1e6, 1.0000001, 1e-6, 123.456, 0.9999, 7.25, 1e-3]


def grid(ctx, label):
    rng = ctx.rng(label)
    ns = list(range(1, 201)) if ctx.thorough else NS_QUICK
    for n in ns:
        ss = list(S_GRID)
        for _ in range(6 if ctx.thorough else 2):
            ss.append(round(rng.uniform(0.001, 50.0), 6))
        if ctx.thorough and n > 40:
            ss = ss[::3]
        for s in ss:
            yield dict(n=n, s=s)


def impl_dist(inp):
    from matchingproblems.generator import generator_shared as gs
    return [ratio(v) for v in gs.create_linear_distribution(inp['n'], inp['s'])]


class Dist(Relation):
    name = 'R_dist'
    kind = 'corr'
    shard = 25
    requires = REQ
    describe = ('n over a grid of 1..200, skew over a dense grid incl. 1, <1, 1e6 and random values; implementation '
                'doubles converted exactly to rationals and compared to the exact model within 2^-40 relative; '
                'non-trivial = n >= 2 and s != 1')

    def cases(self, ctx):
        return grid(ctx, self.name)

    def observe(self, inp):
        return C.observe(impl_dist, inp)

    def term(self, inp, obs):
        if obs[0] != 'ok':
            return 'false'
        return '(c17_dist %s %s %s)' % (C.cnat(inp['n']), cq(inp['s']), C.clist([cq(v) for v in obs[1]]))

    def diag(self, inp, obs):
        return 'dist_fast %s %s' % (C.cnat(min(inp['n'], 12)), cq(inp['s']))

    def nontrivial(self, inp, obs):
        return inp['n'] >= 2 and inp['s'] != 1.0

    def stats(self, inp, obs):
        s = inp['s']
        return {('s<1' if s < 1 else 's=1' if s == 1 else 's>1'): 1, ('n=1' if inp['n'] == 1 else 'n>=2'): 1}


class Laws(Dist):
    name = 'M_laws'
    kind = 'monitor'
    describe = ('same grid; the laws of the property (positive, sum 1, equal steps, last = s*first, single agent = 1) '
                'evaluated in Coq on the implementation output within 2^-40; non-trivial = n >= 2 and s != 1')

    def term(self, inp, obs):
        if obs[0] != 'ok':
            return 'false'
        return '(c17_laws %s %s %s)' % (C.cnat(inp['n']), cq(inp['s']), C.clist([cq(v) for v in obs[1]]))

    def what(self, inp, obs):
        return 'create_linear_distribution(%d, %r) violates the linear-skew laws' % (inp['n'], inp['s'])

    def shrink(self, inp):
        if inp['n'] > 2:
            yield dict(n=inp['n'] // 2 + 1, s=inp['s'])
            yield dict(n=inp['n'] - 1, s=inp['s'])


class Weights(Relation):
    name = 'M_weights'
    kind = 'monitor'
    requires = REQ
    describe = ('create_pref_lists_original run with numpy.random.choice wrapped: the p= vector of every list draw must '
                'equal create_linear_distribution(n2, skew) exactly; non-trivial = n2 >= 2 and skew != 1')

    def cases(self, ctx):
        rng = ctx.rng(self.name)
        for k in range(60 if ctx.thorough else 15):
            n2 = rng.randint(1, 9)
            pmin = rng.randint(1, n2)
            yield dict(n1=rng.randint(1, 5), n2=n2, pmin=pmin, pmax=rng.randint(pmin, n2),
                       skew=rng.choice([1.0, 0.5, 3.0, 10.0, 2.5]), seed=k)

    def observe(self, inp):
        import random as pyrandom
        import numpy as np
        from matchingproblems.generator import generator_shared as gs

        def f():
            rec = []
            orig = np.random.choice

            def wrapped(a, size=None, replace=True, p=None):
                if replace is False:
                    rec.append(None if p is None else [ratio(v) for v in p])
                return orig(a, size, replace=replace, p=p)
            np.random.seed(inp['seed'])
            pyrandom.seed(inp['seed'])
            np.random.choice = wrapped
            try:
                gs.create_pref_lists_original(inp['n1'], inp['n2'], inp['pmin'], inp['pmax'], 0.2, inp['skew'])
            finally:
                np.random.choice = orig
            want = [ratio(v) for v in gs.create_linear_distribution(inp['n2'], inp['skew'])]
            return [rec, want]
        return C.observe(f)

    def term(self, inp, obs):
        if obs[0] != 'ok':
            return 'false'
        rec, want = obs[1]
        if len(rec) != inp['n1'] or any(r is None for r in rec):
            return 'false'
        w = C.clist([cq(v) for v in want])
        return '(forallb (fun p => c17_same p %s) %s)' % (w, C.clist([C.clist([cq(v) for v in r]) for r in rec]))

    def nontrivial(self, inp, obs):
        return inp['n2'] >= 2 and inp['skew'] != 1.0

    def what(self, inp, obs):
        return 'weights passed to the RNG differ from the linear distribution for %r' % (inp,)


class RunWeights(Relation):
    name = 'M_run_weights'
    kind = 'monitor'
    requires = REQ
    shard = 20
    describe = ('whole generator runs Generator(argv) of all four types with -skew given on the command line (values with '
                'many decimals, below 0.01, large, and the default), numpy.random.choice recorded: the p= vector of every '
                'preference-list draw must be the linear distribution for the number of rankable agents and the REQUESTED '
                'skew (exact model, 2^-40 of the largest weight); non-trivial = at least two rankable agents and skew != 1')

    SKEWS = [None, '1.125', '2.6180339887', '0.004', '99.999', '3.3333333333333335', '1.005', '7', '0.5', '1e-3', '250.75']

    def cases(self, ctx):
        from .. import gencommon as G
        rng = ctx.rng(self.name)
        for k in range(120 if ctx.thorough else 30):
            ns = G.legal(rng, G.MPS[k % 4])
            sk = self.SKEWS[k % len(self.SKEWS)]
            ns['skew'] = None if sk is None else float(sk)
            ns['numinst'] = 1 + k % 3          # later instances of one run must use the requested skew as well
            if k % 3 == 1 and ns['mp'] != 'sm' and ns['n1'] >= ns['n2']:
                # coinciding parameter values: every quota sum equal to the number of first-side agents, incomplete lists
                ns['uq'] = ns['lq'] = ns['n1']
                if ns['n2'] > 1:
                    ns['pmax'] = min(ns['pmax'], ns['n2'] - 1)
                    ns['pmin'] = min(ns['pmin'], ns['pmax'])
            yield dict(ns=ns, seed=rng.randrange(10**6))

    def observe(self, inp):
        from .. import gencommon as G
        o = G.run_generator(inp['ns'], seed=inp['seed'])
        ps = [list(e[3]) if e[3] is not None else None for e in o['log'] if e[0] == 'list']
        return dict(code=o['code'], exc=o['exc'], ps=[None if q is None else [ratio(v) for v in q] for q in ps],
                    argv=o.get('argv'))

    def term(self, inp, obs):
        ns = inp['ns']
        if obs['code'] != 0 or len(obs['ps']) != ns['n1'] * ns['numinst'] or any(q is None for q in obs['ps']):
            return 'false'
        n2 = ns['n1'] if ns['mp'] == 'sm' else ns['n2']
        sk = 1.0 if ns['skew'] is None else ns['skew']
        return '(forallb (fun p => c17_dist %s %s p) %s)' % (
            C.cnat(n2), cq(sk), C.clist([C.clist([cq(v) for v in q]) for q in obs['ps']]))

    def key(self, inp):
        return repr((sorted(inp['ns'].items(), key=lambda kv: kv[0]), inp['seed']))

    def signature(self, inp, obs):
        return {'relation': self.name, 'ns': inp['ns'], 'seed': inp['seed']}

    def nontrivial(self, inp, obs):
        ns = inp['ns']
        n2 = ns['n1'] if ns['mp'] == 'sm' else ns['n2']
        return n2 >= 2 and ns['skew'] not in (None, 1.0)

    def stats(self, inp, obs):
        ns = inp['ns']
        return {'mp=' + ns['mp']: 1, 'skew=%s' % ns['skew']: 1, 'code=%s' % obs['code']: 1}

    def what(self, inp, obs):
        return 'generator run %r: the weights handed to numpy differ from the linear distribution for the requested skew' % (obs.get('argv'),)


RELATIONS = [Dist(), Laws(), Weights(), RunWeights()]
