"""C14 — a run that was cut short or proved infeasible never presents a matching."""
from .. import common as C
from .. import impl, instgen, lpcommon, session
from ..engine import Relation

REQ = lpcommon.REQ + ['Run.Session', 'Corr.SessionCorr', 'Corr.C14Corr']
KINDS = ['Infeasible', 'Unbounded', 'Undefined', 'Not Solved', 'incumbent']
CST = {'Optimal': 'Optimal', 'Infeasible': 'Infeasible', 'Unbounded': 'Unbounded', 'Undefined': 'Undefined',
       'Not Solved': 'NotSolved'}


def plans_for(K, limit, rng, thorough):
    kinds = [k for k in KINDS if k != 'incumbent' or limit is not None]
    singles = []
    for k in range(K):
        for kind in kinds:
            singles.append({str(k): dict(kind=kind, k=k)})                    # transient
            singles.append({'from': dict(kind=kind, k=k)})                    # persistent
    pairs = []
    for a in range(K):
        for b in range(a + 1, K):
            for ka in kinds:
                for kb in kinds:
                    pairs.append({str(a): dict(kind=ka, k=a), str(b): dict(kind=kb, k=b)})
    if thorough:
        return singles + (rng.sample(pairs, min(len(pairs), 60)))
    return rng.sample(singles, min(len(singles), 10)) + rng.sample(pairs, min(len(pairs), 4))


def gen_cases(ctx, label, n_inst):
    rng = ctx.rng(label)
    for i in range(n_inst):
        ast = instgen.gen_ast(rng, maxS=4, maxP=3, maxL=3, lower=False, zero_caps=False)
        twopl = rng.random() < 0.6
        stab = twopl and rng.random() < 0.2
        pc = rng.random() < 0.2
        names = rng.choice([['gen'], ['gre'], ['maxsize', 'gen'], ['gre', 'mincost'], ['maxsize'], ['lmb', 'lsb'],
                            ['minsize', 'mincostlsb'], [], ['maxsize', 'gre', 'minsqcost']])
        if i % 6 == 4:
            # no lecturer has a target (every target 0, as generated without -lt) and a load-balancing criterion is run:
            # the load deviation then coincides with the load, a tempting special case
            ast = instgen.gen_ast(rng, na=3, maxS=4, maxP=3, maxL=3, lower=False, zero_caps=False)
            for le in ast['lecturers']:
                le[0], le[1] = 0, 0
            names = rng.choice([['lsb'], ['maxsize', 'lsb', 'mincost'], ['lsb', 'maxsize'], ['mincostlsb', 'maxsize'],
                                ['lmb', 'mincost'], ['gre', 'lsb']])
        if i == 2:
            # scale: several hundred residents, everybody ranks their own hospital and sometimes the next one, capacities
            # that could hold everybody (size-dependent shortcuts in a criterion are reached only by such instances)
            S = rng.randint(401, 430)
            first = [[[k + 1]] + ([[k % S + 2 if k + 2 <= S else 1]] if rng.random() < 0.3 else []) for k in range(S)]
            ast = dict(na=2, n1=S, n2=S, first=first, projects=[[0, 1, j + 1] for j in range(S)],
                       lecturers=[[0, 1, 1, []] for j in range(S)])
            twopl = stab = pc = False
            names = rng.choice([['maxsize'], ['mincost', 'maxsize'], ['maxsize', 'mincost']])
        crits = lpcommon.gen_crits(rng, ast, names=names)
        argv = lpcommon.argv_of(ast['na'], twopl, pc, stab, crits, rng)
        limit = rng.choice([None, 5, 5, 2])
        text = instgen.render(ast)
        base = dict(text=text, na=ast['na'], twopl=twopl, pc=pc, stab=stab, bf=False,
                    crits=[[c, x] for c, x in crits], argv=argv, ast=ast, limit=limit,
                    threads=(2 if i % 3 == 1 else None))      # solve(threads=...) is a documented pass-through
        # learn the number of solves from a fault-free run
        o = session.session_run(text, argv, [['solve', limit, 0]])
        K = len(o['ops'][0]['snaps']) if o['ops'] else 0
        if K == 0:
            continue
        yield dict(base, plan={}, K=K)
        for plan in plans_for(K, limit, rng, ctx.thorough):
            yield dict(base, plan=plan, K=K)


def run_case(inp):
    hist = [['solve', inp['limit'], 0, inp.get('threads')], ['get_results'], ['get_results_long']]
    return session.session_run(inp['text'], inp['argv'], hist, faults={0: inp['plan']})


class Faults(Relation):
    name = 'R_faults'
    kind = 'corr'
    requires = REQ
    shard = 15
    describe = ('Solver.solve(timeLimit) ; get_results ; get_results_long with outcomes injected at pulp.LpProblem.solve: '
                'for runs with K solves (per-rank solves of generous/greedy included) every kind in {Infeasible, Unbounded, '
                'Undefined, Not Solved, time-limit stop with incumbent (PuLP says Optimal; only with a limit)} at sampled '
                '(quick) / every (thorough) position, once (transient) or from that solve on (persistent), and pairs of '
                'faults; the time limit handed to the back end at every solve must be the one given to solve() (a limit stop '
                'is scripted at the limit the back end really got); pairs of '
                'faults; a third of the runs with solve(threads=2); scripted clock; problems, statuses, texts compared with the '
                'model; non-trivial = K >= 2 and a '
                'fault injected')

    def cases(self, ctx):
        return gen_cases(ctx, 'faults', 60 if ctx.thorough else 14)

    def observe(self, inp):
        return run_case(inp)

    def term(self, inp, obs):
        if obs['exc_init'] or not session.limits_passed_through(obs):
            return 'false'
        return '(c_session %s %s %s %s)' % (lpcommon.head(inp), C.cbool(False), C.cz(obs['t0']),
                                           C.clist([session.crec(r) for r in obs['ops']]))

    def key(self, inp):
        return repr((inp['text'], inp['argv'], inp['limit'], inp['plan']))

    def signature(self, inp, obs):
        return {'relation': self.name, 'text': inp['text'], 'argv': inp['argv'], 'limit': inp['limit'], 'plan': inp['plan']}

    def nontrivial(self, inp, obs):
        return inp['K'] >= 2 and bool(inp['plan'])

    def stats(self, inp, obs):
        d = {'K=%d' % inp['K']: 1, 'limit' if inp['limit'] is not None else 'no-limit': 1,
             'faults=%d' % len(inp['plan']): 1, 'threads=2': 1 if inp.get('threads') else 0}
        for k, f in inp['plan'].items():
            d['kind:' + f['kind'] + (':persistent' if k == 'from' else '')] = 1
        return d


class FaultsSpec(Faults):
    name = 'M_faults'
    kind = 'monitor'
    describe = ('same fault plans; whenever some performed solve ended non-optimal or was a time-limit stop with an '
                'incumbent, both result texts must contain no matching / statistics / listing line and must show the first '
                'non-optimal status, or Timeout when a limit was set and the run exceeded it or was left unsolved '
                '(Corr/C14Corr.v c14_verdict, evaluated in Coq)')

    def term(self, inp, obs):
        if obs['exc_init'] or not obs['ops']:
            return 'false'
        sop = obs['ops'][0]
        if sop['seen'][0] != 'ok':
            return 'false'
        sts = []
        for e in sop['snaps']:
            st = e['answer']['status'] if e['answer'] else 'Not Solved'
            inc = bool(e['fault'] and e['fault']['kind'] == 'incumbent')
            sts.append('(%s, %s)' % (CST[st], C.cbool(inc)))
        has_limit = inp['limit'] is not None
        exceeded = False
        if has_limit and sop['clock']:
            exceeded = (sop['clock'][-1] - obs['t0']) > session.limit_us(inp['limit'])
        terms = []
        for r in obs['ops'][1:]:
            if r['seen'][0] != 'ok':
                return 'false'
            terms.append('(c14_verdict %s %s %s %s)' % (C.cbool(has_limit), C.cbool(exceeded), C.clist(sts),
                                                       C.cstr(r['seen'][1])))
        if len(terms) < 2:
            return 'false'
        return '(%s)' % ' && '.join(terms)

    def what(self, inp, obs):
        return 'fault plan %r (limit %r) on argv %r: results present a matching or the wrong status' % (
            inp['plan'], inp['limit'], inp['argv'])

    def shrink(self, inp):
        for k in list(inp['plan'].keys()):
            p = dict(inp['plan'])
            del p[k]
            if p:
                yield dict(inp, plan=p)


RELATIONS = [Faults(), FaultsSpec()]
