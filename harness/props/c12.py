"""C12 — second-side lists rank exactly the agents that find them acceptable."""
import re

from .. import common as C
from .. import gencommon as G
from ..engine import Relation
from .c08 import gen_runs, observe_run

REQ = ['Gen.Files', 'Gen.Args', 'Corr.GenCorr']


def rand_lists(rng, n1, n2):
    return [rng.sample(range(1, n2 + 1), rng.randint(1, n2)) for _ in range(n1)]


class StLec(Relation):
    name = 'R_stlec'
    kind = 'corr'
    requires = REQ
    describe = ('create_student_lec_lists on random student lists and even project-lecturer assignments (students '
                'ranking several projects of one lecturer, lecturers nobody ranks, more lecturers than projects); '
                'non-trivial = some student ranks two projects of one lecturer')

    def cases(self, ctx):
        rng = ctx.rng(self.name)
        from matchingproblems.generator.generator_spa import Generator_spa
        for i in range(600 if ctx.thorough else 150):
            n2, n3 = rng.randint(1, 8), rng.randint(1, 9)
            plec = [int(x) for x in Generator_spa().create_project_lecturers(n2, n3)]
            yield dict(prefs=rand_lists(rng, rng.randint(1, 6), n2), plec=plec, n3=n3)

    def observe(self, inp):
        from matchingproblems.generator.generator_spa import Generator_spa
        return C.observe(lambda: [[int(x) for x in l] for l in
                                  Generator_spa().create_student_lec_lists(inp['prefs'], inp['plec'], inp['n3'])])

    def term(self, inp, obs):
        ll = lambda v: C.clist([C.czlist(l) for l in v])
        return '(r_stlec %s %s %s %s)' % (ll(inp['prefs']), C.czlist(inp['plec']), C.cz(inp['n3']), C.cresult(obs, ll))

    def nontrivial(self, inp, obs):
        return any(len(set(inp['plec'][p - 1] for p in l)) < len(l) for l in inp['prefs'])


class Invert(Relation):
    name = 'R_invert'
    kind = 'corr'
    requires = REQ
    describe = ('create_pref_lists_from_other_lists on random first-side lists: each returned (shuffled) list is a '
                'permutation of the model\'s inversion; non-trivial = some second-side list has >= 2 entries')

    def cases(self, ctx):
        rng = ctx.rng(self.name)
        for i in range(600 if ctx.thorough else 150):
            n2 = rng.randint(1, 8)
            yield dict(first=rand_lists(rng, rng.randint(1, 6), n2), n2=n2, seed=i)

    def observe(self, inp):
        import random as pyrandom
        import numpy as np
        from matchingproblems.generator import generator_shared as gs

        def f():
            pyrandom.seed(inp['seed'])
            np.random.seed(inp['seed'])
            lists, ties = gs.create_pref_lists_from_other_lists(inp['first'], inp['n2'], 0.3)
            return [[int(x) for x in l] for l in lists]
        return C.observe(f)

    def term(self, inp, obs):
        if obs[0] != 'ok':
            return 'false'
        ll = lambda v: C.clist([C.czlist(l) for l in v])
        return '(r_invert %s %s %s)' % (ll(inp['first']), C.cz(inp['n2']), ll(obs[1]))

    def nontrivial(self, inp, obs):
        return obs[0] == 'ok' and any(len(l) >= 2 for l in obs[1])


class SecondSide(Relation):
    name = 'M_second_side'
    kind = 'monitor'
    requires = REQ
    shard = 40
    describe = ('two-sided sm / hr / spa generator runs; the second-side lines of each written file are compared in Coq '
                'with the first-side lines of the same file as read by the model importer: a hospital lists a resident '
                'exactly once iff the resident lists it; a lecturer lists a student exactly once iff the student lists one '
                'of its projects; nobody else appears; and the solver loads the file with -twopl without error')

    def cases(self, ctx):
        for c in gen_runs(ctx, 'second', 500 if ctx.thorough else 120):
            if c['ns']['twopl']:
                yield c

    def observe(self, inp):
        return observe_run(inp)

    def term(self, inp, obs):
        if obs['code'] != 0:
            return 'false'
        a = G.cgargs(inp['ns'])
        terms = []
        for n, t in obs['files']:
            sec = G.second_side_lists(inp['ns'], t)
            if sec is None:
                return 'false'
            terms.append('m_second_side %s %s %s' % (a, C.cstr(t), C.clist([C.czlist(l) for l in sec])))
            terms.append('m_genfile %s %s' % (a, C.cstr(t)))
        return '(' + ' && '.join(terms) + ')'

    def key(self, inp):
        return repr((sorted(inp['ns'].items()), inp['seed']))

    def signature(self, inp, obs):
        return {'relation': self.name, 'ns': inp['ns'], 'seed': inp['seed']}

    def nontrivial(self, inp, obs):
        return inp['ns']['n1'] >= 2

    def stats(self, inp, obs):
        return {'mp=' + inp['ns']['mp']: 1}

    def what(self, inp, obs):
        return 'second-side lists of generator run %r seed %d' % (obs.get('argv'), inp['seed'])


RELATIONS = [StLec(), Invert(), SecondSide()]
