"""C01 — the reported matching is always a valid matching of the input instance."""
from ..lpcommon import RLp, MValid

RELATIONS = [RLp(), MValid()]
