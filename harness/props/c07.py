"""C07 — brute-force mode reports the exact optimum of every statistic it prints."""
from .. import common as C
from .. import impl, instgen
from ..engine import Relation

REQ = ['Text.Import', 'BF.BruteForce', 'Spec.BFSpec', 'Corr.C07Corr']


def gen(ctx, label, n):
    rng = ctx.rng(label)
    for k in range(n):
        if k % 6 == 5:
            # several "perfect" matchings (everybody a first choice, every hospital / lecturer exactly on target) that
            # differ only in the second side's ranks: ties at the top of the first-side lists, unit capacities,
            # strict second-side lists in random orders, read two-sided
            n = rng.randint(2, 3)
            na = rng.choice([2, 3])
            first = []
            for s in range(n):
                top = rng.sample(range(1, n + 1), rng.randint(2, n))
                rest = [p for p in range(1, n + 1) if p not in top]
                rng.shuffle(rest)
                first.append([top] + [[p] for p in rest[:rng.randint(0, len(rest))]])
            projects = [[0, 1, j + 1] for j in range(n)]
            lecturers = []
            for j in range(1, n + 1):
                studs = [s + 1 for s in range(n) if any(j in g for g in first[s])]
                rng.shuffle(studs)
                lecturers.append([0, 1, 1, [[x] for x in studs]])
            ast = dict(na=na, n1=n, n2=n, n3=n, first=first, projects=projects, lecturers=lecturers)
            yield dict(text=instgen.render(ast), na=na, twopl=True, pc=rng.random() < 0.4, ast=ast)
            continue
        if k % 4 == 3:
            ast = instgen.gen_tradeoff(rng)      # size vs greediness / cost / generosity trade-offs
        else:
            ast = instgen.gen_ast(rng, maxS=4, maxP=3, maxL=3)
        yield dict(text=instgen.render(ast), na=ast['na'], twopl=rng.random() < 0.5, pc=rng.random() < 0.4, ast=ast)
    # all-or-nothing projects under -pc: one project runs only with (nearly) everybody on it, so maximum matchings with
    # very different profiles compete (everybody on the second choice against all but one on the first and one on the
    # last): more students than ranks, counts that reach the number of ranks
    for k in range(8):
        S = rng.choice([4, 4, 5])
        order = rng.sample([1, 2, 3], 3)
        a_, b_, c_ = order
        first = []
        for s_ in range(S):
            o = list(order)
            if rng.random() < 0.2:
                rng.shuffle(o)
            first.append([[p] for p in o])
        L = rng.choice([1, 1, 2])
        projects = [None, None, None]
        projects[a_ - 1] = [0, S - 1, rng.randint(1, L)]
        projects[b_ - 1] = [rng.choice([S, S, S - 1]), S, rng.randint(1, L)]
        projects[c_ - 1] = [0, 1, rng.randint(1, L)]
        lecturers = [[0, rng.randint(0, S), S + rng.randint(0, 1), []] for _ in range(L)]
        ast = dict(na=3, n1=S, n2=3, n3=L, first=first, projects=projects, lecturers=lecturers)
        yield dict(text=instgen.render(ast), na=3, twopl=False, pc=True, ast=ast)
    # shapes the accumulators' initial values must be neutral for
    for text, na in [('1 2\n1: 1 2\n1: 0: 1:\n2: 0: 1:\n', 2), ('3 1\n1: 1\n2: 1\n3: 1\n1: 0: 3:\n', 2),
                     ('1 1\n1: 1\n1: 1: 0:\n', 2), ('2 2\n1:\n2:\n1: 0: 1:\n2: 0: 1:\n', 2),
                     ('2 2 1\n1: (1 2)\n2: 2 1\n1: 0: 1: 1\n2: 1: 1: 1\n1: 0: 0: 1:\n', 3)]:
        for pc in (False, True):
            yield dict(text=text, na=na, twopl=False, pc=pc, ast=None)


def repo_examples(ctx):
    """the two-agent instances shipped with the repository (Evaluations/hr/instances: 6 residents, 4 hospitals, ties,
    lower quotas), as the shipped bruteforce / bruteforce_pc result files ran them"""
    import glob, os
    files = sorted(glob.glob(os.path.join(C.REPO, 'Evaluations', 'hr', 'instances', '*.txt')))
    for i, f in enumerate(files if ctx.thorough else files[:2]):
        for pc in (False, True):
            yield dict(text=open(f).read(), na=2, twopl=(i % 2 == 0), pc=pc, ast=None)


def run_bf(inp):
    argv = ['-na', str(inp['na']), '-bf'] + (['-twopl'] if inp['twopl'] else []) + (['-pc'] if inp['pc'] else [])
    return impl.solver_run(inp['text'], argv)[0]


class BF(Relation):
    name = 'R_bf'
    kind = 'corr'
    requires = REQ
    shard = 25
    describe = ('Solver(-bf [-pc] [-twopl]).solve(); get_results() on random instances with <= 4 students and <= 3 '
                'projects (lower quotas, zero capacities, empty lists, max rank above/below the number of students) plus '
                'hand-picked shapes; text or exception class compared; non-trivial = at least two valid matchings of '
                'different size (approximated: >= 2 students with non-empty lists)')

    def cases(self, ctx):
        for c in gen(ctx, self.name, 700 if ctx.thorough else 110):
            yield c
        for c in repo_examples(ctx):
            yield c

    def observe(self, inp):
        return C.observe(run_bf, inp)

    def term(self, inp, obs):
        return '(c07_bf %s %s %s %s %s)' % (C.cstr(inp['text']), C.cz(inp['na']), C.cbool(inp['twopl']),
                                           C.cbool(inp['pc']), C.cresult(obs, C.cstr))

    def diag(self, inp, obs):
        return ('match import_model %s %s %s with Ok M => (bf_results %s M, bf_spec_text %s M) | Crash e => (Crash e, ""%%string) end'
                % (C.cstr(inp['text']), C.cz(inp['na']), C.cbool(inp['twopl']), C.cbool(inp['pc']), C.cbool(inp['pc'])))

    def key(self, inp):
        return repr((inp['text'], inp['na'], inp['twopl'], inp['pc']))

    def signature(self, inp, obs):
        return {'relation': self.name, 'text': inp['text'], 'na': inp['na'], 'twopl': inp['twopl'], 'pc': inp['pc']}

    def nontrivial(self, inp, obs):
        a = inp.get('ast')
        return bool(a) and sum(1 for gs in a['first'] if gs) >= 2

    def stats(self, inp, obs):
        d = {'pc' if inp['pc'] else 'no-pc': 1, 'twopl' if inp['twopl'] else 'one-sided': 1}
        if obs[0] == 'ok':
            d['infeasible' if obs[1].endswith('Infeasible') else 'feasible'] = 1
        else:
            d['exc:' + obs[1]] = 1
        return d


class BFSpec(BF):
    name = 'M_bf'
    kind = 'monitor'
    describe = ('same generator; the printed text must equal the exact optima computed in Coq by enumerating all valid '
                'matchings from the definitions (Spec/BFSpec.v) on the instance read by the model importer')

    def term(self, inp, obs):
        return '(c07_spec %s %s %s %s %s)' % (C.cstr(inp['text']), C.cz(inp['na']), C.cbool(inp['twopl']),
                                             C.cbool(inp['pc']), C.cresult(obs, C.cstr))

    def what(self, inp, obs):
        return 'brute force prints %s on %r (pc=%s twopl=%s)' % (
            'a non-optimal statistic' if obs[0] == 'ok' else obs[1], inp['text'], inp['pc'], inp['twopl'])


# ---- cross-check of the two solving modes (Proofs/CrossCheck.v) ---------------------------------------------

VARIANTS = [
    (['-maxsize', '1'], 'size', 'optimal_size'),
    (['-maxsize', '1', '-mincost', '2'], 'cost0', 'optimal_maxsizemincost0'),
    (['-maxsize', '1', '-minsqcost', '2'], 'cost_sq0', 'optimal_maxsizeminsqcost0'),
    (['-maxsize', '1', '-gre', '2'], 'profile', 'optimal_greedymaxprofile'),
    (['-maxsize', '1', '-gen', '2'], 'profile', 'optimal_generousmaxprofile'),
    (['-maxsize', '1', '-gen', '2'], 'degree', 'optimal_maxsizemindegree'),
    (['-gre', '1'], 'profile', 'optimal_greedyprofile'),
    (['-lmb', '1'], 'max_lec_abs_diff', 'optimal_max_lec_abs_diff'),
    (['-lsb', '1'], 'sum_lec_abs_diff', 'optimal_sum_lec_abs_diff'),
]


def _fields(txt):
    """'key: value' lines of a results text -> {key: list of ints}; 'key0' = first component of a pair"""
    import re
    out = {}
    for line in txt.splitlines():
        m = re.match(r'^(\w+): (.*)$', line)
        if not m:
            continue
        nums = [int(x) for x in re.findall(r'-?\d+', m.group(2))]
        out[m.group(1)] = nums
        if nums:
            out[m.group(1) + '0'] = nums[:1]
    return out


def run_cross(inp):
    base = ['-na', str(inp['na'])] + (['-twopl'] if inp['twopl'] else []) + (['-pc'] if inp['pc'] else [])
    bf = impl.solver_run(inp['text'], base + ['-bf'])[0]
    lp = impl.solver_run(inp['text'], base + VARIANTS[inp['variant']][0])[0]
    return [bf, lp]


class CrossCheck(Relation):
    name = 'M_crosscheck'
    kind = 'monitor'
    requires = REQ + ['Corr.C10Corr']
    describe = ('the two solving modes on the same instance (Proofs/CrossCheck.v): what the integer-programming mode '
                'reaches for -maxsize / -maxsize -mincost / -maxsize -minsqcost / -maxsize -gre / -maxsize -gen (profile '
                'and degree) / -gre / -lmb / -lsb must be the optimum brute-force mode prints, and one mode says '
                'Infeasible exactly when the other does, on well-formed instances (guard evaluated in Coq); non-trivial = both '
                'feasible and >= 2 students with lists')

    def cases(self, ctx):
        k = 0
        for c in gen(ctx, self.name, 500 if ctx.thorough else 90):
            if c.get('ast') is None:
                continue
            c = dict(c, variant=k % len(VARIANTS))
            k += 1
            yield c

    def observe(self, inp):
        return C.observe(run_cross, inp)

    def term(self, inp, obs):
        if obs[0] != 'ok':
            return 'false'
        bf, lp = obs[1]
        bf_inf = bf.rstrip().endswith('Infeasible')
        lp_f = _fields(lp)
        lp_inf = 'matching' not in lp_f
        if bf_inf or lp_inf:
            return self.guard(inp, 'true' if (bf_inf and lp_inf and 'pulp_status: Infeasible' in lp) else 'false')
        _, lk, bk = VARIANTS[inp['variant']]
        a, b = lp_f.get(lk), _fields(bf).get(bk)
        if a is None or b is None:
            return 'false'
        cmp = '(list_eqb Z.eqb %s %s)' % (C.czlist(a), C.czlist(b))
        return self.guard(inp, cmp)

    @staticmethod
    def guard(inp, verdict):
        # the theorems are about well-formed instances (e.g. a lecturer target above its upper quota is importable
        # but outside every property's quantifier): Coq evaluates the guard
        return '(if c10_wf %s %s %s then %s else true)' % (C.cstr(inp['text']), C.cz(inp['na']), C.cbool(inp['twopl']), verdict)

    def key(self, inp):
        return repr((inp['text'], inp['na'], inp['twopl'], inp['pc'], inp['variant']))

    def signature(self, inp, obs):
        return {'relation': self.name, 'text': inp['text'], 'na': inp['na'], 'twopl': inp['twopl'], 'pc': inp['pc'],
                'variant': VARIANTS[inp['variant']][0]}

    def nontrivial(self, inp, obs):
        a = inp.get('ast')
        return bool(a) and sum(1 for gs in a['first'] if gs) >= 2 and obs[0] == 'ok' and 'matching' in _fields(obs[1][1])

    def stats(self, inp, obs):
        return {'variant=' + ' '.join(VARIANTS[inp['variant']][0]): 1, 'pc' if inp['pc'] else 'no-pc': 1}

    def what(self, inp, obs):
        return 'brute force and the integer-programming mode (%s) disagree on %r (pc=%s twopl=%s)' % (
            ' '.join(VARIANTS[inp['variant']][0]), inp['text'], inp['pc'], inp['twopl'])


RELATIONS = [BF(), BFSpec(), CrossCheck()]
