"""C07 — brute-force mode reports the exact optimum of every statistic it prints."""
from .. import common as C
from .. import impl, instgen
from ..engine import Relation

REQ = ['Text.Import', 'BF.BruteForce', 'Spec.BFSpec', 'Corr.C07Corr']


def gen(ctx, label, n):
    rng = ctx.rng(label)
    for k in range(n):
        if k % 4 == 3:
            ast = instgen.gen_tradeoff(rng)      # size vs greediness / cost / generosity trade-offs
        else:
            ast = instgen.gen_ast(rng, maxS=4, maxP=3, maxL=3)
        yield dict(text=instgen.render(ast), na=ast['na'], twopl=rng.random() < 0.5, pc=rng.random() < 0.4, ast=ast)
    # shapes the accumulators' initial values must be neutral for
    for text, na in [('1 2\n1: 1 2\n1: 0: 1:\n2: 0: 1:\n', 2), ('3 1\n1: 1\n2: 1\n3: 1\n1: 0: 3:\n', 2),
                     ('1 1\n1: 1\n1: 1: 0:\n', 2), ('2 2\n1:\n2:\n1: 0: 1:\n2: 0: 1:\n', 2),
                     ('2 2 1\n1: (1 2)\n2: 2 1\n1: 0: 1: 1\n2: 1: 1: 1\n1: 0: 0: 1:\n', 3)]:
        for pc in (False, True):
            yield dict(text=text, na=na, twopl=False, pc=pc, ast=None)


def repo_examples(ctx):
    """the two-agent instances shipped with the repository (Evaluations/hr/instances: 6 residents, 4 hospitals, ties,
    lower quotas), as the shipped bruteforce / bruteforce_pc result files ran them"""
    import glob, os
    files = sorted(glob.glob(os.path.join(C.REPO, 'Evaluations', 'hr', 'instances', '*.txt')))
    for i, f in enumerate(files if ctx.thorough else files[:2]):
        for pc in (False, True):
            yield dict(text=open(f).read(), na=2, twopl=(i % 2 == 0), pc=pc, ast=None)


def run_bf(inp):
    argv = ['-na', str(inp['na']), '-bf'] + (['-twopl'] if inp['twopl'] else []) + (['-pc'] if inp['pc'] else [])
    return impl.solver_run(inp['text'], argv)[0]


class BF(Relation):
    name = 'R_bf'
    kind = 'corr'
    requires = REQ
    shard = 25
    describe = ('Solver(-bf [-pc] [-twopl]).solve(); get_results() on random instances with <= 4 students and <= 3 '
                'projects (lower quotas, zero capacities, empty lists, max rank above/below the number of students) plus '
                'hand-picked shapes; text or exception class compared; non-trivial = at least two valid matchings of '
                'different size (approximated: >= 2 students with non-empty lists)')

    def cases(self, ctx):
        for c in gen(ctx, self.name, 700 if ctx.thorough else 110):
            yield c
        for c in repo_examples(ctx):
            yield c

    def observe(self, inp):
        return C.observe(run_bf, inp)

    def term(self, inp, obs):
        return '(c07_bf %s %s %s %s %s)' % (C.cstr(inp['text']), C.cz(inp['na']), C.cbool(inp['twopl']),
                                           C.cbool(inp['pc']), C.cresult(obs, C.cstr))

    def diag(self, inp, obs):
        return ('match import_model %s %s %s with Ok M => (bf_results %s M, bf_spec_text %s M) | Crash e => (Crash e, ""%%string) end'
                % (C.cstr(inp['text']), C.cz(inp['na']), C.cbool(inp['twopl']), C.cbool(inp['pc']), C.cbool(inp['pc'])))

    def key(self, inp):
        return repr((inp['text'], inp['na'], inp['twopl'], inp['pc']))

    def signature(self, inp, obs):
        return {'relation': self.name, 'text': inp['text'], 'na': inp['na'], 'twopl': inp['twopl'], 'pc': inp['pc']}

    def nontrivial(self, inp, obs):
        a = inp.get('ast')
        return bool(a) and sum(1 for gs in a['first'] if gs) >= 2

    def stats(self, inp, obs):
        d = {'pc' if inp['pc'] else 'no-pc': 1, 'twopl' if inp['twopl'] else 'one-sided': 1}
        if obs[0] == 'ok':
            d['infeasible' if obs[1].endswith('Infeasible') else 'feasible'] = 1
        else:
            d['exc:' + obs[1]] = 1
        return d


class BFSpec(BF):
    name = 'M_bf'
    kind = 'monitor'
    describe = ('same generator; the printed text must equal the exact optima computed in Coq by enumerating all valid '
                'matchings from the definitions (Spec/BFSpec.v) on the instance read by the model importer')

    def term(self, inp, obs):
        return '(c07_spec %s %s %s %s %s)' % (C.cstr(inp['text']), C.cz(inp['na']), C.cbool(inp['twopl']),
                                             C.cbool(inp['pc']), C.cresult(obs, C.cstr))

    def what(self, inp, obs):
        return 'brute force prints %s on %r (pc=%s twopl=%s)' % (
            'a non-optimal statistic' if obs[0] == 'ok' else obs[1], inp['text'], inp['pc'], inp['twopl'])


RELATIONS = [BF(), BFSpec()]
