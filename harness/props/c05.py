"""C05 — with stability requested the solver searches exactly the stable matchings."""
from ..lpcommon import RLp, MStable, MStatus, MLex


def size_crit(rng):
    return rng.choice([['maxsize'], ['minsize'], [], ['maxsize', 'mincost'], ['minsize', 'gen']])


class RLpS(RLp):
    gen_kwargs = dict(stab_bias=1.0, force_twopl=True)


class MStatusS(MStatus):
    gen_kwargs = dict(stab_bias=1.0, force_twopl=True)
    n_quick = 120


class MLexS(MLex):
    gen_kwargs = dict(stab_bias=1.0, force_twopl=True, crit_names=size_crit)
    n_quick = 120
    describe = (MLex.describe + '; all runs with -stab, criteria maximum / minimum size (and followers): the optimum is '
                'taken over all stable valid matchings')

    def nontrivial(self, inp, obs):
        return RLp.nontrivial(self, inp, obs) and obs.get('status') == 'Optimal'


RELATIONS = [RLpS(), MStable(), MStatusS(), MLexS()]
