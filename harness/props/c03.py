"""C03 — each optimisation criterion optimises the quantity it is documented to optimise."""
from ..lpcommon import RLp, MLex, ALL


class RLp1(RLp):
    gen_kwargs = dict(n_crits=1)


class MLex1(MLex):
    gen_kwargs = dict(n_crits=1)
    n_quick = 220
    describe = MLex.describe + '; exactly one criterion per run, each of the nine with random admissible arguments'


RELATIONS = [RLp1(), MLex1()]
