"""C06 — the stability checker answers True exactly for matchings without a blocking pair."""
import itertools

from .. import common as C
from .. import impl, instgen
from ..engine import Relation
from .. import lpcommon

REQ = ['Text.Import', 'Spec.Stability', 'Checker.CheckStability', 'Corr.C06Corr']


def vectors(ast):
    opts = [[0] + [p for g in gs for p in g] for gs in ast['first']]
    return itertools.product(*opts)


def respects_upper(ast, m):
    pl = {}
    ll = {}
    for p in m:
        if p:
            pl[p] = pl.get(p, 0) + 1
            k = ast['projects'][p - 1][2]
            ll[k] = ll.get(k, 0) + 1
    return all(n <= ast['projects'][p - 1][1] for p, n in pl.items()) and \
        all(n <= ast['lecturers'][k - 1][2] for k, n in ll.items())


def gen_cases(ctx, label, n_inst, per_inst, only_domain):
    rng = ctx.rng(label)
    for it in range(n_inst):
        if it % 5 == 4:
            # one or two lecturers for four projects, long first-side lists: a student ranks three or four projects of
            # the same lecturer
            ast = instgen.gen_ast(rng, na=3, S=rng.randint(2, 4), P=4, L=rng.randint(1, 2), empty_lists=False)
            for i, gs in enumerate(ast['first']):
                have = [p for g in gs for p in g]
                for p in rng.sample(range(1, 5), 4):
                    if p not in have and len(have) < 3:
                        gs.append([p])
                        have.append(p)
            # second-side lists must list the new applicants too
            for k, le in enumerate(ast['lecturers'], 1):
                listed = [x for g in le[3] for x in g]
                for s_, gs in enumerate(ast['first'], 1):
                    if s_ not in listed and any(ast['projects'][p - 1][2] == k for g in gs for p in g):
                        le[3].insert(rng.randint(0, len(le[3])), [s_])
        else:
            ast = instgen.gen_ast(rng, maxS=4, maxP=3, maxL=3)
        text = instgen.render(ast)
        vs = [list(v) for v in vectors(ast)]
        dom = [v for v in vs if respects_upper(ast, v)]
        pool = dom if only_domain else (dom + [v for v in vs if not respects_upper(ast, v)][:max(1, len(dom) // 4)])
        if per_inst and len(pool) > per_inst:
            pool = rng.sample(pool, per_inst)
        # one instance in three is asked about AFTER a solve of the same model object (the answer may depend on the
        # instance and the assignment only, not on what an earlier solve left behind: closures, variable values)
        pre = rng.choice(PRESOLVES) if it % 3 == 1 else None
        for v in pool:
            d = dict(text=text, na=ast['na'], m=v, ast=ast)
            if pre:
                d['presolve'] = pre
            yield d


def greedy_vectors(ast, rng, k):
    """k random assignments that respect the upper quotas (students in random order take a random listed project
    that still has room, or stay unassigned)"""
    out = []
    for _ in range(k):
        pl, ll = {}, {}
        m = [0] * ast['n1']
        order = list(range(ast['n1']))
        rng.shuffle(order)
        for i in order:
            opts = [p for g in ast['first'][i] for p in g]
            rng.shuffle(opts)
            if rng.random() < 0.15:
                continue
            for p in opts:
                kk = ast['projects'][p - 1][2]
                if pl.get(p, 0) < ast['projects'][p - 1][1] and ll.get(kk, 0) < ast['lecturers'][kk - 1][2]:
                    m[i] = p
                    pl[p] = pl.get(p, 0) + 1
                    ll[kk] = ll.get(kk, 0) + 1
                    break
        out.append(m)
    return out


def gen_large(ctx, label):
    """sparse instances with more than 256 / 1000 agents on one side (ids just above the base in the lists)"""
    rng = ctx.rng(label + '/large')
    bases = [256] + ([1000, 128, 512, 2048] if ctx.thorough else [])
    for base in bases:
        for side in (1, 2):
            for na in (2, 3):
                ast = instgen.gen_ast_large(rng, base, na=na, side=side)
                text = instgen.render(ast)
                for v in greedy_vectors(ast, rng, 12 if ctx.thorough else 4):
                    yield dict(text=text, na=ast['na'], m=v, ast=ast, large=True)
                # a matching that IS stable (common master list on the second side, serial dictatorship), and
                # neighbours of it (one student dropped / moved to the next entry)
                for rep in range(6 if ctx.thorough else (4 if side == 2 else 2)):
                    ast = instgen.gen_ast_large(rng, base, na=na, side=side, master_list=True)
                    text = instgen.render(ast)
                    v = instgen.serial_dictatorship(ast)
                    yield dict(text=text, na=ast['na'], m=v, ast=ast, large=True)
                    nz = [i for i, p in enumerate(v) if p]
                    if nz:
                        i = rng.choice(nz)
                        yield dict(text=text, na=ast['na'], m=v[:i] + [0] + v[i + 1:], ast=ast, large=True)


PRESOLVES = [['-pc', '-mincost', '1'], ['-pc', '-maxsize', '1'], ['-pc', '-stab', '-maxsize', '1'], ['-maxsize', '1'],
             ['-pc', '-maxsize', '1', '-mincost', '2'], ['-stab', '-mincost', '1']]


def run_checker(inp):
    from matchingproblems.solver import fileIO
    with impl.tmpfile(inp['text']) as path:
        if inp.get('presolve'):
            from matchingproblems.solver.solver import Solver
            s = Solver(['-f', path, '-na', str(inp['na']), '-twopl'] + list(inp['presolve']))
            s.solve(msg=False)
            model = s.model
        else:
            model = fileIO.import_model(path, impl.inst_opts(inp['na'], True))
    pa = []
    for i, p in enumerate(inp['m']):
        if p == 0:
            pa.append(None)
        else:
            pa.append([q for q in model.pairs[i] if q.projectID == p][0])
    r = model.check_stability(pa)
    if not isinstance(r, bool):
        raise TypeError('check_stability returned %r' % (r,))
    return r


class Checker(Relation):
    name = 'R_checker'
    kind = 'corr'
    requires = REQ
    shard = 120
    describe = ('random two-sided 2- and 3-agent instances (<= 4 students, <= 3 projects, ties on both sides, zero '
                'capacities, shared lecturers, lecturers with no assignee); assignments enumerated from the product of '
                '{unassigned} + own list, those respecting upper quotas plus a quarter that do not; value or exception '
                'class compared; non-trivial = at least one student assigned and >= 2 students')
    only_domain = False

    def cases(self, ctx):
        for c in (gen_cases(ctx, self.name, 400, 0, self.only_domain) if ctx.thorough
                  else gen_cases(ctx, self.name, 70, 30, self.only_domain)):
            yield c
        for c in gen_large(ctx, self.name):
            yield c

    def observe(self, inp):
        return C.observe(run_checker, inp)

    def term(self, inp, obs):
        return '(c06_checker %s %s %s %s)' % (C.cstr(inp['text']), C.cz(inp['na']), C.czlist(inp['m']),
                                             C.cresult(obs, C.cbool))

    def diag(self, inp, obs):
        return ('match import_model %s %s true with Ok M => (check_stability M (assignment_of M %s), stable_b M %s) '
                '| Crash e => (Crash e, false) end' % (C.cstr(inp['text']), C.cz(inp['na']), C.czlist(inp['m']),
                                                       C.czlist(inp['m'])))

    def key(self, inp):
        return '%s|%d|%r|%r' % (inp['text'], inp['na'], inp['m'], inp.get('presolve'))

    def signature(self, inp, obs):
        return {'relation': self.name, 'text': inp['text'], 'na': inp['na'], 'm': inp['m'],
                'presolve': inp.get('presolve')}

    def nontrivial(self, inp, obs):
        return inp['ast']['n1'] >= 2 and any(inp['m'])

    def stats(self, inp, obs):
        d = {'result=' + (str(obs[1]) if obs[0] == 'ok' else 'exc:' + obs[1]): 1}
        d.update(instgen.ast_stats(inp['ast']))
        return d


class CheckerSpec(Checker):
    name = 'M_checker'
    kind = 'monitor'
    only_domain = True
    describe = ('same generator restricted to assignments that respect upper quotas; the returned value must be a '
                'boolean equal to the Coq-evaluated "no blocking pair" of the SPA-STL definition on the instance read by '
                'the model importer; non-trivial as above')

    def term(self, inp, obs):
        return '(c06_spec %s %s %s %s)' % (C.cstr(inp['text']), C.cz(inp['na']), C.czlist(inp['m']),
                                          C.cresult(obs, C.cbool))

    def what(self, inp, obs):
        return 'check_stability gives %s on matching %r of instance %r' % (
            obs[1] if obs[0] == 'ok' else obs[1], inp['m'], inp['text'])

    def shrink(self, inp):
        # unassign one student at a time
        for i, p in enumerate(inp['m']):
            if p:
                m2 = list(inp['m'])
                m2[i] = 0
                yield dict(inp, m=m2)


class StabLine(lpcommon.LPRelation):
    name = 'M_stab_line'
    kind = 'monitor'
    requires = REQ + lpcommon.REQ
    gen_kwargs = dict(stab_bias=1.0, force_twopl=True)
    n_quick = 80
    n_thorough = 500
    large_cases = 4
    describe = ('real Solver runs with -stab (two-sided 2- and 3-agent instances, zero capacities, -pc, 0..4 criteria): '
                'the short and the long results of every Optimal run must carry the line "stability_correct: True", and '
                'the printed matching must be stable by stable_b evaluated in Coq')

    def observe(self, inp):
        return lpcommon.lp_run(inp['text'], inp['argv'], getters=('get_results', 'get_results_long'))

    def term(self, inp, obs):
        if obs['exc']:
            return '(negb (mon_in_scope %s))' % lpcommon.head(inp)
        if obs['status'] != 'Optimal':
            return 'true'
        for t in obs['texts']:
            if t[0] != 'ok' or 'stability_correct: True\n' not in t[1]:
                return '(negb (mon_in_scope %s))' % lpcommon.head(inp)
        m = self.matching(obs)
        if m is None:
            return 'false'
        return '(mon_stable %s %s)' % (lpcommon.head(inp), C.czlist(m))

    def what(self, inp, obs):
        return 'run %r on %r: stability_correct line missing / not True, or printed matching unstable' % (inp['argv'], inp['text'])


RELATIONS = [Checker(), CheckerSpec(), StabLine()]
