"""C10 — the solver reads an instance file as the instance the file denotes."""
from .. import common as C
from .. import impl, instgen
from ..engine import Relation

REQ = ['Inst.Instance', 'Text.Import', 'Text.Render', 'Corr.C10Corr']


def gen_files(ctx, label, n):
    rng = ctx.rng(label)
    bases = [1000, 1024] + ([2048, 1536] if n > 1000 else [])
    for k in range(n):
        if k % 60 == 30 and (k // 60) < 2 * len(bases):
            # more than 1000 / 1024 (thorough: 2048 / 1536) agents on one side, ids just above the base in the lists
            j = k // 60
            ast = instgen.gen_ast_large(rng, bases[j // 2], side=1 + j % 2)
        elif k % 7 == 6:
            if k % 14 == 6:
                ast = instgen.gen_ast(rng, maxS=12, maxP=14, maxL=4, S=rng.randint(8, 12), P=rng.randint(9, 14))   # multi-digit ids
            else:
                # multi-digit ids on both sides with colliding decimal concatenations ((11, 1) / (1, 11), ...)
                P = rng.randint(11, 14)
                ast = instgen.gen_ast(rng, maxS=13, maxP=14, S=rng.randint(12, 13), P=P, L=P,
                                      force_pairs=[(11, 1), (1, 11), (12, 1), (2, 11), (1, 12)])
        else:
            ast = instgen.gen_ast(rng, superfluous=True)
        twopl = rng.random() < 0.6
        messy = rng.random() < 0.5
        text = instgen.render(ast, rng if messy else None, trailer=rng.random() < 0.5,
                              final_newline=rng.random() < 0.8)
        if k % 9 == 4:
            text = text.replace('\n', '\r\n')          # DOS line ends (read through Python's universal newlines)
        # further valid options on the command line must not influence how the file is read
        extra = EXTRA_ARGV[k % len(EXTRA_ARGV)] if k % 2 == 1 else []
        yield dict(text=text, na=ast['na'], twopl=twopl, ast=ast, messy=messy, extra=extra)
        if k % 3 == 0:
            # the same unchanged file read again under the other -twopl setting
            yield dict(text=text, na=ast['na'], twopl=not twopl, ast=ast, messy=messy, extra=extra)


EXTRA_ARGV = [['-maxsize', '1'], ['-mincost', '1', '1', '2'], ['-pc'], ['-minsqcost', '3', '0', '1', '-maxsize', '1'],
              ['-bf'], ['-mincostlsb', '2', '1', '3', '-gen', '1', '2'], ['-lsb', '9', '-pc'], ['-gre', '4', '0']]


MALFORMED = [
    dict(text='', na=2, twopl=False),
    dict(text='2\n1: 1\n2: 1\n', na=2, twopl=False),
    dict(text='1 1\n1: (1)\n1: 0: 1:\n', na=2, twopl=False),
    dict(text='1 1\n1: 1\n1: 0: x:\n', na=2, twopl=False),
    dict(text='1 1\n1: 2\n1: 0: 1:\n', na=2, twopl=False),
    dict(text='2 1\n1: 1\n2: 1\n1: 0: 1: 1\n', na=2, twopl=True),
    dict(text='1 1 1\n1: 1\n1: 0: 1: 2\n1: 0: 1: 1:\n', na=3, twopl=False),
    dict(text='1 1 1\n1: 1\n1: 0: 1: 1\n1: 0: 1:\n', na=3, twopl=False),
    dict(text='1 2\n1: 1 2\n1: 0: 1: 1\n', na=2, twopl=True),
]


class Import(Relation):
    name = 'R_import'
    kind = 'corr'
    requires = REQ
    shard = 60
    describe = ('files rendered from random ASTs of the documented grammar (2- and 3-agent, ties anywhere, empty lists, '
                'zero capacities, lower quotas, shared lecturers), half with arbitrary inter-token blanks/tabs and leading '
                'zeros, with/without trailer and final newline, loaded with and without -twopl, half of them with further valid '
                'options (criteria with extra arguments, -pc, -bf) on the command line; plus a malformed stream; '
                'all Model attributes, pairs and the three derived lists compared; non-trivial = at least one tie group and '
                'at least two students')

    def cases(self, ctx):
        for c in gen_files(ctx, self.name, 1500 if ctx.thorough else 240):
            yield c
        for m in MALFORMED:
            yield dict(m, ast=None, messy=False)

    def observe(self, inp):
        return C.observe(impl.import_snapshot, inp['text'], inp['na'], inp['twopl'], inp.get('extra') or [])

    def term(self, inp, obs):
        def enc(s):
            return '(%s, (%s, %s, %s))' % (impl.cinstance(s), impl.cidlists(s['project_lists']),
                                           impl.cidlists(s['lecturer_lists']), impl.cidlists(s['rank_lists']))
        return '(c10_import %s %s %s %s)' % (C.cstr(inp['text']), C.cz(inp['na']), C.cbool(inp['twopl']),
                                            C.cresult(obs, enc))

    def diag(self, inp, obs):
        return 'import_model %s %s %s' % (C.cstr(inp['text']), C.cz(inp['na']), C.cbool(inp['twopl']))

    def key(self, inp):
        return inp['text'] + '|%s|%s' % (inp['na'], inp['twopl'])

    def signature(self, inp, obs):
        return {'relation': self.name, 'text': inp['text'], 'na': inp['na'], 'twopl': inp['twopl']}

    def nontrivial(self, inp, obs):
        a = inp.get('ast')
        return bool(a) and a['n1'] >= 2 and any(len(g) > 1 for gs in a['first'] for g in gs)

    def stats(self, inp, obs):
        d = {'outcome=' + obs[0] + ('' if obs[0] == 'ok' else ':' + obs[1]): 1,
             'twopl' if inp['twopl'] else 'one-sided': 1, 'messy-whitespace': 1 if inp.get('messy') else 0}
        if inp.get('ast'):
            d.update(instgen.ast_stats(inp['ast']))
        return d


def cplist(groups):
    return C.clist([C.czlist(g) for g in groups])


def cast(ast):
    na = ast['na']
    second = C.clist(['(%s, %s, %s)' % (C.cz(lq), C.cz(uq), C.cz(lc if na == 3 else 0)) for lq, uq, lc in ast['projects']])
    if na == 3:
        second_lists = '[]'
        third = C.clist(['(%s, %s, %s, %s)' % (C.cz(lq), C.cz(tg), C.cz(uq), cplist(gs)) for lq, tg, uq, gs in ast['lecturers']])
    else:
        second_lists = C.clist([cplist(l[3]) for l in ast['lecturers']])
        third = '[]'
    return '(mkAst %s %s %s %s %s %s %s)' % (C.cz(ast['n1']), C.cz(ast['n2']), C.cz(ast['n3'] if na == 3 else 0),
                                              C.clist([cplist(gs) for gs in ast['first']]), second, second_lists, third)


class ImportSpec(Import):
    name = 'M_import'
    kind = 'monitor'
    describe = ('same generator (well-formed abstract files only); the implementation\'s reading of the rendered text '
                '(arbitrary blanks/tabs, leading zeros, with/without trailer and final newline) must be the instance the '
                'abstract file denotes by Text/Render.v denote (dense tie-group ranks, 2-agent embedding, ignored second '
                'side without -twopl) together with its per-project / per-lecturer / per-rank pair lists, compared in Coq; '
                'non-trivial as R_import')

    def cases(self, ctx):
        for c in gen_files(ctx, self.name, 1500 if ctx.thorough else 240):
            yield c

    def term(self, inp, obs):
        def enc(s):
            return '(%s, (%s, %s, %s))' % (impl.cinstance(s), impl.cidlists(s['project_lists']),
                                           impl.cidlists(s['lecturer_lists']), impl.cidlists(s['rank_lists']))
        return '(c10_spec %s %s %s %s)' % (C.cz(inp['na']), C.cbool(inp['twopl']), cast(inp['ast']), C.cresult(obs, enc))

    def diag(self, inp, obs):
        return '(wf_ast %s %s %s, denote %s %s %s)' % ((C.cz(inp['na']), C.cbool(inp['twopl']), cast(inp['ast'])) * 2)

    def what(self, inp, obs):
        return 'file %r (na=%d twopl=%s) is not read as the instance it denotes' % (inp['text'], inp['na'], inp['twopl'])


RELATIONS = [Import(), ImportSpec()]
