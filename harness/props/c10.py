"""C10 — the solver reads an instance file as the instance the file denotes."""
from .. import common as C
from .. import impl, instgen
from ..engine import Relation

REQ = ['Inst.Instance', 'Text.Import', 'Corr.C10Corr']


def gen_files(ctx, label, n):
    rng = ctx.rng(label)
    for k in range(n):
        ast = instgen.gen_ast(rng)
        twopl = rng.random() < 0.6
        messy = rng.random() < 0.5
        text = instgen.render(ast, rng if messy else None, trailer=rng.random() < 0.5,
                              final_newline=rng.random() < 0.8)
        yield dict(text=text, na=ast['na'], twopl=twopl, ast=ast, messy=messy)


MALFORMED = [
    dict(text='', na=2, twopl=False),
    dict(text='2\n1: 1\n2: 1\n', na=2, twopl=False),
    dict(text='1 1\n1: (1)\n1: 0: 1:\n', na=2, twopl=False),
    dict(text='1 1\n1: 1\n1: 0: x:\n', na=2, twopl=False),
    dict(text='1 1\n1: 2\n1: 0: 1:\n', na=2, twopl=False),
    dict(text='2 1\n1: 1\n2: 1\n1: 0: 1: 1\n', na=2, twopl=True),
    dict(text='1 1 1\n1: 1\n1: 0: 1: 2\n1: 0: 1: 1:\n', na=3, twopl=False),
    dict(text='1 1 1\n1: 1\n1: 0: 1: 1\n1: 0: 1:\n', na=3, twopl=False),
    dict(text='1 2\n1: 1 2\n1: 0: 1: 1\n', na=2, twopl=True),
]


class Import(Relation):
    name = 'R_import'
    kind = 'corr'
    requires = REQ
    shard = 60
    describe = ('files rendered from random ASTs of the documented grammar (2- and 3-agent, ties anywhere, empty lists, '
                'zero capacities, lower quotas, shared lecturers), half with arbitrary inter-token blanks/tabs and leading '
                'zeros, with/without trailer and final newline, loaded with and without -twopl; plus a malformed stream; '
                'all Model attributes, pairs and the three derived lists compared; non-trivial = at least one tie group and '
                'at least two students')

    def cases(self, ctx):
        for c in gen_files(ctx, self.name, 1500 if ctx.thorough else 240):
            yield c
        for m in MALFORMED:
            yield dict(m, ast=None, messy=False)

    def observe(self, inp):
        return C.observe(impl.import_snapshot, inp['text'], inp['na'], inp['twopl'])

    def term(self, inp, obs):
        def enc(s):
            return '(%s, (%s, %s, %s))' % (impl.cinstance(s), impl.cidlists(s['project_lists']),
                                           impl.cidlists(s['lecturer_lists']), impl.cidlists(s['rank_lists']))
        return '(c10_import %s %s %s %s)' % (C.cstr(inp['text']), C.cz(inp['na']), C.cbool(inp['twopl']),
                                            C.cresult(obs, enc))

    def diag(self, inp, obs):
        return 'import_model %s %s %s' % (C.cstr(inp['text']), C.cz(inp['na']), C.cbool(inp['twopl']))

    def key(self, inp):
        return inp['text'] + '|%s|%s' % (inp['na'], inp['twopl'])

    def signature(self, inp, obs):
        return {'relation': self.name, 'text': inp['text'], 'na': inp['na'], 'twopl': inp['twopl']}

    def nontrivial(self, inp, obs):
        a = inp.get('ast')
        return bool(a) and a['n1'] >= 2 and any(len(g) > 1 for gs in a['first'] for g in gs)

    def stats(self, inp, obs):
        d = {'outcome=' + obs[0] + ('' if obs[0] == 'ok' else ':' + obs[1]): 1,
             'twopl' if inp['twopl'] else 'one-sided': 1, 'messy-whitespace': 1 if inp.get('messy') else 0}
        if inp.get('ast'):
            d.update(instgen.ast_stats(inp['ast']))
        return d


RELATIONS = [Import()]
