"""C08 — generated files are well-formed instances of the requested type and parameters."""
from .. import common as C
from .. import gencommon as G
from ..engine import Relation

REQ = ['Gen.Files', 'Gen.Args', 'Corr.GenCorr']


class Quota(Relation):
    name = 'R_quota'
    kind = 'corr'
    requires = REQ
    describe = ('create_quotas(n, q) exhaustively for n in 1..12, q in 0..40, plus values around 2^52 and beyond 2^53 (where python\'s '
                'float division stops being exact; F15) and n = 0; non-trivial = q mod n != 0')

    def cases(self, ctx):
        top = 24 if ctx.thorough else 12
        for n in range(1, top + 1):
            for q in range(0, 4 * top + 1 if ctx.thorough else 41):
                yield dict(n=n, q=q)
        for n, q in [(3, 2**52 - 5), (7, 2**51 + 3), (1, 2**52 - 1), (0, 5), (2, 10**6 + 1),
                     # beyond 2^53 a float quotient is no longer exact (defect F15, repaired)
                     (3, 29999999999999999), (3, 2**53 + 1), (7, 10**17 + 3), (5, 2**60 + 7), (2, 2**53 + 3)]:
            yield dict(n=n, q=q)

    def observe(self, inp):
        from matchingproblems.generator import generator_shared as gs
        return C.observe(lambda: [int(x) for x in gs.create_quotas(inp['n'], inp['q'])])

    def term(self, inp, obs):
        return '(r_quota %s %s %s)' % (C.cz(inp['n']), C.cz(inp['q']), C.cresult(obs, C.czlist))

    def diag(self, inp, obs):
        return 'create_quotas %s %s' % (C.cz(inp['n']), C.cz(inp['q']))

    def nontrivial(self, inp, obs):
        return inp['n'] > 0 and inp['q'] % inp['n'] != 0


class QuotaSpec(Quota):
    name = 'M_quota'
    kind = 'monitor'
    describe = ('the same (n, q): what create_quotas returns must be n shares summing to q, each floor(q/n) or one more, '
                'larger shares first (the property\'s own words, evaluated in Coq on the returned list)')

    def term(self, inp, obs):
        return '(m_quota %s %s %s)' % (C.cz(inp['n']), C.cz(inp['q']), C.cresult(obs, C.czlist))

    def what(self, inp, obs):
        return 'create_quotas(%d, %d) returned %r: not an even spread summing to the requested total' % (
            inp['n'], inp['q'], obs[1])


class ProjLec(Relation):
    name = 'R_projlec'
    kind = 'corr'
    requires = REQ
    describe = 'create_project_lecturers(n2, n3) exhaustively for n2, n3 in 1..12 (24 thorough); non-trivial = n2 mod n3 != 0'

    def cases(self, ctx):
        top = 24 if ctx.thorough else 12
        for n2 in range(1, top + 1):
            for n3 in range(1, top + 1):
                yield dict(n2=n2, n3=n3)

    def observe(self, inp):
        from matchingproblems.generator.generator_spa import Generator_spa
        return C.observe(lambda: [int(x) for x in Generator_spa().create_project_lecturers(inp['n2'], inp['n3'])])

    def term(self, inp, obs):
        return '(r_projlec %s %s %s)' % (C.cz(inp['n2']), C.cz(inp['n3']), C.cresult(obs, C.czlist))

    def nontrivial(self, inp, obs):
        return inp['n2'] % inp['n3'] != 0


def gen_runs(ctx, label, n, small=True):
    rng = ctx.rng(label)
    for i in range(n):
        mp = G.MPS[i % 4]
        ns = G.legal(rng, mp, small=small)
        if i % 10 == 7:
            # multi-digit agent numbers on every side (10..14 agents; one run per 40 with more than 100 first-side agents)
            ns = G.legal(rng, mp, lo=10, hi=14)
            if i % 40 == 37 and mp != 'sm':
                ns.update(n1=rng.randint(101, 120), numinst=1)
        if i % 40 == 17:
            # a second-side list of more than 1000 entries (numpy abbreviates the text of longer arrays; any rendering
            # through numpy's printing would lose entries there): everybody lists both hospitals / both projects
            mp = ['hr', 'spa'][(i // 40) % 2]
            ns = G.legal(rng, mp, small=True)
            ns.update(n1=rng.randint(1001, 1040), n2=2, pmin=2, pmax=2, twopl=True, numinst=1, lq=0, uq=2 * rng.randint(600, 700),
                      t1=None, t2=[None, 0.0, 0.002][(i // 80) % 3], skew=None)
            if mp == 'spa':
                ns.update(n3=1, luq=1500, lt=None, llq=None)
            yield dict(ns=ns, seed=rng.randrange(10**6))
            continue
        if i % 20 == 13:
            # many files in one run (file naming / per-file state): 10..12 instances, thorough tier also more than 100
            ns['numinst'] = [11, 10, 12][(i // 20) % 3] if (n < 200 or i % 100 != 13) else 101
        if i % 5 == 4 and mp in ('hr', 'spa', 'ha'):
            # sparse lists: few first-side agents with one-entry lists over many second-side agents, quota sums that
            # give every second-side agent a positive lower quota (some of them are ranked by nobody)
            n1 = rng.randint(1, 3)
            n2 = rng.randint(3, 6)
            k = rng.choice([1, 2])
            ns.update(n1=n1, n2=n2, pmin=1, pmax=rng.choice([1, 1, 2]), lq=k * n2, uq=k * n2 + rng.randint(0, 2))
            if mp == 'spa':
                ns.update(n3=rng.randint(2, n2 + 1), luq=3 * n2, lt=None, llq=None)
        if rng.random() < 0.35:
            ns['t1'] = rng.choice([0.0, 1.0])
        if ns['twopl'] and rng.random() < 0.35:
            ns['t2'] = rng.choice([0.0, 1.0])
        yield dict(ns=ns, seed=rng.randrange(10**6))


def observe_run(inp):
    o = G.run_generator(inp['ns'], seed=inp['seed'])
    o['draws'] = G.split_draws(inp['ns'], o['log']) if o['code'] == 0 else None
    del o['log']
    return o


class GenFile(Relation):
    name = 'R_genfile'
    kind = 'corr'
    requires = REQ
    shard = 40
    describe = ('Generator(argv) for legal vectors of all four types with numpy.random.randint/choice and random.shuffle '
                'recorded: the files written equal, byte for byte, the model\'s text built from the recorded draws; names '
                '0.txt..; second side is a shuffle of the inversion; the same files also result from the composed model '
                '(argparse namespace -> decide -> defaults -> gargs_of -> generate); non-trivial = two-sided or ties present')

    def cases(self, ctx):
        return gen_runs(ctx, 'genfile', 400 if ctx.thorough else 80)

    def observe(self, inp):
        return observe_run(inp)

    def term(self, inp, obs):
        if obs['code'] != 0 or obs['draws'] is None:
            return 'false'
        files = C.clist(['(%s, %s)' % (C.cstr(n), C.cstr(t)) for n, t in obs['files']])
        ds = C.clist([G.cdraws(d) for d in obs['draws']])
        return '(r_genfile %s %s %s && forallb (draws_ok %s) %s && r_generator %s %s %s %s %s)' % (
            G.cgargs(inp['ns']), ds, files, G.cgargs(inp['ns']), ds,
            G.cnamespace(inp['ns']), G.cfloatstrs(inp['ns']), G.cgargs(inp['ns']), ds, files)

    def diag(self, inp, obs):
        if obs['code'] != 0 or obs['draws'] is None:
            return None
        return 'generate %s %s' % (G.cgargs(inp['ns']), C.clist([G.cdraws(d) for d in obs['draws']]))

    def key(self, inp):
        return repr((sorted(inp['ns'].items()), inp['seed']))

    def signature(self, inp, obs):
        return {'relation': self.name, 'ns': inp['ns'], 'seed': inp['seed']}

    def nontrivial(self, inp, obs):
        return bool(inp['ns']['twopl'] or inp['ns']['t1'])

    def stats(self, inp, obs):
        ns = inp['ns']
        return {'mp=' + ns['mp']: 1, 'twopl' if ns['twopl'] else 'one-sided': 1, 'code=%s' % obs['code']: 1,
                't1=%s' % ns['t1']: 1}

    def what(self, inp, obs):
        return 'generator run %r seed %d' % (obs.get('argv'), inp['seed'])


class GenShape(GenFile):
    name = 'M_genfile'
    kind = 'monitor'
    describe = ('same runs; every written file is re-read by the model importer (C10-tied) and judged in Coq: exactly '
                'numinst files named 0.txt.., well-formed, counts as requested, list lengths in [pmin, pmax], quotas / '
                'targets / projects per lecturer spread evenly (non-increasing, max-min <= 1) and summing to the requested '
                'totals, second side present iff two-sided; list-length requests to the RNG are [pmin, pmax+1) and tie '
                'probabilities [1-t, t]; t = 0 gives no ties and t = 1 fully tied lists on the side it was given for')

    def term(self, inp, obs):
        ns = inp['ns']
        if obs['code'] != 0 or obs['draws'] is None:
            return 'false'
        names = [n for n, _ in obs['files']]
        if names != ['%d.txt' % k for k in range(ns['numinst'])]:
            return 'false'
        a = G.cgargs(ns)
        terms = []
        for (n, t), d in zip(obs['files'], obs['draws']):
            terms.append('m_genfile %s %s' % (a, C.cstr(t)))
            sec = G.second_side_lists(ns, t)
            if sec is None:
                return 'false'
            terms.append('(g_twopl %s || forallb (fun l : list Z => Nat.eqb (length l) 0) %s)' % (a, C.clist([C.czlist(l) for l in sec])))
            t1 = ns['t1'] or 0.0
            t2 = ns['t2'] or 0.0
            code = lambda v: 0 if v == 0.0 else 1 if v == 1.0 else 2
            terms.append('m_ties_extreme %s %s %s %s' % (a, C.cstr(t), C.cz(code(t1)), C.cz(code(t2))))
            p_ok = all(pop == [0, 1] and p is not None and abs(p[0] - (1 - (t1 if side == 1 else t2))) < 1e-12
                       and abs(p[1] - (t1 if side == 1 else t2)) < 1e-12 for pop, p, side in d['ties_p'])
            req_ok = all(r['size'] == ln and sorted(r['population']) == list(range(1, (ns['n1'] if ns['mp'] == 'sm' else ns['n2']) + 1))
                         for r, ln in zip(d['list_requests'], d['lens']))
            terms.append('c08_requests %s %s %s' % (a, C.clist(['(%s, %s)' % (C.cz(x), C.cz(y)) for x, y in d['randint_args']]),
                                                  C.cbool(p_ok and req_ok)))
        return '(' + ' && '.join(terms) + ')'

    def diag(self, inp, obs):
        return None


RELATIONS = [Quota(), QuotaSpec(), ProjLec(), GenFile(), GenShape()]
