"""C18 — result getters are read-only and re-solving is reproducible."""
import itertools

from .. import common as C
from .. import impl, instgen, lpcommon, session
from ..engine import Relation

REQ = lpcommon.REQ + ['Run.Session', 'Corr.SessionCorr']
OPS = ['solve', 'get_results', 'get_results_short', 'get_results_long', 'get_debug']


def gen_histories(ctx, label, n):
    rng = ctx.rng(label)
    short = [list(h) for k in range(0, 3) for h in itertools.product(OPS, repeat=k)]
    for i in range(n):
        ast = instgen.gen_ast(rng, maxS=4, maxP=3, maxL=3)
        twopl = rng.random() < 0.6
        bf = rng.random() < 0.15
        stab = twopl and not bf and rng.random() < 0.3
        pc = rng.random() < 0.35
        crits = [] if bf else lpcommon.gen_crits(rng, ast, n=rng.choice([0, 1, 1, 2, 3]))
        argv = lpcommon.argv_of(ast['na'], twopl, pc, stab, crits, rng) + (['-bf'] if bf else [])
        limit = rng.choice([None, None, 5, 0.5])
        if i % 11 == 10:
            # the run takes EXACTLY the time limit (scripted clock: 1 ms per clock reading, 10 ms per solve, one solve):
            # "exceeded" is strict, the results must be presented, not Timeout
            crits = [] if bf else lpcommon.gen_crits(rng, ast, names=rng.choice([[], ['maxsize'], ['mincost']]))
            argv = lpcommon.argv_of(ast['na'], twopl, pc, stab, crits, rng) + (['-bf'] if bf else [])
            hist = [['solve', 0.012, 0], ['get_debug'], ['get_results'], ['get_debug'], ['get_results_long'], ['get_debug']]
            yield dict(text=instgen.render(ast), na=ast['na'], twopl=twopl, pc=pc, stab=stab, bf=bf,
                       crits=[[c, x] for c, x in crits], argv=argv, history=hist, ast=ast)
            continue
        if i % 13 == 7:
            # a run that exceeds its limit (5 ms limit, 10 ms per scripted solve): every getter before and after every
            # other one while the Solver is in the timed-out state, then a re-solve without limit
            crits = [] if bf else lpcommon.gen_crits(rng, ast, n=rng.choice([0, 1, 2]))
            argv = lpcommon.argv_of(ast['na'], twopl, pc, stab, crits, rng) + (['-bf'] if bf else [])
            gs = OPS[1:]
            rng.shuffle(gs)
            hist = [['solve', 0.005, 0]] + [[g] for g in gs] + [[g] for g in gs] + [['solve', None, 0], [gs[0]], [gs[-1]]]
            yield dict(text=instgen.render(ast), na=ast['na'], twopl=twopl, pc=pc, stab=stab, bf=bf,
                       crits=[[c, x] for c, x in crits], argv=argv, history=hist, ast=ast)
            continue
        if i % 7 == 3:
            # unusual but importable instances (a lecturer's target above its upper quota, zero capacities) with the
            # load-balancing criteria; every getter before and after every other one, then a re-solve
            ast = instgen.gen_ast(rng, na=3, maxS=4, maxP=3, maxL=3)
            k = rng.randrange(len(ast['lecturers']))
            ast['lecturers'][k][1] = ast['lecturers'][k][2] + rng.randint(1, 2)
            twopl, bf, pc = rng.random() < 0.5, False, rng.random() < 0.3
            stab = False
            crits = lpcommon.gen_crits(rng, ast, names=rng.choice([['lsb'], ['maxsize', 'lsb'], ['lmb'], ['maxsize', 'mincost', 'lsb'],
                                                                    ['mincostlsb'], []]))
            argv = lpcommon.argv_of(3, twopl, pc, stab, crits, rng)
            gs = OPS[1:]
            rng.shuffle(gs)
            hist = [['solve', None, 0]] + [[g] for g in gs] + [[g] for g in gs] + [['solve', None, 0], [gs[0]], [gs[1]]]
            yield dict(text=instgen.render(ast), na=3, twopl=twopl, pc=pc, stab=stab, bf=bf,
                       crits=[[c, x] for c, x in crits], argv=argv, history=hist, ast=ast)
            continue
        if i % 5 == 4:
            # the same getter several times in a row, other getters in between (a getter must not change what a later
            # call of itself or of another getter returns); capacities above one so that listings have several entries
            ast = instgen.gen_ast(rng, maxS=5, maxP=2, maxL=2, zero_caps=False, lower=False)
            for pr in ast['projects']:
                pr[1] = rng.choice([2, 3])
            for le in ast['lecturers']:
                le[2] = max(le[2], 3)
                le[1] = min(le[1], le[2])
            if ast['na'] == 2:
                for le, pr in zip(ast['lecturers'], ast['projects']):
                    le[0], le[1], le[2] = pr[0], pr[1], pr[1]
            twopl, bf, stab, pc = True, False, rng.random() < 0.3, False
            crits = lpcommon.gen_crits(rng, ast, names=rng.choice([['maxsize'], ['maxsize', 'mincost'], []]))
            argv = lpcommon.argv_of(ast['na'], twopl, pc, stab, crits, rng)
            g = rng.choice(OPS[1:])
            g2 = rng.choice(OPS[1:])
            tail = [g, g, g2, g] + (['solve', g, g] if rng.random() < 0.4 else [])
        elif i < len(short) and not ctx.search:
            tail = short[i]
        else:
            tail = [rng.choice(OPS) for _ in range(rng.randint(1, 10 if ctx.thorough else 6))]
        hist = [['solve', limit, 0]]
        for o in tail:
            if o == 'solve':
                idle = rng.choice([0, 2000, 7000000])       # 7 s of idle time exceeds every limit used
                hist.append(['solve', limit if rng.random() < 0.8 else rng.choice([None, 5]), idle,
                             rng.choice([None, None, 2])])      # a re-solve may ask for another number of threads
            else:
                hist.append([o])
        yield dict(text=instgen.render(ast), na=ast['na'], twopl=twopl, pc=pc, stab=stab, bf=bf,
                   crits=[[c, x] for c, x in crits], argv=argv, history=hist, ast=ast)


def run_hist(inp):
    return session.session_run(inp['text'], inp['argv'], inp['history'])


class Session(Relation):
    name = 'R_session'
    kind = 'corr'
    requires = REQ
    shard = 12
    describe = ('Solver objects driven through histories over {solve, get_results, get_results_short, get_results_long, '
                'get_debug} starting with solve: all sequences of length <= 2 after the first solve, then random ones up to '
                'length 6 (quick) / 10 (thorough); LP and brute-force mode, -pc/-stab, 0..3 criteria, time limit None/5/0.5 '
                'under a scripted clock with idle gaps up to 7 s before a re-solve; every getter text, every problem of '
                'every solve and the clock-dependent Timeout decision compared with the model; non-trivial = history '
                'contains a re-solve or >= 2 getters')

    def cases(self, ctx):
        return gen_histories(ctx, 'hist', 600 if ctx.thorough else 90)

    def observe(self, inp):
        return run_hist(inp)

    def term(self, inp, obs):
        if obs['exc_init'] or not session.limits_passed_through(obs):
            return 'false'
        return '(c_session %s %s %s %s)' % (lpcommon.head(inp), C.cbool(inp['bf']), C.cz(obs['t0']),
                                           C.clist([session.crec(r) for r in obs['ops']]))

    def key(self, inp):
        return repr((inp['text'], inp['argv'], inp['history']))

    def signature(self, inp, obs):
        return {'relation': self.name, 'text': inp['text'], 'argv': inp['argv'], 'history': inp['history']}

    def nontrivial(self, inp, obs):
        n_solve = sum(1 for h in inp['history'] if h[0] == 'solve')
        return n_solve >= 2 or len(inp['history']) - n_solve >= 2

    def stats(self, inp, obs):
        d = {'len=%d' % len(inp['history']): 1, 'bf' if inp['bf'] else 'lp': 1,
             'resolve': 1 if sum(1 for h in inp['history'] if h[0] == 'solve') >= 2 else 0,
             'limit': 1 if inp['history'][0][1] is not None else 0}
        for r in obs['ops']:
            if r['seen'][0] == 'exc':
                d['exc:' + r['seen'][1]] = d.get('exc:' + r['seen'][1], 0) + 1
        return d

    def shrink(self, inp):
        h = inp['history']
        for i in range(1, len(h)):
            yield dict(inp, history=h[:i] + h[i + 1:])
        if inp['crits']:
            for i in range(len(inp['crits'])):
                cr = inp['crits'][:i] + inp['crits'][i + 1:]
                yield dict(inp, crits=cr, argv=lpcommon.argv_of(inp['na'], inp['twopl'], inp['pc'], inp['stab'],
                                                                 [(c, x) for c, x in cr]) + (['-bf'] if inp['bf'] else []))


def objective_values(op):
    """the optimum frozen at each stage of one solve: value of the k-th objective variable at the k-th solve"""
    vals = []
    for k, e in enumerate(op['snaps']):
        a = e['answer']
        v = None
        if a:
            for role, z in a['vals']:
                if role[0] == 'Obj' and role[1] == k:
                    v = z
        vals.append([a and a['status'], v])
    return vals


class Getters(Session):
    name = 'M_getters'
    kind = 'monitor'
    describe = ('same histories; between two solves every getter must return (never raise) and return the identical '
                'raw text each time it is called; after a re-solve the status and the optimum of every stage must equal '
                'those of the first solve and the printed matching must be valid (valid_b in Coq)')

    def term(self, inp, obs):
        if obs['exc_init']:
            return 'false'
        seen = {}
        first_solve = None
        exceeded = False
        checks = []
        for r, raw in zip(obs['ops'], obs['raw']):
            if r['op'][0] == 'solve':
                if r['seen'][0] != 'ok':
                    return 'false'
                seen = {}
                # did the scripted clock run past the limit of this solve?  (then 'Timeout' is the right text)
                c = r.get('clock') or []
                start, end = (c[0], c[-1]) if len(c) == 3 else (obs.get('t0', 0), c[-1] if c else 0)
                lim = r['op'][1] if len(r['op']) > 1 else None
                exceeded = lim is not None and (end - start) > round(lim * 1e6)
                if not inp['bf']:
                    ov = objective_values(r)
                    if first_solve is None:
                        first_solve = ov
                    elif ov != first_solve:
                        return 'false'
            else:
                if r['seen'][0] != 'ok':
                    return 'false'
                g = r['op'][0]
                if g in seen and seen[g] != raw:
                    return 'false'
                seen[g] = raw
                if g in ('get_results', 'get_results_short', 'get_results_long') and not inp['bf']:
                    m = impl.matching_line(r['seen'][1])
                    if m is not None:
                        checks.append('(mon_valid %s %s)' % (lpcommon.head(inp), C.czlist(m)))
                    # a run without time-limit trouble must not flip between Timeout and a result
                    if 'Timeout' in r['seen'][1] and not exceeded:
                        return 'false'
        return '(%s)' % ' && '.join(checks[:3] or ['true'])

    def what(self, inp, obs):
        return 'history %r on argv %r: a getter raised / changed its text, or a re-solve changed status or optimum' % (
            inp['history'], inp['argv'])


RELATIONS = [Session(), Getters()]
