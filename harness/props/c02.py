"""C02 — Optimal exactly when a feasible matching exists; never errors."""
from ..lpcommon import RLp, MStatus

RELATIONS = [RLp(), MStatus()]
