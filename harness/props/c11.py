"""C11 — printed statistics and listings describe the printed matching."""
from .. import common as C
from .. import impl, instgen
from ..engine import Relation
from .. import lpcommon

REQ = ['Text.Import', 'Spec.ResultsSpec', 'Run.Results', 'Corr.C11Corr']


def cvals(vals):
    return C.clist([C.cblist(r) for r in vals])


def gen(ctx, label, n, allow_multi):
    rng = ctx.rng(label)
    for k in range(n):
        if k % 6 == 5:
            # multi-digit ids: projects 10, 20, ... and students beyond 9 must be handled like any other
            ast = instgen.gen_ast(rng, maxS=12, maxP=22, maxL=4, S=rng.randint(6, 12), P=rng.randint(10, 22))
        else:
            ast = instgen.gen_ast(rng)
        twopl = rng.random() < 0.6
        text = instgen.render(ast)
        rows = [[p for g in gs for p in g] for gs in ast['first']]
        mode = rng.choice(['empty', 'one', 'one', 'one', 'full', 'multi' if allow_multi else 'one'])
        vals = []
        for r in rows:
            v = [False] * len(r)
            if r:
                if mode == 'one' and rng.random() < 0.75:
                    v[rng.randrange(len(r))] = True
                elif mode == 'full':
                    v[rng.randrange(len(r))] = True
                elif mode == 'multi':
                    v = [rng.random() < 0.5 for _ in r]
            vals.append(v)
        yield dict(text=text, na=ast['na'], twopl=twopl, info='- valid matching constraints added\n', vals=vals,
                   long=rng.random() < 0.6, stab=(twopl and rng.random() < 0.4), ast=ast, mode=mode)


class Results(Relation):
    name = 'R_results'
    kind = 'corr'
    requires = REQ
    shard = 40
    describe = ('Model.get_results (short/long, with/without the stability line) on random instances whose decision '
                'variables carry synthetic 0/1 values: empty matching, partial, full, and several assigned pairs per '
                'student; text compared byte for byte after replacing the date header and the three timings; '
                'non-trivial = at least two assigned pairs')

    def cases(self, ctx):
        return gen(ctx, self.name, 1200 if ctx.thorough else 200, True)

    def observe(self, inp):
        return C.observe(impl.results_with_values, inp['text'], inp['na'], inp['twopl'], inp['info'], inp['vals'],
                         inp['long'], inp['stab'])

    def term(self, inp, obs):
        return '(c11_results %s %s %s %s %s %s %s %s)' % (
            C.cstr(inp['text']), C.cz(inp['na']), C.cbool(inp['twopl']), C.cstr(inp['info']), cvals(inp['vals']),
            C.cbool(inp['long']), C.cbool(inp['stab']), C.cresult(obs, C.cstr))

    def diag(self, inp, obs):
        return ('match import_model %s %s %s with Ok M => model_results M %s %s %s %s | Crash e => Crash e end'
                % (C.cstr(inp['text']), C.cz(inp['na']), C.cbool(inp['twopl']), C.cstr(inp['info']), cvals(inp['vals']),
                   C.cbool(inp['long']), C.cbool(inp['stab'])))

    def key(self, inp):
        return repr((inp['text'], inp['na'], inp['twopl'], inp['vals'], inp['long'], inp['stab']))

    def signature(self, inp, obs):
        return {'relation': self.name, 'text': inp['text'], 'na': inp['na'], 'twopl': inp['twopl'],
                'vals': inp['vals'], 'long': inp['long']}

    def nontrivial(self, inp, obs):
        return sum(sum(1 for v in r if v) for r in inp['vals']) >= 2

    def stats(self, inp, obs):
        d = {'mode=' + inp.get('mode', '?'): 1, 'long' if inp['long'] else 'short': 1,
             'twopl' if inp['twopl'] else 'one-sided': 1, 'outcome=' + obs[0]: 1}
        return d


class ResultsSpec(Results):
    name = 'M_results'
    kind = 'monitor'
    describe = ('same generator restricted to at most one assigned pair per student; the whole text must equal the block '
                'recomputed in Coq from the file and the printed matching line alone (Spec/ResultsSpec.v); '
                'non-trivial = at least two assigned pairs')

    def cases(self, ctx):
        for c in gen(ctx, self.name, 1200 if ctx.thorough else 200, False):
            c['stab'] = False
            yield c

    def term(self, inp, obs):
        if obs[0] != 'ok':
            return 'false'
        m = impl.matching_line(obs[1])
        if m is None:
            return 'false'
        return '(c11_spec %s %s %s %s %s %s %s)' % (
            C.cstr(inp['text']), C.cz(inp['na']), C.cbool(inp['twopl']), C.cstr(inp['info']), C.czlist(m),
            C.cbool(inp['long']), C.cstr(obs[1]))

    def diag(self, inp, obs):
        m = impl.matching_line(obs[1]) if obs[0] == 'ok' else []
        return ('match import_model %s %s %s with Ok M => spec_stats_text M %s %s | Crash e => ""%%string end'
                % (C.cstr(inp['text']), C.cz(inp['na']), C.cbool(inp['twopl']), C.czlist(m or []), C.cbool(inp['long'])))

    def what(self, inp, obs):
        return 'printed statistics differ from the values recomputed from the file and the matching line'


def stats_block(txt):
    i = txt.find('# matching statistics')
    return None if i < 0 else txt[i:]


class ResultsRun(lpcommon.LPRelation):
    name = 'M_results_run'
    kind = 'monitor'
    requires = REQ + lpcommon.REQ
    n_quick = 130
    n_thorough = 900
    describe = ('real Solver runs (all option kinds, load-balancing criteria over-represented, -stab, -pc): the '
                'statistics block of get_results() and of get_results_long() must equal the block recomputed in Coq from '
                'the instance file and the printed matching line alone; non-trivial = Optimal run with >= 2 assigned students')

    def cases(self, ctx):
        def names(rng):
            k = rng.choice([1, 2, 2, 3])
            pool = ['lmb', 'lmb', 'lsb', 'mincostlsb', 'maxsize', 'maxsize', 'minsize', 'gen', 'gre', 'mincost', 'minsqcost']
            out = []
            while len(out) < k:
                c = rng.choice(pool)
                if c not in out:
                    out.append(c)
            return out
        n = self.n_thorough if ctx.thorough else self.n_quick
        for c in lpcommon.gen_lp_cases(ctx, self.name, n, crit_names=names):
            yield c
        # larger instances (multi-digit project and student ids); judged from the file and the matching line only
        rng = ctx.rng(self.name + '/large')
        for i in range(n // 6):
            ast = instgen.gen_ast(rng, maxS=12, maxP=22, maxL=4, S=rng.randint(8, 12), P=rng.randint(10, 22),
                                  zero_caps=False, lower=False)
            twopl = rng.random() < 0.5
            crits = lpcommon.gen_crits(rng, ast, names=rng.choice([['maxsize'], ['maxsize', 'mincost'], ['gre'], ['lsb', 'maxsize']]))
            argv = lpcommon.argv_of(ast['na'], twopl, False, False, crits, rng)
            yield dict(text=instgen.render(ast), na=ast['na'], twopl=twopl, pc=False, stab=False,
                       crits=[[c, x] for c, x in crits], argv=argv, ast=ast)

    def observe(self, inp):
        return lpcommon.lp_run(inp['text'], inp['argv'], getters=('get_results', 'get_results_long'))

    def term(self, inp, obs):
        if obs['exc'] or obs['status'] != 'Optimal':
            return 'true'
        terms = []
        for (kind, txt), long in zip(obs['texts'], (False, True)):
            if kind != 'ok':
                return 'false'
            m = impl.matching_line(txt)
            b = stats_block(txt)
            if m is None or b is None:
                return 'false'
            terms.append('c11_block %s %s %s %s %s %s' % (C.cstr(inp['text']), C.cz(inp['na']), C.cbool(inp['twopl']),
                                                        C.czlist(m), C.cbool(long), C.cstr(b)))
        return '(' + ' && '.join(terms) + ')'

    def nontrivial(self, inp, obs):
        m = self.matching(obs)
        return obs.get('status') == 'Optimal' and m is not None and sum(1 for x in m if x) >= 2

    def what(self, inp, obs):
        return 'statistics printed by run %r on %r differ from the values recomputed from the file and the matching line' % (
            inp['argv'], inp['text'])


RELATIONS = [Results(), ResultsSpec(), ResultsRun()]
