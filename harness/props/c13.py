"""C13 — ties written by the generator are read back as the same ties by the solver."""
import itertools
import os
import tempfile

from .. import common as C
from .. import impl
from ..engine import Relation

REQ = ['Text.Ties', 'Corr.C13Corr']


def _vectors(n):
    return itertools.product([False, True], repeat=n)


def _perm(rng, n):
    l = list(range(1, n + 1))
    rng.shuffle(l)
    return l


class TieWriter(Relation):
    name = 'R_tiewr'
    kind = 'corr'
    requires = REQ
    describe = ('exhaustive over all tie-decision vectors for every list length up to the bound; entries a random '
                'permutation; every third case passes the decisions as a numpy integer array; plus lists of 255..300 (thorough: 1025) '
                'entries with the last decisions set and unset; non-trivial = length >= 2 '
                'and at least one decision set')

    def cases(self, ctx):
        rng = ctx.rng(self.name)
        maxn = 11 if ctx.thorough else 8
        k = 0
        for n in range(0, maxn + 1):
            for v in _vectors(n):
                k += 1
                l = _perm(rng, n)
                if k % 4 == 1:
                    l = [x + rng.choice([7, 95, 998]) for x in l]      # multi-digit entries
                yield dict(l=l, ties=list(v), numpy=(k % 3 == 0))
        # long lists (more than 256 entries: beyond CPython's shared small integers, three-digit positions), random
        # decisions with the last one / the last few set and unset
        for n in [255, 256, 257, 258, 259, 300] + ([1023, 1025] if ctx.thorough else []):
            for tail in ([False], [True], [True, True], [True, False], [False, True], [True, True, True]):
                t = [rng.random() < 0.4 for _ in range(n - len(tail))] + tail
                yield dict(l=_perm(rng, n), ties=t, numpy=(n % 2 == 0))
        # decision vectors longer / shorter than the list (IndexError path of the code)
        yield dict(l=[3, 1, 2], ties=[True, False], numpy=False)
        yield dict(l=[3, 1, 2], ties=[False, True, True, True], numpy=False)
        yield dict(l=[-5, 0, 12345678901234567890], ties=[True, True, False], numpy=False)

    def observe(self, inp):
        from matchingproblems.generator import generator_shared as gs
        ties = inp['ties']
        if inp.get('numpy'):
            import numpy as np
            ties = np.array([1 if t else 0 for t in ties])
            l = np.array(inp['l'], dtype=object) if any(abs(x) > 2**62 for x in inp['l']) else np.array(inp['l'], dtype=int)
            return C.observe(lambda: [str(x) for x in gs.create_string_pref(l, ties)])
        return C.observe(lambda: list(gs.create_string_pref(inp['l'], ties)))

    def term(self, inp, obs):
        return '(c13_writer %s %s %s)' % (C.czlist(inp['l']), C.cblist(inp['ties']), C.cresult(obs, C.cslist))

    def diag(self, inp, obs):
        return 'write_strings %s %s' % (C.czlist(inp['l']), C.cblist(inp['ties']))

    def nontrivial(self, inp, obs):
        return len(inp['l']) >= 2 and any(inp['ties'])

    def stats(self, inp, obs):
        return {'len=%d' % len(inp['l']): 1, 'outcome=' + obs[0] + ('' if obs[0] == 'ok' else ':' + obs[1]): 1}


class TieReader(Relation):
    name = 'R_tierd'
    kind = 'corr'
    requires = REQ
    describe = ('token lists produced by the implementation writer for every decision vector up to the bound, plus '
                'hand-made well-formed and malformed token lists; non-trivial = contains a parenthesis')

    def cases(self, ctx):
        from matchingproblems.generator import generator_shared as gs
        rng = ctx.rng(self.name)
        maxn = 10 if ctx.thorough else 7
        for n in range(0, maxn + 1):
            for v in _vectors(n):
                l = _perm(rng, n)
                try:
                    toks = [str(x) for x in gs.create_string_pref(l, list(v))]
                except Exception:
                    continue
                yield dict(tokens=toks)
        for toks in (['1', '2', '3'], ['(1', '2', '3)'], ['007', '(08', '9)'], ['(3)'], ['3)', '(4'], ['(1', '(2', '3)'],
                     ['1', '', '2'] if False else ['1', '2)'], ['x'], ['-4', '(5', '-6)'], ['(1', '2'], ['1)', '2)'],
                     ['12345678901234567890']):
            yield dict(tokens=toks)

    def observe(self, inp):
        return C.observe(impl.read_pref_tokens, inp['tokens'])

    def term(self, inp, obs):
        if obs[0] == 'exc' and obs[1] == 'SkipCase':
            return 'true'
        enc = lambda v: '(%s, %s)' % (C.czlist(v[0]), C.czlist(v[1]))
        return '(c13_reader %s %s)' % (C.cslist(inp['tokens']), C.cresult(obs, enc))

    def diag(self, inp, obs):
        return 'read_strings %s' % C.cslist(inp['tokens'])

    def nontrivial(self, inp, obs):
        return any('(' in t or ')' in t for t in inp['tokens'])

    def stats(self, inp, obs):
        return {'len=%d' % len(inp['tokens']): 1, 'outcome=' + obs[0] + ('' if obs[0] == 'ok' else ':' + obs[1]): 1}


class RoundTrip(Relation):
    name = 'M_roundtrip'
    kind = 'monitor'
    requires = REQ
    describe = ('implementation writer then implementation reader, judged by the Coq specification (runs / dense '
                'ranks), exhaustive over decision vectors up to the bound; non-trivial = length >= 2 and a decision set')

    def cases(self, ctx):
        rng = ctx.rng(self.name)
        maxn = 11 if ctx.thorough else 8
        for n in range(0, maxn + 1):
            for v in _vectors(n):
                yield dict(l=_perm(rng, n), ties=list(v))
        for n in [256, 257, 258, 300] + ([1025] if ctx.thorough else []):
            for tail in ([False], [True], [True, True], [False, True]):
                t = [rng.random() < 0.4 for _ in range(n - len(tail))] + tail
                yield dict(l=_perm(rng, n), ties=t)

    def observe(self, inp):
        from matchingproblems.generator import generator_shared as gs
        from matchingproblems.solver import fileIO
        def f():
            toks = [str(x) for x in gs.create_string_pref(inp['l'], inp['ties'])]
            a, b = impl.read_pref_tokens(toks)
            return [toks, list(a), list(b)]
        return C.observe(f)

    def term(self, inp, obs):
        if obs[0] == 'exc' and obs[1] == 'SkipCase':
            return 'true'
        if obs[0] != 'ok':
            return 'false'
        toks, a, b = obs[1]
        return '(c13_roundtrip %s %s %s %s %s)' % (C.czlist(inp['l']), C.cblist(inp['ties']), C.cslist(toks),
                                                   C.czlist(a), C.czlist(b))

    def diag(self, inp, obs):
        return '(runs %s %s, ranks_of %s %s)' % (C.czlist(inp['l']), C.cblist(inp['ties']),
                                                 C.czlist(inp['l']), C.cblist(inp['ties']))

    def nontrivial(self, inp, obs):
        return len(inp['l']) >= 2 and any(inp['ties'])

    def shrink(self, inp):
        l, t = inp['l'], inp['ties']
        for i in range(len(l)):
            l2 = l[:i] + l[i + 1:]
            # renumber to a permutation-like list is not needed: entries are arbitrary integers
            yield dict(l=l2, ties=t[:i] + t[i + 1:])
        for i in range(len(t)):
            if t[i]:
                yield dict(l=l, ties=t[:i] + [False] + t[i + 1:])

    def what(self, inp, obs):
        return 'writer+reader round trip differs from the tie decisions for list %r decisions %r' % (inp['l'], inp['ties'])


class FileRoundTrip(Relation):
    name = 'M_file'
    kind = 'monitor'
    requires = REQ
    describe = ('whole generated files (2-agent via Generator_ha_sm_hr.create_instance, 3-agent via '
                'Generator_spa.create_instance) loaded by import_model with -twopl: ranks of the first student\'s list '
                '(first side) and of the first hospital/lecturer\'s list (second side) against the dense ranks of the '
                'decisions; exhaustive over decision vectors up to the bound; plus instances with more than 1000 / 1024 / 10000 '
                '(thorough: 4096 / 65536 / 100000) agents on the tested side whose lists hold ids just above those bases; '
                'non-trivial = a decision set')

    def cases(self, ctx):
        rng = ctx.rng(self.name)
        maxn = 8 if ctx.thorough else 5
        for n in range(1, maxn + 1):
            for v in _vectors(n):
                for agents in (2, 3):
                    for side in (1, 2):
                        yield dict(l=_perm(rng, n), ties=list(v), agents=agents, side=side)
        # large agent counts: the tested list holds ids just above a power of ten / two (base + k) while the small id k
        # is ranked by the NEXT agent of that side, so that any id arithmetic which is only injective for small ids shows
        bases = [1000, 1024, 10000] + ([4096, 65536, 100000] if ctx.thorough else [])
        for base in bases:
            for n in (3, 4):
                for v in _vectors(n):
                    if n == 4 and not ctx.thorough and rng.random() < 0.6:
                        continue
                    ks = rng.sample(range(1, 7), 2)
                    l = [base + ks[0], base + ks[1]] + rng.sample(range(7, 40), n - 2)
                    rng.shuffle(l)
                    for agents in (2, 3):
                        for side in (1, 2):
                            yield dict(l=l, ties=list(v), agents=agents, side=side, big=base + 40)

    def observe(self, inp):
        from matchingproblems.generator.generator_ha_sm_hr import Generator_ha_sm_hr
        from matchingproblems.generator.generator_spa import Generator_spa
        from matchingproblems.solver import fileIO
        from matchingproblems.solver.enums import Instance_options
        l, ties, n = inp['l'], inp['ties'], len(inp['l'])
        plain = [False] * n
        ident = list(range(1, n + 1))
        def fbig():
            # side 2: N first-side agents, 2 second-side agents; agent 1 of the second side ranks l, agent 2 everybody
            # else; side 1: 2 first-side agents, N second-side agents; agent 1 ranks l, agent 2 everybody else
            N = inp['big']
            others = [x for x in range(1, N + 1) if x not in l]
            if inp['side'] == 2:
                n1, n2 = N, 2
                inl = set(l)
                first = [[1] if s in inl else [2] for s in range(1, N + 1)]
                first_t = [[False]] * N
                second, second_t = [list(l), others], [list(ties), [False] * len(others)]
            else:
                n1, n2 = 2, N
                first, first_t = [list(l), others], [list(ties), [False] * len(others)]
                pos = {}
                for x in l:
                    pos[x] = [1]
                second = [pos.get(h, [2]) for h in range(1, N + 1)]
                second_t = [[False]] * N
            if inp['agents'] == 2:
                text = Generator_ha_sm_hr().create_instance(n1, n2, first, first_t, second, second_t,
                                                            [0] * n2, [N] * n2, 'info\n')
            else:
                text = Generator_spa().create_instance(n1, n2, n2, first, first_t, list(range(1, n2 + 1)), [0] * n2, [N] * n2,
                                                       second, second_t, [0] * n2, [N] * n2, [N] * n2, 'info\n')
            from matchingproblems.solver.solver import Solver
            with impl.tmpfile(text) as path:
                m = Solver(['-f', path, '-na', str(inp['agents']), '-twopl']).model
            if inp['side'] == 1:
                return [[p.projectID, p.rank_student] for p in m.pairs[0]]
            out = []
            for s in l:
                pr = [p for p in m.pairs[s - 1] if p.lecturerID == 1][0]
                out.append([s, pr.rank_lecturer])
            return out
        if inp.get('big'):
            return C.observe(fbig)

        def f():
            first = [list(l) if inp['side'] == 1 else list(ident) for _ in range(n)]
            first_t = [list(ties) if inp['side'] == 1 else plain for _ in range(n)]
            second = [list(l) if inp['side'] == 2 else list(ident) for _ in range(n)]
            # side 2: the tested decisions belong to the LAST second-side agent; the earlier agents have the identical
            # list with the opposite decisions (a writer that looks lists up by value must not mix them up)
            second_t = [([not t for t in ties] if x < n - 1 else list(ties)) if inp['side'] == 2 else plain
                        for x in range(n)]
            if inp['agents'] == 2:
                text = Generator_ha_sm_hr().create_instance(n, n, first, first_t, second, second_t,
                                                            [0] * n, [1] * n, 'info\n')
            else:
                extra = 1 if (sum(l) + len(ties)) % 2 == 0 else 0     # half of the files: one more lecturer, who offers
                n3 = n + extra                                         # no project and therefore has an empty list, LAST
                text = Generator_spa().create_instance(n, n, n3, first, first_t, ident, [0] * n, [1] * n,
                                                       second + [[]] * extra, second_t + [[]] * extra,
                                                       [0] * n3, [1] * n3, [1] * n3, 'info\n')
            # one scratch path per process, regenerated in place for every case (as a generate-and-solve loop does)
            from matchingproblems.solver.solver import Solver
            with impl.tmpfile(text) as path:
                m = Solver(['-f', path, '-na', str(inp['agents']), '-twopl']).model
            if inp['side'] == 1:
                return [[p.projectID, p.rank_student] for p in m.pairs[0]]
            # second side: the last lecturer's / hospital's ranks of the students in list order
            out = []
            for s in l:
                pr = [p for p in m.pairs[s - 1] if p.lecturerID == n][0]
                out.append([s, pr.rank_lecturer])
            return out
        return C.observe(f)

    def term(self, inp, obs):
        if obs[0] != 'ok':
            return 'false'
        return '(c13_file %s %s %s)' % (C.czlist(inp['l']), C.cblist(inp['ties']),
                                        C.clist(['(%s, %s)' % (C.cz(a), C.cz(b)) for a, b in obs[1]]))

    def diag(self, inp, obs):
        return 'combine %s (ranks_of %s %s)' % (C.czlist(inp['l']), C.czlist(inp['l']), C.cblist(inp['ties']))

    def nontrivial(self, inp, obs):
        return any(inp['ties'][:-1])

    def stats(self, inp, obs):
        return {'agents=%d side=%d' % (inp['agents'], inp['side']): 1, 'large-ids': 1 if inp.get('big') else 0}

    def what(self, inp, obs):
        return ('ranks after loading a generated %d-agent file differ from the tie decisions on side %d: list %r decisions %r'
                % (inp['agents'], inp['side'], inp['l'], inp['ties']))


RELATIONS = [TieWriter(), TieReader(), RoundTrip(), FileRoundTrip()]
