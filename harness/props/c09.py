"""C09 — every generated instance is solvable by the solver under the documented flags."""
from .. import common as C
from .. import gencommon as G
from .. import impl, lpcommon, recorder
from ..engine import Relation

REQ = lpcommon.REQ + ['Gen.Files', 'Corr.GenCorr', 'Corr.C10Corr', 'Corr.C07Corr', 'BF.BruteForce', 'Spec.BFSpec']


def gen_pipeline(ctx, label, n):
    rng = ctx.rng(label)
    for i in range(n):
        mp = G.MPS[i % 4]
        ns = G.legal(rng, mp, small=True)
        ns['numinst'] = 1
        corner = (i % 10 == 9)
        if corner:
            # lecturers with capacity 0 (luq < n3 is accepted), few students with one-entry lists: the only valid
            # matching may be the empty one
            mp = 'spa'
            n2 = rng.randint(2, 3)
            ns = dict(mp='spa', numinst=1, twopl=rng.random() < 0.5, skew=None, n1=rng.randint(1, 2), n2=n2,
                      n3=rng.randint(2, 3), pmin=1, pmax=1, t1=None, t2=None, lq=None, llq=None, uq=n2 + rng.randint(0, 1),
                      luq=1, lt=None)
        large = (i % 10 == 4)
        if large:
            # 10..12 agents on every side (multi-digit numbers in the file); one-entry lists keep the specification's
            # enumeration of all matchings small
            ns = G.legal(rng, mp, lo=10, hi=12)
            ns.update(numinst=1, pmin=1, pmax=1)
        shared = (i % 10 == 7)
        if shared:
            # students ranking several projects of ONE lecturer, lecturer capacity tight, two-sided, solved with -stab
            mp = 'spa'
            n2 = rng.randint(3, 4)
            n3 = rng.randint(1, 2)
            ns = dict(mp='spa', numinst=1, twopl=True, skew=None, n1=rng.randint(3, 5), n2=n2, n3=n3, pmin=2,
                      pmax=rng.randint(2, 3), t1=rng.choice([None, 0.3]), t2=rng.choice([None, 0.3]), lq=None, llq=None,
                      uq=n2 + rng.randint(0, 2), luq=n3 + rng.randint(0, 2), lt=None)
        twopl = ns['twopl']
        na = 3 if mp == 'spa' else 2
        bf = (rng.random() < 0.25 or corner) and ns['n1'] <= 4 and not shared
        stab = twopl and not bf and (rng.random() < 0.5 or shared)
        pc = rng.random() < 0.3
        # max rank is unknown before generation: only default cut-offs are requested here
        names = rng.sample(lpcommon.ALL, rng.choice([0, 1, 1, 2, 3]))
        crits = []
        for nm in names:
            ex = []
            if nm in ('mincost', 'minsqcost', 'mincostlsb') and rng.random() < 0.5:
                ex = [rng.choice([0, 1, 2]), rng.choice([0, 1, 3])]
            if nm == 'gre' and rng.random() < 0.4:
                ex = [rng.randint(1, 4)]
            crits.append((nm, ex))
        if bf:
            crits = []
        if large:
            crits = crits[:1]
        argv = lpcommon.argv_of(na, twopl, pc, stab, crits, rng) + (['-bf'] if bf else [])
        yield dict(ns=ns, seed=rng.randrange(10**6), na=na, twopl=twopl, pc=pc, stab=stab, bf=bf,
                   crits=[[c, x] for c, x in crits], argv=argv)


def run_pipeline(inp):
    g = G.run_generator(inp['ns'], seed=inp['seed'])
    out = dict(gen_code=g['code'], gen_exc=g['exc'], text=None, imp=None, run=None)
    if g['code'] != 0 or not g['files']:
        return out
    text = g['files'][0][1]
    out['text'] = text
    out['imp'] = C.observe(impl.import_snapshot, text, inp['na'], inp['twopl'])
    if inp['bf']:
        out['run'] = dict(bf=C.observe(lambda: impl.solver_run(text, inp['argv'])[0]))
    else:
        out['run'] = lpcommon.lp_run(text, inp['argv'])
    return out


class Pipeline(Relation):
    name = 'M_pipeline'
    kind = 'monitor'
    requires = REQ
    shard = 15
    describe = ('Generator(argv) for all four types (accepted vectors, one file each) -> Solver with -na 2 / -na 3 and '
                '-twopl exactly when generated two-sided, random admissible option sets incl. -stab on two-sided, -pc, '
                '0..3 criteria, or -bf on small ones: the file loads without error, the model importer reads the same '
                'instance (R_import) and it is well-formed with the requested counts, the LP result is judged by the '
                'C01/C02/C05 monitors (valid, status iff feasible, stable under -stab, lexicographically optimal) and the '
                'brute-force result by the C07 specification; one run in ten has 10..12 agents on every side; non-trivial = n1 >= 2')

    def cases(self, ctx):
        return gen_pipeline(ctx, 'pipe', 500 if ctx.thorough else 100)

    def observe(self, inp):
        return run_pipeline(inp)

    def term(self, inp, obs):
        if obs['gen_code'] != 0 or obs['text'] is None:
            return 'false'
        text = obs['text']
        terms = ['m_genfile %s %s' % (G.cgargs(inp['ns']), C.cstr(text))]
        if obs['imp'][0] != 'ok':
            return 'false'
        s = obs['imp'][1]
        enc = '(%s, (%s, %s, %s))' % (impl.cinstance(s), impl.cidlists(s['project_lists']),
                                      impl.cidlists(s['lecturer_lists']), impl.cidlists(s['rank_lists']))
        terms.append('c10_import %s %s %s (Ok %s)' % (C.cstr(text), C.cz(inp['na']), C.cbool(inp['twopl']), enc))
        if inp['bf']:
            r = obs['run']['bf']
            terms.append('c07_spec %s %s %s %s %s' % (C.cstr(text), C.cz(inp['na']), C.cbool(inp['twopl']),
                                                      C.cbool(inp['pc']), C.cresult(r, C.cstr)))
        else:
            r = obs['run']
            if r['exc'] or any(t[0] != 'ok' for t in r['texts']):
                return 'false'
            inp2 = dict(inp, text=text)
            head = lpcommon.head(inp2)
            terms.append('mon_status %s %s' % (head, C.cstr(r['status'])))
            if r['status'] == 'Optimal':
                m = impl.matching_line(r['texts'][0][1])
                if m is None:
                    return 'false'
                terms.append('mon_valid %s %s' % (head, C.czlist(m)))
                terms.append('mon_stable %s %s' % (head, C.czlist(m)))
                terms.append('mon_lex %s %s' % (head, C.czlist(m)))
                if inp['stab'] and 'stability_correct: True' not in r['texts'][0][1]:
                    return 'false'
        return '(' + ' && '.join(terms) + ')'

    def key(self, inp):
        return repr((sorted(inp['ns'].items()), inp['seed'], inp['argv']))

    def signature(self, inp, obs):
        return {'relation': self.name, 'ns': inp['ns'], 'seed': inp['seed'], 'argv': inp['argv']}

    def nontrivial(self, inp, obs):
        return inp['ns']['n1'] >= 2

    def stats(self, inp, obs):
        d = {'mp=' + inp['ns']['mp']: 1, 'bf' if inp['bf'] else 'lp': 1, 'stab' if inp['stab'] else 'no-stab': 1}
        if obs.get('run') and not inp['bf']:
            d['status=' + str(obs['run'].get('status'))] = 1
        return d

    def what(self, inp, obs):
        return 'generator %r seed %d then solver %r' % (inp['ns'], inp['seed'], inp['argv'])


class PipelineCorr(Pipeline):
    name = 'R_pipeline'
    kind = 'corr'
    describe = ('the same generator -> solver runs, compared with the MODEL of the solver on the generated text: the '
                'importer reads the same instance (all attributes and derived lists), every integer program handed to CBC '
                'equals the model\'s (constraints as canonical multisets, objective, bounds) with the recorded answers '
                'replayed, final status and info equal; in -bf mode the text equals the brute-force model\'s; '
                'non-trivial = n1 >= 2')

    def term(self, inp, obs):
        if obs['gen_code'] != 0 or obs['text'] is None or obs['imp'][0] != 'ok':
            return 'false'
        text = obs['text']
        s = obs['imp'][1]
        enc = '(%s, (%s, %s, %s))' % (impl.cinstance(s), impl.cidlists(s['project_lists']),
                                      impl.cidlists(s['lecturer_lists']), impl.cidlists(s['rank_lists']))
        terms = ['c10_import %s %s %s (Ok %s)' % (C.cstr(text), C.cz(inp['na']), C.cbool(inp['twopl']), enc)]
        if inp['bf']:
            r = obs['run']['bf']
            terms.append('c07_bf %s %s %s %s %s' % (C.cstr(text), C.cz(inp['na']), C.cbool(inp['twopl']),
                                                    C.cbool(inp['pc']), C.cresult(r, C.cstr)))
        else:
            r = obs['run']
            snaps = C.clist([recorder.csnap(e) for e in r['snaps']])
            if r['exc']:
                impl_r = '(Crash %s)' % C.cerr(r['exc'][0])
            else:
                impl_r = '(Ok (%s, %s))' % (C.cstr(r['status']), C.cstr(r['info']))
            terms.append('c_lp %s %s %s' % (lpcommon.head(dict(inp, text=text)), snaps, impl_r))
        return '(' + ' && '.join(terms) + ')'

    def what(self, inp, obs):
        return None


RELATIONS = [PipelineCorr(), Pipeline()]
