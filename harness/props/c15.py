"""C15 — the generator accepts every documented argument set and cleanly rejects invalid ones."""
from .. import common as C
from .. import gencommon as G
from ..engine import Relation

REQ = ['Gen.Args', 'Corr.GenCorr']


def gen_cases(ctx, label, n):
    rng = ctx.rng(label)
    for i in range(n):
        mp = G.MPS[i % 4]
        ns = G.legal(rng, mp)
        yield dict(ns=ns, kind='legal', seed=i)
        ps = G.perturb(rng, ns)
        take = ps          # every single-fault perturbation, also in the quick tier (they are cheap)
        for kind, p in take:
            yield dict(ns=p, kind=kind, seed=i)


class Decide(Relation):
    name = 'R_genargs'
    kind = 'corr'
    requires = REQ
    describe = ('Generator(argv) for legal parameter vectors of the four problem types and single-fault perturbations '
                '(one required parameter removed, one inapplicable parameter added, one bound violated), flags shuffled: '
                'accepted / SystemExit(2) / other exception compared with the model; non-trivial = a perturbation')

    def cases(self, ctx):
        return gen_cases(ctx, 'args', 80 if ctx.thorough else 24)

    def observe(self, inp):
        o = G.run_generator(inp['ns'], seed=inp['seed'], shuffle_flags_seed=inp['seed'])
        return dict(code=o['code'], exc=o['exc'], dir_created=o['dir_created'], n_files=len(o['files']), argv=o.get('argv'))

    def term(self, inp, obs):
        return '(c15_decide %s %s)' % (G.cnamespace(inp['ns']), C.cz(obs['code']))

    def diag(self, inp, obs):
        return '(outcome_code (decide %s), documented_ok %s)' % (G.cnamespace(inp['ns']), G.cnamespace(inp['ns']))

    def key(self, inp):
        return repr(sorted(inp['ns'].items(), key=lambda kv: kv[0]))

    def signature(self, inp, obs):
        return {'relation': self.name, 'ns': inp['ns']}

    def nontrivial(self, inp, obs):
        return inp['kind'] != 'legal'

    def stats(self, inp, obs):
        return {'mp=' + inp['ns']['mp']: 1, 'kind=' + inp['kind'].split(':')[0]: 1, 'code=%s' % obs['code']: 1}


class DecideSpec(Decide):
    name = 'M_genargs'
    kind = 'monitor'
    describe = ('same vectors judged by the documented rule (Gen/Args.v documented_ok): accepted sets must generate all '
                'files without error; others must exit with status 2 before any directory or file is written')

    def term(self, inp, obs):
        ok_files = obs['code'] != 0 or obs['n_files'] == inp['ns']['numinst']
        if not ok_files:
            return 'false'
        return '(c15_spec %s %s %s)' % (G.cnamespace(inp['ns']), C.cz(obs['code']), C.cbool(obs['dir_created']))

    def what(self, inp, obs):
        return 'generator arguments %r (%s): outcome %r, directory created: %s' % (
            obs.get('argv'), inp['kind'], obs['exc'] or 'accepted', obs['dir_created'])


class WholeGenerator(Relation):
    name = 'R_generator'
    kind = 'corr'
    requires = ['Gen.Quotas', 'Gen.Files', 'Gen.Args', 'Corr.GenCorr']
    shard = 30
    describe = ('accepted runs of all four types with the random draws recorded: the files written equal, byte for byte, '
                'those of the composed model generator_run (argparse namespace -> decide -> set_defaults -> gargs_of -> '
                'generate) that C15_accepted_generates is about; non-trivial = an optional parameter was left to its default')

    def cases(self, ctx):
        from .c08 import gen_runs
        return gen_runs(ctx, 'c15/generator', 160 if ctx.thorough else 40)

    def observe(self, inp):
        from .c08 import observe_run
        return observe_run(inp)

    def term(self, inp, obs):
        if obs['code'] != 0 or obs['draws'] is None:
            return 'false'
        files = C.clist(['(%s, %s)' % (C.cstr(n), C.cstr(t)) for n, t in obs['files']])
        ds = C.clist([G.cdraws(d) for d in obs['draws']])
        return '(r_generator %s %s %s %s %s)' % (G.cnamespace(inp['ns']), G.cfloatstrs(inp['ns']), G.cgargs(inp['ns']), ds, files)

    def key(self, inp):
        return repr((sorted(inp['ns'].items()), inp['seed']))

    def signature(self, inp, obs):
        return {'relation': self.name, 'ns': inp['ns'], 'seed': inp['seed']}

    def nontrivial(self, inp, obs):
        ns = inp['ns']
        return any(ns.get(f) is None for f in ('t1', 'skew', 'lq'))

    def stats(self, inp, obs):
        ns = inp['ns']
        return {'mp=' + ns['mp']: 1, 'code=%s' % obs['code']: 1}


RELATIONS = [Decide(), DecideSpec(), WholeGenerator()]
