"""C16 — criteria run in position order; invalid solver option sets are refused."""
from .. import common as C
from .. import impl, instgen, lpcommon, recorder
from ..engine import Relation

REQ = lpcommon.REQ + ['Opts.SolverOpts', 'Corr.C16Corr']
ORDER = ['maxsize', 'minsize', 'gen', 'gre', 'mincost', 'minsqcost', 'lmb', 'lsb', 'mincostlsb']
SHORT = {v: k for k, v in lpcommon.LONG.items()}
ENUM = {'MAXSIZE': 'MaxSize', 'MINSIZE': 'MinSize', 'GENEROUS': 'Generous', 'GREEDY': 'Greedy', 'MINCOST': 'MinCost',
        'MINSQCOST': 'MinSqCost', 'LOADMAXBAL': 'LoadMaxBal', 'LOADSUMBAL': 'LoadSumBal', 'MINCOSTLSB': 'MinCostLsb'}


def gen_ns(rng, valid_bias=0.5):
    """positions: absent, or any integer around 1..9; extras for the list-type options."""
    ns = {}
    want_valid = rng.random() < valid_bias
    free = list(range(1, 10))
    rng.shuffle(free)
    for name in ORDER:
        if rng.random() < 0.55:
            continue
        if want_valid:
            pos = free.pop()
        else:
            pos = rng.choice([-1, 0, 1, 1, 2, 2, 3, 4, 5, 6, 7, 8, 9, 9, 10, 11])
        extras = []
        if name in lpcommon.LISTY:
            extras = [rng.randint(0, 4) for _ in range(rng.choice([0, 0, 1, 2, 3]))]
            if rng.random() < 0.25:
                # negative extra arguments are plain integers for argparse; the same negative number may occur twice
                extras = [rng.choice([-1, -1, -2]) for _ in extras] or extras
        ns[name] = [pos] + extras
    return ns


def argv_from_ns(ns, twopl, stab, rng, na=2, extra=()):
    flags = [[lpcommon.LONG['-' + k] if rng.random() < 0.25 else '-' + k] + [str(v) for v in vals] for k, vals in ns.items()]
    if twopl:
        flags.append(['-twopl'])
    if stab:
        flags.append(['-stab'])
    flags.append(['-na', str(na)])
    for e in extra:
        flags.append(list(e))
    rng.shuffle(flags)
    return [x for f in flags for x in f]


def cns(ns):
    return C.clist([C.copt(ns.get(k), C.czlist) for k in ORDER])


def ccrits(lst):
    return C.clist(['(%s, %s)' % (c, C.czlist(x)) for c, x in lst])


def gen_cases(ctx, label, n):
    rng = ctx.rng(label)
    for i in range(n):
        ns = gen_ns(rng)
        twopl = rng.random() < 0.6
        stab = rng.random() < 0.3
        yield dict(ns=ns, twopl=twopl, stab=stab, argv=argv_from_ns(ns, twopl, stab, rng))


class Opts(Relation):
    name = 'R_opts'
    kind = 'corr'
    requires = REQ
    describe = ('Options_parser().parse(argv): each of the nine criteria absent or at a position drawn from -1..11 '
                '(half of the cases forced to distinct in-range positions), random extra arguments for the list-type '
                'options, -twopl/-stab random, flags shuffled; the ordered (criterion, extras) list or SystemExit(2) '
                'compared with the model; non-trivial = at least two criteria present')

    def cases(self, ctx):
        return gen_cases(ctx, self.name, 3000 if ctx.thorough else 500)

    def observe(self, inp):
        from matchingproblems.solver.options_parser import Options_parser
        import io, contextlib

        def f():
            op = Options_parser()
            with contextlib.redirect_stderr(io.StringIO()):
                op.parse(['-f', 'nofile.txt'] + inp['argv'])
            return [[ENUM[o.name], list(x) if x is not None else []] for o, x in op.optimisation_options]
        return C.observe(f)

    def term(self, inp, obs):
        return '(c16_opts %s %s %s %s)' % (cns(inp['ns']), C.cbool(inp['twopl']), C.cbool(inp['stab']),
                                          C.cresult(obs, ccrits))

    def diag(self, inp, obs):
        return '(parse_ns %s %s %s, parse_spec %s %s %s)' % ((cns(inp['ns']), C.cbool(inp['twopl']), C.cbool(inp['stab'])) * 2)

    def nontrivial(self, inp, obs):
        return len(inp['ns']) >= 2

    def stats(self, inp, obs):
        return {'outcome=' + (obs[0] if obs[0] == 'ok' else obs[1]): 1, 'n=%d' % len(inp['ns']): 1}

    def shrink(self, inp):
        for k in list(inp['ns'].keys()):
            n2 = dict(inp['ns'])
            del n2[k]
            import random
            yield dict(inp, ns=n2, argv=argv_from_ns(n2, inp['twopl'], inp['stab'], random.Random(0)))


class OptsSpec(Opts):
    name = 'M_opts'
    kind = 'monitor'
    describe = ('same generator; the result must be the requested criteria in increasing order of position with their '
                'extras, or SystemExit(2) exactly when a position is outside 1..9, two criteria share a position, or -stab '
                'comes without -twopl (Opts/SolverOpts.v parse_spec)')

    def term(self, inp, obs):
        return '(c16_spec %s %s %s %s)' % (cns(inp['ns']), C.cbool(inp['twopl']), C.cbool(inp['stab']),
                                          C.cresult(obs, ccrits))

    def what(self, inp, obs):
        return 'option set %r: parser gives %r' % (inp['argv'], obs[1] if obs[0] == 'ok' else obs[1])


class Refuse(Opts):
    name = 'M_refuse'
    kind = 'monitor'
    describe = ('Solver(["-f", <missing file>] + argv): SystemExit(2) exactly for unacceptable option sets and '
                'FileNotFoundError otherwise, i.e. the refusal happens before the instance is read; every third option set also '
                'with -bf and/or -pc')

    def cases(self, ctx):
        rng = ctx.rng(self.name + '/modes')
        for k, c in enumerate(gen_cases(ctx, self.name, 600 if ctx.thorough else 150)):
            yield c
            if k % 3 == 0:
                # the same option set in the other modes (brute force, project closures): the refusal rule is the same
                extra = [['-bf'], ['-pc'], ['-bf', '-pc']][(k // 3) % 3]
                # (inserted only in front of another flag, never between a flag and its values)
                yield dict(c, argv=self.safe_insert(c['argv'], extra, rng))

    @staticmethod
    def safe_insert(argv, extra, rng):
        out = list(argv)
        for e in extra:
            spots = [i for i, a in enumerate(out) if a.startswith('-') and not a[1:].lstrip('-').isdigit()] + [len(out)]
            out.insert(rng.choice(spots), e)
        return out

    def observe(self, inp):
        from matchingproblems.solver.solver import Solver
        import io, contextlib

        def f():
            with contextlib.redirect_stderr(io.StringIO()):
                Solver(['-f', '/nonexistent/dir/inst.txt'] + inp['argv'])
            return 'constructed'
        return C.observe(f)

    def term(self, inp, obs):
        is_exit = obs[0] == 'exc' and obs[1] == 'SystemExit' and obs[2] == '2'
        is_missing = obs[0] == 'exc' and obs[1] == 'FileNotFoundError'
        return '(c16_refuse %s %s %s %s %s)' % (cns(inp['ns']), C.cbool(inp['twopl']), C.cbool(inp['stab']),
                                               C.cbool(is_exit), C.cbool(is_missing))

    def what(self, inp, obs):
        return 'Solver with a missing file and option set %r: %r' % (inp['argv'], obs[1:])


class Main(Relation):
    name = 'R_main'
    kind = 'corr'
    requires = REQ + ['Run.Main']
    shard = 40
    describe = ('Solver(["-f", file] + argv) as a whole against Run/Main.v solver_new: option sets as in R_opts (valid and '
                'invalid, with -pc / -bf), the file absent, well-formed (random instances) or malformed; outcome class '
                '(constructed / SystemExit(2) / FileNotFoundError / other exception), and for a constructed Solver its '
                'ordered criteria and the text of get_debug() before any solve; non-trivial = constructed with >= 2 criteria')

    MALFORMED = ['', '2\n1: 1\n', '1 1\n1: 2\n1: 0: 1:\n', '1 1\n1: x\n1: 0: 1:\n']

    def cases(self, ctx):
        rng = ctx.rng(self.name)
        for i in range(900 if ctx.thorough else 150):
            ns = gen_ns(rng, valid_bias=0.7)
            ast = instgen.gen_ast(rng)
            twopl = rng.random() < 0.6
            stab = rng.random() < 0.25
            pc, bf = rng.random() < 0.3, rng.random() < 0.2
            kind = rng.choice(['ok', 'ok', 'ok', 'missing', 'malformed'])
            text = instgen.render(ast) if kind == 'ok' else (None if kind == 'missing' else rng.choice(self.MALFORMED))
            extra = ([['-pc']] if pc else []) + ([['-bf']] if bf else [])
            yield dict(ns=ns, twopl=twopl, stab=stab, pc=pc, bf=bf, na=ast['na'], text=text, kind=kind,
                       argv=argv_from_ns(ns, twopl, stab, rng, na=ast['na'], extra=extra))

    def observe(self, inp):
        from matchingproblems.solver.solver import Solver
        import io, contextlib

        def f():
            def build(path):
                with contextlib.redirect_stderr(io.StringIO()):
                    return Solver(['-f', path] + inp['argv'])
            if inp['text'] is None:
                s = build('/nonexistent/dir/inst.txt')
            else:
                with impl.tmpfile(inp['text']) as path:
                    s = build(path)
            crits = [[ENUM[o.name], list(x) if x is not None else []] for o, x in s.options_parser.optimisation_options]
            return [crits, s.get_debug()]
        return C.observe(f)

    def term(self, inp, obs):
        if obs[0] == 'ok':
            cls, crits, dbg = 0, obs[1][0], obs[1][1]
        else:
            cls = 2 if (obs[1] == 'SystemExit' and obs[2] == '2') else 3 if obs[1] == 'FileNotFoundError' else 1
            crits, dbg = [], ''
        cli = '(mkCli %s %s %s %s %s %s)' % (cns(inp['ns']), C.cz(inp['na']), C.cbool(inp['twopl']), C.cbool(inp['stab']),
                                             C.cbool(inp['pc']), C.cbool(inp['bf']))
        return '(c16_main %s %s %s %s %s)' % (cli, C.copt(inp['text'], C.cstr), C.cz(cls), ccrits(crits), C.cstr(dbg))

    def key(self, inp):
        return repr((sorted(inp['ns'].items()), inp['argv'], inp['text']))

    def signature(self, inp, obs):
        return {'relation': self.name, 'argv': inp['argv'], 'text': inp['text']}

    def nontrivial(self, inp, obs):
        return obs[0] == 'ok' and len(inp['ns']) >= 2

    def stats(self, inp, obs):
        return {'file=' + inp['kind']: 1, 'outcome=' + (obs[0] if obs[0] == 'ok' else obs[1]): 1}


class Info(lpcommon.LPRelation):
    name = 'M_info'
    kind = 'monitor'
    requires = REQ
    n_quick = 120
    n_thorough = 800
    describe = ('full runs with 2..4 criteria at shuffled flag positions with gaps: the "- optimisation:" lines of the '
                'results must be a prefix of the criteria in position order and the whole list when the run ended Optimal')

    def cases(self, ctx):
        rng = ctx.rng(self.name)
        n = self.n_thorough if ctx.thorough else self.n_quick
        for inp in lpcommon.gen_lp_cases(ctx, self.name, n, n_crits=None):
            if len(inp['crits']) >= 2:
                yield inp

    def term(self, inp, obs):
        if obs['exc'] or not obs['texts'] or obs['texts'][0][0] != 'ok':
            return 'false'
        # namespace as requested on the command line
        ns = {}
        argv = inp['argv']
        i = 0
        while i < len(argv):
            a = SHORT.get(argv[i], argv[i])          # the long spellings name the same options
            if a.startswith('-') and a[1:] in ORDER:
                j = i + 1
                vals = []
                while j < len(argv) and not (argv[j].startswith('-') and not argv[j][1:].isdigit()):
                    vals.append(int(argv[j]))
                    j += 1
                ns[a[1:]] = vals
                i = j
            else:
                i += 1
        return '(c16_info %s %s %s %s %s %s %s)' % (
            C.cstr(inp['text']), C.cz(inp['na']), cns(ns), C.cbool(inp['twopl']), C.cbool(inp['stab']),
            C.cbool(obs['status'] == 'Optimal'), C.cstr(obs['texts'][0][1]))

    def what(self, inp, obs):
        return 'optimisation lines of the results are not the criteria in position order for %r' % (inp['argv'],)


def cost_mix(rng):
    """criteria lists in which cost criteria with and without extra arguments follow each other"""
    k = rng.choice([2, 2, 3, 3, 4])
    pool = ['mincost', 'minsqcost', 'mincostlsb', 'mincost', 'minsqcost', 'maxsize', 'gen', 'gre', 'lsb']
    out = []
    while len(out) < k:
        c = rng.choice(pool)
        if c not in out:
            out.append(c)
    return out


class RLpExtras(lpcommon.RLp):
    """extra arguments stay with their criterion: the problems built for each criterion use its own arguments"""
    gen_kwargs = dict(crit_names=cost_mix)
    n_quick = 110
    describe = (lpcommon.RLp.describe + '; here: 2-4 criteria per run, cost criteria with and without extra arguments '
                'following each other (in one run and in successive Solver objects of the same process)')


class MLexExtras(lpcommon.MLex):
    gen_kwargs = dict(crit_names=cost_mix)
    n_quick = 110
    describe = (lpcommon.MLex.describe + '; here: cost criteria with and without extra arguments following each other: '
                'each criterion must be optimised with ITS OWN arguments (documented defaults when it has none)')


RELATIONS = [Opts(), OptsSpec(), Refuse(), Main(), Info(), RLpExtras(), MLexExtras()]
