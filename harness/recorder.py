"""Recording (and fault-injecting) the implementation's use of PuLP from outside the repository.

pulp.LpProblem.solve is wrapped: before delegating to CBC the problem is snapshotted with its variables
identified by ROLE (pair.lp_var / alpha_var / beta_var, model.project_closures[j], model.abs_lec_diff[k];
every other variable is an objective variable, numbered in order of first appearance), after it returns
the status and all varValues are snapshotted.  A fault plan can replace the delegate's outcome."""
import contextlib

import pulp

from . import common as C

STATUS_CODE = {'Optimal': 1, 'Not Solved': 0, 'Infeasible': -1, 'Unbounded': -2, 'Undefined': -3}


class Recorder:
    def __init__(self, solver_obj, faults=None, on_solve=None):
        self.solver_obj = solver_obj          # matchingproblems Solver (its .model gives the roles)
        self.faults = faults or {}            # k -> dict(kind=..., ...)
        self.on_solve = on_solve              # callback(k) e.g. to advance a scripted clock
        self.solves = []
        self.obj_ids = {}                     # id(var) -> n
        self.keep = []                        # strong references (ids must not be reused)
        self.nonintegral = 0

    # ---- roles ------------------------------------------------------------
    def roles(self):
        m = self.solver_obj.model
        r = {}
        for row in m.pairs:
            for p in row:
                if hasattr(p, 'lp_var'):
                    r[id(p.lp_var)] = ('X', p.studentID, p.projectID)
                if hasattr(p, 'alpha_var'):
                    r[id(p.alpha_var)] = ('Alpha', p.studentID, p.projectID)
                if hasattr(p, 'beta_var'):
                    r[id(p.beta_var)] = ('Beta', p.studentID, p.projectID)
        for j, v in enumerate(getattr(m, 'project_closures', []) or []):
            r[id(v)] = ('Closure', j + 1)
        for k, v in enumerate(getattr(m, 'abs_lec_diff', []) or []):
            r[id(v)] = ('AbsDiff', k + 1)
        return r

    def role_of(self, v, roles):
        if id(v) in roles:
            return roles[id(v)]
        if id(v) not in self.obj_ids:
            self.obj_ids[id(v)] = len(self.obj_ids)
            self.keep.append(v)
        return ('Obj', self.obj_ids[id(v)])

    def lin(self, expr, roles):
        out = []
        for v, c in expr.items():
            if v.name == '__dummy':
                continue
            out.append([self.coef(c), list(self.role_of(v, roles))])
        return out

    def coef(self, x):
        """a coefficient of the problem as posed (not a value that came back from the back end): the model's are all
        integers, a fractional one never matches it"""
        if x is None or abs(x - round(x)) > 1e-9:
            return -999999
        return int(round(x))

    def intval(self, x):
        if x is None:
            return None
        r = round(x)
        if abs(x - r) > 1e-6:
            # only seen after a failed solve (the back end leaves garbage behind); the code treats a value as set
            # when it exceeds 0.9, so the integer handed to the model is the one with the same reading
            self.nonintegral += 1
            import math
            return int(math.floor(x + 0.1))
        return int(r)

    def snapshot(self, prob):
        roles = self.roles()
        # objective first, so that a new objective variable is numbered by creation order
        ob = prob.objective
        if ob is None:
            objective = []
        elif isinstance(ob, pulp.LpVariable):      # MAXIMISE assigns the variable itself
            objective = [[1, list(self.role_of(ob, roles))]]
        else:
            objective = self.lin(ob, roles)
        # the model's problems are always maximisations: a minimised objective is recorded negated
        if prob.sense == pulp.LpMinimize:
            objective = [[-c, v] for c, v in objective]
        cs = []
        for name, c in prob.constraints.items():
            rel = {1: 'GE', -1: 'LE', 0: 'EQ'}[c.sense]
            cs.append([self.lin(c, roles), rel, self.intval(-c.constant)])
        # new objective variables that only occur in constraints (never happens today) get numbered here
        vs = [v for v in prob.variables() if v.name != '__dummy']
        bounds = []
        names = []
        for v in vs:
            role = self.role_of(v, roles)
            lo = v.lowBound
            hi = v.upBound
            bounds.append([list(role), [None if lo is None else self.intval(lo), None if hi is None else self.intval(hi)],
                           v.cat])
            names.append(v.name)
        return dict(cs=cs, objective=objective, bounds=bounds, dup_names=(len(set(names)) != len(names)),
                    n_vars=len(vs))

    def answer(self, prob):
        roles = self.roles()
        vals = []
        for v in prob.variables():
            if v.name == '__dummy':
                continue
            if v.varValue is not None:
                vals.append([list(self.role_of(v, roles)), self.intval(v.varValue)])
        return dict(status=pulp.LpStatus[prob.status], vals=vals)

    # ---- the wrapper ------------------------------------------------------
    def make_wrapper(self, orig):
        rec = self

        def solve(prob, solver=None, **kw):
            k = len(rec.solves)
            snap = rec.snapshot(prob)
            # the time limit the back end is really given for this solve (PULP_CBC_CMD(timeLimit=...))
            be = solver if solver is not None else getattr(prob, 'solver', None)
            blim = getattr(be, 'timeLimit', None)
            entry = dict(problem=snap, answer=None, fault=None,
                         backend_limit=(None if blim is None else float(blim)),
                         backend_plain=backend_plain(be))
            rec.solves.append(entry)
            fault = rec.faults.get(k)
            if fault is None and 'from' in rec.faults and k >= rec.faults['from']['k']:
                fault = rec.faults['from']
            if rec.on_solve:
                rec.on_solve(k, fault, entry['backend_limit'])
            # the real back end must not be cut short by the WALL clock (a loaded machine would make the run depend on
            # timing): the limit it was given is recorded above, time is scripted, limit stops are injected as faults
            had_limit = be is not None and hasattr(be, 'timeLimit')
            saved_limit = getattr(be, 'timeLimit', None)
            if had_limit:
                be.timeLimit = None
            try:
                if fault is None:
                    st = orig(prob, solver, **kw)
                else:
                    entry['fault'] = fault
                    st = rec.apply_fault(prob, solver, fault, orig, kw)
            finally:
                if had_limit:
                    be.timeLimit = saved_limit
            entry['answer'] = rec.answer(prob)
            return st
        return solve

    def apply_fault(self, prob, solver, fault, orig, kw):
        kind = fault['kind']
        if kind == 'incumbent':
            # a time-limit stop with an incumbent: PuLP reports Optimal, values are feasible but the
            # objective is not proven optimal.
            saved = prob.objective
            if saved is None or (not isinstance(saved, pulp.LpVariable) and len(saved) == 0):
                return orig(prob, solver, **kw)          # nothing to be sub-optimal about
            # Realised by optimising the opposite objective: a feasible point, in general not optimal.
            prob.objective = -1 * saved
            try:
                st = orig(prob, solver, **kw)
            finally:
                # PuLP's own solve leaves an expression here, never the bare variable
                prob.objective = pulp.LpAffineExpression(saved) if isinstance(saved, pulp.LpVariable) else saved
            # the objective variable (if any) takes whatever feasible value CBC chose
            return st
        code = STATUS_CODE[kind]
        if fault.get('run_backend', True) and kind in ('Infeasible', 'Undefined'):
            # back ends leave (garbage) values behind for these outcomes
            try:
                orig(prob, solver, **kw)
            except Exception:
                pass
        prob.status = code
        try:
            prob.assignStatus(code)
        except Exception:
            pass
        return code


@contextlib.contextmanager
def recording(solver_obj, faults=None, on_solve=None):
    rec = Recorder(solver_obj, faults, on_solve)
    orig = pulp.LpProblem.solve
    pulp.LpProblem.solve = rec.make_wrapper(orig)
    try:
        yield rec
    finally:
        pulp.LpProblem.solve = orig


# ---- Coq encoders ----------------------------------------------------------------------

def backend_plain(be):
    """The model's oracle is an exact MILP solve of the problem handed over, nothing else.  Besides the problem, the
    message switch, the caller's time limit and the caller's thread count, the back end must therefore be configured
    plainly: integer mode, no start solution taken from an earlier solve, no optimality gap, no extra options."""
    if be is None:
        return True
    od = getattr(be, 'optionsDict', None) or {}
    return bool(getattr(be, 'mip', True)) and not od.get('warmStart') and od.get('gapRel') is None \
        and od.get('gapAbs') is None and not od.get('maxNodes') and not (getattr(be, 'options', None) or [])


def cvar(r):
    kind = r[0]
    if kind == 'Obj':
        return '(Obj %s)' % C.cnat(r[1])
    if kind in ('Closure', 'AbsDiff'):
        return '(%s %s)' % (kind, C.cz(r[1]))
    return '(%s %s %s)' % (kind, C.cz(r[1]), C.cz(r[2]))


def clin(l):
    return C.clist(['(%s, %s)' % (C.cz(c), cvar(v)) for c, v in l])


def cconstr(c):
    return '(mkC %s %s %s)' % (clin(c[0]), c[1], C.cz(c[2]))


def canswer(a):
    st = {'Optimal': 'Optimal', 'Infeasible': 'Infeasible', 'Unbounded': 'Unbounded', 'Undefined': 'Undefined',
          'Not Solved': 'NotSolved'}[a['status']]
    return '(mkAns %s %s)' % (st, C.clist(['(%s, %s)' % (cvar(v), C.cz(z)) for v, z in a['vals']]))


def csnap(e):
    p = e['problem']
    a = e['answer'] or dict(status='Not Solved', vals=[])
    bounds = []
    for role, (lo, hi), cat in p['bounds']:
        if lo is None or hi is None or cat != 'Integer':
            lo, hi = -999999, -999999      # an unbounded or non-integer variable never matches the model
        bounds.append('(%s, (%s, %s))' % (cvar(role), C.cz(lo), C.cz(hi)))
    return '(mkSnap %s %s %s %s %s)' % (C.clist([cconstr(c) for c in p['cs']]), clin(p['objective']),
                                        C.clist(bounds), C.cbool(p['dup_names']), canswer(a))


CRITS = {'maxsize': 'MaxSize', 'minsize': 'MinSize', 'gen': 'Generous', 'gre': 'Greedy', 'mincost': 'MinCost',
         'minsqcost': 'MinSqCost', 'lmb': 'LoadMaxBal', 'lsb': 'LoadSumBal', 'mincostlsb': 'MinCostLsb'}


def copts(pc, stab, crits):
    """crits: ordered list of (flag name, [extras])"""
    return '(mkOpts %s %s %s)' % (C.cbool(pc), C.cbool(stab),
                                  C.clist(['(%s, %s)' % (CRITS[c], C.czlist(x)) for c, x in crits]))
