"""The decision procedure of one check (DESIGN.md section 1.1)."""
import glob
import json
import os
import random
import shutil
import sys
import time
import traceback

from . import common as C


class Ctx:
    def __init__(self, prop_id, tier, seed, search=False):
        self.prop_id = prop_id
        self.tier = tier
        self.seed = seed
        self.search = search

    def rng(self, label):
        return random.Random('%s/%s/%s/%s' % (self.seed, self.prop_id, label, int(self.search)))

    @property
    def thorough(self):
        return self.tier == 'thorough' or self.search


class Relation:
    """One named correspondence (model vs implementation) or monitor (proved spec vs implementation)."""
    name = 'R'
    kind = 'corr'          # 'corr' | 'monitor'
    requires = []          # Coq modules (under MP.) the case terms need
    describe = ''
    shard = None

    def cases(self, ctx):
        return []

    def observe(self, inp):
        raise NotImplementedError

    def term(self, inp, obs):
        raise NotImplementedError

    def diag(self, inp, obs):
        return None

    def nontrivial(self, inp, obs):
        return True

    def key(self, inp):
        return json.dumps(inp, sort_keys=True, default=str)

    def signature(self, inp, obs):
        return {'relation': self.name, 'input': inp}

    def stats(self, inp, obs):
        return {}

    def shrink(self, inp):
        return []

    def what(self, inp, obs):
        return '%s fails on %s' % (self.name, json.dumps(inp, default=str)[:300])


def _corpus(prop_id, relname):
    out = []
    for p in sorted(glob.glob(os.path.join(C.VERIF, 'corpus', prop_id, '*.json'))):
        try:
            d = json.load(open(p))
        except Exception:
            continue
        items = d if isinstance(d, list) else [d]
        for it in items:
            if it.get('relation') == relname:
                out.append(it['input'])
    return out


def run_relation(rel, ctx, runner, extra_inputs=()):
    """Returns dict with counts, failures [(inp, obs)], error."""
    t0 = time.time()
    inputs = list(extra_inputs)
    n_corpus = len(inputs)
    inputs.extend(rel.cases(ctx))
    obs_list = []
    terms = []
    keys = set()
    nontrivial_keys = set()
    stats = {}
    for inp in inputs:
        obs = rel.observe(inp)
        obs_list.append(obs)
        terms.append(rel.term(inp, obs))
        k = rel.key(inp)
        keys.add(k)
        if rel.nontrivial(inp, obs):
            nontrivial_keys.add(k)
        for lab, inc in rel.stats(inp, obs).items():
            stats[lab] = stats.get(lab, 0) + inc
    failing, err = runner.run_cases(rel.name, rel.requires, terms, shard=rel.shard)
    fails = [(inputs[i], obs_list[i]) for i in failing]
    return dict(name=rel.name, kind=rel.kind, evaluations=len(inputs), corpus=n_corpus,
                distinct=len(keys), distinct_nontrivial=len(nontrivial_keys), stats=stats,
                failures=fails, error=err, wall_s=round(time.time() - t0, 2),
                samples=[dict(input=_trim(inputs[i]), observed=_trim(obs_list[i])) for i in _sample_idx(len(inputs))])


def _trim(x, limit=1800):
    """samples are for a reader: keep them readable"""
    t = json.dumps(x, default=str)
    return x if len(t) <= limit else t[:limit] + ' ...(truncated)'


def _sample_idx(n):
    if n == 0:
        return []
    return sorted(set([0, n // 2, n - 1]))[:3]


def _still_fails(rel, inp, runner):
    obs = rel.observe(inp)
    failing, err = runner.run_cases(rel.name + '_shrink', rel.requires, [rel.term(inp, obs)])
    return (bool(failing) and err is None), obs


def shrink(rel, inp, obs, runner, budget=60):
    cur, cur_obs = inp, obs
    steps = 0
    improved = True
    while improved and steps < budget:
        improved = False
        for cand in rel.shrink(cur):
            steps += 1
            if steps > budget:
                break
            try:
                bad, o = _still_fails(rel, cand, runner)
            except Exception:
                continue
            if bad:
                cur, cur_obs = cand, o
                improved = True
                break
    return cur, cur_obs


def main(prop_id, relations, argv, level_note=''):
    import argparse
    ap = argparse.ArgumentParser()
    ap.add_argument('--tier', default=os.environ.get('VERIF_TIER', 'quick'))
    ap.add_argument('--replay', default=None)
    ap.add_argument('--seed', default=os.environ.get('VERIF_SEED', '0'))
    args = ap.parse_args(argv)
    tier = 'thorough' if args.tier == 'thorough' else 'quick'
    try:
        seed = int(args.seed)
    except ValueError:
        seed = 0
    C.setup_repo_path()
    wd = C.workdir(prop_id)
    try:
        if args.replay:
            rc = replay(prop_id, relations, args.replay, wd)
        else:
            rc = decide(prop_id, relations, tier, seed, wd)
    finally:
        shutil.rmtree(wd, ignore_errors=True)
    return rc


def replay(prop_id, relations, path, wd):
    d = json.load(open(path))
    runner = C.CoqRunner(wd)
    rels = {r.name: r for r in relations}
    if d.get('kind') == 'no-failing-input-found' and 'input' not in d:
        print('replay names a broken obligation only: %s' % d.get('broken'))
        return 1
    rel = rels.get(d.get('relation'))
    if rel is None:
        print('unknown relation %r in replay' % d.get('relation'))
        return 2
    obs = rel.observe(d['input'])
    failing, err = runner.run_cases(rel.name, rel.requires, [rel.term(d['input'], obs)])
    print('relation:', rel.name)
    print('input:', json.dumps(d['input'], default=str)[:2000])
    print('observed:', json.dumps(obs, default=str)[:2000])
    if err:
        print('coq error:', err)
        return 2
    if failing:
        dg = rel.diag(d['input'], obs)
        if dg:
            print('model/spec says:', runner.eval(rel.requires, dg))
        print('VIOLATION property=%s replay=%s' % (prop_id, path))
        return 1
    print('holds on this input now')
    return 0


def decide(prop_id, relations, tier, seed, wd):
    t0 = time.time()
    for old in glob.glob(os.path.join(C.OUTROOT, 'replays', prop_id + '_*.json')):
        os.unlink(old)
    ctx = Ctx(prop_id, tier, seed)
    runner = C.CoqRunner(wd)
    known = [k for k in C.load_known() if k.get('property') == prop_id and k.get('status') == 'known']
    known_sigs = {C.sig_hash(k['signature']): k for k in known}

    broken = []          # names of theorems / relations that no longer check
    built, build_log = C.coq_build(clean=False)
    if not built:
        broken.append('the Coq development does not build: ' + build_log[-1500:])
    if tier == 'thorough':
        ok_clean, clean_log = C.clean_build_copy(prop_id)
        if not ok_clean:
            broken.append('the Coq development does not build from clean: ' + clean_log[-1500:])
    obl = C.check_obligations(prop_id, thorough=(tier == 'thorough'))
    if not obl['ok']:
        broken.append('proof obligations of Props/%s.v (%d/%d discharged): %s'
                      % (prop_id, obl['discharged'], obl['obligations'], obl['log'][-1500:]))

    results = []
    concrete = []        # (rel, inp, obs) failing on the implementation, judged by a monitor
    corr_fail = []
    for rel in relations:
        try:
            r = run_relation(rel, ctx, runner, _corpus(prop_id, rel.name))
        except Exception:
            r = dict(name=rel.name, kind=rel.kind, evaluations=0, corpus=0, distinct=0, distinct_nontrivial=0,
                     stats={}, failures=[], error='harness exception:\n' + traceback.format_exc()[-3000:],
                     wall_s=0, samples=[])
        results.append(r)
        if r['error']:
            broken.append('relation %s could not be evaluated: %s' % (rel.name, r['error'][-1500:]))
        for inp, obs in r['failures']:
            if rel.kind == 'monitor':
                concrete.append((rel, inp, obs))
            else:
                corr_fail.append((rel, inp, obs))
        if r['failures'] and rel.kind == 'corr':
            broken.append('correspondence %s: model and implementation differ on %d of %d cases'
                          % (rel.name, len(r['failures']), r['evaluations']))

    # failing-input search when a proof obligation or a correspondence broke and no monitor fired
    searched = 0
    if broken and not concrete:
        sctx = Ctx(prop_id, tier, seed, search=True)
        for rel in relations:
            if rel.kind != 'monitor':
                continue
            try:
                r = run_relation(rel, sctx, runner)
            except Exception:
                continue
            searched += r['evaluations']
            for inp, obs in r['failures']:
                concrete.append((rel, inp, obs))
            if concrete:
                break

    lines = []
    n_viol = 0
    reported = set()
    for rel, inp, obs in concrete:
        try:
            inp2, obs2 = shrink(rel, inp, obs, runner)
        except Exception:
            inp2, obs2 = inp, obs
        sig = rel.signature(inp2, obs2)
        h = C.sig_hash(sig)
        h0 = C.sig_hash(rel.signature(inp, obs))
        k = known_sigs.get(h) or known_sigs.get(h0)
        if k is not None:
            line = 'KNOWN-FINDING: property=%s %s' % (prop_id, k.get('what', rel.what(inp2, obs2)))
            if line not in reported:
                reported.add(line)
                lines.append(line)
            continue
        if h in reported:
            continue
        reported.add(h)
        n_viol += 1
        dg = None
        try:
            t = rel.diag(inp2, obs2)
            if t:
                dg = runner.eval(rel.requires, t)
        except Exception:
            pass
        path = C.write_replay(prop_id, '%s_%s' % (rel.name, h), dict(
            property=prop_id, kind='failing-input', relation=rel.name, input=inp2, observed=obs2,
            original_input=inp, spec_or_model_says=dg, what=rel.what(inp2, obs2),
            broken=broken, how_to_rerun='./check %s --replay <this file>' % prop_id))
        lines.append('VIOLATION property=%s replay=%s' % (prop_id, path))
        if n_viol >= 3:
            break

    if broken and n_viol == 0:
        n_viol += 1
        first = None
        if corr_fail:
            rel, inp, obs = corr_fail[0]
            dg = None
            try:
                t = rel.diag(inp, obs)
                if t:
                    dg = runner.eval(rel.requires, t)
            except Exception:
                pass
            first = dict(relation=rel.name, input=inp, observed=obs, model_says=dg)
        payload = dict(property=prop_id, kind='no-failing-input-found', broken=broken,
                       first_differing_case=first, searched_cases=searched,
                       how_to_rerun='./check %s --tier %s' % (prop_id, tier))
        if first:
            payload.update(relation=first['relation'], input=first['input'])
        path = C.write_replay(prop_id, 'unproved', payload)
        lines.append('VIOLATION property=%s replay=%s no-failing-input-found' % (prop_id, path))

    evals = sum(r['evaluations'] for r in results)
    dn = sum(r['distinct_nontrivial'] for r in results)
    samples = []
    for r in results:
        for s in r['samples'][:2]:
            samples.append(dict(relation=r['name'], **s))
    coverage = dict(
        obligations=obl['obligations'], discharged=obl['discharged'],
        checker_cmd='cd /verif/coq && make && coqc -Q theories MP theories/Props/%s.v  (Print Assumptions)%s'
                    % (prop_id, '; coqchk -o MP.Props.%s' % prop_id if tier == 'thorough' else ''),
        trusted_base=C.TRUSTED_BASE + obl['assumptions'],
        theorems=obl['theorems'],
        evaluations=evals, distinct_nontrivial=dn,
        rule='per relation: distinct = distinct canonical inputs; non-trivial by the relation\'s own rule '
             '(see relations[].nontrivial_rule)',
        relations=[dict(name=r['name'], kind=r['kind'], evaluations=r['evaluations'], corpus_cases=r['corpus'],
                        distinct=r['distinct'], distinct_nontrivial=r['distinct_nontrivial'],
                        differing=len(r['failures']), distribution=r['stats'], wall_s=r['wall_s'],
                        nontrivial_rule=getattr(next(x for x in relations if x.name == r['name']), 'describe', ''),
                        error=r['error']) for r in results],
        samples=samples[:12], searched_cases=searched, broken=broken,
        exhaustive=False)
    if 'coqchk' in obl:
        coverage['coqchk_output'] = obl['coqchk']
    C.write_evidence(prop_id, tier, seed, coverage, time.time() - t0, n_viol)
    for b in broken:
        print('BROKEN: ' + ' '.join(b.split())[:400])
    for l in lines:
        print(l)
    print('%s tier=%s obligations=%d/%d relations=%d evaluations=%d violations=%d wall=%.1fs'
          % (prop_id, tier, obl['discharged'], obl['obligations'], len(results), evals, n_viol, time.time() - t0))
    return 1 if n_viol else 0
