import importlib
import sys

from . import engine


def main():
    if len(sys.argv) < 2:
        print('usage: ./check CNN [--tier quick|thorough] [--replay file]')
        return 2
    pid = sys.argv[1].upper()
    mod = importlib.import_module('harness.props.' + pid.lower())
    return engine.main(pid, mod.RELATIONS, sys.argv[2:])


if __name__ == '__main__':
    sys.exit(main())
