"""Shared by C01..C05 (and C14/C16/C18): option-set generator, recorded solver runs, R_lp and the monitors."""
import os
import itertools

from . import common as C
from . import impl, instgen, recorder
from .engine import Relation

REQ = ['Text.Import', 'LP.Run', 'Spec.Optimum', 'Corr.LPCorr', 'Corr.LPMon']

SCALAR = ['maxsize', 'minsize', 'lmb', 'lsb']
LISTY = ['gen', 'gre', 'mincost', 'minsqcost', 'mincostlsb']
ALL = ['maxsize', 'minsize', 'gen', 'gre', 'mincost', 'minsqcost', 'lmb', 'lsb', 'mincostlsb']


def max_rank_of(ast):
    return max([len(gs) for gs in ast['first']] + [0])


def gen_extras(rng, name, ast):
    mr = max_rank_of(ast)
    if name == 'gen':
        r = rng.random()
        if r < 0.08:
            return [mr + rng.randint(1, 2)]      # cut-off above the maximum rank: no stage at all (outside C02's scope)
        if mr >= 1 and r < 0.55:
            return [rng.randint(1, mr)]
        return []
    if name == 'gre':
        r = rng.random()
        if r < 0.05:
            return [0]                           # no stage at all (outside C02's scope)
        if r < 0.55:
            return [rng.randint(1, mr + 2)]
        return []
    if name in ('mincost', 'minsqcost', 'mincostlsb'):
        r = rng.random()
        if r < 0.35:
            return []
        if r < 0.55:
            return [rng.choice([0, 1, 2, 5])]
        if r < 0.63:
            # multipliers of a million (weights emulating a priority): objective values of 7-8 digits.  The values are
            # kept below 10^8 or multiples of the multiplier, see defect F16 (repaired; CBC's solution file carries 8
            # significant digits)
            n1 = ast['n1']
            bound = n1 * (mr * mr if name == 'minsqcost' else mr)
            if r < 0.58:
                return [25000000 if name == 'mincostlsb' else 9000000, 0]
            for m in (1000000, 100000):
                if bound * m + 64 * n1 < 5 * 10**7:
                    return [m] if (name != 'mincostlsb' and rng.random() < 0.5) else [m, rng.choice([0, 1, 3])]
            return [1000000, 0]
        return [rng.choice([0, 1, 1, 2, 3]), rng.choice([0, 1, 1, 2, 7])]
    return []


def gen_crits(rng, ast, n=None, names=None):
    if n is None:
        n = rng.choice([0, 1, 1, 1, 2, 2, 2, 3, 4])
        if names is None and rng.random() < 0.05:
            n = rng.choice([8, 9, 9])          # (nearly) all nine criteria: the last positions are used
    names = names or rng.sample(ALL, n)
    return [(nm, gen_extras(rng, nm, ast)) for nm in names]


LONG = {'-na': '-numagents', '-twopl': '-twosidedpreferencelists', '-pc': '-projectclosures', '-stab': '-stability',
        '-maxsize': '-maximisesize', '-minsize': '-minimisesize', '-gen': '-generous', '-gre': '-greedy',
        '-mincost': '-minimisecost', '-minsqcost': '-minimisesquaredcost', '-mincostlsb': '-minimisecostloadsumbalanced',
        '-lmb': '-loadmaxbalanced', '-lsb': '-loadsumbalanced', '-bf': '-bruteforce'}


def argv_of(na, twopl, pc, stab, crits, rng=None):
    """Positions strictly increasing in list order (gaps allowed), flags in shuffled order."""
    n = len(crits)
    if rng is not None and n:
        positions = sorted(rng.sample(range(1, 10), n))
    else:
        positions = list(range(1, n + 1))
    flags = []
    for (nm, extras), pos in zip(crits, positions):
        flags.append(['-' + nm, str(pos)] + [str(x) for x in extras])
    if twopl:
        flags.append(['-twopl'])
    if pc:
        flags.append(['-pc'])
    if stab:
        flags.append(['-stab'])
    flags.append(['-na', str(na)])
    if rng is not None:
        for f in flags:
            if f[0] in LONG and rng.random() < 0.25:
                f[0] = LONG[f[0]]          # the documented long spelling of the option
        rng.shuffle(flags)
    return [x for f in flags for x in f]


def lp_run(text, argv, getters=('get_results',), faults=None, time_limit=None, clock=None):
    """Solver(argv).solve() under the recorder. Returns a JSON-able dict."""
    from matchingproblems.solver.solver import Solver
    out = dict(exc=None, snaps=[], status=None, info=None, texts=[], nonintegral=0)
    with impl.tmpfile(text) as path:
        try:
            s = Solver(['-f', path] + list(argv))
        except SystemExit as e:
            out['exc'] = ['SystemExit', str(e.code), 'init']
            return out
        except BaseException as e:  # noqa
            out['exc'] = [type(e).__name__, str(e)[:200], 'init']
            return out
        with recorder.recording(s, faults=faults) as rec:
            try:
                # the documented pass-through parameter `threads` must not matter: one run in four asks for two threads
                threads = 2 if (len(text) + sum(map(len, argv))) % 4 == 0 else None
                # ... and neither may `write` (a debugging dump of the problem as model.lp in the working directory):
                # one run in five asks for it, from inside the scratch directory
                write = (len(text) + 3 * len(argv)) % 5 == 2
                if write:
                    cwd = os.getcwd()
                    os.chdir(os.environ.get('VERIF_WORK') or C.WORKROOT)
                try:
                    s.solve(msg=False, timeLimit=time_limit, threads=threads, write=write)
                finally:
                    if write:
                        try:
                            os.unlink('model.lp')
                        except OSError:
                            pass
                        os.chdir(cwd)
                out['threads'] = threads
                out['write'] = write
                out['status'] = s.model.pulp_status
                out['info'] = s.model.info_string
            except BaseException as e:  # noqa
                if isinstance(e, KeyboardInterrupt):
                    raise
                out['exc'] = [type(e).__name__, str(e)[:200], 'solve']
            out['snaps'] = rec.solves
            out['backend_plain'] = all(e.get('backend_plain', True) for e in rec.solves)
            out['nonintegral'] = rec.nonintegral
        if out['exc'] is None:
            # one run in three: another Solver object is built in the same process before the results are read
            other = impl.decoy_solver(len(text) + len(argv)) if (len(text) + len(argv)) % 3 == 1 else None  # noqa: F841
            for g in getters:
                try:
                    out['texts'].append(['ok', impl.canon_results(getattr(s, g)())])
                except BaseException as e:  # noqa
                    if isinstance(e, KeyboardInterrupt):
                        raise
                    out['texts'].append(['exc', type(e).__name__, str(e)[:200]])
    return out


def gen_lp_cases(ctx, label, n, stab_bias=0.3, pc_bias=0.3, crit_names=None, n_crits=None, maxS=5, maxP=4, maxL=3,
                 force_twopl=None, shuffle_flags=True):
    rng = ctx.rng(label)
    for k in range(n):
        if k % 5 == 4:
            ast = instgen.gen_tradeoff(rng)      # criteria pull in different directions on these
        else:
            ast = instgen.gen_ast(rng, maxS=maxS, maxP=maxP, maxL=maxL)
        twopl = rng.random() < 0.65 if force_twopl is None else force_twopl
        stab = twopl and rng.random() < stab_bias
        pc = rng.random() < pc_bias
        crits = gen_crits(rng, ast, n=n_crits, names=crit_names(rng) if crit_names else None)
        argv = argv_of(ast['na'], twopl, pc, stab, crits, rng if shuffle_flags else None)
        text = instgen.render(ast)
        if k % 9 == 5:
            text = text.rstrip('\n')          # the file ends right after the last agent line: no final newline, no trailer
        elif k % 9 == 7:
            text = instgen.render(ast, trailer=True)
        yield dict(text=text, na=ast['na'], twopl=twopl, pc=pc, stab=stab,
                   crits=[[c, x] for c, x in crits], argv=argv, ast=ast)


OPTION_SETS = [
    [], [('maxsize', [])], [('minsize', [])], [('gen', [])], [('gre', [])], [('mincost', [])], [('minsqcost', [1, 1])],
    [('lmb', [])], [('lsb', [])], [('mincostlsb', [])], [('maxsize', []), ('mincost', [1, 1])],
    [('mincost', [0, 1]), ('maxsize', [])], [('gen', [1]), ('gre', [2])], [('lmb', []), ('lsb', [])],
    [('lsb', []), ('maxsize', []), ('gre', [])], [('minsize', []), ('mincostlsb', [2, 1])],
    [('gre', [1]), ('minsqcost', [])], [('maxsize', []), ('gen', [])],
]


def small_scope_cases(ctx, label, gen_kwargs):
    """every abstract file of instgen.enum_small, each with an option set chosen in rotation (and -pc / -stab /
    -twopl in rotation where admissible)"""
    rng = ctx.rng(label + '/small')
    force_twopl = gen_kwargs.get('force_twopl')
    stab_all = gen_kwargs.get('stab_bias', 0) >= 1.0
    for i, ast in enumerate(instgen.enum_small()):
        crits = OPTION_SETS[i % len(OPTION_SETS)]
        twopl = True if force_twopl else (i % 3 != 0)
        stab = twopl and (stab_all or i % 4 == 1)
        pc = (i % 5 == 2)
        if 'crit_names' in gen_kwargs or 'n_crits' in gen_kwargs:
            # keep the shape the relation asks for (e.g. exactly one criterion, or two and more)
            want = gen_kwargs.get('n_crits')
            pool = [c for c in OPTION_SETS if (want is None and len(c) >= 2) or (want is not None and len(c) == want)]
            crits = pool[i % len(pool)] if pool else crits
        argv = argv_of(ast['na'], twopl, pc, stab, crits, None)
        yield dict(text=instgen.render(ast), na=ast['na'], twopl=twopl, pc=pc, stab=stab,
                   crits=[[c, list(x)] for c, x in crits], argv=argv, ast=ast)


README_SETS = [
    [('maxsize', []), ('gen', [])], [('maxsize', []), ('gre', [])], [('gre', [])], [('maxsize', []), ('mincost', [])],
    [], [('lsb', []), ('maxsize', [])], [('minsize', []), ('gen', [2])], [('maxsize', []), ('lmb', []), ('minsqcost', [])],
]


def repo_example_cases(ctx, label, gen_kwargs, per_file):
    """the instances shipped with the repository (Evaluations/*/instances/*.txt: 6 residents/students, ties, lower
    quotas, two-sided except spa_onesided) under the option sets of the README / of the shipped result files"""
    import glob
    root = os.path.join(C.REPO, 'Evaluations')
    files = sorted(glob.glob(os.path.join(root, '*', 'instances', '*.txt')))
    want = gen_kwargs.get('n_crits')
    pool = [c for c in README_SETS if want is None or len(c) == want] or README_SETS
    if 'crit_names' in gen_kwargs or want is not None:
        pool = [c for c in pool if (want is None and len(c) >= 2) or (want is not None and len(c) == want)] or pool
    k = sum(map(ord, label))
    if per_file == 1:
        files = files[(k % 2)::2]        # quick tier: every other file
    for i, f in enumerate(files):
        text = open(f).read()
        na = len(text.split('\n', 1)[0].split())
        two_sided_file = 'onesided' not in f
        for j in range(per_file):
            k += 1
            crits = pool[k % len(pool)]
            force = gen_kwargs.get('force_twopl')
            twopl = two_sided_file and (True if force else (k % 3 != 0))
            if force and not two_sided_file:
                continue
            stab = twopl and (gen_kwargs.get('stab_bias', 0) >= 1.0 or k % 4 == 1)
            pc = (k % 5 == 2)
            argv = argv_of(na, twopl, pc, stab, crits, None)
            yield dict(text=text, na=na, twopl=twopl, pc=pc, stab=stab, crits=[[c, list(x)] for c, x in crits],
                       argv=argv, ast=None, repo_example=os.path.relpath(f, root))


def copts(inp):
    return recorder.copts(inp['pc'], inp['stab'], [(c, x) for c, x in inp['crits']])


def head(inp):
    return '%s %s %s %s' % (C.cstr(inp['text']), C.cz(inp['na']), C.cbool(inp['twopl']), copts(inp))


class LPRelation(Relation):
    requires = REQ
    shard = 20
    gen_kwargs = {}
    n_quick = 150
    n_thorough = 1200

    small_scope = True      # thorough tier: also the exhaustive small scope of instgen.enum_small
    repo_examples = True    # the instances shipped under /repo/Evaluations
    large_cases = 0         # number of larger instances (quick tier); only where the judge scales

    def cases(self, ctx):
        for c in gen_lp_cases(ctx, self.name, self.n_thorough if ctx.thorough else self.n_quick, **self.gen_kwargs):
            yield c
        if ctx.tier == 'thorough' and not ctx.search and self.small_scope:
            for c in small_scope_cases(ctx, self.name, self.gen_kwargs):
                yield c
        if self.repo_examples:
            for c in repo_example_cases(ctx, self.name, self.gen_kwargs, 3 if ctx.thorough else 1):
                yield c
        if self.large_cases:
            # larger instances: multi-digit student / project ids, bigger capacities (only for relations whose judge does
            # not enumerate all matchings)
            rng = ctx.rng(self.name + '/large')
            for i in range(self.large_cases * (6 if ctx.thorough else 1)):
                if i % 2 == 0:
                    ast = instgen.gen_ast(rng, maxS=13, maxP=13, maxL=4, S=rng.randint(9, 13), P=rng.randint(10, 13),
                                          zero_caps=False)
                else:
                    # multi-digit ids on BOTH sides of a pair, with (student, project/lecturer) pairs whose decimal
                    # concatenations coincide: (11, 1) / (1, 11), (12, 1) / (1, 12) / (2, 11)
                    P = rng.randint(11, 13)
                    ast = instgen.gen_ast(rng, maxS=13, maxP=13, S=rng.randint(12, 13), P=P, L=P, zero_caps=False,
                                          force_pairs=[(11, 1), (1, 11), (12, 1), (2, 11), (1, 12)])
                twopl = self.gen_kwargs.get('force_twopl') or rng.random() < 0.6
                stab = twopl and rng.random() < (1.0 if self.gen_kwargs.get('stab_bias', 0) >= 1.0 else 0.3)
                crits = gen_crits(rng, ast, n=rng.choice([0, 1, 2]))
                pc = rng.random() < 0.3
                yield dict(text=instgen.render(ast), na=ast['na'], twopl=twopl, pc=pc, stab=stab,
                           crits=[[c, x] for c, x in crits], argv=argv_of(ast['na'], twopl, pc, stab, crits, rng), ast=ast)

    def observe(self, inp):
        return lp_run(inp['text'], inp['argv'])

    def key(self, inp):
        return repr((inp['text'], inp['na'], inp['twopl'], inp['pc'], inp['stab'], inp['crits']))

    def signature(self, inp, obs):
        return {'relation': self.name, 'text': inp['text'], 'argv': [a for a in inp['argv']]}

    def nontrivial(self, inp, obs):
        a = inp.get('ast')
        return bool(a) and sum(1 for gs in a['first'] if gs) >= 2 and len(obs.get('snaps') or []) >= 1

    def stats(self, inp, obs):
        d = {'status=' + str(obs.get('status')): 1, 'n_crits=%d' % len(inp['crits']): 1,
             'stab' if inp['stab'] else 'no-stab': 1, 'pc' if inp['pc'] else 'no-pc': 1,
             'twopl' if inp['twopl'] else 'one-sided': 1, 'solves=%d' % len(obs.get('snaps') or []): 1,
             'nonintegral_values': obs.get('nonintegral', 0), 'repo-example-instance': 1 if inp.get('repo_example') else 0}
        if obs.get('exc'):
            d['exc:' + obs['exc'][0]] = 1
        for c, _ in inp['crits']:
            d['crit:' + c] = 1
        return d

    def matching(self, obs):
        if obs.get('texts') and obs['texts'][0][0] == 'ok':
            return impl.matching_line(obs['texts'][0][1])
        return None

    def shrink(self, inp):
        # drop one criterion
        for i in range(len(inp['crits'])):
            cr = inp['crits'][:i] + inp['crits'][i + 1:]
            yield self.rebuild(inp, crits=cr)
        if inp['pc']:
            yield self.rebuild(inp, pc=False)
        # drop one student's list entry / last student
        ast = inp.get('ast')
        if ast:
            import copy
            if ast['n1'] > 1:
                a = copy.deepcopy(ast)
                a['n1'] -= 1
                a['first'].pop()
                gone = a['n1'] + 1
                for l in a['lecturers']:
                    l[3] = [[s for s in g if s != gone] for g in l[3]]
                    l[3] = [g for g in l[3] if g]
                yield self.rebuild(inp, ast=a)

    def rebuild(self, inp, **kw):
        d = dict(inp)
        d.update(kw)
        d['crits'] = [[c, x] for c, x in d['crits']]
        d['argv'] = argv_of(d['na'], d['twopl'], d['pc'], d['stab'], [(c, x) for c, x in d['crits']])
        if d.get('ast'):
            d['text'] = instgen.render(d['ast'])
        return d


class RLp(LPRelation):
    name = 'R_lp'
    kind = 'corr'
    large_cases = 8
    describe = ('Solver(argv).solve() on random instances x option sets (-twopl/-pc/-stab x 0..4 of the nine criteria '
                'with optional arguments, positions with gaps, shuffled flag order) with pulp.LpProblem.solve wrapped: '
                'every problem handed to CBC (constraints as canonical multisets, objective, variable bounds, duplicate '
                'names) equals the model\'s problem with the recorded answers replayed as the oracle; final status and '
                'info string equal; non-trivial = >= 2 students with non-empty lists and >= 1 solve')

    def term(self, inp, obs):
        snaps = C.clist([recorder.csnap(e) for e in obs['snaps']])
        if obs['exc']:
            impl_r = '(Crash %s)' % C.cerr(obs['exc'][0])
        else:
            impl_r = '(Ok (%s, %s))' % (C.cstr(obs['status']), C.cstr(obs['info']))
        return '(c_lp %s %s %s)' % (head(inp), snaps, impl_r)

    def diag(self, inp, obs):
        snaps = C.clist([recorder.csnap(e) for e in obs['snaps']])
        return ('match import_model %s %s %s with Ok M => match run M %s (replay %s) with Ok out => '
                '(map (fun P => (length (pb_cs P), pb_objective P, pb_objs P)) (out_trace out), out_status out, out_info out) '
                '| Crash e => ([], NotSolved, ""%%string) end | Crash e => ([], NotSolved, ""%%string) end'
                % (C.cstr(inp['text']), C.cz(inp['na']), C.cbool(inp['twopl']), copts(inp), snaps))


class MValid(LPRelation):
    name = 'M_valid'
    kind = 'monitor'
    large_cases = 8
    describe = ('same generator; every Optimal run\'s printed matching judged by valid_b evaluated in Coq on the instance '
                'read by the model importer; non-trivial as R_lp and status Optimal')

    def term(self, inp, obs):
        if obs['exc'] or obs['status'] != 'Optimal':
            return 'true'
        m = self.matching(obs)
        if m is None:
            return 'false'
        return '(mon_valid %s %s)' % (head(inp), C.czlist(m))

    def nontrivial(self, inp, obs):
        return LPRelation.nontrivial(self, inp, obs) and obs.get('status') == 'Optimal'

    def what(self, inp, obs):
        return 'Optimal run prints an invalid matching %r for argv %r on %r' % (self.matching(obs), inp['argv'], inp['text'])


class MBackend(MValid):
    name = 'M_backend'
    kind = 'monitor'
    shard = 4
    describe = ('a few runs of the same generator plus one instance of more than 5000 residents (everybody ranks the own '
                'hospital, some the next one too; two or three criteria): at every solve the back end must be configured '
                'plainly (integer mode, no start solution from an earlier solve, no optimality gap, no extra options: the '
                'model\'s oracle is an exact solve of the problem handed over and nothing else), and the printed matching of '
                'an Optimal run must be valid (valid_b evaluated in Coq)')

    def cases(self, ctx):
        for c in gen_lp_cases(ctx, self.name, 12 if ctx.thorough else 4, **self.gen_kwargs):
            yield c
        rng = ctx.rng(self.name + '/scale')
        for S in ([rng.randint(5001, 5200)] + ([rng.randint(401, 900), rng.randint(1001, 1500)] if ctx.thorough else [])):
            first = [[[k + 1]] + ([[k + 2 if k + 2 <= S else 1]] if rng.random() < 0.3 else []) for k in range(S)]
            ast = dict(na=2, n1=S, n2=S, first=first, projects=[[0, 1, j + 1] for j in range(S)],
                       lecturers=[[0, 1, 1, []] for j in range(S)])
            crits = gen_crits(rng, ast, names=rng.choice([['maxsize', 'mincost'], ['mincost', 'maxsize'],
                                                          ['maxsize', 'gre', 'mincost'], ['minsqcost', 'maxsize']]))
            crits = [(c, []) for c, _ in crits]
            yield dict(text=instgen.render(ast), na=2, twopl=False, pc=False, stab=False,
                       crits=[[c, x] for c, x in crits], argv=argv_of(2, False, False, False, crits, rng), ast=ast)

    def observe(self, inp):
        o = lp_run(inp['text'], inp['argv'])
        o['n_solves'] = len(o.get('snaps') or [])
        o['snaps'] = [1] * o['n_solves'] if inp['ast']['n1'] > 50 else o['snaps']     # the problems are not needed here
        return o

    def term(self, inp, obs):
        if not obs.get('backend_plain', True):
            return 'false'
        return MValid.term(self, inp, obs)

    def what(self, inp, obs):
        if not obs.get('backend_plain', True):
            return ('argv %r on an instance of %d first-side agents: the back end was not configured plainly at some solve '
                    '(start solution / gap / options / relaxation)' % (inp['argv'], inp['ast']['n1']))
        return MValid.what(self, inp, obs)

    def shrink(self, inp):
        return []


class MStatus(LPRelation):
    name = 'M_status'
    kind = 'monitor'
    describe = ('same generator restricted to admissible option sets; no exception may escape solve()/get_results(), and '
                'the status is Optimal iff the Coq enumeration finds a matching satisfying the requested constraints '
                '(valid, stable when -stab), Infeasible otherwise; Optimal results carry a matching line, others none')

    def term(self, inp, obs):
        if obs['exc']:
            return '(negb (mon_in_scope %s))' % head(inp)
        texts_ok = all(t[0] == 'ok' for t in obs['texts'])
        if not texts_ok:
            return '(negb (mon_in_scope %s))' % head(inp)
        has_m = self.matching(obs) is not None
        if has_m != (obs['status'] == 'Optimal'):
            return 'false'
        return '(mon_status %s %s)' % (head(inp), C.cstr(obs['status']))

    def what(self, inp, obs):
        return 'status %s / exception %s for argv %r on %r' % (obs.get('status'), obs.get('exc'), inp['argv'], inp['text'])


class MLex(LPRelation):
    name = 'M_lex'
    kind = 'monitor'
    describe = ('same generator; the printed matching of an Optimal run must be lexicographically optimal, in list '
                '(= position) order, for the documented measures of the requested criteria among all matchings satisfying '
                'the requested constraints, by enumeration in Coq; non-trivial = at least one criterion and >= 2 students '
                'with non-empty lists')

    def term(self, inp, obs):
        if obs['exc'] or obs['status'] != 'Optimal':
            return 'true'
        m = self.matching(obs)
        if m is None:
            return 'false'
        return '(mon_lex %s %s)' % (head(inp), C.czlist(m))

    def nontrivial(self, inp, obs):
        return LPRelation.nontrivial(self, inp, obs) and len(inp['crits']) >= 1 and obs.get('status') == 'Optimal'

    def what(self, inp, obs):
        return 'printed matching %r is not lexicographically optimal for %r on %r' % (self.matching(obs), inp['argv'], inp['text'])


class MStable(LPRelation):
    name = 'M_stable'
    kind = 'monitor'
    large_cases = 6
    gen_kwargs = dict(stab_bias=1.0, force_twopl=True)
    describe = ('two-sided instances with -stab; the printed matching must have no blocking pair by the SPA-STL '
                'definition evaluated in Coq; together with M_status (feasible set = stable valid matchings) and M_lex '
                '(optima over stable matchings)')

    def term(self, inp, obs):
        if obs['exc'] or obs['status'] != 'Optimal':
            return 'true'
        m = self.matching(obs)
        if m is None:
            return 'false'
        return '(mon_stable %s %s)' % (head(inp), C.czlist(m))

    def what(self, inp, obs):
        return 'printed matching %r under -stab has a blocking pair; argv %r on %r' % (self.matching(obs), inp['argv'], inp['text'])
