"""Structured instance generator (one PRNG passed in) and renderer of the documented file format."""
import itertools


def tie_groups(rng, items, p_tie=0.35):
    """Split an ordered list into tie groups."""
    groups = []
    for x in items:
        if groups and rng.random() < p_tie:
            groups[-1].append(x)
        else:
            groups.append([x])
    return groups


def gen_ast(rng, na=None, S=None, P=None, L=None, two_sided_lists=True, maxS=5, maxP=4, maxL=3,
            zero_caps=True, lower=True, empty_lists=True, force_pairs=(), superfluous=False):
    na = na or rng.choice([2, 3])
    S = S or rng.randint(1, maxS)
    P = P or rng.randint(1, maxP)
    if na == 2:
        L = P
    else:
        L = L or rng.randint(1, maxL)
    first = []
    for s in range(1, S + 1):
        lo = 0 if (empty_lists and rng.random() < 0.15) else 1
        k = rng.randint(lo, P)
        prefs = rng.sample(range(1, P + 1), k)
        first.append(tie_groups(rng, prefs, rng.choice([0.0, 0.3, 0.6, 1.0])))
    for sp, pp in force_pairs:
        # make sure student sp ranks project pp (ids whose decimal concatenations collide, e.g. (1, 11) and (11, 1))
        if sp <= S and pp <= P and not any(pp in g for g in first[sp - 1]):
            first[sp - 1].insert(rng.randint(0, len(first[sp - 1])), [pp])
    proj_lec = list(range(1, P + 1)) if na == 2 else [rng.randint(1, L) for _ in range(P)]
    if na == 3 and force_pairs and L >= P:
        proj_lec = list(range(1, P + 1))

    def cap():
        r = rng.random()
        if zero_caps and r < 0.1:
            return 0
        return rng.choice([1, 1, 1, 2, 2, 3])

    def lowq(u):
        if lower and rng.random() < 0.3 and u > 0:
            return rng.choice([rng.randint(0, u), u])      # lower quotas of 2 and 3 must occur (closures!)
        return 0
    projects = []
    for j in range(P):
        u = cap()
        projects.append([lowq(u), u, proj_lec[j]])
    lecturers = []
    for k in range(1, L + 1):
        if na == 2:
            lq, uq = projects[k - 1][0], projects[k - 1][1]
            tg = uq
        else:
            uq = cap() + (rng.randint(0, 2) if rng.random() < 0.5 else 0)
            tg = rng.randint(0, uq)
            lq = rng.randint(0, tg) if (lower and rng.random() < 0.2) else 0
            if rng.random() < 0.06:
                # the importer does not check lower <= target <= upper: a target above the upper quota (not a
                # well-formed instance: the specifications skip it, the correspondences do not)
                tg = uq + rng.randint(1, 2)
        studs = [s for s in range(1, S + 1)
                 if any(proj_lec[p - 1] == k for g in first[s - 1] for p in g)]
        if superfluous and two_sided_lists and rng.random() < 0.15:
            # a second-side list may also mention first-side agents who do not apply there (the reader keeps their
            # ranks unused); not produced by the generator, hence only in the importer's correspondence
            others = [s for s in range(1, S + 1) if s not in studs]
            if others:
                studs = studs + rng.sample(others, rng.randint(1, len(others)))
        rng.shuffle(studs)
        groups = tie_groups(rng, studs, rng.choice([0.0, 0.3, 0.6, 1.0])) if two_sided_lists else []
        lecturers.append([lq, tg, uq, groups])
    return dict(na=na, n1=S, n2=P, n3=L, first=first, projects=projects, lecturers=lecturers)


def group_tokens(groups):
    toks = []
    for g in groups:
        if len(g) == 1:
            toks.append(str(g[0]))
        else:
            toks.append('(' + str(g[0]))
            toks.extend(str(x) for x in g[1:-1])
            toks.append(str(g[-1]) + ')')
    return toks


def ast_lines(ast):
    """Token lists per line; a token ending with ':' is a label."""
    na = ast['na']
    lines = [[str(ast['n1']), str(ast['n2'])] + ([str(ast['n3'])] if na == 3 else [])]
    for i, groups in enumerate(ast['first'], 1):
        lines.append([str(i) + ':'] + group_tokens(groups))
    for j, (lq, uq, lc) in enumerate(ast['projects'], 1):
        if na == 3:
            lines.append([str(j) + ':', str(lq) + ':', str(uq) + ':', str(lc)])
        else:
            lines.append([str(j) + ':', str(lq) + ':', str(uq) + ':'] + group_tokens(ast['lecturers'][j - 1][3]))
    if na == 3:
        for k, (lq, tg, uq, groups) in enumerate(ast['lecturers'], 1):
            lines.append([str(k) + ':', str(lq) + ':', str(tg) + ':', str(uq) + ':'] + group_tokens(groups))
    return lines


TRAILER = ('\ninstance generation parameters\nnumber_of_agents_type_1: 3\nmin_pref_list_length: 1\n'
           'ties_probability_1: 0.2\nskew_for_agent_1: 1.0\n')


def render(ast, rng=None, trailer=False, final_newline=True):
    """Documented format. With rng: arbitrary runs of blanks/tabs (sometimes the other characters str.split() takes
    for whitespace: form feed, vertical tab, 0x1c-0x1f) between tokens, optional
    leading/trailing blanks, leading zeros on some numbers."""
    out = []
    for toks in ast_lines(ast):
        if rng is None:
            out.append(' '.join(toks))
        else:
            s = rng.choice(['', '', ' ', '\t'])
            for i, t in enumerate(toks):
                if i:
                    s += rng.choice([' ', ' ', '  ', '\t', ' \t ', '   ', ' ', '\t',
                                     rng.choice(['\x0c', '\x0b', ' \x0c', '\x1c', '\x1f ', '\x1d\x1e'])])   # str.split() whitespace
                if rng.random() < 0.1 and t[0].isdigit():
                    t = '0' * rng.randint(1, 2) + t
                s += t
            s += rng.choice(['', '', ' ', '\t', '  '])
            out.append(s)
    text = '\n'.join(out)
    if trailer:
        text += '\n' + TRAILER
    elif final_newline:
        text += '\n'
    return text


def denote(ast, twopl):
    """The instance the file denotes (python-side mirror used only for sample display / statistics)."""
    rows = []
    for i, groups in enumerate(ast['first'], 1):
        row = []
        for r, g in enumerate(groups, 1):
            for p in g:
                row.append((i, p, r))
        rows.append(row)
    return rows


def ast_stats(ast):
    n_tied = sum(1 for gs in ast['first'] for g in gs if len(g) > 1)
    return {
        'na=%d' % ast['na']: 1,
        ('students=%d' % ast['n1']) if ast['n1'] < 100 else 'students>=100': 1,
        'large-ids(>=1000)': 1 if max(ast['n1'], ast['n2']) >= 1000 else 0,
        'has_first_side_tie': 1 if n_tied else 0,
        'has_empty_list': 1 if any(len(gs) == 0 for gs in ast['first']) else 0,
        'has_zero_capacity': 1 if any(p[1] == 0 for p in ast['projects']) or any(l[2] == 0 for l in ast['lecturers']) else 0,
        'has_lower_quota': 1 if any(p[0] > 0 for p in ast['projects']) or any(l[0] > 0 for l in ast['lecturers']) else 0,
        'shared_lecturer': 1 if ast['na'] == 3 and len(set(p[2] for p in ast['projects'])) < len(ast['projects']) else 0,
    }


def gen_tradeoff(rng, k=None, na=None):
    """'Augmenting chain' instances on which size, greediness, cost and generosity pull in different directions:
    student i prefers project p(i+1) to p(i); the last student only lists the last project; unit capacities.
    Students and projects are randomly relabelled, a random extra entry or tie may be added."""
    k = k or rng.randint(2, 4)
    na = na or rng.choice([2, 3])
    sperm = list(range(1, k + 1))
    pperm = list(range(1, k + 1))
    rng.shuffle(sperm)
    rng.shuffle(pperm)
    first = [None] * k
    for i in range(1, k + 1):
        if i < k:
            lst = [[pperm[i]], [pperm[i - 1]]]
        else:
            lst = [[pperm[k - 1]]]
        if rng.random() < 0.2 and len(lst) == 2:
            lst = [[lst[0][0], lst[1][0]]]            # tie the two
        first[sperm[i - 1] - 1] = lst
    L = k if na == 2 else rng.randint(1, k)
    proj_lec = list(range(1, k + 1)) if na == 2 else [rng.randint(1, L) for _ in range(k)]
    projects = [[0, 1, proj_lec[j]] for j in range(k)]
    lecturers = []
    for l in range(1, L + 1):
        if na == 2:
            lq, tg, uq = 0, 1, 1
        else:
            uq = max(1, sum(1 for c in proj_lec if c == l))
            tg = rng.randint(0, uq)
            lq = 0
        studs = [s for s in range(1, k + 1) if any(proj_lec[p - 1] == l for g in first[s - 1] for p in g)]
        rng.shuffle(studs)
        lecturers.append([lq, tg, uq, tie_groups(rng, studs, rng.choice([0.0, 0.4]))])
    return dict(na=na, n1=k, n2=k, n3=L, first=first, projects=projects, lecturers=lecturers)


def enum_small(maxS=2, maxP=2):
    """Exhaustive small scope: every 2-agent and 3-agent abstract file with S <= maxS students, P <= maxP projects,
    every ordered selection of projects per student with every tie pattern, upper quotas in {0,1,2} (projects) and
    lecturer capacities in {0,1,2}, lower quota 0 or 1, one or two lecturers with every project-lecturer assignment;
    second-side lists in increasing student order with no tie or fully tied.  A few thousand files."""
    import itertools

    def plists(P):
        out = [[]]
        for k in range(1, P + 1):
            for perm in itertools.permutations(range(1, P + 1), k):
                for cuts in itertools.product([False, True], repeat=k - 1):
                    groups = [[perm[0]]]
                    for x, tie in zip(perm[1:], cuts):
                        if tie:
                            groups[-1].append(x)
                        else:
                            groups.append([x])
                    out.append(groups)
        return out
    for S in range(1, maxS + 1):
        for P in range(1, maxP + 1):
            for first in itertools.product(plists(P), repeat=S):
                first = [list(map(list, f)) for f in first]
                for na in (2, 3):
                    lec_assignments = [list(range(1, P + 1))] if na == 2 else \
                        [list(a) for L in (1, 2) for a in itertools.product(range(1, L + 1), repeat=P) if max(a) == L or L == 1]
                    for proj_lec in lec_assignments:
                        L = P if na == 2 else max(proj_lec)
                        for puq in itertools.product([0, 1, 2], repeat=P):
                            if sum(puq) == 0 and P > 1:
                                continue
                            for variant in range(2):
                                projects = [[1 if (variant and puq[j] > 0 and j == 0) else 0, puq[j], proj_lec[j]] for j in range(P)]
                                lecturers = []
                                for k in range(1, L + 1):
                                    if na == 2:
                                        lq, uq = projects[k - 1][0], projects[k - 1][1]
                                        tg = uq
                                    else:
                                        uq = [2, 1][(k + variant) % 2]
                                        tg = uq - variant if uq - variant >= 0 else 0
                                        lq = 0
                                    studs = [s for s in range(1, S + 1)
                                             if any(proj_lec[p - 1] == k for g in first[s - 1] for p in g)]
                                    groups = [] if not studs else ([studs] if variant else [[s] for s in studs])
                                    lecturers.append([lq, tg, uq, groups])
                                yield dict(na=na, n1=S, n2=P, n3=L, first=first, projects=projects, lecturers=lecturers)


def gen_ast_large(rng, base, na=None, side=None, master_list=False):
    """An abstract file with more than `base` agents on one side, sparse elsewhere: ids just above the base (base + k)
    and the matching small ids k occur in lists of neighbouring agents, so that id arithmetic which is only injective
    (or only correctly printed / parsed) for small ids shows.  side 1 = many first-side agents, 2 = many projects."""
    na = na or rng.choice([2, 3])
    side = side or rng.choice([1, 2])
    N = base + rng.randint(6, 12)
    small = rng.randint(2, 3) if side == 1 else rng.randint(3, 5)
    if side == 1:
        S, P = N, small
    else:
        S, P = small, N
    L = P if na == 2 else rng.randint(1, 3)
    first = []
    hot = set([base + k for k in range(1, 7)]) | set(range(1, 7))
    for s in range(1, S + 1):
        if side == 1:
            if s in hot or rng.random() < 0.02:
                prefs = rng.sample(range(1, P + 1), rng.randint(1, P))
            else:
                prefs = [rng.randint(1, P)]
        else:
            pool = sorted(hot) + rng.sample(range(7, base), 3)
            prefs = rng.sample(pool, rng.randint(2, min(7, len(pool))))
            if rng.random() < 0.7:
                # a contested project with an id above the base: most students rank it first
                prefs = [base + 2] + [x for x in prefs if x != base + 2]
        first.append(tie_groups(rng, prefs, rng.choice([0.0, 0.3, 0.6])))
    proj_lec = list(range(1, P + 1)) if na == 2 else [rng.randint(1, L) for _ in range(P)]
    projects = [[0, rng.choice([1, 2, N]), proj_lec[j]] for j in range(P)]
    if side == 2:
        projects[base + 1][1] = 1          # the contested project (id base + 2) takes one student
    lecturers = []
    for k in range(1, L + 1):
        if na == 2:
            lq, uq = projects[k - 1][0], projects[k - 1][1]
            tg = uq
        else:
            uq = rng.choice([1, 2, N])
            tg = rng.randint(0, uq)
            lq = 0
        studs = [s for s in range(1, S + 1) if any(proj_lec[p - 1] == k for g in first[s - 1] for p in g)]
        # keep the hot ids away from the ends and in random order; the bulk in increasing order
        hs = [s for s in studs if s in hot]
        rest = [s for s in studs if s not in hot]
        rng.shuffle(hs)
        cut = rng.randint(0, min(5, len(rest)))
        order = rest[:cut] + hs + rest[cut:]
        groups = tie_groups(rng, order, rng.choice([0.0, 0.0, 0.2]))
        if master_list:
            # every lecturer ranks its students strictly by increasing number: serial dictatorship in that order is stable
            groups = [[x] for x in sorted(studs)]
        lecturers.append([lq, tg, uq, groups])
    return dict(na=na, n1=S, n2=P, n3=L, first=first, projects=projects, lecturers=lecturers)


def serial_dictatorship(ast):
    """students in increasing number take the first project of their list (first of a tie group) that has room for them
    and whose lecturer has room; stable when every lecturer ranks by increasing number (gen_ast_large master_list)"""
    pl, ll = {}, {}
    m = [0] * ast['n1']
    for i in range(ast['n1']):
        for g in ast['first'][i]:
            done = False
            for p in g:
                kk = ast['projects'][p - 1][2]
                if pl.get(p, 0) < ast['projects'][p - 1][1] and ll.get(kk, 0) < ast['lecturers'][kk - 1][2]:
                    m[i] = p
                    pl[p] = pl.get(p, 0) + 1
                    ll[kk] = ll.get(kk, 0) + 1
                    done = True
                    break
            if done:
                break
    return m
