"""Generator side: legal argument vectors, perturbations, running Generator(argv) with the RNGs recorded."""
import contextlib
import io
import os
import random as pyrandom
import shutil
import tempfile

from . import common as C

MPS = ['ha', 'sm', 'hr', 'spa']
MPCODE = {'ha': 1, 'sm': 2, 'hr': 3, 'spa': 4}
FIELDS = ['skew', 'n1', 'n2', 'n3', 'pmin', 'pmax', 't1', 't2', 'lq', 'llq', 'uq', 'luq', 'lt']
FLAG = {'skew': '-skew', 'n1': '-n1', 'n2': '-n2', 'n3': '-n3', 'pmin': '-pmin', 'pmax': '-pmax', 't1': '-t1',
        't2': '-t2', 'lq': '-lq', 'llq': '-llq', 'uq': '-uq', 'luq': '-luq', 'lt': '-lt'}
REQUIRED = {'ha': ['n1', 'n2', 'pmin', 'pmax', 'uq'], 'sm': ['n1', 'pmin', 'pmax', 'twopl'],
            'hr': ['n1', 'n2', 'pmin', 'pmax', 'uq', 'twopl'], 'spa': ['n1', 'n2', 'n3', 'pmin', 'pmax', 'uq', 'luq']}
BANNED = {'ha': ['twopl', 'n3', 't2', 'llq', 'luq', 'lt'], 'sm': ['n2', 'n3', 'uq', 'lq', 'llq', 'luq', 'lt'],
          'hr': ['n3', 'llq', 'luq', 'lt'], 'spa': []}
TIES = [0.0, 0.2, 0.5, 1.0, 0.85]


def legal(rng, mp=None, small=True, lo=1, hi=None):
    mp = mp or rng.choice(MPS)
    hi = hi or (5 if small else 9)
    ns = dict(mp=mp, numinst=rng.randint(1, 2), twopl=False)
    for f in FIELDS:
        ns[f] = None
    n1 = rng.randint(lo, hi)
    ns['n1'] = n1
    n2 = n1 if mp == 'sm' else rng.randint(lo, max(lo, hi - 1))
    if mp != 'sm':
        ns['n2'] = n2
    ns['pmin'] = rng.randint(1, n2)
    ns['pmax'] = rng.randint(ns['pmin'], n2)
    if rng.random() < 0.6:
        ns['t1'] = rng.choice(TIES)
    if rng.random() < 0.5:
        ns['skew'] = rng.choice([1.0, 2.0, 5.0, 0.5, 10.0, 1.125, 2.6180339887, 0.004, 99.999, 3.3333333333333335])
    if mp in ('sm', 'hr'):
        ns['twopl'] = True
    if mp == 'spa':
        ns['twopl'] = rng.random() < 0.6
    if mp != 'ha' and rng.random() < 0.6:
        ns['t2'] = rng.choice(TIES)
    if mp != 'sm':
        ns['uq'] = n2 + rng.randint(0, 2 * n2)
        if rng.random() < 0.5:
            ns['lq'] = rng.randint(0, min(ns['uq'], n1))
    if mp == 'spa':
        n3 = rng.randint(1 if lo == 1 else 2, hi - 1)
        ns['n3'] = n3
        ns['luq'] = rng.randint(1, 3 * n3)
        if rng.random() < 0.6:
            ns['lt'] = rng.randint(0, ns['luq'])
            if rng.random() < 0.5:
                ns['llq'] = rng.randint(0, min(ns['lt'], 2))
    return ns


def perturb(rng, ns):
    """single-fault perturbations of a legal vector"""
    mp = ns['mp']
    out = []
    for r in REQUIRED[mp]:
        p = dict(ns)
        p[r] = False if r == 'twopl' else None
        out.append(('missing:' + r, p))
    for b in BANNED[mp]:
        p = dict(ns)
        if b == 'twopl':
            p[b] = True
        elif b in ('t2',):
            p[b] = 0.3
        else:
            p[b] = 1
        out.append(('inapplicable:' + b, p))
        if b != 'twopl':
            # ... also when its value happens to be what the option would default to (0 / 0.0)
            p0 = dict(ns)
            p0[b] = 0.0 if b == 't2' else 0
            out.append(('inapplicable-zero:' + b, p0))
    n2 = ns['n1'] if mp == 'sm' else ns['n2']

    def bad(name, **kw):
        p = dict(ns)
        p.update(kw)
        out.append(('bound:' + name, p))
    bad('numinst<1', numinst=rng.choice([0, -1]))
    bad('n1<1', n1=rng.choice([0, 0, -2]))
    if mp != 'sm':
        bad('n2<1', n2=0)
    if mp == 'spa':
        bad('n3<1', n3=0)
    bad('pmin<1', pmin=0)
    bad('pmax<pmin', pmin=ns['pmax'] + 1 if ns['pmax'] + 1 <= n2 else ns['pmin'], pmax=ns['pmax'] if ns['pmax'] + 1 <= n2 else ns['pmin'] - 1)
    bad('pmax>n2', pmax=n2 + 1)
    bad('t1>1', t1=1.5)
    bad('t1<0', t1=-0.1)
    if mp != 'ha':
        bad('t2>1', t2=1.01)
    if mp != 'sm':
        bad('uq<n2', uq=n2 - 1)
        bad('lq>uq', lq=ns['uq'] + 1)
        bad('lq<0', lq=-1)
    if mp == 'spa':
        bad('luq<1', luq=0, lt=None, llq=None)
        bad('lt>luq', lt=ns['luq'] + 1)
        bad('llq>lt', llq=(ns['lt'] or 0) + 1)
        bad('llq<0', llq=-1)
    return out


LONG = {'-numinst': '--numberinstances', '-o': '--outputdirectory', '-mp': '--matchingproblem', '-twopl': '--preferencelists2',
        '-skew': '--linearskew', '-n1': '--numberofagents1', '-n2': '--numberofagents2', '-n3': '--numberofagents3',
        '-pmin': '--minpreflistlength', '-pmax': '--maxpreflistlength', '-t1': '--ties1', '-t2': '--ties2',
        '-lq': '--lowerquotas', '-llq': '--lecturerlowerquotas', '-uq': '--upperquotas', '-luq': '--lecturerupperquotas',
        '-lt': '--lecturertargets'}


def argv_of(ns, outdir, rng=None, spell=None):
    """spell: a PRNG deciding, per option, between the short and the documented long spelling"""
    flags = [['-numinst', str(ns['numinst'])], ['-o', outdir], ['-mp', ns['mp']]]
    if ns['twopl']:
        flags.append(['-twopl'])
    for f in FIELDS:
        if ns.get(f) is not None:
            flags.append([FLAG[f], str(ns[f])])
    if spell is not None:
        for f in flags:
            if f[0] in LONG and spell.random() < 0.3:
                f[0] = LONG[f[0]]
    if rng:
        rng.shuffle(flags)
    if spell is not None:
        # argparse's standard one-word spelling option=value (documented by argparse for every option with a value)
        flags = [[f[0] + '=' + f[1]] if len(f) == 2 and not f[1].startswith('-') and spell.random() < 0.2 else f
                 for f in flags]
    return [x for f in flags for x in f]


class RngLog:
    def __init__(self):
        self.log = []


@contextlib.contextmanager
def recorded_rng(seed):
    import numpy as np
    log = RngLog()
    o_randint, o_choice, o_shuffle = np.random.randint, np.random.choice, pyrandom.shuffle

    def randint(lo, hi=None, *a, **k):
        r = o_randint(lo, hi, *a, **k)
        log.log.append(('randint', int(lo), int(hi), int(r)))
        return r

    def choice(a, size=None, replace=True, p=None):
        r = o_choice(a, size, replace=replace, p=p)
        if replace is False:
            log.log.append(('list', [int(x) for x in a], int(size), None if p is None else [float(x) for x in p],
                            [int(x) for x in r]))
        else:
            log.log.append(('ties', [int(x) for x in a], int(size), None if p is None else [float(x) for x in p],
                            [int(x) for x in r]))
        return r

    def shuffle(x, *a, **k):
        o_shuffle(x, *a, **k)
        log.log.append(('shuffle', [int(v) for v in x]))
    np.random.seed(seed)
    pyrandom.seed(seed)
    np.random.randint, np.random.choice, pyrandom.shuffle = randint, choice, shuffle
    try:
        yield log
    finally:
        np.random.randint, np.random.choice, pyrandom.shuffle = o_randint, o_choice, o_shuffle


def run_generator(ns, seed=0, shuffle_flags_seed=None):
    """Generator(argv) in a scratch directory with the RNG recorded."""
    from matchingproblems.generator.generator import Generator
    base = tempfile.mkdtemp(prefix='gen_', dir=os.environ.get('VERIF_WORK') or C.WORKROOT)
    outdir = os.path.join(base, 'Out', 'Instances_B')   # mixed case on purpose
    out = dict(code=None, exc=None, dir_created=False, files=[], log=[])
    precreated = (seed % 3 == 2)          # the output directory may already exist
    try:
        if precreated:
            os.makedirs(outdir)
            if seed % 2 == 0:
                # ... which already holds other files: notes, and instances of an earlier, larger batch
                for nm in ('notes.txt', '%d.txt' % (ns.get('numinst', 1) + 3), 'README'):
                    with open(os.path.join(outdir, nm), 'w') as fh:
                        fh.write('left over\n')
                out['leftovers'] = ['notes.txt', '%d.txt' % (ns.get('numinst', 1) + 3), 'README']
        rng = pyrandom.Random(shuffle_flags_seed) if shuffle_flags_seed is not None else None
        argv = argv_of(ns, outdir, rng, spell=pyrandom.Random(seed * 7 + 1))
        out['argv'] = [a.replace(outdir, '<out>') for a in argv]
        with recorded_rng(seed) as log, contextlib.redirect_stderr(io.StringIO()):
            try:
                Generator(argv)
                out['code'] = 0
            except SystemExit as e:
                out['code'] = 2 if e.code == 2 else 1
                out['exc'] = ['SystemExit', str(e.code)]
            except BaseException as e:  # noqa
                if isinstance(e, KeyboardInterrupt):
                    raise
                out['code'] = 1
                out['exc'] = [type(e).__name__, str(e)[:200]]
        out['log'] = log.log
        out['dir_created'] = (os.path.exists(os.path.join(base, 'Out')) and not precreated) or \
            (precreated and sorted(os.listdir(outdir)) != sorted(out.get('leftovers', [])))
        out['precreated'] = precreated
        if os.path.isdir(outdir):
            names = sorted(os.listdir(outdir), key=lambda s: (len(s), s))
            for nm in names:
                if nm in out.get('leftovers', ()):
                    continue
                with open(os.path.join(outdir, nm), newline='') as f:
                    out['files'].append([nm, f.read()])
    finally:
        shutil.rmtree(base, ignore_errors=True)
    return out


def split_draws(ns, log):
    """Per instance: first-side lists, ties, shuffled second side, ties2, and the RNG requests."""
    n1 = ns['n1']
    mp = ns['mp']
    n2 = n1 if mp == 'sm' else ns['n2']
    nsec = ns['n3'] if mp == 'spa' else n2
    per = 1 + 3 * n1 + (2 * nsec if ns['twopl'] else 0)
    insts = []
    for k in range(0, len(log), per):
        chunk = log[k:k + per]
        if len(chunk) < per:
            return None
        d = dict(perm=chunk[0][1], lens=[], first=[], ties1=[], second=[], ties2=[], randint_args=[],
                 list_requests=[], ties_p=[])
        if chunk[0][0] != 'shuffle':
            return None
        i = 1
        for x in range(n1):
            a, b = chunk[i], chunk[i + 1]
            if a[0] != 'randint' or b[0] != 'list':
                return None
            d['randint_args'].append([a[1], a[2]])
            d['lens'].append(a[3])
            d['list_requests'].append(dict(population=b[1], size=b[2], p=b[3]))
            d['first'].append(b[4])
            i += 2
        for x in range(n1):
            t = chunk[i]
            if t[0] != 'ties':
                return None
            d['ties1'].append([bool(v) for v in t[4]])
            d['ties_p'].append([t[1], t[3], 1])
            i += 1
        if ns['twopl']:
            for x in range(nsec):
                s = chunk[i]
                if s[0] != 'shuffle':
                    return None
                d['second'].append(s[1])
                i += 1
            for x in range(nsec):
                t = chunk[i]
                if t[0] != 'ties':
                    return None
                d['ties2'].append([bool(v) for v in t[4]])
                d['ties_p'].append([t[1], t[3], 2])
                i += 1
        insts.append(d)
    return insts


import re as _re


def second_side_lists(ns, text):
    """the second-side lists as written in the file (token level: parentheses stripped)"""
    lines = text.split('\n')
    n1 = ns['n1']
    n2 = n1 if ns['mp'] == 'sm' else ns['n2']
    out = []
    if ns['mp'] == 'spa':
        rows = lines[1 + n1 + n2: 1 + n1 + n2 + ns['n3']]
        skip = 4
    else:
        rows = lines[1 + n1: 1 + n1 + n2]
        skip = 3
    for r in rows:
        toks = r.replace(':', '').split()[skip:]
        try:
            out.append([int(_re.sub(r'[()]', '', t)) for t in toks])
        except ValueError:
            return None          # an entry that is no agent number: not a file of the documented form
    return out



# ---- Coq encoders ----------------------------------------------------------------------

def fstr(x, default):
    return str(default if x is None else float(x))


def cgargs(ns):
    mp = ns['mp']
    n2 = ns['n1'] if mp == 'sm' else ns['n2']
    uq = ns['n1'] if mp == 'sm' else ns['uq']
    lt = ns['lt']
    return '(mkGargs %s %s %s %s %s %s %s %s %s %s %s %s %s %s %s %s %s)' % (
        C.cz(MPCODE[mp]), C.cz(ns['numinst']), C.cbool(ns['twopl']), C.cz(ns['n1']), C.cz(n2), C.cz(ns['n3'] or 0),
        C.cz(ns['pmin']), C.cz(ns['pmax']), C.cstr(fstr(ns['t1'], 0.0)), C.cstr(fstr(ns['t2'], 0.0)),
        C.cstr(fstr(ns['skew'], 1.0)), C.cz(ns['lq'] or 0), C.cz(uq), C.cz(ns['llq'] or 0), C.cz(lt or 0),
        C.cstr('0.0' if lt is None else str(lt)), C.cz(ns['luq'] or 0))


def cfloatstrs(ns):
    """the printed forms of the float-valued arguments, as the instance writers see them"""
    lt = ns['lt']
    return '%s %s %s %s' % (C.cstr(fstr(ns['t1'], 0.0)), C.cstr(fstr(ns['t2'], 0.0)), C.cstr(fstr(ns['skew'], 1.0)),
                            C.cstr('0.0' if lt is None else str(lt)))


def cdraws(d):
    ll = lambda x: C.clist([C.czlist(l) for l in x])
    bl = lambda x: C.clist([C.cblist(l) for l in x])
    return '(mkDraws %s %s %s %s)' % (ll(d['first']), bl(d['ties1']), ll(d['second']), bl(d['ties2']))


def cq(x):
    a, b = float(x).as_integer_ratio()
    return '(Qmake %s %d%%positive)' % (C.cz(a), b)


def cnamespace(ns):
    oz = lambda v: C.copt(v, C.cz)
    oq = lambda v: C.copt(v, cq)
    return '(mkNS %s %s %s %s %s %s %s %s %s %s %s %s %s %s %s %s)' % (
        C.cz(ns['numinst']), ns['mp'].upper(), C.cbool(ns['twopl']), oq(ns['skew']), oz(ns['n1']), oz(ns['n2']),
        oz(ns['n3']), oz(ns['pmin']), oz(ns['pmax']), oq(ns['t1']), oq(ns['t2']), oz(ns['lq']), oz(ns['llq']),
        oz(ns['uq']), oz(ns['luq']), oz(ns['lt']))
