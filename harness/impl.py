"""Running the implementation (from /repo's working tree) and encoding what it produced for Coq."""
import contextlib
import os
import tempfile

from . import common as C


@contextlib.contextmanager
def tmpfile(text, suffix='.txt'):
    d = os.environ.get('VERIF_WORK') or C.WORKROOT
    os.makedirs(d, exist_ok=True)
    fd, path = tempfile.mkstemp(suffix=suffix, dir=d)
    try:
        with os.fdopen(fd, 'w', newline='') as fh:
            fh.write(text)
        yield path
    finally:
        try:
            os.unlink(path)
        except OSError:
            pass


def inst_opts(na, twopl, pc=False):
    from matchingproblems.solver.enums import Instance_options
    return {Instance_options.NUMAGENTS: na, Instance_options.TWOPL: twopl, Instance_options.PC: pc}


def snap_pair(p):
    return [p.studentID, p.projectID, p.rank_student, getattr(p, 'lecturerID', None),
            getattr(p, 'rank_lecturer', None)]


def snap_model(m):
    return dict(
        nS=m.num_students, nP=m.num_projects, nL=m.num_lecturers,
        p_lq=list(m.proj_lower_quotas), p_uq=list(m.proj_upper_quotas), p_lec=list(m.proj_lecturers),
        l_lq=list(m.lec_lower_quotas), l_tg=list(m.lec_targets), l_uq=list(m.lec_upper_quotas),
        pairs=[[snap_pair(p) for p in row] for row in m.pairs],
        project_lists=[[[p.studentID, p.projectID] for p in row] for row in m.project_lists],
        lecturer_lists=[[[p.studentID, p.projectID] for p in row] for row in m.lecturer_lists],
        rank_lists=[[[p.studentID, p.projectID] for p in row] for row in m.rank_lists])


def import_snapshot(text, na, twopl):
    from matchingproblems.solver import fileIO
    with tmpfile(text) as path:
        m = fileIO.import_model(path, inst_opts(na, twopl))
    return snap_model(m)


def cpair(p):
    return '(mkPair %s %s %s %s %s)' % (C.cz(p[0]), C.cz(p[1]), C.cz(p[2]), C.cz(p[3]), C.copt(p[4], C.cz))


def cinstance(s):
    return '(mkInst %s %s %s %s %s %s %s %s %s %s)' % (
        C.cz(s['nS']), C.cz(s['nP']), C.cz(s['nL']),
        C.czlist(s['p_lq']), C.czlist(s['p_uq']), C.czlist(s['p_lec']),
        C.czlist(s['l_lq']), C.czlist(s['l_tg']), C.czlist(s['l_uq']),
        C.clist([C.clist([cpair(p) for p in row]) for row in s['pairs']]))


def cidlists(ll):
    return C.clist([C.clist(['(%s, %s)' % (C.cz(a), C.cz(b)) for a, b in row]) for row in ll])
