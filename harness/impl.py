"""Running the implementation (from /repo's working tree) and encoding what it produced for Coq."""
import contextlib
import os
import tempfile

from . import common as C


_LAST = {'path': None, 'text': None}


@contextlib.contextmanager
def tmpfile(text, suffix='.txt'):
    """The instance file handed to the implementation.  ONE path per process, rewritten only when the content
    changes: successive cases therefore reuse the same path with different contents, and the same unchanged file
    is read again when two consecutive cases share their text — which is how a per-path or per-file cache that
    ignores the content or an option would be exposed."""
    d = os.environ.get('VERIF_WORK') or C.WORKROOT
    os.makedirs(d, exist_ok=True)
    path = os.path.join(d, 'instance_%d%s' % (os.getpid(), suffix))
    if _LAST['path'] != path or _LAST['text'] != text or not os.path.exists(path):
        with open(path, 'w', newline='') as fh:
            fh.write(text)
        _LAST['path'], _LAST['text'] = path, text
    yield path


import atexit as _atexit


def _cleanup():
    for p in _DECOY_PATHS:
        try:
            os.unlink(p)
        except OSError:
            pass
    if _LAST['path']:
        try:
            os.unlink(_LAST['path'])
        except OSError:
            pass


_atexit.register(_cleanup)


DECOYS = ["2 7\n1: 1 2 3 4 5 6 7\n2: 7 6 5 4 3 2 1\n" + "".join("%d: 0: 1\n" % j for j in range(1, 8)),
          "1 1\n1: 1\n1: 0: 1\n",
          "3 2 1\n1: (1 2)\n2: 2\n3: 1 2\n1: 0: 2: 1\n2: 0: 2: 1\n1: 0: 1: 3:\n"]


def decoy_solver(k):
    """Another, unrelated Solver object built (instance imported) while the observed one is alive: objects of one
    process are independent, so nothing the observed Solver prints may depend on it.  Returns the object (kept alive
    by the caller)."""
    from matchingproblems.solver.solver import Solver
    d = os.environ.get('VERIF_WORK') or C.WORKROOT
    path = os.path.join(d, 'decoy_%d_%d.txt' % (os.getpid(), k % len(DECOYS)))
    if not os.path.exists(path):
        with open(path, 'w') as fh:
            fh.write(DECOYS[k % len(DECOYS)])
        _DECOY_PATHS.append(path)
    return Solver(['-f', path, '-na', '3' if k % len(DECOYS) == 2 else '2', '-maxsize', '1'])


_DECOY_PATHS = []


def inst_opts(na, twopl, pc=False):
    from matchingproblems.solver.enums import Instance_options
    return {Instance_options.NUMAGENTS: na, Instance_options.TWOPL: twopl, Instance_options.PC: pc}


def snap_pair(p):
    return [p.studentID, p.projectID, p.rank_student, getattr(p, 'lecturerID', None),
            getattr(p, 'rank_lecturer', None)]


def snap_model(m):
    return dict(
        nS=m.num_students, nP=m.num_projects, nL=m.num_lecturers,
        p_lq=list(m.proj_lower_quotas), p_uq=list(m.proj_upper_quotas), p_lec=list(m.proj_lecturers),
        l_lq=list(m.lec_lower_quotas), l_tg=list(m.lec_targets), l_uq=list(m.lec_upper_quotas),
        pairs=[[snap_pair(p) for p in row] for row in m.pairs],
        project_lists=[[[p.studentID, p.projectID] for p in row] for row in m.project_lists],
        lecturer_lists=[[[p.studentID, p.projectID] for p in row] for row in m.lecturer_lists],
        rank_lists=[[[p.studentID, p.projectID] for p in row] for row in m.rank_lists])


def import_snapshot(text, na, twopl, extra=()):
    """The instance the solver works on: through the public route Solver(args).model.  `extra`: further valid options
    (criteria, -pc, -bf); none of them may influence how the file is read."""
    from matchingproblems.solver.solver import Solver
    with tmpfile(text) as path:
        s = Solver(['-f', path, '-na', str(na)] + (['-twopl'] if twopl else []) + list(extra))
    return snap_model(s.model)


def cpair(p):
    return '(mkPair %s %s %s %s %s)' % (C.cz(p[0]), C.cz(p[1]), C.cz(p[2]), C.cz(p[3]), C.copt(p[4], C.cz))


def cinstance(s):
    return '(mkInst %s %s %s %s %s %s %s %s %s %s)' % (
        C.cz(s['nS']), C.cz(s['nP']), C.cz(s['nL']),
        C.czlist(s['p_lq']), C.czlist(s['p_uq']), C.czlist(s['p_lec']),
        C.czlist(s['l_lq']), C.czlist(s['l_tg']), C.czlist(s['l_uq']),
        C.clist([C.clist([cpair(p) for p in row]) for row in s['pairs']]))


def cidlists(ll):
    return C.clist([C.clist(['(%s, %s)' % (C.cz(a), C.cz(b)) for a, b in row]) for row in ll])


# ---- results ---------------------------------------------------------------------------

import re as _re


def canon_results(txt):
    """Replace the environment dependent pieces (date header, three timings) by placeholders."""
    txt = _re.sub(r'\A# Results for the run conducted on [^\n]*', '#HDR', txt)
    txt = _re.sub(r'time_model_creation_seconds: [^\n]*', 'time_model_creation_seconds: T1', txt)
    txt = _re.sub(r'time_solve_seconds: [^\n]*', 'time_solve_seconds: T2', txt)
    txt = _re.sub(r'time_total_seconds: [^\n]*', 'time_total_seconds: T3', txt)
    return txt


class FakeVar:
    def __init__(self, v):
        self.varValue = v


def results_with_values(text, na, twopl, info, vals, long, stab):
    """Model.get_results on an imported instance whose decision variables carry the given values."""
    import datetime
    from matchingproblems.solver import fileIO
    from matchingproblems.solver.enums import Output_type
    with tmpfile(text) as path:
        m = fileIO.import_model(path, inst_opts(na, twopl))
    for row, vrow in zip(m.pairs, vals):
        for p, v in zip(row, vrow):
            p.lp_var = FakeVar(1.0 if v else 0.0)
    t0 = datetime.datetime(2020, 1, 2, 3, 4, 5)
    m.time_start = t0
    m.time_after_model_creation = t0 + datetime.timedelta(seconds=1)
    m.time_after_solve = t0 + datetime.timedelta(seconds=3)
    m.info_string = info
    m.pulp_status = 'Optimal'
    m.time_limit = None
    other = decoy_solver(len(text) + len(info)) if (len(text) + len(info)) % 3 == 1 else None   # noqa: F841
    return canon_results(m.get_results(Output_type.LONG if long else Output_type.SHORT, stab))


def matching_line(txt):
    m = _re.search(r'^matching: ?(.*)$', txt, _re.M)
    if not m:
        return None
    return [int(x) for x in m.group(1).split()]


def solver_run(text, argv_extra, getters=('get_results',), time_limit=None):
    """Solver(args).solve(); then the named getters. Returns list of canonicalised texts."""
    from matchingproblems.solver.solver import Solver
    with tmpfile(text) as path:
        s = Solver(['-f', path] + list(argv_extra))
        s.solve(msg=False, timeLimit=time_limit, threads=None, write=False)
        other = decoy_solver(len(text)) if len(text) % 3 == 1 else None      # noqa: F841 (kept alive on purpose)
        return [canon_results(getattr(s, g)()) for g in getters]


class SkipCase(Exception):
    """the case cannot be posed to this version of the code through a public route"""


def read_pref_tokens(tokens):
    """The importer's tie-aware tokeniser on one preference list: ([ids], [ranks]).  Uses the private helper when it
    exists under its pinned name; otherwise (a maintainer may rename private helpers) goes through the public route:
    a one-resident two-agent file whose only preference list is the token sequence."""
    from matchingproblems.solver import fileIO
    f = getattr(fileIO, '_get_simple_pref_list_and_ranks', None)
    if f is not None:
        a, b = f(list(tokens))
        return [list(a), list(b)]
    ids = []
    for t in tokens:
        u = t.strip('()')
        if not u.isdigit() or int(u) < 1 or int(u) > 5000:
            raise SkipCase('token %r cannot be written into a file' % (t,))
        ids.append(int(u))
    if len(set(ids)) != len(ids) or not ids:
        raise SkipCase('empty list / repeated entries')
    n = max(ids)
    text = '1 %d\n1: %s\n' % (n, ' '.join(tokens)) + ''.join('%d: 0: 1:\n' % j for j in range(1, n + 1))
    from matchingproblems.solver.solver import Solver
    with tmpfile(text) as path:
        m = Solver(['-f', path, '-na', '2']).model
    return [[p.projectID for p in m.pairs[0]], [p.rank_student for p in m.pairs[0]]]
