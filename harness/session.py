"""Driving a Solver object through a history of operations under the recorder, a scripted clock and an
optional fault plan; encoding the recorded history for Coq (Corr/SessionCorr.v)."""
import datetime as _dt

from . import common as C
from . import impl, recorder

BASE = _dt.datetime(2021, 3, 4, 5, 6, 7)
GETTERS = {'get_results': 'GResults', 'get_results_short': 'GShort', 'get_results_long': 'GLong',
           'get_debug': 'GDebug'}


class Clock:
    """Virtual time in microseconds; every now() ticks."""

    def __init__(self, tick=1000):
        self.t = 0
        self.tick = tick
        self.readings = []

    def now(self):
        self.t += self.tick
        self.readings.append(self.t)
        return BASE + _dt.timedelta(microseconds=self.t)

    def advance(self, us):
        self.t += int(us)


class FakeDatetimeModule:
    def __init__(self, clock):
        class _D:
            @staticmethod
            def now():
                return clock.now()
        self.datetime = _D


def limit_us(limit):
    return None if limit is None else int(round(limit * 1000000))


def session_run(text, argv, history, faults=None, solve_us=10000):
    """history: list of ['solve', limit, idle_before_us (, threads)] | [getter name].
    faults: {solve_op_index: {k: fault}} fault plan per solve operation (by order of the solve ops).
    Returns dict(t0, ops=[...], exc_init)."""
    import matchingproblems.solver.solver as solver_mod
    clock = Clock()
    real_dt = solver_mod.datetime
    solver_mod.datetime = FakeDatetimeModule(clock)
    out = dict(t0=None, ops=[], exc_init=None, raw=[], nonintegral=0)
    try:
        with impl.tmpfile(text) as path:
            try:
                s = solver_mod.Solver(['-f', path] + list(argv))
            except SystemExit as e:
                out['exc_init'] = ['SystemExit', str(e.code)]
                return out
            except BaseException as e:  # noqa
                out['exc_init'] = [type(e).__name__, str(e)[:200]]
                return out
            out['t0'] = clock.readings[-1] if clock.readings else 0
            n_solve_ops = 0
            for h in history:
                if h[0] == 'solve':
                    limit = h[1]
                    clock.advance(h[2] if len(h) > 2 else 0)
                    plan = (faults or {}).get(n_solve_ops) or (faults or {}).get(str(n_solve_ops))
                    n_solve_ops += 1
                    before = len(clock.readings)

                    def on_solve(k, fault, _limit=limit):
                        d = solve_us
                        if fault is not None and fault.get('kind') == 'incumbent':
                            d = max(solve_us, limit_us(_limit) or 0)      # the stop happens at the limit
                        if fault is not None and fault.get('slow_us'):
                            d = fault['slow_us']
                        clock.advance(d)
                    plan2 = None
                    if plan:
                        plan2 = {}
                        for k, v in plan.items():
                            plan2[k if k == 'from' else int(k)] = v
                    with recorder.recording(s, faults=plan2, on_solve=on_solve) as rec:
                        try:
                            s.solve(msg=False, timeLimit=limit, threads=(h[3] if len(h) > 3 else None), write=False)
                            seen = ['ok', '']
                        except BaseException as e:  # noqa
                            if isinstance(e, KeyboardInterrupt):
                                raise
                            seen = ['exc', type(e).__name__, str(e)[:200]]
                        out['nonintegral'] += rec.nonintegral
                        out['ops'].append(dict(op=['solve', limit], clock=clock.readings[before:], snaps=rec.solves,
                                               seen=seen))
                    out['raw'].append(None)
                    if seen[0] == 'exc':
                        break
                else:
                    try:
                        raw = getattr(s, h[0])()
                        seen = ['ok', impl.canon_results(raw)]
                    except BaseException as e:  # noqa
                        if isinstance(e, KeyboardInterrupt):
                            raise
                        raw = None
                        seen = ['exc', type(e).__name__, str(e)[:200]]
                    out['ops'].append(dict(op=[h[0]], clock=[], snaps=[], seen=seen))
                    out['raw'].append(raw)
                    if seen[0] == 'exc':
                        break
    finally:
        solver_mod.datetime = real_dt
    return out


def cop(op):
    if op[0] == 'solve':
        lim = op[1]
        if lim is None:
            return '(OSolve None)'
        return '(OSolve (Some (%s, %s)))' % (C.cz(limit_us(lim)), C.cstr(str(lim)))
    return '(OGet %s)' % GETTERS[op[0]]


def crec(r):
    seen = r['seen']
    s = '(Ok %s)' % C.cstr(seen[1]) if seen[0] == 'ok' else '(Crash %s)' % C.cerr(seen[1])
    return '(mkRec %s %s %s %s)' % (cop(r['op']), C.czlist(r['clock']),
                                    C.clist([recorder.csnap(e) for e in r['snaps']]), s)
