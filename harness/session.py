"""Driving a Solver object through a history of operations under the recorder, a scripted clock and an
optional fault plan; encoding the recorded history for Coq (Corr/SessionCorr.v)."""
import datetime as _dt

from . import common as C
from . import impl, recorder

BASE = _dt.datetime(2021, 3, 4, 5, 6, 7)
GETTERS = {'get_results': 'GResults', 'get_results_short': 'GShort', 'get_results_long': 'GLong',
           'get_debug': 'GDebug'}


class Clock:
    """Virtual time in microseconds; every now() ticks."""

    def __init__(self, tick=1000):
        self.t = 0
        self.tick = tick
        self.readings = []

    def now(self):
        self.t += self.tick
        self.readings.append(self.t)
        return BASE + _dt.timedelta(microseconds=self.t)

    def advance(self, us):
        self.t += int(us)


class FakeDatetimeModule:
    def __init__(self, clock):
        class _D:
            @staticmethod
            def now():
                return clock.now()
        self.datetime = _D


class FakeTimeModule:
    """`time` as seen by the solver modules: every clock function reads the scripted clock (without ticking it, so the
    positions of the datetime readings the model talks about do not move); everything else is the real module."""

    def __init__(self, clock):
        import time as _t
        self._t = _t
        self._clock = clock

    def _secs(self):
        return 1000.0 + self._clock.t / 1e6

    def monotonic(self):
        return self._secs()
    time = perf_counter = process_time = monotonic

    def monotonic_ns(self):
        return int(self._secs() * 1e9)
    time_ns = perf_counter_ns = process_time_ns = monotonic_ns

    def __getattr__(self, name):
        return getattr(self._t, name)


def script_other_clocks(clock):
    """Whatever clock API the solver modules use is an oracle: replace a `time` module attribute, or clock functions
    imported from it, in the package's solver modules.  Returns the undo list."""
    import importlib
    import time as _t
    fake = FakeTimeModule(clock)
    names = ['monotonic', 'time', 'perf_counter', 'process_time', 'monotonic_ns', 'time_ns', 'perf_counter_ns',
             'process_time_ns']
    undo = []
    for m in ('solver', 'model', 'lp_solver', 'brute_force_solver', 'fileIO', 'options_parser'):
        try:
            mod = importlib.import_module('matchingproblems.solver.' + m)
        except Exception:
            continue
        for attr, val in list(vars(mod).items()):
            if val is _t:
                undo.append((mod, attr, val))
                setattr(mod, attr, fake)
            else:
                for n in names:
                    if val is getattr(_t, n, None):
                        undo.append((mod, attr, val))
                        setattr(mod, attr, getattr(fake, n))
    return undo


def limit_us(limit):
    return None if limit is None else int(round(limit * 1000000))


def session_run(text, argv, history, faults=None, solve_us=10000):
    """history: list of ['solve', limit, idle_before_us (, threads)] | [getter name].
    faults: {solve_op_index: {k: fault}} fault plan per solve operation (by order of the solve ops).
    Returns dict(t0, ops=[...], exc_init)."""
    import matchingproblems.solver.solver as solver_mod
    clock = Clock()
    real_dt = solver_mod.datetime
    solver_mod.datetime = FakeDatetimeModule(clock)
    undo_time = script_other_clocks(clock)
    out = dict(t0=None, ops=[], exc_init=None, raw=[], nonintegral=0)
    try:
        with impl.tmpfile(text) as path:
            try:
                s = solver_mod.Solver(['-f', path] + list(argv))
            except SystemExit as e:
                out['exc_init'] = ['SystemExit', str(e.code)]
                return out
            except BaseException as e:  # noqa
                out['exc_init'] = [type(e).__name__, str(e)[:200]]
                return out
            out['t0'] = clock.readings[-1] if clock.readings else 0
            n_solve_ops = 0
            for h in history:
                if h[0] == 'solve':
                    limit = h[1]
                    clock.advance(h[2] if len(h) > 2 else 0)
                    plan = (faults or {}).get(n_solve_ops) or (faults or {}).get(str(n_solve_ops))
                    n_solve_ops += 1
                    before = len(clock.readings)

                    def on_solve(k, fault, backend_limit=None, _limit=limit):
                        d = solve_us
                        if fault is not None and fault.get('kind') == 'incumbent':
                            # the stop happens at the limit the BACK END was given for this solve
                            eff = backend_limit if backend_limit is not None else _limit
                            d = max(solve_us, limit_us(eff) or 0)
                        if fault is not None and fault.get('slow_us'):
                            d = fault['slow_us']
                        clock.advance(d)
                    plan2 = None
                    if plan:
                        plan2 = {}
                        for k, v in plan.items():
                            plan2[k if k == 'from' else int(k)] = v
                    with recorder.recording(s, faults=plan2, on_solve=on_solve) as rec:
                        try:
                            s.solve(msg=False, timeLimit=limit, threads=(h[3] if len(h) > 3 else None), write=False)
                            seen = ['ok', '']
                        except BaseException as e:  # noqa
                            if isinstance(e, KeyboardInterrupt):
                                raise
                            seen = ['exc', type(e).__name__, str(e)[:200]]
                        out['nonintegral'] += rec.nonintegral
                        out['ops'].append(dict(op=['solve', limit], clock=clock.readings[before:], snaps=rec.solves,
                                               seen=seen))
                    out['raw'].append(None)
                    if seen[0] == 'exc':
                        break
                else:
                    try:
                        raw = getattr(s, h[0])()
                        seen = ['ok', impl.canon_results(raw)]
                    except BaseException as e:  # noqa
                        if isinstance(e, KeyboardInterrupt):
                            raise
                        raw = None
                        seen = ['exc', type(e).__name__, str(e)[:200]]
                    out['ops'].append(dict(op=[h[0]], clock=[], snaps=[], seen=seen))
                    out['raw'].append(raw)
                    if seen[0] == 'exc':
                        break
    finally:
        solver_mod.datetime = real_dt
        for mod, attr, val in undo_time:
            setattr(mod, attr, val)
    return out


def cop(op):
    if op[0] == 'solve':
        lim = op[1]
        if lim is None:
            return '(OSolve None)'
        return '(OSolve (Some (%s, %s)))' % (C.cz(limit_us(lim)), C.cstr(str(lim)))
    return '(OGet %s)' % GETTERS[op[0]]


def crec(r):
    seen = r['seen']
    s = '(Ok %s)' % C.cstr(seen[1]) if seen[0] == 'ok' else '(Crash %s)' % C.cerr(seen[1])
    return '(mkRec %s %s %s %s)' % (cop(r['op']), C.czlist(r['clock']),
                                    C.clist([recorder.csnap(e) for e in r['snaps']]), s)


def limits_passed_through(obs):
    """solve(timeLimit=x) documents x as the limit of EACH underlying optimisation: every recorded solve must have
    been handed exactly x (None when no limit was asked for)"""
    for r in obs.get('ops', []):
        if r['op'][0] != 'solve':
            continue
        want = r['op'][1]
        for e in r.get('snaps', []):
            got = e.get('backend_limit')
            if (want is None) != (got is None):
                return False
            if want is not None and abs(float(want) - float(got)) > 1e-9:
                return False
    return True
