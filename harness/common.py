"""Shared machinery of the checks: paths, Coq runner, proof-obligation check, evidence,
violation reporting, known findings.  Run with /venv/bin/python (needs /repo's deps)."""
import fcntl
import hashlib
import json
import os
import random
import re
import shutil
import subprocess
import sys
import time

VERIF = os.path.dirname(os.path.dirname(os.path.abspath(__file__)))
REPO = os.environ.get('VERIF_REPO', '/repo')
COQ = os.path.join(VERIF, 'coq')
THEORIES = os.path.join(COQ, 'theories')
WORKROOT = os.path.join(VERIF, '_work')
NCPU = max(1, min(16, int(os.environ.get('VERIF_NCPU') or (os.cpu_count() or 1))))
OUTROOT = os.environ.get('VERIF_OUT') or VERIF      # where evidence/ and replays/ are written (campaign runs redirect it)

ALLOWED_AXIOMS = set()   # the development is expected to be closed under the global context

TRUSTED_BASE = [
    "Coq 8.16.1 kernel and its vm_compute bytecode VM (no native_compute)",
    "axioms: none (every Print Assumptions in Props/ must say 'Closed under the global context')",
    "hand-written Gallina model of the Python code, tied to /repo by the correspondence check of this run "
    "(the Python functions and the model are run on the same inputs; the model is evaluated inside Coq)",
    "the Python harness: recorder, canonicaliser, Coq-term encoder, verdict parser (harness/*.py)",
    "CPython 3.12 semantics of the modelled idioms; PuLP's expression algebra; CBC as a MILP oracle; "
    "numpy RNG contract; argparse; the file system and wall clock",
]


def setup_repo_path():
    """Import matchingproblems from /repo's working tree and nothing else."""
    if REPO not in sys.path:
        sys.path.insert(0, REPO)
    import matchingproblems  # noqa
    f = os.path.abspath(matchingproblems.__file__)
    if not f.startswith(os.path.abspath(REPO) + os.sep):
        raise SystemExit('matchingproblems imported from %s, not from %s' % (f, REPO))


# --------------------------------------------------------------------------------------
# Coq side
# --------------------------------------------------------------------------------------

def _run(cmd, cwd=None, timeout=1800, env=None):
    p = subprocess.run(cmd, cwd=cwd, stdout=subprocess.PIPE, stderr=subprocess.STDOUT,
                       timeout=timeout, env=env, text=True, errors='replace')
    return p.returncode, p.stdout


def coq_build(clean=False):
    """Full .vo build of the development (no-op when up to date). Serialised by a lock."""
    os.makedirs(WORKROOT, exist_ok=True)
    with open(os.path.join(WORKROOT, '.build.lock'), 'w') as lk:
        fcntl.flock(lk, fcntl.LOCK_EX)
        if clean and os.path.exists(os.path.join(COQ, 'Makefile')):
            _run(['make', 'clean'], cwd=COQ)
        if not os.path.exists(os.path.join(COQ, 'Makefile')) or clean:
            rc, out = _run(['coq_makefile', '-f', '_CoqProject', '-o', 'Makefile'], cwd=COQ)
            if rc != 0:
                return False, out
        rc, out = _run(['make', '-j%d' % NCPU], cwd=COQ, timeout=3000)
        return rc == 0, out


GATE_RE = re.compile(r'\b(Admitted|admit|Axiom|Axioms|Parameter|Parameters|Conjecture|bypass_check)\b'
                     r'|Unset\s+Guard|Unset\s+Positivity|Unset\s+Universe|type-in-type|impredicative-set'
                     r'|Admit\s+Obligations')


def clean_build_copy(tag):
    """Full build from clean in a private copy of the sources (does not disturb the shared .vo files)."""
    d = os.path.join(WORKROOT, 'cleanbuild_%s_%d' % (tag, os.getpid()))
    shutil.rmtree(d, ignore_errors=True)
    os.makedirs(d)
    try:
        shutil.copy(os.path.join(COQ, '_CoqProject'), d)
        for root, _, files in os.walk(THEORIES):
            for fn in files:
                if fn.endswith('.v'):
                    rel = os.path.relpath(os.path.join(root, fn), COQ)
                    os.makedirs(os.path.dirname(os.path.join(d, rel)), exist_ok=True)
                    shutil.copy(os.path.join(root, fn), os.path.join(d, rel))
        rc, out = _run(['coq_makefile', '-f', '_CoqProject', '-o', 'Makefile'], cwd=d)
        if rc != 0:
            return False, out
        rc, out = _run(['make', '-j%d' % max(2, NCPU // 2)], cwd=d, timeout=3000)
        return rc == 0, out[-3000:]
    finally:
        shutil.rmtree(d, ignore_errors=True)


def grep_gate():
    """No Admitted / admit / Axiom / Parameter / Conjecture / kernel check switches anywhere."""
    hits = []
    for root, _, files in os.walk(COQ):
        for fn in files:
            if fn.endswith('.v') or fn == '_CoqProject':
                path = os.path.join(root, fn)
                with open(path, errors='replace') as f:
                    for i, line in enumerate(f, 1):
                        if GATE_RE.search(line):
                            hits.append('%s:%d: %s' % (os.path.relpath(path, VERIF), i, line.strip()))
    return hits


def check_obligations(prop_id, thorough=False):
    """Re-compile Props/<id>.v and read its Print Assumptions output.
    Returns dict(obligations, discharged, theorems, assumptions_text, ok, log)."""
    src = os.path.join(THEORIES, 'Props', prop_id + '.v')
    res = dict(obligations=0, discharged=0, theorems=[], assumptions=[], ok=False, log='')
    if not os.path.exists(src):
        res['log'] = 'no Props file'
        return res
    text = open(src).read()
    thms = re.findall(r'^\s*(?:Theorem|Corollary)\s+(\w+)', text, re.M)
    res['theorems'] = thms
    res['obligations'] = len(thms)
    ok, out = coq_build(clean=False)
    if not ok:
        res['log'] = 'coq build failed:\n' + out[-4000:]
        return res
    gate = grep_gate()
    if gate:
        res['log'] = 'grep gate hits:\n' + '\n'.join(gate)
        return res
    rc, out = _run(['coqc', '-Q', 'theories', 'MP', 'theories/Props/%s.v' % prop_id], cwd=COQ, timeout=1200)
    res['log'] = out[-6000:]
    if rc != 0:
        return res
    # split the output into Print Assumptions blocks
    blocks = re.split(r'(?=Closed under the global context|Axioms:)', out)
    closed = 0
    bad = []
    for b in blocks:
        if b.startswith('Closed under the global context'):
            closed += 1
        elif b.startswith('Axioms:'):
            names = re.findall(r'^(\S+)\s*:', b[len('Axioms:'):], re.M)
            extra = [n for n in names if n not in ALLOWED_AXIOMS]
            if extra:
                bad.append(extra)
            else:
                closed += 1
    res['assumptions'] = ['%d Print Assumptions blocks: %d closed under the global context' % (closed + len(bad), closed)]
    if bad:
        res['log'] += '\nunexpected axioms: %r' % bad
        res['discharged'] = closed
        return res
    n_print = len(re.findall(r'^\s*Print Assumptions\s+(\w+)', text, re.M))
    if closed < min(n_print, len(thms)) or n_print < len(thms):
        res['log'] += '\nfewer Print Assumptions results (%d) than theorems (%d)' % (closed, len(thms))
        res['discharged'] = closed
        return res
    res['discharged'] = len(thms)
    res['ok'] = True
    if thorough:
        rc2, out2 = _run(['coqchk', '-silent', '-o', '-Q', 'theories', 'MP', 'MP.Props.%s' % prop_id],
                         cwd=COQ, timeout=3000)
        res['coqchk'] = out2[-3000:]
        if rc2 != 0:
            res['ok'] = False
            res['discharged'] = 0
            res['log'] += '\ncoqchk failed:\n' + out2[-3000:]
    return res


MAX_SHARD_BYTES = 600000


def _big_stack():
    """raise the stack limit of a coqc child as far as allowed (large literals are parsed recursively)"""
    try:
        import resource
        soft, hard = resource.getrlimit(resource.RLIMIT_STACK)
        resource.setrlimit(resource.RLIMIT_STACK, (hard, hard))
    except Exception:
        pass


class CoqRunner:
    """Evaluates boolean case terms inside Coq (vm_compute); one verdict per case."""

    def __init__(self, workdir, shard=300):
        self.workdir = workdir
        self.shard = shard
        os.makedirs(workdir, exist_ok=True)
        self.counter = 0

    def _write(self, name, requires, body):
        path = os.path.join(self.workdir, name + '.v')
        with open(path, 'w') as f:
            f.write('From MP Require Import %s.\n' % ' '.join(['Base.PyStr'] + [r for r in requires if r != 'Base.PyStr']))
            f.write('Open Scope Z_scope.\n')
            f.write(body)
        return path

    def run_cases(self, tag, requires, cases, shard=None):
        """cases: list of Coq terms of type bool. Returns (failing indices, error text or None)."""
        if not cases:
            return [], None
        files = []
        shard = shard or self.shard
        # a shard holds at most `shard` cases and at most MAX_SHARD_BYTES of literals (a multi-megabyte literal
        # overflows coqc's stack)
        bounds = []
        start, size = 0, 0
        for i, c in enumerate(cases):
            if i > start and (i - start >= shard or size + len(c) > MAX_SHARD_BYTES):
                bounds.append((start, i))
                start, size = i, 0
            size += len(c)
        bounds.append((start, len(cases)))
        for si, sj in bounds:
            chunk = cases[si:sj]
            self.counter += 1
            name = 'cases_%s_%d' % (re.sub(r'\W', '_', tag), self.counter)
            body = 'Definition cases : list bool := [\n' + ';\n'.join(chunk) + '\n].\n'
            body += 'Eval vm_compute in (failing cases).\n'
            files.append((si, self._write(name, requires, body)))
        procs = []
        failing = []
        errors = []
        pending = list(files)
        running = []
        while pending or running:
            while pending and len(running) < NCPU:
                si, path = pending.pop(0)
                p = subprocess.Popen(['timeout', '900', 'coqc', '-Q', THEORIES, 'MP', path], preexec_fn=_big_stack,
                                     cwd=self.workdir, stdout=subprocess.PIPE, stderr=subprocess.STDOUT, text=True)
                running.append((si, path, p))
            si, path, p = running.pop(0)
            out, _ = p.communicate()
            if p.returncode != 0:
                errors.append('%s: coqc exit %d\n%s' % (path, p.returncode, out[-3000:]))
                continue
            m = re.search(r'=\s*\[(.*?)\]\s*:\s*list nat', out, re.S)
            if not m:
                errors.append('%s: cannot parse output\n%s' % (path, out[-2000:]))
                continue
            idx = [int(x) for x in re.findall(r'\d+', m.group(1))]
            failing.extend(si + i for i in idx)
        return sorted(failing), ('\n'.join(errors) if errors else None)

    def eval(self, requires, term, timeout=300):
        """Evaluate one term and return Coq's printed answer (diagnostics only)."""
        self.counter += 1
        path = self._write('diag_%d' % self.counter, requires, 'Eval vm_compute in (%s).\n' % term)
        rc, out = _run(['timeout', str(timeout), 'coqc', '-Q', THEORIES, 'MP', path], cwd=self.workdir)
        return out.strip()[-4000:]


# --------------------------------------------------------------------------------------
# Python -> Coq term encoders
# --------------------------------------------------------------------------------------

def cz(n):
    n = int(n)
    return '(%d)' % n if n < 0 else '%d' % n


def cnat(n):
    return '%d%%nat' % int(n)


def cbool(b):
    return 'true' if b else 'false'


def cstr(s):
    parts = []          # literal segments and single control characters
    cur = ''
    for ch in s:
        o = ord(ch)
        if o > 126:
            raise ValueError('non-ASCII character in string for Coq: %r' % ch)
        if o < 32 and ch not in '\n\t':
            parts.append(cur)
            parts.append(o)
            cur = ''
        else:
            cur += ch
    parts.append(cur)
    lit = lambda t: '"' + t.replace('"', '""') + '"%string'
    if len(parts) == 1:
        return lit(parts[0])
    # control characters are written as String "ddd"%char (three-digit decimal code) between the literal segments
    out = lit(parts[-1])
    for x in reversed(parts[:-1]):
        if isinstance(x, int):
            out = '(String "%03d"%%char %s)' % (x, out)
        elif x:
            out = '(String.append %s %s)' % (lit(x), out)
    return out


def clist(items):
    return '[' + '; '.join(items) + ']'


def czlist(l):
    return clist([cz(x) for x in l])


def cblist(l):
    return clist([cbool(x) for x in l])


def cslist(l):
    return clist([cstr(x) for x in l])


def copt(x, enc):
    return 'None' if x is None else '(Some %s)' % enc(x)


ERRMAP = {
    'TypeError': 'TypeError', 'IndexError': 'IndexError', 'KeyError': 'KeyError', 'ValueError': 'ValueError',
    'ZeroDivisionError': 'ZeroDivisionError', 'AttributeError': 'AttributeError',
    'PulpSolverError': 'PulpSolverError', 'SystemExit': 'SystemExit2',
}


def cerr(name):
    return ERRMAP.get(name, 'OtherError')


def cresult(obs, enc):
    """obs = ('ok', value) | ('exc', class name)"""
    if obs[0] == 'ok':
        return '(Ok %s)' % enc(obs[1])
    return '(Crash %s)' % cerr(obs[1])


def observe(fn, *a, **k):
    """Run an implementation function; value or exception class name (SystemExit included)."""
    try:
        return ['ok', fn(*a, **k)]
    except SystemExit as e:
        return ['exc', 'SystemExit', str(e.code)]
    except BaseException as e:  # noqa
        if isinstance(e, KeyboardInterrupt):
            raise
        return ['exc', type(e).__name__, str(e)[:200]]


# --------------------------------------------------------------------------------------
# known findings, replays, evidence
# --------------------------------------------------------------------------------------

def load_known():
    p = os.path.join(VERIF, 'known_findings.json')
    if not os.path.exists(p):
        return []
    return json.load(open(p))


def sig_hash(sig):
    return hashlib.sha256(json.dumps(sig, sort_keys=True).encode()).hexdigest()[:16]


def write_replay(prop_id, name, payload):
    d = os.path.join(OUTROOT, 'replays')
    os.makedirs(d, exist_ok=True)
    path = os.path.join(d, '%s_%s.json' % (prop_id, name))
    with open(path, 'w') as f:
        json.dump(payload, f, indent=1, sort_keys=True, default=str)
    return path


def write_evidence(prop_id, tier, seed, coverage, wall_s, violations, assumptions=None):
    d = os.path.join(OUTROOT, 'evidence')
    os.makedirs(d, exist_ok=True)
    ev = dict(property_id=prop_id, tier=tier, seed=int(seed), level='proof', coverage=coverage,
              assumptions=assumptions or TRUSTED_BASE, wall_s=round(wall_s, 2), violations=int(violations))
    with open(os.path.join(d, prop_id + '.json'), 'w') as f:
        json.dump(ev, f, indent=1, sort_keys=True, default=str)


def workdir(prop_id):
    d = os.path.join(WORKROOT, '%s_%d' % (prop_id, os.getpid()))
    shutil.rmtree(d, ignore_errors=True)
    os.makedirs(d)
    return d
