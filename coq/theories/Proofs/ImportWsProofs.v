(* C10 for arbitrary blank/tab layout: the model of the solver's importer reads every file of the documented
   format, written with any runs of blanks/tabs before, between and after the tokens of a line, with or without
   the trailing information block and with or without the final newline, as the instance the file denotes. *)
From MP Require Import Text.RenderWs Proofs.TiesProofs Proofs.ImportProofs Proofs.PipelineProofs.
From Coq Require Import Lia.
Local Open Scope list_scope. Open Scope Z_scope.

Local Notation NL1 := (String nl EmptyString).
Local Notation rc := (remove_char colon).

(* ====================================================================== *)
(* 1. blanks                                                               *)
(* ====================================================================== *)

Lemma blank_facts : forall c,
  implb (blank_char c) (is_ws c && negb (Ascii.eqb c colon) && negb (Ascii.eqb c nl)) = true.
Proof. intros [[] [] [] [] [] [] [] []]; vm_compute; reflexivity. Qed.

Lemma blank_ws : forall c, blank_char c = true -> is_ws c = true.
Proof.
  intros c H. pose proof (blank_facts c) as F. rewrite H in F. cbn [implb] in F.
  rewrite !andb_true_iff in F. tauto.
Qed.

Lemma all_blank_chars : forall s, all_blank s = all_chars blank_char s.
Proof. induction s as [|a s IH]; [reflexivity|]. cbn [all_blank all_chars]. now rewrite IH. Qed.

Lemma blank_no_colon : forall s, all_blank s = true -> contains_char colon s = false.
Proof.
  intros s H. rewrite all_blank_chars in H.
  apply contains_char_false with blank_char; [assumption|reflexivity].
Qed.

Lemma blank_no_nl : forall s, all_blank s = true -> no_nl s.
Proof.
  intros s H. rewrite all_blank_chars in H. unfold no_nl.
  apply contains_char_false with blank_char; [assumption|reflexivity].
Qed.

Lemma rc_blank : forall s, all_blank s = true -> rc s = s.
Proof. intros s H. apply remove_char_id. now apply blank_no_colon. Qed.

Lemma sep_ok_inv : forall s, sep_ok s = true ->
  exists c s', s = String c s' /\ blank_char c = true /\ all_blank s' = true.
Proof.
  intros [|c s] H; unfold sep_ok in H; apply andb_true_iff in H as [H1 H2].
  - cbn in H2. discriminate H2.
  - cbn [all_blank] in H1. apply andb_true_iff in H1 as [Ha Hb]. exists c, s. auto.
Qed.

Lemma sep_ok_blank : forall s, sep_ok s = true -> all_blank s = true.
Proof. intros s H. unfold sep_ok in H. now apply andb_true_iff in H as [H _]. Qed.

Lemma hd_blank : forall seps, forallb sep_ok seps = true -> all_blank (hd " "%string seps) = true.
Proof.
  intros [|s seps] H; [reflexivity|]. cbn [forallb] in H. apply andb_true_iff in H as [H _].
  cbn [hd]. now apply sep_ok_blank.
Qed.

Lemma tl_seps : forall seps, forallb sep_ok seps = true -> forallb sep_ok (tl seps) = true.
Proof. intros [|s seps] H; [reflexivity|]. cbn [forallb] in H. now apply andb_true_iff in H as [_ H]. Qed.

Lemma ws_join_cons2 : forall seps x y t,
  ws_join seps (x :: y :: t) = x +++ hd " "%string seps +++ ws_join (tl seps) (y :: t).
Proof. reflexivity. Qed.

Lemma layout_ok_inv : forall ly n, layout_ok ly n = true ->
  all_blank (ly_lead ly) = true /\ all_blank (ly_trail ly) = true /\
  forallb sep_ok (ly_seps ly) = true /\ length (ly_seps ly) = Nat.pred n.
Proof.
  intros ly n H. unfold layout_ok in H.
  apply andb_true_iff in H as [H H4]. apply andb_true_iff in H as [H H3]. apply andb_true_iff in H as [H1 H2].
  apply Nat.eqb_eq in H4. auto.
Qed.

(* ====================================================================== *)
(* 2. split of a laid-out line                                             *)
(* ====================================================================== *)

Lemma split_ws_aux_blank : forall b rest, all_blank b = true ->
  split_ws_aux (b +++ rest) EmptyString = split_ws_aux rest EmptyString.
Proof.
  induction b as [|c b IH]; intros rest H; [reflexivity|].
  cbn [all_blank] in H. apply andb_true_iff in H as [Hc Hb].
  cbn [String.append split_ws_aux]. rewrite (blank_ws _ Hc). now apply IH.
Qed.

Lemma split_ws_aux_sep : forall s rest c cur, sep_ok s = true ->
  split_ws_aux (s +++ rest) (String c cur) = String c cur :: split_ws_aux rest EmptyString.
Proof.
  intros s rest c cur H. destruct (sep_ok_inv _ H) as (a & s' & -> & Ha & Hs).
  cbn [String.append split_ws_aux]. rewrite (blank_ws _ Ha). f_equal. now apply split_ws_aux_blank.
Qed.

Lemma split_ws_aux_end : forall b cur, all_blank b = true ->
  split_ws_aux b cur = match cur with EmptyString => [] | _ => [cur] end.
Proof.
  induction b as [|a b IH]; intros cur H; [reflexivity|].
  cbn [all_blank] in H. apply andb_true_iff in H as [Ha Hb].
  cbn [split_ws_aux]. rewrite (blank_ws _ Ha). destruct cur; rewrite IH by assumption; reflexivity.
Qed.

Lemma split_ws_aux_ws_join : forall toks seps trail,
  Forall good toks -> forallb sep_ok seps = true -> length seps = Nat.pred (length toks) ->
  all_blank trail = true ->
  split_ws_aux (ws_join seps toks +++ trail) EmptyString = toks.
Proof.
  induction toks as [|t toks IH]; intros seps trail G S L B.
  - cbn [ws_join String.append]. now rewrite split_ws_aux_end.
  - inversion G as [|? ? [Hne Ht] G']; subst.
    destruct toks as [|t2 rest].
    + cbn [ws_join]. rewrite split_ws_aux_tok by assumption. cbn [String.append].
      rewrite split_ws_aux_end by assumption. destruct t; [now elim Hne|reflexivity].
    + destruct seps as [|s seps']; [discriminate L|].
      cbn [forallb] in S. apply andb_true_iff in S as [Ss S'].
      rewrite ws_join_cons2. cbn [hd tl]. rewrite !append_assoc.
      rewrite split_ws_aux_tok by assumption. cbn [String.append].
      destruct t as [|c t]; [now elim Hne|].
      rewrite split_ws_aux_sep by assumption. f_equal.
      apply IH; try assumption. cbn [length Nat.pred] in L |- *. lia.
Qed.

(* route (1a) *)
Lemma split_ws_layout : forall ly toks,
  Forall good toks -> layout_ok ly (length toks) = true -> split_ws (layout_line ly toks) = toks.
Proof.
  intros ly toks G H. destruct (layout_ok_inv _ _ H) as (H1 & H2 & H3 & H4).
  unfold split_ws, layout_line. rewrite split_ws_aux_blank by assumption.
  now apply split_ws_aux_ws_join.
Qed.

Lemma rc_ws_join : forall toks seps, forallb sep_ok seps = true ->
  rc (ws_join seps toks) = ws_join seps (map rc toks).
Proof.
  induction toks as [|t toks IH]; intros seps S; [reflexivity|].
  destruct toks as [|t2 rest]; [reflexivity|].
  cbn [map]. rewrite !ws_join_cons2. rewrite !remove_char_app.
  rewrite (IH (tl seps)) by now apply tl_seps. cbn [map].
  rewrite (rc_blank (hd " "%string seps)) by now apply hd_blank. reflexivity.
Qed.

(* tokens that stay tokens when their colons are removed *)
Definition rgood (t : string) : Prop := good t /\ good (rc t).

Lemma rgood_good : forall toks, Forall rgood toks -> Forall good toks.
Proof. intros toks H. eapply Forall_impl; [|exact H]. now intros t [G _]. Qed.

Lemma rgood_rc_good : forall toks, Forall rgood toks -> Forall good (map rc toks).
Proof.
  intros toks H. apply Forall_forall. intros s Hs. apply in_map_iff in Hs as (t & <- & Ht).
  rewrite Forall_forall in H. now destruct (H t Ht).
Qed.

(* route (1b) *)
Lemma line_tokens_layout : forall ly toks,
  Forall rgood toks -> layout_ok ly (length toks) = true ->
  line_tokens (layout_line ly toks) = map rc toks.
Proof.
  intros ly toks G H. destruct (layout_ok_inv _ _ H) as (H1 & H2 & H3 & H4).
  unfold line_tokens, layout_line. rewrite !remove_char_app, rc_ws_join by assumption.
  rewrite (rc_blank (ly_lead ly)), (rc_blank (ly_trail ly)) by assumption.
  change (split_ws (layout_line ly (map rc toks)) = map rc toks).
  apply split_ws_layout; [now apply rgood_rc_good|]. now rewrite map_length.
Qed.

Lemma layout_tokeq : forall ly toks,
  Forall rgood toks -> layout_ok ly (length toks) = true ->
  tokeq (layout_line ly toks) (join " "%string toks).
Proof.
  intros ly toks G H. unfold tokeq. rewrite line_tokens_layout by assumption.
  symmetry. apply line_tokens_join. now apply rgood_rc_good.
Qed.

(* a laid-out line contains no newline *)
Lemma good_no_nl : forall t, good t -> no_nl t.
Proof. intros t [_ H]. unfold no_nl. apply contains_char_false with lch; [assumption|reflexivity]. Qed.

Lemma ws_join_no_nl : forall toks seps,
  Forall good toks -> forallb sep_ok seps = true -> no_nl (ws_join seps toks).
Proof.
  induction toks as [|t toks IH]; intros seps G S; [reflexivity|].
  inversion G as [|? ? Gt G']; subst.
  destruct toks as [|t2 rest]; [now apply good_no_nl|].
  rewrite ws_join_cons2. unfold no_nl. rewrite !contains_char_app.
  rewrite (good_no_nl _ Gt), (blank_no_nl _ (hd_blank _ S)).
  rewrite (IH (tl seps) G' (tl_seps _ S)). reflexivity.
Qed.

Lemma layout_no_nl : forall ly toks,
  Forall good toks -> layout_ok ly (length toks) = true -> no_nl (layout_line ly toks).
Proof.
  intros ly toks G H. destruct (layout_ok_inv _ _ H) as (H1 & H2 & H3 & H4).
  unfold layout_line, no_nl. rewrite !contains_char_app.
  rewrite (blank_no_nl _ H1), (blank_no_nl _ H2), (ws_join_no_nl _ _ G H3). reflexivity.
Qed.

Lemma layout_nonempty : forall ly toks,
  Forall good toks -> toks <> [] -> layout_ok ly (length toks) = true -> layout_line ly toks <> EmptyString.
Proof.
  intros ly toks G Hne H E. pose proof (split_ws_layout ly toks G H) as S.
  rewrite E in S. cbn in S. now apply Hne.
Qed.

(* ====================================================================== *)
(* 3. the tokens of the documented lines                                   *)
(* ====================================================================== *)

Lemma pgood_rgood : forall s, pgood s -> rgood s.
Proof.
  intros s H. split; [now apply pgood_good|]. rewrite remove_colon_pgood by assumption. now apply pgood_good.
Qed.

Lemma label_rgood : forall z, rgood (label z).
Proof. intro z. split; [apply label_good|]. rewrite remove_colon_label. apply str_of_Z_good. Qed.

Lemma str_rgood : forall z, rgood (str_of_Z z).
Proof. intro z. apply pgood_rgood, str_of_Z_pgood. Qed.

Lemma plist_tokens_rgood : forall l, Forall rgood (plist_tokens l).
Proof. intro l. eapply Forall_impl; [|apply plist_tokens_pgood]. apply pgood_rgood. Qed.

Definition line_ok (toks : list string) : Prop := Forall rgood toks /\ toks <> [].

Lemma numbered_P {X} (P : list string -> Prop) : forall (f : Z -> X -> list string) l i,
  (forall i x, P (f i x)) -> Forall P (numbered f i l).
Proof.
  induction l as [|x l IH]; intros i H; cbn [numbered]; [constructor|].
  constructor; [apply H|now apply IH].
Qed.

Lemma ast_lines_ok : forall na A, Forall line_ok (ast_lines na A).
Proof.
  intros na A. unfold ast_lines.
  apply Forall_app_intro; [|apply Forall_app_intro].
  - constructor; [|constructor]. split; [|discriminate]. apply Forall_app_intro.
    + repeat (constructor; [apply str_rgood|]). constructor.
    + destruct (na =? 3); [|constructor]. constructor; [apply str_rgood|constructor].
  - apply numbered_P. intros i l. split; [|discriminate].
    constructor; [apply label_rgood|apply plist_tokens_rgood].
  - destruct (na =? 3).
    + apply Forall_app_intro; apply numbered_P.
      * intros j q. split; [|discriminate].
        repeat (constructor; [apply label_rgood|]). constructor; [apply str_rgood|constructor].
      * intros k [[[lq tg] uq] l]. split; [|discriminate].
        apply Forall_app_intro; [|apply plist_tokens_rgood].
        repeat (constructor; [apply label_rgood|]). constructor.
    + apply numbered_P. intros j ql. split; [|discriminate].
      apply Forall_app_intro; [|apply plist_tokens_rgood].
      repeat (constructor; [apply label_rgood|]). constructor.
Qed.

Lemma ast_lines_cons : forall na A, exists h T, ast_lines na A = h :: T.
Proof. intros na A. unfold ast_lines. cbn [app]. eauto. Qed.

(* ====================================================================== *)
(* 4. the lines of the text                                                *)
(* ====================================================================== *)

Lemma join_nl_app : forall L R, R <> [] ->
  join NL1 (L ++ R) = concat_str (map addnl L) +++ join NL1 R.
Proof.
  induction L as [|x L IH]; intros R HR; [reflexivity|].
  cbn [app map concat_str fold_right]. fold (concat_str (map addnl L)).
  destruct (L ++ R) as [|y t] eqn:E.
  - apply app_eq_nil in E as [_ E]. now elim HR.
  - rewrite join_cons2. rewrite <- E. rewrite IH by assumption.
    unfold addnl. now rewrite !append_assoc.
Qed.

Lemma lines_aux_nonl : forall l cur, no_nl l ->
  lines_aux l cur = match cur +++ l with EmptyString => [] | _ => [cur +++ l] end.
Proof.
  induction l as [|a l IH]; intros cur H.
  - rewrite append_empty_r. reflexivity.
  - unfold no_nl in H. cbn [contains_char] in H. apply orb_false_iff in H as [Ha Hl].
    cbn [lines_aux]. rewrite Ha. rewrite IH by exact Hl. rewrite append_assoc. reflexivity.
Qed.

(* route (2) *)
Lemma lines_join_nl : forall L tr (fnl : bool),
  Forall no_nl L -> L <> [] -> last L EmptyString <> EmptyString ->
  exists TR, lines (join NL1 (L ++ tr) +++ (if fnl then NL1 else EmptyString)) = L ++ TR /\ Forall no_nl TR.
Proof.
  intros L tr fnl HL Hne Hlast. unfold lines. destruct tr as [|t tr].
  - exists []. split; [|constructor]. rewrite !app_nil_r.
    destruct (exists_last Hne) as (L0 & z & ->). rewrite last_last in Hlast.
    apply Forall_app in HL as [HL0 Hz]. inversion Hz as [|? ? Hz' _]; subst.
    rewrite join_nl_app by discriminate. cbn [join]. rewrite append_assoc.
    rewrite lines_aux_render by exact HL0. f_equal.
    destruct fnl.
    + rewrite lines_aux_line by exact Hz'. reflexivity.
    + rewrite append_empty_r, lines_aux_nonl by exact Hz'. cbn [String.append].
      destruct z; [now elim Hlast|reflexivity].
  - exists (lines_aux (join NL1 (t :: tr) +++ (if fnl then NL1 else EmptyString)) EmptyString).
    rewrite join_nl_app by discriminate. rewrite append_assoc.
    rewrite lines_aux_render by exact HL. split; [reflexivity|].
    apply lines_aux_no_nl. reflexivity.
Qed.

Lemma Forall_last {X} (P : X -> Prop) : forall (l : list X) d, l <> [] -> Forall P l -> P (last l d).
Proof.
  intros l d Hne H. destruct (exists_last Hne) as (l0 & z & ->). rewrite last_last.
  apply Forall_app in H as [_ H]. now inversion H.
Qed.

(* ====================================================================== *)
(* 5. the laid-out lines are read like the single-blank lines              *)
(* ====================================================================== *)

Definition lay_lines (lys : list layout) (T : list (list string)) : list string :=
  map (fun p => layout_line (fst p) (snd p)) (combine lys T).

Lemma lay_lines_props : forall T lys,
  Forall line_ok T -> length lys = length T ->
  (forall i ly toks, nth_error lys i = Some ly -> nth_error T i = Some toks -> layout_ok ly (length toks) = true) ->
  Forall2 tokeq (lay_lines lys T) (map (join " "%string) T) /\
  Forall (fun s => no_nl s /\ s <> EmptyString) (lay_lines lys T).
Proof.
  induction T as [|toks T IH]; intros [|ly lys] HT HL H; try discriminate HL.
  - split; constructor.
  - inversion HT as [|? ? [Ht Hne] HT']; subst.
    pose proof (H 0%nat ly toks eq_refl eq_refl) as Hly.
    destruct (IH lys HT') as [I1 I2].
    + cbn [length] in HL. lia.
    + intros i ly' toks' A B. exact (H (S i) ly' toks' A B).
    + unfold lay_lines. cbn [combine map fst snd]. split.
      * constructor; [now apply layout_tokeq|exact I1].
      * constructor; [|exact I2]. split.
        -- apply layout_no_nl; [now apply rgood_good|assumption].
        -- apply layout_nonempty; [now apply rgood_good|assumption|assumption].
Qed.

(* route (3): the header is read with [split_ws] *)
Lemma step0_split : forall na tw x y a, split_ws x = split_ws y -> step na tw 0 x a = step na tw 0 y a.
Proof.
  intros na tw x y a H. unfold step. cbv zeta. change (0 =? 0) with true. cbv beta iota.
  rewrite H. reflexivity.
Qed.

Lemma import_lines_hdeq : forall na tw h1 h2 ls1 ls2,
  split_ws h1 = split_ws h2 -> Forall2 tokeq ls1 ls2 ->
  import_lines (h1 :: ls1) na tw = import_lines (h2 :: ls2) na tw.
Proof.
  intros na tw h1 h2 ls1 ls2 Hh H. unfold import_lines. cbn [run_lines].
  rewrite (step0_split na tw h1 h2 acc0 Hh).
  destruct (step na tw 0 h2 acc0) as [a'|e]; [|reflexivity]. cbn [bind].
  rewrite (run_lines_tokeq na tw ls1 ls2 H) by lia. reflexivity.
Qed.

(* ====================================================================== *)
(* main theorem                                                            *)
(* ====================================================================== *)

Theorem import_render_ws : forall na twopl A lys trailer final_nl,
  wf_ast na twopl A = true ->
  length lys = length (ast_lines na A) ->
  (forall i ly toks, nth_error lys i = Some ly -> nth_error (ast_lines na A) i = Some toks -> layout_ok ly (length toks) = true) ->
  import_model (render_ws na A lys trailer final_nl) na twopl = Ok (denote na twopl A).
Proof.
  intros na tw A lys trailer fnl W Hlen Hly.
  pose proof (ast_lines_ok na A) as OK.
  destruct (lay_lines_props _ _ OK Hlen Hly) as [TE NN].
  destruct (ast_lines_cons na A) as (h & T & EA).
  unfold import_model, render_ws, ws_lines. fold (lay_lines lys (ast_lines na A)).
  assert (Hne : lay_lines lys (ast_lines na A) <> []).
  { rewrite EA. destruct lys as [|ly lys']; [rewrite EA in Hlen; discriminate Hlen|discriminate]. }
  destruct (lines_join_nl (lay_lines lys (ast_lines na A)) trailer fnl) as (TR & -> & HTR).
  - eapply Forall_impl; [|exact NN]. now intros s [N _].
  - exact Hne.
  - apply (Forall_last (fun s => s <> EmptyString)); [exact Hne|].
    eapply Forall_impl; [|exact NN]. now intros s [_ N].
  - rewrite <- (import_lines_ast na tw A TR W HTR).
    rewrite EA in *. destruct lys as [|ly lys']; [discriminate Hlen|].
    unfold lay_lines in *. cbn [combine map fst snd app] in *.
    inversion TE as [|? ? ? ? _ TE']; subst. inversion OK as [|? ? [Rh _] _]; subst.
    apply import_lines_hdeq.
    + rewrite split_ws_layout; [|now apply rgood_good|exact (Hly 0%nat ly h eq_refl eq_refl)].
      symmetry. apply split_ws_join. now apply rgood_good.
    + apply Forall2_app; [exact TE'|]. apply Forall2_refl. reflexivity.
Qed.

Print Assumptions import_render_ws.
