(* Composition: every argument set the option parser accepts makes the instance writers produce exactly the
   requested number of files, for any draws honouring the random-number contract; a rejected one writes nothing. *)
From MP Require Import Gen.ArgsBridge Proofs.ArgsProofs Proofs.PipelineProofs Proofs.GenFiles.
From Coq Require Import Lia ZArith Bool List.
Local Open Scope list_scope. Open Scope Z_scope.

(* ---------------------------------------------------------------------- *)
(* mapM helpers                                                            *)
(* ---------------------------------------------------------------------- *)

Lemma mapM_total {A B} (f : A -> result B) : forall l,
  (forall x, In x l -> exists y, f x = Ok y) -> exists out, mapM f l = Ok out.
Proof.
  induction l as [|x l IH]; intros H.
  - exists []. reflexivity.
  - destruct (H x (or_introl eq_refl)) as [y Hy].
    destruct IH as [ys Hys]. { intros z Hz. apply H. right. exact Hz. }
    exists (y :: ys). cbn [mapM]. rewrite Hy. cbn [bind]. rewrite Hys. reflexivity.
Qed.

Lemma mapM_crash {A B} (f : A -> result B) : forall l e,
  mapM f l = Crash e -> exists x, In x l /\ f x = Crash e.
Proof.
  induction l as [|x l IH]; intros e H.
  - cbn [mapM] in H. discriminate.
  - cbn [mapM] in H. destruct (f x) as [y|e1] eqn:E; cbn [bind] in H.
    + destruct (mapM f l) as [ys|e2] eqn:El; cbn [bind] in H; [discriminate|].
      injection H as ->. destruct (IH e eq_refl) as [z [Hz Hf]].
      exists z. split; [right; exact Hz|exact Hf].
    + injection H as ->. exists x. split; [left; reflexivity|exact E].
Qed.

(* ---------------------------------------------------------------------- *)
(* the documented rule implies the writers' precondition                   *)
(* ---------------------------------------------------------------------- *)

Lemma documented_ok_gargs : forall a t1 t2 sk lts,
  documented_ok a = true -> gargs_ok (gargs_of (with_defaults a) t1 t2 sk lts).
Proof.
  intros [numinst m twopl skew n1 n2 n3 pmin pmax q1 q2 lq llq uq luq lt] t1 t2 sk lts H.
  unfold documented_ok in H.
  cbn [a_numinst a_mp a_twopl a_skew a_n1 a_n2 a_n3 a_pmin a_pmax a_t1 a_t2 a_lq a_llq a_uq a_luq a_lt] in H.
  unfold gargs_ok, gargs_of, with_defaults.
  cbn [a_numinst a_mp a_twopl a_skew a_n1 a_n2 a_n3 a_pmin a_pmax a_t1 a_t2 a_lq a_llq a_uq a_luq a_lt
       g_mp g_numinst g_twopl g_n1 g_n2 g_n3 g_pmin g_pmax g_t1 g_t2 g_skew g_lq g_uq g_llq g_lt g_lt_str g_luq].
  destruct m; cbn [mpcode];
    repeat (rewrite andb_true_iff in H);
    repeat match goal with
           | Hc : _ /\ _ |- _ => destruct Hc
           end;
    repeat match goal with
           | Hc : andb _ _ = true |- _ => rewrite andb_true_iff in Hc; destruct Hc
           end;
    repeat match goal with
           | Hc : (_ <=? _) = true |- _ => apply Z.leb_le in Hc
           end;
    destruct n1, n2, n3, pmin, pmax, uq, luq; cbn [given negb] in *; try discriminate;
    destruct lq, llq, lt; cbn [zv] in *;
    repeat split; try lia; try (intro; discriminate); try (intro; lia); auto.
Qed.

Theorem accepted_args_ok : forall a a' t1 t2 sk lts,
  decide a = Accept a' -> gargs_ok (gargs_of a' t1 t2 sk lts).
Proof.
  intros a a' t1 t2 sk lts H. rewrite decide_spec in H.
  destruct (documented_ok a) eqn:D; [|discriminate].
  injection H as <-. apply documented_ok_gargs. exact D.
Qed.

Lemma numinst_gargs_of : forall a t1 t2 sk lts,
  g_numinst (gargs_of (with_defaults a) t1 t2 sk lts) = a_numinst a.
Proof. reflexivity. Qed.

Theorem accepted_args_generate : forall a t1 t2 sk lts ds,
  documented_ok a = true ->
  length ds = Z.to_nat (a_numinst a) ->
  (forall d, In d ds -> draws_contract (gargs_of (with_defaults a) t1 t2 sk lts) d) ->
  exists files, generator_run a t1 t2 sk lts ds = GFiles files /\
                length files = Z.to_nat (a_numinst a) /\
                map fst files = map (fun k => sZ k +++ ".txt"%string) (rangeZ (a_numinst a)).
Proof.
  intros a t1 t2 sk lts ds D Hlen Hc.
  unfold generator_run. rewrite decide_spec, D.
  set (g := gargs_of (with_defaults a) t1 t2 sk lts) in *.
  assert (G : gargs_ok g) by (apply documented_ok_gargs; exact D).
  assert (T : exists files, generate g ds = Ok files).
  { unfold generate. apply mapM_total. intros [k d] Hin.
    apply in_combine_r in Hin. cbn [fst snd].
    destruct (generated_file_exists g d G (Hc d Hin)) as [text Ht].
    rewrite Ht. cbn [bind]. eexists. reflexivity. }
  destruct T as [files Hf]. exists files. rewrite Hf. split; [reflexivity|].
  destruct (generate_names g ds files Hf) as [Hn Hl].
  { unfold g. rewrite numinst_gargs_of. lia. }
  unfold g in Hn, Hl. rewrite numinst_gargs_of in Hn, Hl. split; assumption.
Qed.

Theorem rejected_args_write_nothing : forall a t1 t2 sk lts ds,
  documented_ok a = false -> generator_run a t1 t2 sk lts ds = GUsage.
Proof.
  intros a t1 t2 sk lts ds D. unfold generator_run. rewrite decide_spec, D. reflexivity.
Qed.

Theorem generator_never_crashes_in_parsing : forall a t1 t2 sk lts ds e,
  generator_run a t1 t2 sk lts ds = GCrash e -> documented_ok a = true /\ exists d, In d ds /\ ~ draws_contract (gargs_of (with_defaults a) t1 t2 sk lts) d \/ length ds <> Z.to_nat (a_numinst a).
Proof.
  intros a t1 t2 sk lts ds e H. unfold generator_run in H. rewrite decide_spec in H.
  destruct (documented_ok a) eqn:D; [|discriminate].
  split; [reflexivity|].
  set (g := gargs_of (with_defaults a) t1 t2 sk lts) in *.
  assert (G : gargs_ok g) by (apply documented_ok_gargs; exact D).
  destruct (generate g ds) as [files|e1] eqn:Hg; [discriminate|].
  unfold generate in Hg. apply mapM_crash in Hg. destruct Hg as [[k d] [Hin Hf]].
  apply in_combine_r in Hin. cbn [fst snd] in Hf.
  exists d. left. split; [exact Hin|].
  intro C. destruct (generated_file_exists g d G C) as [text Ht].
  rewrite Ht in Hf. cbn [bind] in Hf. discriminate.
Qed.

(* the contrapositive reading, as a corollary *)
Theorem generator_crash_needs_bad_draws : forall a t1 t2 sk lts ds e,
  generator_run a t1 t2 sk lts ds = GCrash e -> length ds = Z.to_nat (a_numinst a) ->
  ~ (forall d, In d ds -> draws_contract (gargs_of (with_defaults a) t1 t2 sk lts) d).
Proof.
  intros a t1 t2 sk lts ds e H Hlen Hall.
  destruct (generator_never_crashes_in_parsing a t1 t2 sk lts ds e H) as [_ [d [[Hin Hn]|Hl]]].
  - apply Hn. apply Hall. exact Hin.
  - apply Hl. exact Hlen.
Qed.

Check generator_never_crashes_in_parsing.

Print Assumptions accepted_args_ok.
Print Assumptions accepted_args_generate.
Print Assumptions rejected_args_write_nothing.
Print Assumptions generator_never_crashes_in_parsing.
Print Assumptions generator_crash_needs_bad_draws.
