(* Building blocks of "each optimisation stage optimises the documented measure" (C02-C04):
   the canonical assignment of a matching, completeness of the basic constraints, what the tying
   constraints of a stage say about a feasible point, and the variable bounds. *)
From MP Require Import LP.Canon Proofs.LPSound.
From Coq Require Import Lia ZArith Bool List.
Import ListNotations.
Local Open Scope list_scope. Open Scope Z_scope.

Local Notation nz v := (fun q : pair => negb (v (X (st q) (pr q)) =? 0)).

(* ---- generic list / arithmetic helpers ------------------------------------------------- *)

Lemma in_seqZ : forall n a x, In x (seqZ a n) <-> a <= x < a + Z.of_nat n.
Proof.
  induction n as [|n IH]; intros a x.
  - cbn [seqZ In]. lia.
  - cbn [seqZ In]. rewrite IH. lia.
Qed.

Lemma seqZ_length : forall n a, length (seqZ a n) = n.
Proof.
  induction n as [|n IH]; intros a.
  - reflexivity.
  - cbn [seqZ length]. rewrite IH. reflexivity.
Qed.

Lemma zlen_app : forall A (a b : list A), zlen (a ++ b) = zlen a + zlen b.
Proof. intros. unfold zlen. rewrite app_length. lia. Qed.

Lemma map_nth_seqZ : forall (l pre : list Z),
  map (fun k => nth (Z.to_nat (k - 1)) (pre ++ l) 0) (seqZ (zlen pre + 1) (length l)) = l.
Proof.
  induction l as [|x t IH]; intros pre.
  - reflexivity.
  - cbn [length seqZ map]. f_equal.
    + replace (Z.to_nat (zlen pre + 1 - 1)) with (length pre) by (unfold zlen; lia).
      rewrite app_nth2 by lia. rewrite Nat.sub_diag. reflexivity.
    + specialize (IH (pre ++ [x])).
      rewrite <- app_assoc in IH. cbn [app] in IH.
      rewrite zlen_app in IH. unfold zlen at 2 in IH. cbn [length] in IH.
      change (Z.of_nat 1) with 1 in IH. exact IH.
Qed.

Lemma map_nth1_seqZ : forall (l : list Z),
  map (fun k => nth1 l k 0) (seqZ 1 (length l)) = l.
Proof.
  intros l. pose proof (map_nth_seqZ l []) as H. cbn [app] in H.
  change (zlen (@nil Z) + 1) with 1 in H.
  transitivity (map (fun k : Z => nth (Z.to_nat (k - 1)) l 0) (seqZ 1 (length l))); [|exact H].
  apply map_ext_in. intros k Hk.
  apply in_seqZ in Hk. unfold nth1.
  destruct (k <=? 0) eqn:E; [apply Z.leb_le in E; lia|reflexivity].
Qed.

Lemma nth1_nth : forall l k d, 1 <= k -> nth1 l k d = nth (Z.to_nat (k - 1)) l d.
Proof.
  intros l k d Hk. unfold nth1.
  destruct (k <=? 0) eqn:E; [apply Z.leb_le in E; lia|reflexivity].
Qed.

Lemma nth1_In : forall l k, 1 <= k <= zlen l -> In (nth1 l k 0) l.
Proof.
  intros l k Hk. rewrite nth1_nth by lia. apply nth_In. unfold zlen in Hk. lia.
Qed.

Lemma filter_none : forall A (f : A -> bool) l,
  (forall x, In x l -> f x = false) -> filter f l = [].
Proof.
  induction l as [|a t IH]; intros H.
  - reflexivity.
  - cbn [filter]. rewrite (H a (or_introl eq_refl)). apply IH.
    intros x Hx. apply H. right. exact Hx.
Qed.

Lemma countb_le_len : forall A (f : A -> bool) l, countb f l <= zlen l.
Proof.
  intros A f. unfold countb. induction l as [|a t IH].
  - cbn [filter]. lia.
  - cbn [filter]. destruct (f a); rewrite !zlen_cons; lia.
Qed.

Lemma fold_max_ge : forall l x, In x l -> x <= fold_right Z.max 0 l.
Proof.
  induction l as [|a t IH]; intros x Hx.
  - destruct Hx.
  - cbn [fold_right]. destruct Hx as [Hx|Hx].
    + subst. lia.
    + specialize (IH x Hx). lia.
Qed.

Lemma fold_max_nonneg : forall l, 0 <= fold_right Z.max 0 l.
Proof.
  induction l as [|a t IH].
  - cbn [fold_right]. lia.
  - cbn [fold_right]. lia.
Qed.

Lemma fold_max_le : forall l b, 0 <= b -> (forall x, In x l -> x <= b) -> fold_right Z.max 0 l <= b.
Proof.
  induction l as [|a t IH]; intros b Hb H.
  - cbn [fold_right]. exact Hb.
  - cbn [fold_right].
    assert (Ha := H a (or_introl eq_refl)).
    assert (Ht : fold_right Z.max 0 t <= b).
    { apply IH; [exact Hb|]. intros x Hx. apply H. right. exact Hx. }
    lia.
Qed.

Lemma sum_map_le : forall A (f g : A -> Z) l,
  (forall x, In x l -> f x <= g x) -> sumZ (map f l) <= sumZ (map g l).
Proof.
  induction l as [|a t IH]; intros H.
  - cbn [map]. lia.
  - cbn [map]. rewrite !sumZ_cons.
    assert (Ha := H a (or_introl eq_refl)).
    assert (Ht : sumZ (map f t) <= sumZ (map g t)).
    { apply IH. intros x Hx. apply H. right. exact Hx. }
    lia.
Qed.

Lemma sum_scale : forall A (g : A -> Z) c l,
  sumZ (map (fun x => c * g x) l) = c * sumZ (map g l).
Proof.
  induction l as [|a t IH].
  - cbn [map]. unfold sumZ. cbn [fold_right]. lia.
  - cbn [map]. rewrite !sumZ_cons, IH. lia.
Qed.

Lemma sum_scale_r : forall A (g : A -> Z) c l,
  sumZ (map (fun x => g x * c) l) = c * sumZ (map g l).
Proof.
  induction l as [|a t IH].
  - cbn [map]. unfold sumZ. cbn [fold_right]. lia.
  - cbn [map]. rewrite !sumZ_cons, IH. lia.
Qed.

Lemma sum_bound : forall A (f : A -> Z) B l,
  (forall x, In x l -> 0 <= f x <= B) -> 0 <= sumZ (map f l) <= zlen l * B.
Proof.
  induction l as [|a t IH]; intros H.
  - cbn [map]. unfold sumZ, zlen. cbn [fold_right length]. lia.
  - cbn [map]. rewrite sumZ_cons, zlen_cons.
    assert (Ha := H a (or_introl eq_refl)).
    assert (Ht : 0 <= sumZ (map f t) <= zlen t * B).
    { apply IH. intros x Hx. apply H. right. exact Hx. }
    lia.
Qed.

(* ---- evaluation / satisfaction helpers --------------------------------------------------- *)

Lemma eval_nil : forall v, eval v [] = 0.
Proof. reflexivity. Qed.

Lemma eval_cons : forall v c x l, eval v ((c, x) :: l) = c * v x + eval v l.
Proof. intros. unfold eval. cbn [map fst snd]. rewrite sumZ_cons. reflexivity. Qed.

Lemma eval_map_pairs : forall v (c : pair -> Z) l,
  eval v (map (fun q => (c q, X (st q) (pr q))) l) = sumZ (map (fun q => c q * v (X (st q) (pr q))) l).
Proof. intros. unfold eval. rewrite map_map. reflexivity. Qed.

Lemma eval_map_absdiff : forall v c ids,
  eval v (map (fun k => (c, AbsDiff k)) ids) = c * sumZ (map (fun k => v (AbsDiff k)) ids).
Proof.
  intros. unfold eval. rewrite map_map. cbn [fst snd].
  apply (sum_scale Z (fun k => v (AbsDiff k)) c ids).
Qed.

Lemma sat_GE : forall v l r, sat v (mkC l GE r) = true <-> r <= eval v l.
Proof. intros. unfold sat. cbn [c_rel c_lhs c_rhs]. apply Z.leb_le. Qed.

Lemma sat_LE : forall v l r, sat v (mkC l LE r) = true <-> eval v l <= r.
Proof. intros. unfold sat. cbn [c_rel c_lhs c_rhs]. apply Z.leb_le. Qed.

Lemma sat_EQ : forall v l r, sat v (mkC l EQ r) = true <-> eval v l = r.
Proof. intros. unfold sat. cbn [c_rel c_lhs c_rhs]. apply Z.eqb_eq. Qed.

Lemma all_sat_In : forall v cs c, all_sat v cs -> In c cs -> sat v c = true.
Proof. intros v cs c H Hc. unfold all_sat in H. rewrite forallb_forall in H. apply H. exact Hc. Qed.

Lemma all_sat_intro : forall v cs, (forall c, In c cs -> sat v c = true) -> all_sat v cs.
Proof. intros v cs H. unfold all_sat. apply forallb_forall. exact H. Qed.

Lemma all_sat_app_intro : forall v a b, all_sat v a -> all_sat v b -> all_sat v (a ++ b).
Proof.
  intros v a b Ha Hb. unfold all_sat in *. rewrite forallb_app, Ha, Hb. reflexivity.
Qed.

Lemma all_sat_single : forall v c, all_sat v [c] <-> sat v c = true.
Proof.
  intros v c. unfold all_sat. cbn [forallb]. rewrite andb_true_r. tauto.
Qed.

(* ---- well-formedness facts ------------------------------------------------------------------ *)

Record wf_facts (M : instance) : Prop := mkWF {
  wf_nS : 1 <= nS M; wf_nP : 1 <= nP M; wf_nL : 1 <= nL M;
  wf_pairs : zlen (pairs M) = nS M;
  wf_plq : zlen (p_lq M) = nP M; wf_puq : zlen (p_uq M) = nP M; wf_plec : zlen (p_lec M) = nP M;
  wf_llq : zlen (l_lq M) = nL M; wf_ltg : zlen (l_tg M) = nL M; wf_luq : zlen (l_uq M) = nL M;
  wf_plec_rng : forallb (fun k => (1 <=? k) && (k <=? nL M)) (p_lec M) = true;
  wf_pq : all2Z (fun a b => (0 <=? a) && (a <=? b)) (p_lq M) (p_uq M) = true;
  wf_lq_tg : all2Z (fun a b => (0 <=? a) && (a <=? b)) (l_lq M) (l_tg M) = true;
  wf_tg_uq : all2Z (fun a b => a <=? b) (l_tg M) (l_uq M) = true;
  wf_rows : rows_ok M 1 (pairs M) = true;
  wf_lecranks : forallb (lec_ranks_ok M) (seqZ 1 (Z.to_nat (nL M))) = true }.

Lemma wf_destruct : forall M, wf M = true -> wf_facts M.
Proof.
  intros M H. unfold wf in H.
  apply andb_true_iff in H. destruct H as [H W17].
  apply andb_true_iff in H. destruct H as [H W16].
  apply andb_true_iff in H. destruct H as [H W15].
  apply andb_true_iff in H. destruct H as [H W14].
  apply andb_true_iff in H. destruct H as [H W13].
  apply andb_true_iff in H. destruct H as [H W12].
  apply andb_true_iff in H. destruct H as [H W11].
  apply andb_true_iff in H. destruct H as [H W10].
  apply andb_true_iff in H. destruct H as [H W9].
  apply andb_true_iff in H. destruct H as [H W8].
  apply andb_true_iff in H. destruct H as [H W7].
  apply andb_true_iff in H. destruct H as [H W6].
  apply andb_true_iff in H. destruct H as [H W5].
  apply andb_true_iff in H. destruct H as [H W4].
  apply andb_true_iff in H. destruct H as [H W3].
  apply andb_true_iff in H. destruct H as [W1 W2].
  apply Z.leb_le in W1, W2, W3.
  apply Z.eqb_eq in W4, W5, W6, W7, W8, W9, W10.
  constructor; assumption.
Qed.

Lemma all2Z_nth : forall f a b, all2Z f a b = true ->
  length a = length b /\ forall n, (n < length a)%nat -> f (nth n a 0) (nth n b 0) = true.
Proof.
  intros f. induction a as [|x a IH]; intros b H.
  - destruct b; [|discriminate]. split; [reflexivity|]. intros n Hn. cbn [length] in Hn. lia.
  - destruct b as [|y b]; [discriminate|]. cbn [all2Z] in H.
    apply andb_true_iff in H. destruct H as [Hxy H].
    destruct (IH b H) as [Hl Hn]. split.
    + cbn [length]. rewrite Hl. reflexivity.
    + intros n Hlt. destruct n as [|n].
      * exact Hxy.
      * cbn [nth]. apply Hn. cbn [length] in Hlt. lia.
Qed.

Lemma wf_lec_quotas : forall M k, wf M = true -> In k (lec_ids M) ->
  0 <= nth1 (l_lq M) k 0 <= nth1 (l_tg M) k 0 /\ nth1 (l_tg M) k 0 <= nth1 (l_uq M) k 0.
Proof.
  intros M k Hwf Hk. destruct (wf_destruct M Hwf).
  unfold lec_ids in Hk. apply in_seqZ in Hk.
  rewrite !nth1_nth by lia.
  destruct (all2Z_nth _ _ _ wf_lq_tg0) as [_ H1].
  destruct (all2Z_nth _ _ _ wf_tg_uq0) as [_ H2].
  unfold zlen in *.
  specialize (H1 (Z.to_nat (k - 1))). specialize (H2 (Z.to_nat (k - 1))).
  assert (L1 : (Z.to_nat (k - 1) < length (l_lq M))%nat) by lia.
  assert (L2 : (Z.to_nat (k - 1) < length (l_tg M))%nat) by lia.
  specialize (H1 L1). specialize (H2 L2).
  apply andb_true_iff in H1. destruct H1 as [H1a H1b].
  apply Z.leb_le in H1a, H1b, H2. lia.
Qed.

Lemma rows_ok_nth : forall M rows i k row,
  rows_ok M i rows = true -> nth_error rows k = Some row -> row_ok M (i + Z.of_nat k) row = true.
Proof.
  intros M. induction rows as [|r t IH]; intros i k row H Hk.
  - destruct k; discriminate.
  - cbn [rows_ok] in H. apply andb_true_iff in H. destruct H as [Hr Ht].
    destruct k as [|k].
    + cbn [nth_error] in Hk. injection Hk as <-. replace (i + Z.of_nat 0) with i by lia. exact Hr.
    + cbn [nth_error] in Hk. replace (i + Z.of_nat (S k)) with (i + 1 + Z.of_nat k) by lia.
      apply IH; assumption.
Qed.

Lemma row_ok_facts : forall M i row, row_ok M i row = true ->
  (forall q, In q row -> st q = i /\ 1 <= pr q <= nP M /\ lec q = nth1 (p_lec M) (pr q) 0) /\
  nodupZ (map pr row) = true /\ dense_ranks (map rs row) = true.
Proof.
  intros M i row H. unfold row_ok in H.
  apply andb_true_iff in H. destruct H as [H Hd].
  apply andb_true_iff in H. destruct H as [Hall Hnd].
  split; [|split; assumption].
  intros q Hq. rewrite forallb_forall in Hall. specialize (Hall q Hq).
  apply andb_true_iff in Hall. destruct Hall as [Hall H4].
  apply andb_true_iff in Hall. destruct Hall as [Hall H3].
  apply andb_true_iff in Hall. destruct Hall as [H1 H2].
  apply Z.eqb_eq in H1, H4. apply Z.leb_le in H2, H3. lia.
Qed.

Lemma in_all_pairs_row : forall M q, wf M = true -> In q (all_pairs M) ->
  exists i row, In row (pairs M) /\ In q row /\ row_ok M i row = true.
Proof.
  intros M q Hwf Hq. unfold all_pairs in Hq. apply in_concat in Hq.
  destruct Hq as [row [Hrow Hq]].
  destruct (In_nth_error _ _ Hrow) as [k Hk].
  exists (1 + Z.of_nat k), row. split; [exact Hrow|]. split; [exact Hq|].
  apply (rows_ok_nth M (pairs M) 1 k row); [|exact Hk].
  destruct (wf_destruct M Hwf). assumption.
Qed.

(* ---- one row under the canonical assignment --------------------------------------------------- *)

Lemma filter_pr_nodup : forall row p, nodupZ (map pr row) = true ->
  filter (fun q => pr q =? p) row =
  match find (fun q => pr q =? p) row with Some q => [q] | None => [] end.
Proof.
  induction row as [|a t IH]; intros p Hnd.
  - reflexivity.
  - cbn [map nodupZ] in Hnd. apply andb_true_iff in Hnd. destruct Hnd as [Hmem Hnd].
    apply negb_true_iff in Hmem.
    cbn [filter find]. destruct (pr a =? p) eqn:E.
    + f_equal. apply filter_none. intros x Hx.
      destruct (pr x =? p) eqn:Ex; [|reflexivity].
      exfalso. apply Z.eqb_eq in E, Ex.
      assert (Hm : memZ (pr a) (map pr t) = true).
      { unfold memZ. apply existsb_exists. exists (pr x). split.
        - apply in_map. exact Hx.
        - apply Z.eqb_eq. lia. }
      rewrite Hm in Hmem. discriminate.
    + apply IH. exact Hnd.
Qed.

Lemma canon_X : forall M prims m s p, canon M prims m (X s p) = x_val m s p.
Proof. reflexivity. Qed.

Lemma canon_row : forall M prims m i row,
  (forall q, In q row -> st q = i /\ 1 <= pr q) -> nodupZ (map pr row) = true ->
  filter (nz (canon M prims m)) row =
  match (if nth1 m i 0 =? 0 then None else find_pair row (nth1 m i 0)) with
  | Some q => [q] | None => [] end.
Proof.
  intros M prims m i row Hrow Hnd.
  set (p := nth1 m i 0).
  assert (E : filter (nz (canon M prims m)) row = filter (fun q => pr q =? p) row).
  { apply filter_ext_in. intros q Hq. destruct (Hrow q Hq) as [Hst Hpr].
    rewrite canon_X. unfold x_val. rewrite Hst. fold p.
    assert (E0 : pr q =? 0 = false) by (apply Z.eqb_neq; lia).
    rewrite E0. cbn [negb andb]. rewrite (Z.eqb_sym p (pr q)).
    destruct (pr q =? p); reflexivity. }
  rewrite E, (filter_pr_nodup row p Hnd). unfold find_pair.
  destruct (p =? 0) eqn:Ep; [|reflexivity].
  destruct (find (fun q => pr q =? p) row) as [q|] eqn:F; [|reflexivity].
  exfalso. apply find_some in F. destruct F as [Hq Hp].
  apply Z.eqb_eq in Hp, Ep. destruct (Hrow q Hq) as [_ Hpr]. lia.
Qed.

Lemma row_ok_canon_row : forall M prims m i row, row_ok M i row = true ->
  filter (nz (canon M prims m)) row =
  match (if nth1 m i 0 =? 0 then None else find_pair row (nth1 m i 0)) with
  | Some q => [q] | None => [] end.
Proof.
  intros M prims m i row H. destruct (row_ok_facts M i row H) as [Hq [Hnd _]].
  apply canon_row; [|exact Hnd].
  intros q Hin. destruct (Hq q Hin) as [H1 [H2 _]]. lia.
Qed.

Lemma matched_rows_nil : forall rows, matched_rows rows [] = [].
Proof. destruct rows; reflexivity. Qed.

Lemma matched_rows_canon : forall M prims m rows i m',
  rows_ok M i rows = true -> 1 <= i ->
  (forall k, nth k m' 0 = nth1 m (i + Z.of_nat k) 0) ->
  matched_rows rows m' = filter (nz (canon M prims m)) (concat rows).
Proof.
  intros M prims m. induction rows as [|row rows IH]; intros i m' Hok Hi Hm.
  - reflexivity.
  - cbn [rows_ok] in Hok. apply andb_true_iff in Hok. destruct Hok as [Hr Ht].
    cbn [concat]. rewrite filter_app, (row_ok_canon_row M prims m i row Hr).
    pose proof (Hm 0%nat) as H0. replace (i + Z.of_nat 0) with i in H0 by lia.
    destruct m' as [|p m''].
    + cbn [nth] in H0. rewrite <- H0. change (0 =? 0) with true. cbv iota.
      cbn [matched_rows app].
      rewrite <- (IH (i + 1) [] Ht); [rewrite matched_rows_nil; reflexivity|lia|].
      intros k. specialize (Hm (S k)). destruct k; cbn [nth] in *;
        rewrite Hm; f_equal; lia.
    + cbn [nth] in H0. rewrite <- H0. cbn [matched_rows].
      assert (IH' : matched_rows rows m'' = filter (nz (canon M prims m)) (concat rows)).
      { apply (IH (i + 1)); [exact Ht|lia|].
        intros k. specialize (Hm (S k)). cbn [nth] in Hm. rewrite Hm. f_equal. lia. }
      rewrite IH'.
      destruct (if p =? 0 then None else find_pair row p); reflexivity.
Qed.

Lemma nth_nth1_top : forall (m : matching) k, nth k m 0 = nth1 m (1 + Z.of_nat k) 0.
Proof.
  intros m k. rewrite nth1_nth by lia. f_equal. lia.
Qed.

Lemma matched_canon : forall M prims m, wf M = true ->
  matched M m = filter (nz (canon M prims m)) (all_pairs M).
Proof.
  intros M prims m Hwf. unfold matched, all_pairs.
  apply (matched_rows_canon M prims m (pairs M) 1 m).
  - destruct (wf_destruct M Hwf). assumption.
  - lia.
  - apply nth_nth1_top.
Qed.

(* ---- A ------------------------------------------------------------------------------------- *)

Lemma canon_binary : forall M prims m, binary (canon M prims m).
Proof.
  intros M prims m. split.
  - intros s p. rewrite canon_X. unfold x_val.
    destruct (negb (p =? 0) && (nth1 m s 0 =? p)); [right|left]; reflexivity.
  - intros j. unfold canon. destruct (proj_load M m j =? 0); [right|left]; reflexivity.
Qed.

Lemma existsb_find : forall row p, existsb (fun q => pr q =? p) row = true ->
  exists q, find_pair row p = Some q /\ pr q = p.
Proof.
  intros row p H. unfold find_pair.
  destruct (find (fun q => pr q =? p) row) as [q|] eqn:F.
  - exists q. split; [reflexivity|]. apply find_some in F. destruct F as [_ F].
    apply Z.eqb_eq. exact F.
  - exfalso. apply existsb_exists in H. destruct H as [q [Hq Hp]].
    pose proof (find_none _ _ F q Hq) as Hn. cbv beta in Hn. rewrite Hp in Hn. discriminate.
Qed.

Lemma choice_canon : forall M prims m rows i m',
  rows_ok M i rows = true -> 1 <= i -> acceptable_rows rows m' = true ->
  (forall k, nth k m' 0 = nth1 m (i + Z.of_nat k) 0) ->
  map (row_choice (canon M prims m)) rows = m'.
Proof.
  intros M prims m. induction rows as [|row rows IH]; intros i m' Hok Hi Hacc Hm.
  - destruct m'; [reflexivity|discriminate].
  - destruct m' as [|p m'']; [discriminate|].
    cbn [rows_ok] in Hok. apply andb_true_iff in Hok. destruct Hok as [Hr Ht].
    cbn [acceptable_rows] in Hacc. apply andb_true_iff in Hacc. destruct Hacc as [Ha Hacc].
    cbn [map]. f_equal.
    + unfold row_choice. rewrite (row_ok_canon_row M prims m i row Hr).
      pose proof (Hm 0%nat) as H0. replace (i + Z.of_nat 0) with i in H0 by lia.
      cbn [nth] in H0. rewrite <- H0.
      destruct (p =? 0) eqn:Ep.
      * cbn [rev]. apply Z.eqb_eq in Ep. lia.
      * cbn [orb] in Ha. destruct (existsb_find row p Ha) as [q [Hf Hq]].
        rewrite Hf. cbn [rev app]. exact Hq.
    + apply (IH (i + 1)); [exact Ht|lia|exact Hacc|].
      intros k. specialize (Hm (S k)). cbn [nth] in Hm. rewrite Hm. f_equal. lia.
Qed.

Lemma matching_of_canon : forall M prims m, wf M = true -> acceptable_rows (pairs M) m = true ->
  matching_of M (canon M prims m) = m.
Proof.
  intros M prims m Hwf Hacc. unfold matching_of.
  apply (choice_canon M prims m (pairs M) 1 m).
  - destruct (wf_destruct M Hwf). assumption.
  - lia.
  - exact Hacc.
  - apply nth_nth1_top.
Qed.

(* ---- sums over the canonical assignment ------------------------------------------------------ *)

Lemma canon_sum : forall M prims m (f : pair -> Z), wf M = true ->
  sumZ (map (fun q => f q * canon M prims m (X (st q) (pr q))) (all_pairs M)) =
  sumZ (map f (matched M m)).
Proof.
  intros M prims m f Hwf. rewrite (matched_canon M prims m Hwf).
  apply sum_filter_nz. apply canon_binary.
Qed.

Lemma canon_count : forall M prims m (g : pair -> bool), wf M = true ->
  eval (canon M prims m) (xs (filter g (all_pairs M))) = countb g (matched M m).
Proof.
  intros M prims m g Hwf. rewrite eval_xs, sum_filter_ind.
  rewrite (canon_sum M prims m (fun q => if g q then 1 else 0) Hwf).
  apply sum_ind_countb.
Qed.

Lemma canon_student : forall M prims m, wf M = true ->
  all_sat (canon M prims m) (student_constrs M).
Proof.
  intros M prims m Hwf. apply all_sat_intro. intros c Hc.
  unfold student_constrs in Hc. apply in_map_iff in Hc. destruct Hc as [row [<- Hrow]].
  apply sat_LE. rewrite (filter_nz_len _ row (canon_binary M prims m)).
  destruct (In_nth_error _ _ Hrow) as [k Hk].
  assert (Hr : row_ok M (1 + Z.of_nat k) row = true).
  { apply (rows_ok_nth M (pairs M) 1 k row); [|exact Hk].
    destruct (wf_destruct M Hwf). assumption. }
  rewrite (row_ok_canon_row M prims m _ row Hr).
  destruct (if nth1 m (1 + Z.of_nat k) 0 =? 0 then None else find_pair row (nth1 m (1 + Z.of_nat k) 0));
    unfold zlen; cbn [length]; lia.
Qed.

(* ---- B: completeness of the basic constraints ------------------------------------------------- *)

Lemma all_sat_flat_map_intro : forall (v : assignment) (f : Z -> list constr) ids,
  (forall j c, In j ids -> In c (f j) -> sat v c = true) -> all_sat v (flat_map f ids).
Proof.
  intros v f ids H. apply all_sat_intro. intros c Hc.
  apply in_flat_map in Hc. destruct Hc as [j [Hj Hc]]. apply (H j c Hj Hc).
Qed.

Lemma valid_b_facts : forall pc M m, valid_b pc M m = true ->
  acceptable_rows (pairs M) m = true /\
  (forall j, In j (proj_ids M) -> proj_ok pc M m j = true) /\
  (forall k, In k (lec_ids M) -> lec_ok M m k = true).
Proof.
  intros pc M m H. unfold valid_b in H.
  apply andb_true_iff in H. destruct H as [H Hl].
  apply andb_true_iff in H. destruct H as [Ha Hp].
  rewrite forallb_forall in Hp, Hl. auto.
Qed.

Theorem canon_upper_lower : forall M pc prims m, wf M = true -> valid_b pc M m = true ->
  all_sat (canon M prims m) (upper_lower pc M).
Proof.
  intros M pc prims m Hwf Hv.
  destruct (valid_b_facts pc M m Hv) as [Hacc [Hp Hl]].
  unfold upper_lower. apply all_sat_app_intro; [apply canon_student; exact Hwf|].
  apply all_sat_app_intro.
  - unfold project_constrs. apply all_sat_flat_map_intro. intros j c Hj Hc.
    cbv zeta in Hc.
    pose proof (canon_count M prims m (fun q => pr q =? j) Hwf) as Hn.
    fold (project_list M j) in Hn. fold (proj_load M m j) in Hn.
    specialize (Hp j Hj). unfold proj_ok in Hp. cbv zeta in Hp.
    destruct pc.
    + assert (Hcl : canon M prims m (Closure j) = if proj_load M m j =? 0 then 1 else 0) by reflexivity.
      destruct Hc as [<-|[<-|[]]].
      * apply sat_GE. rewrite eval_app, eval_single, Hn, Hcl.
        destruct (proj_load M m j =? 0) eqn:E0.
        -- apply Z.eqb_eq in E0. lia.
        -- cbn [andb] in Hp. rewrite orb_false_r in Hp.
           apply andb_true_iff in Hp. destruct Hp as [H1 H2]. apply Z.leb_le in H1, H2. lia.
      * apply sat_LE. rewrite eval_app, eval_single, Hn, Hcl.
        destruct (proj_load M m j =? 0) eqn:E0.
        -- apply Z.eqb_eq in E0. lia.
        -- cbn [andb] in Hp. rewrite orb_false_r in Hp.
           apply andb_true_iff in Hp. destruct Hp as [H1 H2]. apply Z.leb_le in H1, H2. lia.
    + cbn [andb] in Hp. rewrite orb_false_r in Hp.
      apply andb_true_iff in Hp. destruct Hp as [H1 H2]. apply Z.leb_le in H1, H2.
      destruct Hc as [<-|[<-|[]]].
      * apply sat_GE. rewrite Hn. exact H1.
      * apply sat_LE. rewrite Hn. exact H2.
  - unfold lecturer_constrs. apply all_sat_flat_map_intro. intros k c Hk Hc.
    cbv zeta in Hc.
    pose proof (canon_count M prims m (fun q => lec q =? k) Hwf) as Hn.
    fold (lecturer_list M k) in Hn. fold (lec_load M m k) in Hn.
    specialize (Hl k Hk). unfold lec_ok in Hl. cbv zeta in Hl.
    apply andb_true_iff in Hl. destruct Hl as [H1 H2]. apply Z.leb_le in H1, H2.
    destruct Hc as [<-|[<-|[]]].
    + apply sat_GE. rewrite Hn. exact H1.
    + apply sat_LE. rewrite Hn. exact H2.
Qed.

(* The statement given in the task, [forall M prims m, all_sat (canon M prims m) (loadbal_constrs M)], is
   FALSE without well-formedness (counterexample below: a row listing the same project twice).
   Corrected statement: add [wf M = true] (validity of m is not needed). *)
Definition Mbad : instance :=
  mkInst 1 1 1 [0] [1] [1] [0] [0] [1] [[mkPair 1 1 1 1 None; mkPair 1 1 1 1 None]].
Lemma canon_loadbal_counterexample :
  wf Mbad = false /\ forallb (sat (canon Mbad [] [1])) (loadbal_constrs Mbad) = false.
Proof. split; vm_compute; reflexivity. Qed.

Lemma eval_neg_xs : forall v l,
  eval v (map (fun q => (-1, X (st q) (pr q))) l) = - eval v (xs l).
Proof.
  intros v l. rewrite (eval_map_pairs v (fun _ => -1) l), eval_xs.
  rewrite (sum_scale pair (fun q => v (X (st q) (pr q))) (-1) l).
  rewrite (sum_scale pair (fun q => v (X (st q) (pr q))) 1 l). lia.
Qed.

Theorem canon_loadbal : forall M prims m, wf M = true -> all_sat (canon M prims m) (loadbal_constrs M).
Proof.
  intros M prims m Hwf. unfold loadbal_constrs. apply all_sat_flat_map_intro. intros k c Hk Hc.
  cbv zeta in Hc.
  pose proof (canon_count M prims m (fun q => lec q =? k) Hwf) as Hn.
  fold (lecturer_list M k) in Hn. fold (lec_load M m k) in Hn.
  assert (Ha : canon M prims m (AbsDiff k) = lec_abs_diff M m k) by reflexivity.
  unfold lec_abs_diff in Ha.
  destruct Hc as [<-|[<-|[]]].
  - apply sat_GE. rewrite eval_cons, eval_neg_xs, Hn, Ha. lia.
  - apply sat_GE. rewrite eval_cons, Hn, Ha. lia.
Qed.

(* ---- C: what the tying constraints say about any feasible point ----------------------------- *)

Definition lb_ok (M : instance) (v : assignment) : Prop :=
  all_sat v (loadbal_constrs M).

Lemma size_matched_rows : forall rows m, acceptable_rows rows m = true ->
  size m = zlen (matched_rows rows m).
Proof.
  induction rows as [|row rows IH]; intros m H.
  - destruct m; [reflexivity|discriminate].
  - destruct m as [|p m']; [discriminate|].
    cbn [acceptable_rows] in H. apply andb_true_iff in H. destruct H as [Ha H].
    specialize (IH m' H). unfold size, countb in *. cbn [filter matched_rows].
    destruct (p =? 0) eqn:Ep.
    + cbn [negb]. exact IH.
    + cbn [negb orb] in *. destruct (existsb_find row p Ha) as [q [Hf _]].
      rewrite Hf. rewrite !zlen_cons, IH. reflexivity.
Qed.

Lemma size_matched : forall M m, acceptable_rows (pairs M) m = true -> size m = zlen (matched M m).
Proof. intros. apply size_matched_rows. assumption. Qed.

Lemma rl0_coef : forall q z, match rl q with Some r => r * z | None => 0 end = rl0 q * z.
Proof. intros q z. unfold rl0. destruct (rl q); lia. Qed.

Lemma rl0_sqcoef : forall q z, match rl q with Some r => r * r * z | None => 0 end = rl0 q * rl0 q * z.
Proof. intros q z. unfold rl0. destruct (rl q); lia. Qed.

Lemma sum_cost_coef : forall y z l,
  sumZ (map (cost_coef y z) l) = y * sumZ (map rs l) + z * sumZ (map rl0 l).
Proof.
  intros y z. induction l as [|a t IH].
  - cbn [map]. unfold sumZ. cbn [fold_right]. lia.
  - cbn [map]. rewrite !sumZ_cons, IH. unfold cost_coef. rewrite rl0_coef. lia.
Qed.

Lemma sum_sqcost_coef : forall y z l,
  sumZ (map (sqcost_coef y z) l) =
  y * sumZ (map (fun q => rs q * rs q) l) + z * sumZ (map (fun q => rl0 q * rl0 q) l).
Proof.
  intros y z. induction l as [|a t IH].
  - cbn [map]. unfold sumZ. cbn [fold_right]. lia.
  - cbn [map]. rewrite !sumZ_cons, IH. unfold sqcost_coef. rewrite rl0_sqcoef. lia.
Qed.

Theorem tie_sound_eq : forall M pc v n p, wf M = true -> binary v -> all_sat v (upper_lower pc M) ->
  all_sat v (prim_tie M n p) ->
  match p with PSize _ | PRank _ _ | PCost _ _ | PSqCost _ _ => v (Obj n) = prim_meas M p (matching_of M v) | _ => True end.
Proof.
  intros M pc v n p Hwf Hb Hul Ht.
  unfold upper_lower in Hul. apply all_sat_app in Hul. destruct Hul as [Hs _].
  destruct p as [mx|g r|y z|y z| | |y z]; try exact I; cbn [prim_tie prim_meas] in *;
    apply all_sat_single in Ht; apply sat_EQ in Ht; rewrite eval_app, eval_single in Ht.
  - rewrite eval_xs in Ht.
    pose proof (sum_x_matched M v (fun _ => 1) Hwf Hb Hs) as E. cbv beta in E.
    rewrite E, sum_ones in Ht.
    rewrite (size_matched M (matching_of M v)); [lia|].
    unfold matching_of. apply acceptable_choice.
  - unfold rank_list in Ht.
    rewrite (eval_filter_count M v (fun q => rs q =? r) Hwf Hb Hs) in Ht.
    unfold count_at_rank. lia.
  - rewrite eval_map_pairs in Ht.
    rewrite (sum_x_matched M v (cost_coef y z) Hwf Hb Hs), sum_cost_coef in Ht.
    unfold cost_s, cost_l. lia.
  - rewrite eval_map_pairs in Ht.
    rewrite (sum_x_matched M v (sqcost_coef y z) Hwf Hb Hs), sum_sqcost_coef in Ht.
    unfold costsq_s, costsq_l. lia.
Qed.

Lemma absdiff_ge : forall M v k, wf M = true -> binary v -> all_sat v (student_constrs M) ->
  lb_ok M v -> In k (lec_ids M) -> lec_abs_diff M (matching_of M v) k <= v (AbsDiff k).
Proof.
  intros M v k Hwf Hb Hs Hlb Hk. unfold lb_ok, loadbal_constrs in Hlb.
  pose proof (all_sat_flat_map v _ _ Hlb k) as Hc. cbv beta zeta in Hc.
  pose proof (Hc _ Hk (or_introl eq_refl)) as H1.
  pose proof (Hc _ Hk (or_intror (or_introl eq_refl))) as H2.
  apply sat_GE in H1, H2.
  pose proof (eval_filter_count M v (fun q => lec q =? k) Hwf Hb Hs) as Hn.
  fold (lecturer_list M k) in Hn. fold (lec_load M (matching_of M v) k) in Hn.
  rewrite eval_cons, eval_neg_xs, Hn in H1. rewrite eval_cons, Hn in H2.
  unfold lec_abs_diff. lia.
Qed.

Theorem tie_sound_ge : forall M pc v n p, wf M = true -> binary v -> all_sat v (upper_lower pc M) -> lb_ok M v ->
  all_sat v (prim_tie M n p) ->
  match p with
  | PLmb | PLsb => prim_meas M p (matching_of M v) <= v (Obj n)
  | PCostLsb y z => 0 <= z -> prim_meas M p (matching_of M v) <= v (Obj n)
  | _ => True end.
Proof.
  intros M pc v n p Hwf Hb Hul Hlb Ht.
  unfold upper_lower in Hul. apply all_sat_app in Hul. destruct Hul as [Hs _].
  pose proof (fun k => absdiff_ge M v k Hwf Hb Hs Hlb) as Hge.
  destruct p as [mx|g r|y z|y z| | |y z]; try exact I; cbn [prim_tie prim_meas] in *.
  - (* PLmb *)
    assert (Hk : forall k, In k (lec_ids M) -> v (AbsDiff k) <= v (Obj n)).
    { intros k Hk.
      assert (Hc : sat v (mkC [(1, Obj n); (-1, AbsDiff k)] GE 0) = true).
      { apply (all_sat_In v _ _ Ht).
        apply (in_map (fun k => mkC [(1, Obj n); (-1, AbsDiff k)] GE 0)). exact Hk. }
      apply sat_GE in Hc. rewrite !eval_cons, eval_nil in Hc. lia. }
    unfold max_abs_diff. apply fold_max_le.
    + assert (H1 : In 1 (lec_ids M)).
      { unfold lec_ids. apply in_seqZ. destruct (wf_destruct M Hwf). lia. }
      specialize (Hge 1 H1). specialize (Hk 1 H1). unfold lec_abs_diff in Hge. lia.
    + intros x Hx. apply in_map_iff in Hx. destruct Hx as [k [<- Hk']].
      specialize (Hge k Hk'). specialize (Hk k Hk'). lia.
  - (* PLsb *)
    apply all_sat_single in Ht. apply sat_GE in Ht.
    rewrite eval_cons, eval_map_absdiff in Ht.
    unfold sum_abs_diff.
    pose proof (sum_map_le Z (lec_abs_diff M (matching_of M v)) (fun k => v (AbsDiff k)) (lec_ids M) Hge).
    lia.
  - (* PCostLsb *)
    intros Hz. apply all_sat_single in Ht. apply sat_EQ in Ht.
    rewrite !eval_app, eval_single, eval_map_pairs, eval_map_absdiff in Ht.
    pose proof (sum_x_matched M v (fun q => rs q * y) Hwf Hb Hs) as E. cbv beta in E.
    rewrite E, (sum_scale_r pair rs y) in Ht.
    unfold cost_s, sum_abs_diff.
    pose proof (sum_map_le Z (lec_abs_diff M (matching_of M v)) (fun k => v (AbsDiff k)) (lec_ids M) Hge) as Hle.
    pose proof (Z.mul_le_mono_nonneg_l _ _ z Hz Hle). lia.
Qed.

(* ---- D: the canonical assignment satisfies every stage's tying constraints ---------------------- *)

Lemma canon_Obj : forall M prims m n p, nth_error prims n = Some p ->
  canon M prims m (Obj n) = prim_meas M p m.
Proof. intros M prims m n p H. unfold canon. rewrite H. reflexivity. Qed.

Lemma canon_AbsDiff : forall M prims m k, canon M prims m (AbsDiff k) = lec_abs_diff M m k.
Proof. reflexivity. Qed.

Theorem canon_tie : forall M pc prims m n p, wf M = true -> valid_b pc M m = true ->
  nth_error prims n = Some p -> all_sat (canon M prims m) (prim_tie M n p).
Proof.
  intros M pc prims m n p Hwf Hv Hn.
  destruct (valid_b_facts pc M m Hv) as [Hacc _].
  pose proof (canon_Obj M prims m n p Hn) as Ho.
  destruct p as [mx|g r|y z|y z| | |y z]; cbn [prim_tie prim_meas] in *.
  - apply all_sat_single. apply sat_EQ. rewrite eval_app, eval_single, Ho, eval_xs.
    pose proof (canon_sum M prims m (fun _ => 1) Hwf) as E. cbv beta in E.
    rewrite E, sum_ones, (size_matched M m Hacc). lia.
  - apply all_sat_single. apply sat_EQ. rewrite eval_app, eval_single, Ho.
    unfold rank_list. rewrite (canon_count M prims m (fun q => rs q =? r) Hwf).
    unfold count_at_rank. lia.
  - apply all_sat_single. apply sat_EQ. rewrite eval_app, eval_single, Ho, eval_map_pairs.
    rewrite (canon_sum M prims m (cost_coef y z) Hwf), sum_cost_coef.
    unfold cost_s, cost_l. lia.
  - apply all_sat_single. apply sat_EQ. rewrite eval_app, eval_single, Ho, eval_map_pairs.
    rewrite (canon_sum M prims m (sqcost_coef y z) Hwf), sum_sqcost_coef.
    unfold costsq_s, costsq_l. lia.
  - apply all_sat_intro. intros c Hc. apply in_map_iff in Hc. destruct Hc as [k [<- Hk]].
    apply sat_GE. rewrite !eval_cons, eval_nil, Ho, canon_AbsDiff.
    assert (lec_abs_diff M m k <= max_abs_diff M m).
    { unfold max_abs_diff. apply fold_max_ge.
      apply (in_map (lec_abs_diff M m)). exact Hk. }
    lia.
  - apply all_sat_single. apply sat_GE. rewrite eval_cons, eval_map_absdiff, Ho.
    unfold sum_abs_diff.
    replace (map (fun k => canon M prims m (AbsDiff k)) (lec_ids M))
      with (map (lec_abs_diff M m) (lec_ids M)) by reflexivity.
    lia.
  - apply all_sat_single. apply sat_EQ.
    rewrite !eval_app, eval_single, eval_map_pairs, eval_map_absdiff, Ho.
    pose proof (canon_sum M prims m (fun q => rs q * y) Hwf) as E. cbv beta in E.
    rewrite E, (sum_scale_r pair rs y).
    replace (map (fun k => canon M prims m (AbsDiff k)) (lec_ids M))
      with (map (lec_abs_diff M m) (lec_ids M)) by reflexivity.
    unfold cost_s, sum_abs_diff. lia.
Qed.

(* ---- E: the variable bounds allow every attainable value ------------------------------------- *)

Lemma sum_nonneg : forall A (f : A -> Z) l, (forall x, In x l -> 0 <= f x) -> 0 <= sumZ (map f l).
Proof.
  induction l as [|a t IH]; intros H.
  - cbn [map]. unfold sumZ. cbn [fold_right]. lia.
  - cbn [map]. rewrite sumZ_cons.
    assert (Ha := H a (or_introl eq_refl)).
    assert (Ht : 0 <= sumZ (map f t)) by (apply IH; intros x Hx; apply H; right; exact Hx).
    lia.
Qed.

Lemma acceptable_length : forall rows m, acceptable_rows rows m = true -> length m = length rows.
Proof.
  induction rows as [|row rows IH]; intros m H.
  - destruct m; [reflexivity|discriminate].
  - destruct m as [|p m']; [discriminate|].
    cbn [acceptable_rows] in H. apply andb_true_iff in H. destruct H as [_ H].
    cbn [length]. rewrite (IH m' H). reflexivity.
Qed.

Lemma matched_in_all : forall M m q, wf M = true -> In q (matched M m) -> In q (all_pairs M).
Proof.
  intros M m q Hwf H. rewrite (matched_canon M [] m Hwf) in H.
  apply filter_In in H. tauto.
Qed.

Lemma dense_from_bounds : forall l r x, dense_from r l = true -> In x l -> r <= x <= r + zlen l.
Proof.
  induction l as [|a t IH]; intros r x H Hx.
  - destruct Hx.
  - cbn [dense_from] in H. apply andb_true_iff in H. destruct H as [Ha Ht].
    apply orb_true_iff in Ha. rewrite !Z.eqb_eq in Ha.
    rewrite zlen_cons. pose proof (zlen_nonneg _ t).
    destruct Hx as [Hx|Hx].
    + subst. lia.
    + specialize (IH a x Ht Hx). lia.
Qed.

Lemma dense_ranks_bounds : forall l x, dense_ranks l = true -> In x l -> 1 <= x <= zlen l.
Proof.
  intros l x H Hx. destruct l as [|a t]; [destruct Hx|].
  cbn [dense_ranks] in H. apply andb_true_iff in H. destruct H as [Ha Ht].
  apply Z.eqb_eq in Ha. rewrite zlen_cons. pose proof (zlen_nonneg _ t).
  destruct Hx as [Hx|Hx].
  - subst. lia.
  - pose proof (dense_from_bounds t 1 x Ht Hx). lia.
Qed.

Lemma nodupZ_NoDup : forall l, nodupZ l = true -> NoDup l.
Proof.
  induction l as [|a t IH]; intros H.
  - constructor.
  - cbn [nodupZ] in H. apply andb_true_iff in H. destruct H as [Hm Ht].
    apply negb_true_iff in Hm. constructor.
    + intros Hin. assert (Hm' : memZ a t = true).
      { unfold memZ. apply existsb_exists. exists a. split; [exact Hin|apply Z.eqb_refl]. }
      rewrite Hm' in Hm. discriminate.
    + apply IH. exact Ht.
Qed.

Lemma nodup_range_len : forall l n, 0 <= n -> nodupZ l = true ->
  (forall x, In x l -> 1 <= x <= n) -> zlen l <= n.
Proof.
  intros l n Hn Hnd Hr.
  assert (Hi : incl l (seqZ 1 (Z.to_nat n))).
  { intros x Hx. apply in_seqZ. specialize (Hr x Hx). lia. }
  pose proof (NoDup_incl_length (nodupZ_NoDup l Hnd) Hi) as Hl.
  rewrite seqZ_length in Hl. unfold zlen. lia.
Qed.

Lemma fold_maxrank : forall l acc,
  acc <= fold_left (fun m q => if m <? rs q then rs q else m) l acc /\
  forall q, In q l -> rs q <= fold_left (fun m q => if m <? rs q then rs q else m) l acc.
Proof.
  induction l as [|a t IH]; intros acc.
  - cbn [fold_left]. split; [lia|]. intros q [].
  - cbn [fold_left].
    destruct (IH (if acc <? rs a then rs a else acc)) as [H1 H2].
    assert (Hacc : acc <= (if acc <? rs a then rs a else acc) /\ rs a <= (if acc <? rs a then rs a else acc)).
    { destruct (acc <? rs a) eqn:E.
      - apply Z.ltb_lt in E. lia.
      - apply Z.ltb_ge in E. lia. }
    split; [lia|].
    intros q [Hq|Hq].
    + subst. lia.
    + apply H2. exact Hq.
Qed.

Lemma pair_bounds : forall M q, wf M = true -> In q (all_pairs M) ->
  1 <= rs q <= nP M /\ rs q <= max_rank M /\ 0 <= rl0 q <= nS M.
Proof.
  intros M q Hwf Hq.
  destruct (wf_destruct M Hwf).
  destruct (in_all_pairs_row M q Hwf Hq) as [i [row [Hrow [Hqr Hok]]]].
  destruct (row_ok_facts M i row Hok) as [Hf [Hnd Hd]].
  destruct (Hf q Hqr) as [Hst [Hpr Hlec]].
  split; [|split].
  - pose proof (dense_ranks_bounds (map rs row) (rs q) Hd (in_map rs row q Hqr)) as Hb.
    assert (Hl : zlen (map pr row) <= nP M).
    { apply nodup_range_len; [lia|exact Hnd|].
      intros x Hx. apply in_map_iff in Hx. destruct Hx as [q' [<- Hq']].
      destruct (Hf q' Hq') as [_ [H _]]. exact H. }
    unfold zlen in *. rewrite map_length in *. lia.
  - unfold max_rank. apply (fold_maxrank (all_pairs M) 0). exact Hq.
  - assert (Hin : In (lec q) (p_lec M)).
    { rewrite Hlec. apply nth1_In. lia. }
    rewrite forallb_forall in wf_plec_rng0. specialize (wf_plec_rng0 _ Hin).
    apply andb_true_iff in wf_plec_rng0. destruct wf_plec_rng0 as [L1 L2].
    apply Z.leb_le in L1, L2.
    rewrite forallb_forall in wf_lecranks0.
    assert (Hk : In (lec q) (seqZ 1 (Z.to_nat (nL M)))) by (apply in_seqZ; lia).
    specialize (wf_lecranks0 _ Hk). unfold lec_ranks_ok in wf_lecranks0. cbv zeta in wf_lecranks0.
    apply andb_true_iff in wf_lecranks0. destruct wf_lecranks0 as [_ Hr].
    rewrite forallb_forall in Hr.
    assert (Hql : In q (lecturer_list M (lec q))).
    { unfold lecturer_list. apply filter_In. split; [exact Hq|apply Z.eqb_refl]. }
    specialize (Hr q Hql). unfold rl0. destruct (rl q) as [r|].
    + apply andb_true_iff in Hr. destruct Hr as [R1 R2]. apply Z.leb_le in R1, R2. lia.
    + lia.
Qed.

Lemma lec_load_bounds : forall M pc m k, wf M = true -> valid_b pc M m = true -> In k (lec_ids M) ->
  0 <= lec_load M m k <= nth1 (l_uq M) k 0 /\ 0 <= nth1 (l_tg M) k 0 <= nth1 (l_uq M) k 0.
Proof.
  intros M pc m k Hwf Hv Hk.
  destruct (valid_b_facts pc M m Hv) as [_ [_ Hl]].
  specialize (Hl k Hk). unfold lec_ok in Hl. cbv zeta in Hl.
  apply andb_true_iff in Hl. destruct Hl as [H1 H2]. apply Z.leb_le in H1, H2.
  pose proof (wf_lec_quotas M k Hwf Hk) as Hq.
  pose proof (countb_nonneg _ (fun q => lec q =? k) (matched M m)) as H0.
  fold (lec_load M m k) in H0. lia.
Qed.

Theorem absdiff_bounds : forall M pc m k, wf M = true -> valid_b pc M m = true -> In k (lec_ids M) ->
  0 <= lec_abs_diff M m k <= nth1 (l_uq M) k 0.
Proof.
  intros M pc m k Hwf Hv Hk.
  pose proof (lec_load_bounds M pc m k Hwf Hv Hk). unfold lec_abs_diff. lia.
Qed.

Lemma arg_nonneg : forall l i d, forallb (fun a => 0 <=? a) l = true -> 0 <= d -> 0 <= arg l i d.
Proof.
  intros l i d H Hd. unfold arg.
  destruct (nth_in_or_default i l d) as [Hin|Heq].
  - rewrite forallb_forall in H. specialize (H _ Hin). apply Z.leb_le in H. exact H.
  - rewrite Heq. exact Hd.
Qed.

Lemma all_prims_nonneg : forall M o p, admissible M o = true -> In p (all_prims M o) ->
  match p with PCost y z | PSqCost y z | PCostLsb y z => 0 <= y /\ 0 <= z | _ => True end.
Proof.
  intros M o p Ha Hp. unfold all_prims in Hp. apply in_flat_map in Hp.
  destruct Hp as [c [Hc Hp]].
  unfold admissible in Ha. apply andb_true_iff in Ha. destruct Ha as [_ Ha].
  rewrite forallb_forall in Ha. specialize (Ha c Hc).
  destruct c as [cr args]. unfold expand in Hp. cbn [fst snd] in *.
  destruct cr; cbv zeta in Hp.
  - destruct Hp as [<-|[]]. exact I.
  - destruct Hp as [<-|[]]. exact I.
  - apply in_map_iff in Hp. destruct Hp as [r [<- _]]. exact I.
  - apply in_map_iff in Hp. destruct Hp as [r [<- _]]. exact I.
  - destruct Hp as [<-|[]]. split; apply arg_nonneg; (exact Ha || lia).
  - destruct Hp as [<-|[]]. split; apply arg_nonneg; (exact Ha || lia).
  - destruct Hp as [<-|[]]. exact I.
  - destruct Hp as [<-|[]]. exact I.
  - destruct Hp as [<-|[]]. split; apply arg_nonneg; (exact Ha || lia).
Qed.

Lemma sum_abs_diff_bounds : forall M pc m, wf M = true -> valid_b pc M m = true ->
  0 <= sum_abs_diff M m <= sumZ (l_uq M).
Proof.
  intros M pc m Hwf Hv. unfold sum_abs_diff. split.
  - apply sum_nonneg. intros k Hk. apply (absdiff_bounds M pc m k Hwf Hv Hk).
  - assert (E : sumZ (l_uq M) = sumZ (map (fun k => nth1 (l_uq M) k 0) (lec_ids M))).
    { unfold lec_ids. destruct (wf_destruct M Hwf).
      replace (Z.to_nat (nL M)) with (length (l_uq M)) by (unfold zlen in *; lia).
      rewrite map_nth1_seqZ. reflexivity. }
    rewrite E. apply sum_map_le. intros k Hk. apply (absdiff_bounds M pc m k Hwf Hv Hk).
Qed.

Lemma max_abs_diff_bounds : forall M pc m, wf M = true -> valid_b pc M m = true ->
  0 <= max_abs_diff M m <= max_lec_uq M.
Proof.
  intros M pc m Hwf Hv. unfold max_abs_diff, max_lec_uq. split; [apply fold_max_nonneg|].
  apply fold_max_le; [apply fold_max_nonneg|].
  intros x Hx. apply in_map_iff in Hx. destruct Hx as [k [<- Hk]].
  pose proof (absdiff_bounds M pc m k Hwf Hv Hk) as Hb.
  assert (Hin : In (nth1 (l_uq M) k 0) (l_uq M)).
  { apply nth1_In. destruct (wf_destruct M Hwf). unfold lec_ids in Hk. apply in_seqZ in Hk. lia. }
  pose proof (fold_max_ge _ _ Hin). lia.
Qed.

Theorem meas_bounds : forall M pc o m p, wf M = true -> admissible M o = true -> valid_b pc M m = true ->
  In p (all_prims M o) -> 0 <= prim_meas M p m <= prim_ub M p.
Proof.
  intros M pc o m p Hwf Hadm Hv Hp.
  pose proof (all_prims_nonneg M o p Hadm Hp) as Hyz.
  destruct (valid_b_facts pc M m Hv) as [Hacc _].
  pose proof (wf_destruct M Hwf) as W. destruct W.
  (* the matched pairs *)
  pose proof (size_matched M m Hacc) as Hsz.
  assert (Hn : 0 <= zlen (matched M m) <= nS M).
  { split; [apply zlen_nonneg|]. rewrite <- Hsz.
    pose proof (countb_le_len _ (fun p => negb (p =? 0)) m) as Hc. fold (size m) in Hc.
    pose proof (acceptable_length _ _ Hacc) as Hl. unfold zlen in *. lia. }
  assert (Hq : forall q, In q (matched M m) ->
             1 <= rs q <= nP M /\ rs q <= max_rank M /\ 0 <= rl0 q <= nS M).
  { intros q Hin. apply pair_bounds; [exact Hwf|]. apply (matched_in_all M m q Hwf Hin). }
  set (n := zlen (matched M m)) in *.
  assert (Hcs : 0 <= cost_s M m <= n * nP M).
  { unfold cost_s. apply sum_bound. intros q Hin. destruct (Hq q Hin) as [H1 _]. lia. }
  destruct p as [mx|g r|y z|y z| | |y z]; cbn [prim_meas prim_ub].
  - lia.
  - unfold count_at_rank.
    pose proof (countb_nonneg _ (fun q => rs q =? r) (matched M m)).
    pose proof (countb_le_len _ (fun q => rs q =? r) (matched M m)). lia.
  - destruct Hyz as [Hy Hz].
    assert (Hcl : 0 <= cost_l M m <= n * nS M).
    { unfold cost_l. apply sum_bound. intros q Hin. destruct (Hq q Hin) as [_ [_ H3]]. exact H3. }
    assert (B1 : cost_s M m <= nS M * nP M) by nia.
    assert (B2 : cost_l M m <= nS M * nS M) by nia.
    pose proof (Z.mul_le_mono_nonneg_l _ _ y Hy B1).
    pose proof (Z.mul_le_mono_nonneg_l _ _ z Hz B2).
    assert (0 <= y * cost_s M m) by (apply Z.mul_nonneg_nonneg; lia).
    assert (0 <= z * cost_l M m) by (apply Z.mul_nonneg_nonneg; lia).
    lia.
  - destruct Hyz as [Hy Hz].
    set (mr := max_rank M).
    assert (Hss : 0 <= costsq_s M m <= n * (mr * mr)).
    { unfold costsq_s. apply sum_bound. intros q Hin. destruct (Hq q Hin) as [H1 [H2 _]].
      fold mr in H2. nia. }
    assert (Hsl : 0 <= costsq_l M m <= n * (nS M * nS M)).
    { unfold costsq_l. apply sum_bound. intros q Hin. destruct (Hq q Hin) as [_ [_ H3]]. nia. }
    assert (Q0 : 0 <= mr * mr) by nia.
    assert (B1 : costsq_s M m <= nS M * mr * (nS M * mr)).
    { assert (n * (mr * mr) <= nS M * (mr * mr)) by (apply Z.mul_le_mono_nonneg_r; lia).
      assert (nS M * (mr * mr) <= nS M * (nS M * (mr * mr))) by nia.
      lia. }
    assert (B2 : costsq_l M m <= nS M * nS M * (nS M * nS M)).
    { assert (S0 : 0 <= nS M * nS M) by nia.
      assert (n * (nS M * nS M) <= nS M * (nS M * nS M)) by (apply Z.mul_le_mono_nonneg_r; lia).
      assert (nS M * (nS M * nS M) <= nS M * (nS M * (nS M * nS M))) by nia.
      lia. }
    pose proof (Z.mul_le_mono_nonneg_l _ _ y Hy B1).
    pose proof (Z.mul_le_mono_nonneg_l _ _ z Hz B2).
    assert (0 <= y * costsq_s M m) by (apply Z.mul_nonneg_nonneg; lia).
    assert (0 <= z * costsq_l M m) by (apply Z.mul_nonneg_nonneg; lia).
    lia.
  - apply (max_abs_diff_bounds M pc m Hwf Hv).
  - apply (sum_abs_diff_bounds M pc m Hwf Hv).
  - destruct Hyz as [Hy Hz].
    pose proof (sum_abs_diff_bounds M pc m Hwf Hv) as [A0 A1].
    assert (B1 : cost_s M m <= nS M * nP M) by nia.
    pose proof (Z.mul_le_mono_nonneg_l _ _ y Hy B1).
    pose proof (Z.mul_le_mono_nonneg_l _ _ z Hz A1).
    assert (0 <= y * cost_s M m) by (apply Z.mul_nonneg_nonneg; lia).
    assert (0 <= z * sum_abs_diff M m) by (apply Z.mul_nonneg_nonneg; lia).
    lia.
Qed.

Print Assumptions matching_of_canon.
Print Assumptions canon_binary.
Print Assumptions canon_upper_lower.
Print Assumptions canon_loadbal_counterexample.
Print Assumptions canon_loadbal.
Print Assumptions tie_sound_eq.
Print Assumptions tie_sound_ge.
Print Assumptions canon_tie.
Print Assumptions meas_bounds.
Print Assumptions absdiff_bounds.
