(* Brute-force cross-check: what the integer-programming mode reaches for a criterion is the optimum the
   brute-force mode prints (both modes quantify over the same set: the valid matchings of the instance). *)
From MP Require Import Spec.BFSpec LP.Canon Proofs.BFProofs Proofs.StageInv Proofs.StageAll Proofs.EndToEnd.
From Coq Require Import Lia ZArith Bool List.
Local Open Scope list_scope.
Open Scope Z_scope.

(* ---- the brute-force side: the accumulators are extrema over all_valid ------------------------- *)

Lemma valid_in_all_valid : forall pc M m, valid_b pc M m = true -> In m (all_valid pc M).
Proof.
  intros pc M m Hv. unfold all_valid. apply filter_In. split; [|exact Hv].
  apply all_vectors_In. exact (valid_acceptable pc M m Hv).
Qed.

Lemma all_valid_valid : forall pc M m, In m (all_valid pc M) -> valid_b pc M m = true.
Proof. intros pc M m H. unfold all_valid in H. apply filter_In in H. exact (proj2 H). Qed.

Lemma bf_run_Best : forall pc M a m,
  wf M = true -> bf_run pc M = Ok a -> In m (all_valid pc M) -> Best M (all_valid pc M) a.
Proof.
  intros pc M a m Hwf Hrun Hin.
  destruct (bf_run_spec pc M a Hwf Hrun) as [[HV _] | (_ & _ & Hs)].
  - rewrite HV in Hin. destruct Hin.
  - destruct (all_valid pc M) as [|m0 rest] eqn:HV; [destruct Hin|].
    destruct (spec_Best pc M m0 rest HV) as (a' & Hs' & HB).
    rewrite Hs in Hs'. injection Hs' as <-. exact HB.
Qed.

(* ---- the integer-programming side ---------------------------------------------------------------- *)

Lemma Feas_nostab : forall pc M m, Feas pc false M m <-> valid_b pc M m = true.
Proof.
  intros pc M m. unfold Feas. split; [intros [H _]; exact H|]. intro H. split; [exact H|discriminate].
Qed.

(* a lexicographic run over "maximise the number of students at rank r" stages, r through [rs], leaves a
   matching whose count vector no feasible matching exceeds lexicographically *)
Lemma lex_max_ranks : forall M rs F m,
  LexOpt F (map (prim_objective_spec M) (map (fun r => PRank true r) rs)) m ->
  forall m', F m' -> lex_lt (map (count_at_rank M m) rs) (map (count_at_rank M m') rs) = false.
Proof.
  intros M rs. induction rs as [|r rs IH]; intros F m H m' Hm'; [reflexivity|].
  cbn [map] in H. destruct H as [HF [Hbest Hrest]].
  cbn [map lex_lt].
  pose proof (Hbest m' Hm') as Hb. unfold as_good, prim_objective_spec in Hb.
  cbn [ob_max ob_meas is_max prim_meas] in Hb. apply Z.leb_le in Hb.
  apply orb_false_iff. split; [apply Z.ltb_ge; exact Hb|].
  destruct (count_at_rank M m r =? count_at_rank M m' r) eqn:E; [|reflexivity].
  apply Z.eqb_eq in E. cbn [andb].
  apply (IH _ m Hrest m'). split; [exact Hm'|].
  unfold prim_objective_spec. cbn [ob_meas prim_meas]. symmetry. exact E.
Qed.

Lemma lex_min_ranks : forall M rs F m,
  LexOpt F (map (prim_objective_spec M) (map (fun r => PRank false r) rs)) m ->
  forall m', F m' -> lex_lt (map (count_at_rank M m') rs) (map (count_at_rank M m) rs) = false.
Proof.
  intros M rs. induction rs as [|r rs IH]; intros F m H m' Hm'; [reflexivity|].
  cbn [map] in H. destruct H as [HF [Hbest Hrest]].
  cbn [map lex_lt].
  pose proof (Hbest m' Hm') as Hb. unfold as_good, prim_objective_spec in Hb.
  cbn [ob_max ob_meas is_max prim_meas] in Hb. apply Z.leb_le in Hb.
  apply orb_false_iff. split; [apply Z.ltb_ge; exact Hb|].
  destruct (count_at_rank M m' r =? count_at_rank M m r) eqn:E; [|reflexivity].
  apply Z.eqb_eq in E. cbn [andb].
  apply (IH _ m Hrest m'). split; [exact Hm'|].
  unfold prim_objective_spec. cbn [ob_meas prim_meas]. exact E.
Qed.

Lemma greedy_default_stages : forall M,
  expand M (Greedy, []) = map (fun r => PRank true r) (seqZ 1 (Z.to_nat (max_rank M))).
Proof.
  intro M. unfold expand, arg. cbn [fst snd nth]. do 2 f_equal. lia.
Qed.

Lemma generous_default_stages : forall M,
  expand M (Generous, []) = map (fun r => PRank false r) (rev (seqZ 1 (Z.to_nat (max_rank M)))).
Proof.
  intro M. unfold expand, arg. cbn [fst snd nth].
  replace (Z.max 0 (1 - 1)) with 0 by lia. cbn [Z.add]. do 4 f_equal. lia.
Qed.

(* the LexOpt fact of a run without -stab, with the option record projections computed away *)
Lemma run_lex_nostab : forall M pc cs solve out,
  wf M = true -> admissible M (mkOpts pc false cs) = true -> milp_ok M solve ->
  run M (mkOpts pc false cs) solve = Ok out -> out_status out = Optimal ->
  LexOpt (Feas pc false M) (map (prim_objective_spec M) (flat_map (expand M) cs))
         (matching_of M (val_fun (out_vals out))).
Proof.
  intros M pc cs solve out Hwf Hadm Hok Hrun Hst.
  exact (run_lex_optimal_all M (mkOpts pc false cs) solve out Hwf Hadm Hok Hrun Hst).
Qed.

(* ---- the four main cross-checks ------------------------------------------------------------------ *)

Theorem crosscheck_maxsize : forall M pc solve out a,
  wf M = true -> admissible M (mkOpts pc false [(MaxSize, [])]) = true -> milp_ok M solve ->
  run M (mkOpts pc false [(MaxSize, [])]) solve = Ok out -> out_status out = Optimal ->
  bf_run pc M = Ok a ->
  o_size a = size (matching_of M (val_fun (out_vals out))).
Proof.
  intros M pc solve out a Hwf Hadm Hok Hrun Hst Hbf.
  pose proof (run_lex_nostab M pc _ solve out Hwf Hadm Hok Hrun Hst) as HL.
  cbn [flat_map expand fst snd app map] in HL.
  set (m := matching_of M (val_fun (out_vals out))) in *.
  destruct (LexOpt_head _ _ _ _ HL) as [HF Hbest].
  apply Feas_nostab in HF. pose proof (valid_in_all_valid pc M m HF) as Hin.
  destruct (bf_run_Best pc M a m Hwf Hbf Hin) as [[(u & Hu & Hsz) Hmax] _].
  assert (H1 : size m <= o_size a).
  { specialize (Hmax (size m)). unfold gtb in Hmax. apply Z.ltb_ge. apply Hmax. exists m. split; [exact Hin|reflexivity]. }
  assert (H2 : size u <= size m).
  { specialize (Hbest u (proj2 (Feas_nostab pc M u) (all_valid_valid pc M u Hu))).
    unfold as_good, prim_objective_spec in Hbest. cbn [ob_max ob_meas is_max prim_meas] in Hbest.
    now apply Z.leb_le in Hbest. }
  lia.
Qed.

Theorem crosscheck_maxsize_mincost : forall M pc solve out a,
  wf M = true -> admissible M (mkOpts pc false [(MaxSize, []); (MinCost, [])]) = true -> milp_ok M solve ->
  run M (mkOpts pc false [(MaxSize, []); (MinCost, [])]) solve = Ok out -> out_status out = Optimal ->
  bf_run pc M = Ok a ->
  o_size a = size (matching_of M (val_fun (out_vals out))) /\
  fst (o_mincost a) = cost_s M (matching_of M (val_fun (out_vals out))).
Proof.
  intros M pc solve out a Hwf Hadm Hok Hrun Hst Hbf.
  pose proof (run_lex_nostab M pc _ solve out Hwf Hadm Hok Hrun Hst) as HL.
  cbn [flat_map expand fst snd app map arg nth] in HL.
  set (m := matching_of M (val_fun (out_vals out))) in *.
  destruct HL as [HF [Hbest HL2]].
  destruct (LexOpt_head _ _ _ _ HL2) as [_ Hbest2].
  apply Feas_nostab in HF. pose proof (valid_in_all_valid pc M m HF) as Hin.
  destruct (bf_run_Best pc M a m Hwf Hbf Hin) as [[(u & Hu & Hsz) Hmax] [[[(w & [Hw Hwsz] & Hc) Hcmin] _] _]].
  assert (H1 : size m <= o_size a).
  { specialize (Hmax (size m)). unfold gtb in Hmax. apply Z.ltb_ge. apply Hmax. exists m. split; [exact Hin|reflexivity]. }
  assert (H2 : size u <= size m).
  { specialize (Hbest u (proj2 (Feas_nostab pc M u) (all_valid_valid pc M u Hu))).
    unfold as_good, prim_objective_spec in Hbest. cbn [ob_max ob_meas is_max prim_meas] in Hbest.
    now apply Z.leb_le in Hbest. }
  assert (Es : o_size a = size m) by lia.
  split; [exact Es|].
  unfold inl in Hw.
  assert (H3 : cost_s M m <= cost_s M w).
  { assert (HFw : Feas pc false M w /\
                  ob_meas (prim_objective_spec M (PSize true)) w = ob_meas (prim_objective_spec M (PSize true)) m).
    { split; [apply Feas_nostab; exact (all_valid_valid pc M w Hw)|].
      unfold prim_objective_spec. cbn [ob_meas prim_meas]. lia. }
    specialize (Hbest2 w HFw).
    unfold as_good, prim_objective_spec in Hbest2. cbn [ob_max ob_meas is_max prim_meas] in Hbest2.
    apply Z.leb_le in Hbest2. lia. }
  assert (H4 : cost_s M w <= cost_s M m).
  { assert (Hi : img (atsz (inl (all_valid pc M)) (o_size a)) (costp M) (costp M m)).
    { exists m. split; [split; [exact Hin|now symmetry]|reflexivity]. }
    specialize (Hcmin _ Hi). rewrite Hc in Hcmin. unfold tup_lt, costp in Hcmin. cbn [fst snd] in Hcmin.
    apply orb_false_iff in Hcmin as [Hlt _]. now apply Z.ltb_ge in Hlt. }
  rewrite Hc. unfold costp. cbn [fst]. lia.
Qed.

Theorem crosscheck_loadmaxbal : forall M pc solve out a,
  wf M = true -> admissible M (mkOpts pc false [(LoadMaxBal, [])]) = true -> milp_ok M solve ->
  run M (mkOpts pc false [(LoadMaxBal, [])]) solve = Ok out -> out_status out = Optimal ->
  bf_run pc M = Ok a ->
  o_maxdiff a = max_abs_diff M (matching_of M (val_fun (out_vals out))).
Proof.
  intros M pc solve out a Hwf Hadm Hok Hrun Hst Hbf.
  pose proof (run_lex_nostab M pc _ solve out Hwf Hadm Hok Hrun Hst) as HL.
  cbn [flat_map expand fst snd app map] in HL.
  set (m := matching_of M (val_fun (out_vals out))) in *.
  destruct (LexOpt_head _ _ _ _ HL) as [HF Hbest].
  apply Feas_nostab in HF. pose proof (valid_in_all_valid pc M m HF) as Hin.
  destruct (bf_run_Best pc M a m Hwf Hbf Hin) as (_ & _ & _ & [(u & Hu & Hd) Hmin] & _).
  assert (H1 : o_maxdiff a <= max_abs_diff M m).
  { apply Z.ltb_ge. apply Hmin. exists m. split; [exact Hin|reflexivity]. }
  assert (H2 : max_abs_diff M m <= max_abs_diff M u).
  { specialize (Hbest u (proj2 (Feas_nostab pc M u) (all_valid_valid pc M u Hu))).
    unfold as_good, prim_objective_spec in Hbest. cbn [ob_max ob_meas is_max prim_meas] in Hbest.
    now apply Z.leb_le in Hbest. }
  lia.
Qed.

Theorem crosscheck_loadsumbal : forall M pc solve out a,
  wf M = true -> admissible M (mkOpts pc false [(LoadSumBal, [])]) = true -> milp_ok M solve ->
  run M (mkOpts pc false [(LoadSumBal, [])]) solve = Ok out -> out_status out = Optimal ->
  bf_run pc M = Ok a ->
  o_sumdiff a = sum_abs_diff M (matching_of M (val_fun (out_vals out))).
Proof.
  intros M pc solve out a Hwf Hadm Hok Hrun Hst Hbf.
  pose proof (run_lex_nostab M pc _ solve out Hwf Hadm Hok Hrun Hst) as HL.
  cbn [flat_map expand fst snd app map] in HL.
  set (m := matching_of M (val_fun (out_vals out))) in *.
  destruct (LexOpt_head _ _ _ _ HL) as [HF Hbest].
  apply Feas_nostab in HF. pose proof (valid_in_all_valid pc M m HF) as Hin.
  destruct (bf_run_Best pc M a m Hwf Hbf Hin) as (_ & _ & _ & _ & [(u & Hu & Hd) Hmin]).
  assert (H1 : o_sumdiff a <= sum_abs_diff M m).
  { apply Z.ltb_ge. apply Hmin. exists m. split; [exact Hin|reflexivity]. }
  assert (H2 : sum_abs_diff M m <= sum_abs_diff M u).
  { specialize (Hbest u (proj2 (Feas_nostab pc M u) (all_valid_valid pc M u Hu))).
    unfold as_good, prim_objective_spec in Hbest. cbn [ob_max ob_meas is_max prim_meas] in Hbest.
    now apply Z.leb_le in Hbest. }
  lia.
Qed.

(* ---- stretch goals: the profile-valued optima ---------------------------------------------------- *)

Theorem crosscheck_greedy : forall M pc solve out a,
  wf M = true -> admissible M (mkOpts pc false [(Greedy, [])]) = true -> milp_ok M solve ->
  run M (mkOpts pc false [(Greedy, [])]) solve = Ok out -> out_status out = Optimal ->
  bf_run pc M = Ok a ->
  o_gre a = profile M (matching_of M (val_fun (out_vals out))).
Proof.
  intros M pc solve out a Hwf Hadm Hok Hrun Hst Hbf.
  pose proof (run_lex_nostab M pc _ solve out Hwf Hadm Hok Hrun Hst) as HL.
  cbn [flat_map] in HL. rewrite app_nil_r, greedy_default_stages in HL.
  set (m := matching_of M (val_fun (out_vals out))) in *.
  pose proof (LexOpt_feasible _ _ _ HL) as HF.
  apply Feas_nostab in HF. pose proof (valid_in_all_valid pc M m HF) as Hin.
  destruct (bf_run_Best pc M a m Hwf Hbf Hin) as (_ & _ & [(u & Hu & Hd) Hmin] & _).
  rewrite Hd. apply lex_tricho.
  - now rewrite !profile_length.
  - rewrite <- Hd. apply (Hmin (profile M m)). exists m. split; [exact Hin|reflexivity].
  - exact (lex_max_ranks M _ _ m HL u (proj2 (Feas_nostab pc M u) (all_valid_valid pc M u Hu))).
Qed.

Theorem crosscheck_maxsize_greedy : forall M pc solve out a,
  wf M = true -> admissible M (mkOpts pc false [(MaxSize, []); (Greedy, [])]) = true -> milp_ok M solve ->
  run M (mkOpts pc false [(MaxSize, []); (Greedy, [])]) solve = Ok out -> out_status out = Optimal ->
  bf_run pc M = Ok a ->
  o_gremax a = profile M (matching_of M (val_fun (out_vals out))).
Proof.
  intros M pc solve out a Hwf Hadm Hok Hrun Hst Hbf.
  pose proof (run_lex_nostab M pc _ solve out Hwf Hadm Hok Hrun Hst) as HL.
  cbn [flat_map] in HL. rewrite app_nil_r, greedy_default_stages in HL.
  cbn [expand fst app map] in HL.
  set (m := matching_of M (val_fun (out_vals out))) in *.
  destruct HL as [HF [Hbest HL2]].
  apply Feas_nostab in HF. pose proof (valid_in_all_valid pc M m HF) as Hin.
  destruct (bf_run_Best pc M a m Hwf Hbf Hin) as [[(u & Hu & Hsz) Hmax] [(_ & _ & _ & _ & [(w & [Hw Hwsz] & Hc) Hcmin]) _]].
  assert (H1 : size m <= o_size a).
  { specialize (Hmax (size m)). unfold gtb in Hmax. apply Z.ltb_ge. apply Hmax. exists m. split; [exact Hin|reflexivity]. }
  assert (H2 : size u <= size m).
  { specialize (Hbest u (proj2 (Feas_nostab pc M u) (all_valid_valid pc M u Hu))).
    unfold as_good, prim_objective_spec in Hbest. cbn [ob_max ob_meas is_max prim_meas] in Hbest.
    now apply Z.leb_le in Hbest. }
  assert (Es : o_size a = size m) by lia.
  unfold inl in Hw.
  rewrite Hc. apply lex_tricho.
  - now rewrite !profile_length.
  - rewrite <- Hc. apply (Hcmin (profile M m)). exists m. split; [split; [exact Hin|now symmetry]|reflexivity].
  - apply (lex_max_ranks M _ _ m HL2 w). split; [apply Feas_nostab; exact (all_valid_valid pc M w Hw)|].
    unfold prim_objective_spec. cbn [ob_meas prim_meas]. lia.
Qed.

Theorem crosscheck_maxsize_generous : forall M pc solve out a,
  wf M = true -> admissible M (mkOpts pc false [(MaxSize, []); (Generous, [])]) = true -> milp_ok M solve ->
  run M (mkOpts pc false [(MaxSize, []); (Generous, [])]) solve = Ok out -> out_status out = Optimal ->
  bf_run pc M = Ok a ->
  o_genmax a = profile M (matching_of M (val_fun (out_vals out))).
Proof.
  intros M pc solve out a Hwf Hadm Hok Hrun Hst Hbf.
  pose proof (run_lex_nostab M pc _ solve out Hwf Hadm Hok Hrun Hst) as HL.
  cbn [flat_map] in HL. rewrite app_nil_r, generous_default_stages in HL.
  cbn [expand fst app map] in HL.
  set (m := matching_of M (val_fun (out_vals out))) in *.
  destruct HL as [HF [Hbest HL2]].
  apply Feas_nostab in HF. pose proof (valid_in_all_valid pc M m HF) as Hin.
  destruct (bf_run_Best pc M a m Hwf Hbf Hin) as [[(u & Hu & Hsz) Hmax] [(_ & _ & _ & [(w & [Hw Hwsz] & Hc) Hcmin] & _) _]].
  assert (H1 : size m <= o_size a).
  { specialize (Hmax (size m)). unfold gtb in Hmax. apply Z.ltb_ge. apply Hmax. exists m. split; [exact Hin|reflexivity]. }
  assert (H2 : size u <= size m).
  { specialize (Hbest u (proj2 (Feas_nostab pc M u) (all_valid_valid pc M u Hu))).
    unfold as_good, prim_objective_spec in Hbest. cbn [ob_max ob_meas is_max prim_meas] in Hbest.
    now apply Z.leb_le in Hbest. }
  assert (Es : o_size a = size m) by lia.
  unfold inl in Hw.
  rewrite Hc. apply (f_equal (@rev Z)) in Hc.
  rewrite <- (rev_involutive (profile M w)), <- (rev_involutive (profile M m)). f_equal.
  apply lex_tricho.
  - now rewrite !rev_length, !profile_length.
  - assert (HFw : Feas pc false M w /\
                  ob_meas (prim_objective_spec M (PSize true)) w = ob_meas (prim_objective_spec M (PSize true)) m).
    { split; [apply Feas_nostab; exact (all_valid_valid pc M w Hw)|].
      unfold prim_objective_spec. cbn [ob_meas prim_meas]. lia. }
    pose proof (lex_min_ranks M _ _ m HL2 w HFw) as H. rewrite !map_rev in H. exact H.
  - rewrite <- Hc. apply (Hcmin (profile M m)). exists m. split; [split; [exact Hin|now symmetry]|reflexivity].
Qed.

Print Assumptions crosscheck_maxsize.
Print Assumptions crosscheck_maxsize_mincost.
Print Assumptions crosscheck_loadmaxbal.
Print Assumptions crosscheck_loadsumbal.
Print Assumptions crosscheck_greedy.
Print Assumptions crosscheck_maxsize_greedy.
Print Assumptions crosscheck_maxsize_generous.
