(* Correctness of the model of Model.check_stability against the SPA-STL definition (C06). *)
From MP Require Import Checker.CheckStability.
From Coq Require Import Lia.
Local Open Scope list_scope. Open Scope Z_scope.

(* ---------- generic list / index facts --------------------------------- *)

Lemma seqZ_length : forall n a, length (seqZ a n) = n.
Proof. induction n as [|n IH]; intros a; cbn [seqZ length]; [reflexivity | now rewrite IH]. Qed.

Lemma seqZ_nth_error : forall n a k, (k < n)%nat -> nth_error (seqZ a n) k = Some (a + Z.of_nat k).
Proof.
  induction n as [|n IH]; intros a k Hk; [lia|].
  destruct k as [|k]; cbn [seqZ nth_error].
  - f_equal. lia.
  - rewrite IH by lia. f_equal. lia.
Qed.

Lemma map_seqZ_nth_error : forall {A} (f : Z -> A) n j,
  1 <= j <= n -> nth_error (map f (seqZ 1 (Z.to_nat n))) (Z.to_nat (j - 1)) = Some (f j).
Proof.
  intros A f n j Hj.
  rewrite nth_error_map, seqZ_nth_error by lia.
  cbn [option_map]. f_equal. f_equal. lia.
Qed.

Lemma map_seqZ_zlen : forall {A} (f : Z -> A) n, 0 <= n -> zlen (map f (seqZ 1 (Z.to_nat n))) = n.
Proof. intros A f n Hn. unfold zlen. rewrite map_length, seqZ_length. lia. Qed.

Lemma py_nth_ok : forall {A} (l : list A) i x,
  1 <= i <= zlen l -> nth_error l (Z.to_nat (i - 1)) = Some x -> py_nth l (i - 1) = Ok x.
Proof.
  intros A l i x Hi Hx. unfold py_nth. cbv zeta.
  destruct (i - 1 <? 0) eqn:E1; [apply Z.ltb_lt in E1; lia|].
  destruct (zlen l <=? i - 1) eqn:E2; [apply Z.leb_le in E2; lia|].
  rewrite ?E1, ?E2. cbn [orb]. now rewrite Hx.
Qed.

Lemma nthZ_nth1 : forall l i, 1 <= i <= zlen l -> nthZ l i = Ok (nth1 l i 0).
Proof.
  intros l i Hi. unfold nthZ, nth1.
  destruct (i <=? 0) eqn:E; [apply Z.leb_le in E; lia|].
  apply py_nth_ok; [assumption|].
  apply nth_error_nth'. unfold zlen in Hi. lia.
Qed.

Lemma nth1_In : forall l i, 1 <= i <= zlen l -> In (nth1 l i 0) l.
Proof.
  intros l i Hi. unfold nth1.
  destruct (i <=? 0) eqn:E; [apply Z.leb_le in E; lia|].
  apply nth_In. unfold zlen in Hi. lia.
Qed.

Lemma nthZ_map_seqZ : forall (f : Z -> Z) n j, 1 <= j <= n -> nthZ (map f (seqZ 1 (Z.to_nat n))) j = Ok (f j).
Proof.
  intros f n j Hj. unfold nthZ. apply py_nth_ok.
  - rewrite map_seqZ_zlen; lia.
  - now apply map_seqZ_nth_error.
Qed.

Lemma nthO_map_seqZ : forall (f : Z -> option Z) n j, 1 <= j <= n -> nthO (map f (seqZ 1 (Z.to_nat n))) j = Ok (f j).
Proof.
  intros f n j Hj. unfold nthO. apply py_nth_ok.
  - rewrite map_seqZ_zlen; lia.
  - now apply map_seqZ_nth_error.
Qed.

(* ---------- assignment_of / matched ------------------------------------- *)

Definition asg (ip : list pair * Z) : option pair :=
  match ip with (row, p) => if p =? 0 then None else find_pair row p end.

Lemma assignment_of_eq : forall M m, assignment_of M m = map asg (combine (pairs M) m).
Proof. reflexivity. Qed.

Lemma somes_asg : forall rows m, somes (map asg (combine rows m)) = matched_rows rows m.
Proof.
  induction rows as [|row rows IH]; intros m; [reflexivity|].
  destruct m as [|p m]; [reflexivity|].
  cbn [combine map matched_rows]. unfold somes in *. cbn [flat_map].
  rewrite IH. unfold asg at 1.
  destruct (if p =? 0 then None else find_pair row p); reflexivity.
Qed.

Lemma somes_assignment : forall M m, somes (assignment_of M m) = matched M m.
Proof. intros. rewrite assignment_of_eq. apply somes_asg. Qed.

Lemma matched_rows_In : forall rows m q, In q (matched_rows rows m) -> In q (concat rows).
Proof.
  induction rows as [|row rows IH]; intros m q Hq; [destruct m; contradiction|].
  destruct m as [|p m]; [contradiction|].
  cbn [matched_rows] in Hq. cbn [concat]. apply in_or_app.
  destruct (p =? 0).
  - right. eapply IH, Hq.
  - destruct (find_pair row p) as [c|] eqn:Ef.
    + destruct Hq as [<-|Hq]; [left | right; eapply IH, Hq].
      unfold find_pair in Ef. now apply find_some in Ef.
    + right. eapply IH, Hq.
Qed.

Lemma acceptable_length : forall rows m, acceptable_rows rows m = true -> length m = length rows.
Proof.
  induction rows as [|row rows IH]; intros [|p m] H; cbn [acceptable_rows] in H; try discriminate; [reflexivity|].
  apply andb_true_iff in H. destruct H as [_ H]. cbn [length]. f_equal. now apply IH.
Qed.

Lemma asg_nth : forall rows m k a,
  nth_error (map asg (combine rows m)) k = Some a ->
  a = match nth_error rows k, nth_error m k with
      | Some row, Some p => if p =? 0 then None else find_pair row p
      | _, _ => None
      end.
Proof.
  induction rows as [|row rows IH]; intros m k a H.
  - destruct k; discriminate.
  - destruct m as [|p m]; [destruct k; discriminate|].
    destruct k as [|k]; cbn [combine map nth_error] in *.
    + now inversion H.
    + now apply IH.
Qed.

Lemma rows_ok_nth : forall M rows i k row,
  rows_ok M i rows = true -> nth_error rows k = Some row -> row_ok M (i + Z.of_nat k) row = true.
Proof.
  intros M. induction rows as [|r rows IH]; intros i k row H Hn; [destruct k; discriminate|].
  cbn [rows_ok] in H. apply andb_true_iff in H. destruct H as [H1 H2].
  destruct k as [|k]; cbn [nth_error] in Hn.
  - inversion Hn; subst. now replace (i + Z.of_nat 0) with i by lia.
  - replace (i + Z.of_nat (S k)) with (i + 1 + Z.of_nat k) by lia. now apply IH.
Qed.

(* ---------- well-formedness facts --------------------------------------- *)

Lemma wf_facts : forall M, wf M = true ->
  1 <= nP M /\ 1 <= nL M /\ zlen (p_uq M) = nP M /\ zlen (p_lec M) = nP M /\ zlen (l_uq M) = nL M /\
  (forall k, In k (p_lec M) -> 1 <= k <= nL M) /\ rows_ok M 1 (pairs M) = true.
Proof.
  intros M H. unfold wf in H.
  repeat (apply andb_true_iff in H; destruct H as [H ?]).
  repeat match goal with
  | h : (_ =? _) = true |- _ => apply Z.eqb_eq in h
  | h : (_ <=? _) = true |- _ => apply Z.leb_le in h
  end.
  assert (Hlec : forall k, In k (p_lec M) -> 1 <= k <= nL M).
  { intros k Hk.
    match goal with h : forallb _ (p_lec M) = true |- _ =>
      rewrite forallb_forall in h; specialize (h _ Hk);
      apply andb_true_iff in h; rewrite !Z.leb_le in h; exact h end. }
  repeat (split; [assumption|]). assumption.
Qed.

Lemma row_ok_facts : forall M i row q, row_ok M i row = true -> In q row ->
  st q = i /\ 1 <= pr q <= nP M /\ lec q = nth1 (p_lec M) (pr q) 0.
Proof.
  intros M i row q H Hq. unfold row_ok in H.
  apply andb_true_iff in H. destruct H as [H _].
  apply andb_true_iff in H. destruct H as [H _].
  rewrite forallb_forall in H. specialize (H _ Hq).
  apply andb_true_iff in H. destruct H as [H H4].
  apply andb_true_iff in H. destruct H as [H H3].
  apply andb_true_iff in H. destruct H as [H1 H2].
  apply Z.eqb_eq in H1, H4. apply Z.leb_le in H2, H3. repeat split; assumption.
Qed.

(* ---------- the checker ------------------------------------------------- *)

Lemma rank_lt_worst_some : forall q w r, rl q = Some r -> rank_lt_worst q w = Ok (prefers_to_worst (rl q) w).
Proof. intros q w r Hr. unfold rank_lt_worst, prefers_to_worst. rewrite Hr. destruct w; reflexivity. Qed.

Definition wp_of (M : instance) (m : matching) : list (option Z) :=
  map (fun j => worst_rank (filter (fun q => pr q =? j) (matched M m))) (seqZ 1 (Z.to_nat (nP M))).
Definition wl_of (M : instance) (m : matching) : list (option Z) :=
  map (fun j => worst_rank (filter (fun q => lec q =? j) (matched M m))) (seqZ 1 (Z.to_nat (nL M))).
Definition pnum_of (M : instance) (m : matching) : list Z :=
  map (fun j => countb (fun q => pr q =? j) (matched M m)) (seqZ 1 (Z.to_nat (nP M))).
Definition lnum_of (M : instance) (m : matching) : list Z :=
  map (fun j => countb (fun q => lec q =? j) (matched M m)) (seqZ 1 (Z.to_nat (nL M))).

Lemma pair_blocks_ok : forall M m q r,
  wf M = true -> 1 <= pr q <= nP M -> lec q = nth1 (p_lec M) (pr q) 0 -> rl q = Some r ->
  pair_blocks M (pnum_of M m) (lnum_of M m) (wp_of M m) (wl_of M m) (assigned_pair M m (st q)) q
  = Ok (blocking_b M m q).
Proof.
  intros M m q r Hwf Hpr Hlec Hrl.
  destruct (wf_facts M Hwf) as (HnP & HnL & Hpuq & Hplec & Hluq & Hlecs & _).
  assert (Hl : 1 <= lec q <= nL M).
  { apply Hlecs. rewrite Hlec. apply nth1_In. lia. }
  unfold pair_blocks, pnum_of, lnum_of, wp_of, wl_of.
  rewrite (nthZ_map_seqZ _ (nP M) (pr q) Hpr).
  rewrite (nthZ_nth1 (p_uq M) (pr q)) by lia.
  rewrite (nthZ_map_seqZ _ (nL M) (lec q) Hl).
  rewrite (nthZ_nth1 (l_uq M) (lec q)) by lia.
  rewrite (nthO_map_seqZ _ (nL M) (lec q) Hl).
  rewrite (nthO_map_seqZ _ (nP M) (pr q) Hpr).
  cbn [bind]. rewrite !(rank_lt_worst_some q _ r Hrl).
  cbn [bind].
  unfold blocking_b, proj_load, lec_load, M_of_lec, M_of_proj.
  destruct (countb (fun q0 => pr q0 =? pr q) (matched M m) <? nth1 (p_uq M) (pr q) 0);
  destruct (countb (fun q0 => lec q0 =? lec q) (matched M m) <? nth1 (l_uq M) (lec q) 0);
  cbn [andb negb bind orb];
  destruct (assigned_pair M m (st q)) as [c|]; try reflexivity;
  try (destruct (lec c =? lec q); cbn [bind orb]; reflexivity).
Qed.

Lemma check_row_ok : forall M pn ln wp wl a (f : pair -> bool) row,
  (forall q, In q row -> pair_blocks M pn ln wp wl a q = Ok (f q)) ->
  check_row M pn ln wp wl a row = Ok (negb (existsb f row)).
Proof.
  intros M pn ln wp wl a f. induction row as [|q t IH]; intros H; [reflexivity|].
  cbn [check_row existsb]. rewrite (H q (or_introl eq_refl)). cbn [bind].
  destruct (f q); cbn [orb negb]; [reflexivity|].
  apply IH. intros q' Hq'. apply H. now right.
Qed.

Lemma check_rows_ok : forall M pn ln wp wl (f : pair -> bool) rows pa,
  length pa = length rows ->
  (forall k row a q, nth_error rows k = Some row -> nth_error pa k = Some a -> In q row ->
     pair_blocks M pn ln wp wl a q = Ok (f q)) ->
  check_rows M pn ln wp wl rows pa = Ok (negb (existsb f (concat rows))).
Proof.
  intros M pn ln wp wl f. induction rows as [|row rows IH]; intros pa Hlen H; [reflexivity|].
  destruct pa as [|a pa]; [discriminate|].
  cbn [check_rows concat]. rewrite existsb_app.
  rewrite (check_row_ok M pn ln wp wl a f row).
  2:{ intros q Hq. apply (H 0%nat row a q); [reflexivity | reflexivity | assumption]. }
  cbn [bind].
  destruct (existsb f row); cbn [negb orb]; [reflexivity|].
  apply IH.
  - cbn [length] in Hlen. lia.
  - intros k row' a' q Hr Ha Hq. apply (H (S k) row' a' q); assumption.
Qed.

Lemma worst_for_ok : forall M m sel n,
  two_sided M = true ->
  worst_for sel n (assignment_of M m) =
  Ok (map (fun j => worst_rank (filter (fun q => sel q =? j) (matched M m))) (seqZ 1 (Z.to_nat n))).
Proof.
  intros M m sel n H2. unfold worst_for. rewrite somes_assignment.
  destruct (existsb _ (matched M m)) eqn:E; [|reflexivity].
  apply existsb_exists in E. destruct E as (q & Hq & Hn).
  unfold matched in Hq. apply matched_rows_In in Hq.
  unfold two_sided in H2. rewrite forallb_forall in H2. specialize (H2 q Hq).
  destruct (rl q); discriminate.
Qed.

Theorem check_correct : forall (M : instance) (m : matching),
  wf M = true -> two_sided M = true -> respects_upper_b M m = true ->
  check_stability M (assignment_of M m) = Ok (stable_b M m).
Proof.
  intros M m Hwf H2 Hru.
  unfold check_stability.
  rewrite !worst_for_ok by assumption. cbn [bind].
  unfold num_for. rewrite somes_assignment.
  fold (pnum_of M m) (lnum_of M m) (wp_of M m) (wl_of M m).
  unfold stable_b, exists_blocking_b, all_pairs.
  unfold respects_upper_b in Hru.
  apply andb_true_iff in Hru. destruct Hru as [Hru _].
  apply andb_true_iff in Hru. destruct Hru as [Hacc _].
  apply acceptable_length in Hacc.
  destruct (wf_facts M Hwf) as (_ & _ & _ & _ & _ & _ & Hrows).
  apply check_rows_ok.
  - rewrite assignment_of_eq, map_length, combine_length, Hacc. lia.
  - intros k row a q Hr Ha Hq.
    pose proof (rows_ok_nth M _ 1 k row Hrows Hr) as Hrow.
    destruct (row_ok_facts M _ row q Hrow Hq) as (Hst & Hpr & Hlec).
    rewrite assignment_of_eq in Ha. apply asg_nth in Ha.
    assert (Ea : a = assigned_pair M m (st q)).
    { rewrite Ha. unfold assigned_pair. rewrite Hst.
      replace (Z.to_nat (1 + Z.of_nat k - 1)) with k by lia. reflexivity. }
    rewrite Ea.
    assert (Hall : In q (concat (pairs M))).
    { apply in_concat. exists row. split; [eapply nth_error_In; eassumption | assumption]. }
    unfold two_sided, all_pairs in H2. rewrite forallb_forall in H2. specialize (H2 q Hall).
    destruct (rl q) as [r|] eqn:Hrl; [|discriminate].
    eapply pair_blocks_ok; eassumption.
Qed.

Print Assumptions check_correct.
