(* The statistics block of Model.get_results (Run/Results.v) prints what the instance and the printed
   matching line imply (Spec/ResultsSpec.v). *)
From MP Require Import Spec.ResultsSpec.
From Coq Require Import Lia.
Local Open Scope list_scope. Open Scope Z_scope.

(* ---------- generic list helpers ---------------------------------------- *)

Definition olist {A} (o : option A) : list A := match o with Some q => [q] | None => [] end.

Lemma flat_map_map' : forall {A B C} (f : B -> list C) (g : A -> B) (l : list A),
  flat_map f (map g l) = flat_map (fun x => f (g x)) l.
Proof.
  intros A B C f g l. induction l as [|x l IH]; [reflexivity|].
  cbn [map flat_map]. rewrite IH. reflexivity.
Qed.

Lemma flat_map_app' : forall {A B} (f : A -> list B) (l1 l2 : list A),
  flat_map f (l1 ++ l2) = flat_map f l1 ++ flat_map f l2.
Proof.
  intros A B f l1 l2. induction l1 as [|x l1 IH]; [reflexivity|].
  cbn [app flat_map]. rewrite IH, app_assoc. reflexivity.
Qed.

Lemma flat_map_olist_rev : forall {A B} (g : A -> option B) (l : list A),
  rev (flat_map (fun x => olist (g x)) l) = flat_map (fun x => olist (g x)) (rev l).
Proof.
  intros A B g l. induction l as [|x l IH]; [reflexivity|].
  cbn [flat_map rev]. rewrite rev_app_distr, flat_map_app', IH.
  cbn [flat_map]. rewrite app_nil_r.
  destruct (g x); reflexivity.
Qed.

Lemma seqZ_map : forall n a, seqZ a n = map (fun k => a + Z.of_nat k) (seq 0 n).
Proof.
  induction n as [|n IH]; intro a; [reflexivity|].
  cbn [seqZ seq map]. rewrite IH, <- seq_shift, map_map.
  f_equal; [lia|]. apply map_ext. intro k. lia.
Qed.

Lemma seqZ_In : forall n a i, In i (seqZ a n) -> a <= i < a + Z.of_nat n.
Proof.
  induction n as [|n IH]; intros a i Hin; [destruct Hin|].
  cbn [seqZ] in Hin. destruct Hin as [Heq|Hin]; [lia|].
  apply IH in Hin. lia.
Qed.

Lemma zlen_map : forall {A B} (f : A -> B) (l : list A), zlen (map f l) = zlen l.
Proof. intros A B f l. unfold zlen. rewrite map_length. reflexivity. Qed.

Lemma zlen_cons : forall {A} (x : A) (l : list A), zlen (x :: l) = 1 + zlen l.
Proof. intros A x l. unfold zlen. cbn [length]. lia. Qed.

Lemma countb_split : forall {A} (f : A -> bool) (l : list A),
  zlen l = countb f l + countb (fun x => negb (f x)) l.
Proof.
  intros A f l. unfold countb. induction l as [|x l IH]; [reflexivity|].
  cbn [filter]. destruct (f x); cbn [negb]; rewrite !zlen_cons; lia.
Qed.

(* python's running maximum from 0 against fold_right Z.max 0 *)
Lemma fold_left_max : forall {A} (f : A -> Z) (l : list A) (a : Z),
  0 <= a ->
  fold_left (fun m q => if m <? f q then f q else m) l a = Z.max a (fold_right Z.max 0 (map f l)).
Proof.
  intros A f l. induction l as [|x l IH]; intros a Ha.
  - cbn [fold_left map fold_right]. lia.
  - cbn [fold_left map fold_right].
    destruct (a <? f x) eqn:E.
    + apply Z.ltb_lt in E. rewrite IH by lia. lia.
    + apply Z.ltb_ge in E. rewrite IH by lia. lia.
Qed.

Lemma fold_right_max_nonneg : forall l, 0 <= fold_right Z.max 0 l.
Proof. induction l as [|x l IH]; cbn [fold_right]; lia. Qed.

Lemma fold_left_max0 : forall {A} (f : A -> Z) (l : list A),
  fold_left (fun m q => if m <? f q then f q else m) l 0 = fold_right Z.max 0 (map f l).
Proof.
  intros A f l. rewrite fold_left_max by lia.
  pose proof (fold_right_max_nonneg (map f l)). lia.
Qed.

Lemma set_nth_app : forall {A} (pre : list A) (x v : A) (t : list A),
  set_nth (pre ++ x :: t) (length pre) v = pre ++ v :: t.
Proof.
  intros A pre x v t. induction pre as [|y pre IH]; [reflexivity|].
  cbn [app length set_nth]. rewrite IH. reflexivity.
Qed.

(* ---------- facts from wf and acceptable_rows ---------------------------- *)

Lemma wf_facts : forall M, wf M = true ->
  zlen (pairs M) = nS M /\ rows_ok M 1 (pairs M) = true.
Proof.
  intros M H. unfold wf in H.
  repeat (apply andb_true_iff in H; destruct H as [H ?]).
  split; [apply Z.eqb_eq; assumption | assumption].
Qed.

Lemma row_ok_st : forall M i row q, row_ok M i row = true -> In q row -> st q = i.
Proof.
  intros M i row q H Hin. unfold row_ok in H.
  apply andb_true_iff in H. destruct H as [H _].
  apply andb_true_iff in H. destruct H as [H _].
  rewrite forallb_forall in H. specialize (H q Hin).
  repeat (apply andb_true_iff in H; destruct H as [H ?]).
  apply Z.eqb_eq. assumption.
Qed.

Lemma rows_ok_nth : forall M rows i n row,
  rows_ok M i rows = true -> nth_error rows n = Some row -> row_ok M (i + Z.of_nat n) row = true.
Proof.
  intros M rows. induction rows as [|r rows IH]; intros i n row H Hn.
  - destruct n; discriminate.
  - cbn [rows_ok] in H. apply andb_true_iff in H. destruct H as [Hr Ht].
    destruct n as [|n].
    + cbn [nth_error] in Hn. injection Hn as <-. replace (i + Z.of_nat 0) with i by lia. assumption.
    + cbn [nth_error] in Hn. specialize (IH (i + 1) n row Ht Hn).
      replace (i + Z.of_nat (S n)) with (i + 1 + Z.of_nat n) by lia. assumption.
Qed.

Lemma find_pair_some : forall row p q, find_pair row p = Some q -> In q row /\ pr q = p.
Proof.
  intros row p q H. unfold find_pair in H. apply find_some in H.
  destruct H as [Hin Hp]. split; [assumption | apply Z.eqb_eq; assumption].
Qed.

Lemma existsb_find_pair : forall row p,
  existsb (fun q => pr q =? p) row = true -> exists q, find_pair row p = Some q.
Proof.
  intros row p H. unfold find_pair. destruct (find (fun q => pr q =? p) row) eqn:E.
  - eexists; reflexivity.
  - apply existsb_exists in H. destruct H as [q [Hin Hq]].
    pose proof (find_none _ _ E q Hin) as Hn. cbv beta in Hn. congruence.
Qed.

Lemma acceptable_length : forall rows m, acceptable_rows rows m = true -> length m = length rows.
Proof.
  induction rows as [|row rows IH]; intros m H.
  - destruct m; [reflexivity | discriminate].
  - destruct m as [|p m]; [discriminate|].
    cbn [acceptable_rows] in H. apply andb_true_iff in H. destruct H as [_ H].
    cbn [length]. f_equal. apply IH. assumption.
Qed.

(* ---------- the central lemma: matched = assigned pairs of the students, in order -------- *)

Definition ap_rows (rows : list (list pair)) (m : matching) (n : nat) : option pair :=
  match nth_error rows n, nth_error m n with
  | Some row, Some p => if p =? 0 then None else find_pair row p
  | _, _ => None
  end.

Lemma matched_rows_flat : forall rows m, acceptable_rows rows m = true ->
  matched_rows rows m = flat_map (fun n => olist (ap_rows rows m n)) (seq 0 (length rows)).
Proof.
  induction rows as [|row rows IH]; intros m H.
  - reflexivity.
  - destruct m as [|p m]; [discriminate|].
    cbn [acceptable_rows] in H. apply andb_true_iff in H. destruct H as [_ H].
    cbn [length seq flat_map]. rewrite <- seq_shift, flat_map_map'.
    cbn [matched_rows]. rewrite (IH m H).
    change (ap_rows (row :: rows) (p :: m) 0) with (if p =? 0 then None else find_pair row p).
    change (fun x : nat => olist (ap_rows (row :: rows) (p :: m) (S x)))
      with (fun x : nat => olist (ap_rows rows m x)).
    destruct (if p =? 0 then None else find_pair row p); reflexivity.
Qed.

Lemma assigned_pair_nat : forall M m n, assigned_pair M m (1 + Z.of_nat n) = ap_rows (pairs M) m n.
Proof.
  intros M m n. unfold assigned_pair, ap_rows.
  replace (Z.to_nat (1 + Z.of_nat n - 1)) with n by lia. reflexivity.
Qed.

Lemma matched_flat : forall M m, wf M = true -> acceptable_rows (pairs M) m = true ->
  matched M m = flat_map (fun i => olist (assigned_pair M m i)) (students_of M).
Proof.
  intros M m Hwf Hacc. destruct (wf_facts M Hwf) as [Hlen _].
  unfold matched, students_of. rewrite (matched_rows_flat _ _ Hacc).
  rewrite seqZ_map, flat_map_map'.
  replace (Z.to_nat (nS M)) with (length (pairs M)) by (unfold zlen in Hlen; lia).
  apply flat_map_ext. intro n. rewrite assigned_pair_nat. reflexivity.
Qed.

Lemma assigned_pair_st : forall M m i q, wf M = true -> 1 <= i ->
  assigned_pair M m i = Some q -> st q = i.
Proof.
  intros M m i q Hwf Hi H. destruct (wf_facts M Hwf) as [_ Hrows].
  unfold assigned_pair in H.
  destruct (nth_error (pairs M) (Z.to_nat (i - 1))) as [row|] eqn:Er; [|discriminate].
  destruct (nth_error m (Z.to_nat (i - 1))) as [p|] eqn:Ep; [|discriminate].
  destruct (p =? 0); [discriminate|].
  apply find_pair_some in H. destruct H as [Hin _].
  pose proof (rows_ok_nth M _ 1 _ _ Hrows Er) as Hrow.
  rewrite (row_ok_st M _ row q Hrow Hin). lia.
Qed.

Lemma assigned_pair_pr : forall M m i q, 1 <= i ->
  assigned_pair M m i = Some q -> pr q = nth1 m i 0.
Proof.
  intros M m i q Hi H. unfold assigned_pair in H.
  destruct (nth_error (pairs M) (Z.to_nat (i - 1))) as [row|] eqn:Er; [|discriminate].
  destruct (nth_error m (Z.to_nat (i - 1))) as [p|] eqn:Ep; [|discriminate].
  destruct (p =? 0); [discriminate|].
  apply find_pair_some in H. destruct H as [_ Hp].
  unfold nth1. destruct (i <=? 0) eqn:E; [apply Z.leb_le in E; lia|].
  rewrite (nth_error_nth _ _ 0 Ep). assumption.
Qed.

Lemma students_ge1 : forall M i, In i (students_of M) -> 1 <= i.
Proof. intros M i H. unfold students_of in H. apply seqZ_In in H. lia. Qed.

(* lists of the form flat_map (olist . g) l where the pair of k has st = k *)
Section Flat.
  Variable g : Z -> option pair.

  Lemma find_flat : forall (l : list Z) (i : Z),
    (forall k q, In k l -> g k = Some q -> st q = k) ->
    find (fun q => st q =? i) (flat_map (fun k => olist (g k)) l) = if memZ i l then g i else None.
  Proof.
    induction l as [|k l IH]; intros i Hst; [reflexivity|].
    cbn [flat_map]. unfold memZ. cbn [existsb]. fold (memZ i l).
    assert (Hst' : forall k q, In k l -> g k = Some q -> st q = k)
      by (intros k' q' Hin; apply Hst; right; assumption).
    specialize (IH i Hst').
    destruct (g k) as [q|] eqn:Eg.
    - cbn [olist app find]. rewrite (Hst k q (or_introl eq_refl) Eg).
      destruct (k =? i) eqn:E.
      + apply Z.eqb_eq in E. subst k. rewrite Z.eqb_refl. cbn [orb]. symmetry. assumption.
      + rewrite Z.eqb_sym, E. cbn [orb]. assumption.
    - cbn [olist app]. rewrite IH.
      destruct (i =? k) eqn:E; cbn [orb]; [|reflexivity].
      apply Z.eqb_eq in E. subst k. rewrite Eg. destruct (memZ i l); reflexivity.
  Qed.

  Lemma filter_flat : forall (P : pair -> bool) (l : list Z),
    (forall k q, In k l -> g k = Some q -> st q = k) ->
    map st (filter P (flat_map (fun k => olist (g k)) l)) =
    filter (fun i => match g i with Some q => P q | None => false end) l.
  Proof.
    intros P. induction l as [|k l IH]; intros Hst; [reflexivity|].
    assert (Hst' : forall k q, In k l -> g k = Some q -> st q = k)
      by (intros k' q' Hin; apply Hst; right; assumption).
    specialize (IH Hst').
    cbn [flat_map filter]. destruct (g k) as [q|] eqn:Eg.
    - cbn [olist app filter]. destruct (P q).
      + cbn [map]. rewrite IH, (Hst k q (or_introl eq_refl) Eg). reflexivity.
      + assumption.
    - cbn [olist app]. assumption.
  Qed.
End Flat.

Lemma memZ_In : forall i l, In i l -> memZ i l = true.
Proof.
  intros i l H. unfold memZ. apply existsb_exists. exists i. split; [assumption | apply Z.eqb_refl].
Qed.

Lemma filter_matched : forall M m (P : pair -> bool),
  wf M = true -> acceptable_rows (pairs M) m = true ->
  map st (filter P (matched M m)) =
  filter (fun i => match assigned_pair M m i with Some q => P q | None => false end) (students_of M).
Proof.
  intros M m P Hwf Hacc. rewrite (matched_flat M m Hwf Hacc).
  apply (filter_flat (assigned_pair M m)).
  intros k q Hin Hk. apply (assigned_pair_st M m k q Hwf (students_ge1 M k Hin) Hk).
Qed.

Lemma matched_pr : forall M m q, wf M = true -> acceptable_rows (pairs M) m = true ->
  In q (matched M m) -> pr q = nth1 m (st q) 0.
Proof.
  intros M m q Hwf Hacc Hin. rewrite (matched_flat M m Hwf Hacc) in Hin.
  apply in_flat_map in Hin. destruct Hin as [k [Hk Hq]].
  destruct (assigned_pair M m k) as [q'|] eqn:E; cbn [olist] in Hq; [|destruct Hq].
  destruct Hq as [<-|[]].
  pose proof (students_ge1 M k Hk) as Hk1.
  rewrite (assigned_pair_st M m k q' Hwf Hk1 E).
  apply (assigned_pair_pr M m k q' Hk1 E).
Qed.

(* ---------- field 1: the matching line ----------------------------------- *)

Lemma matching_vec_gen : forall M rows m i pre,
  rows_ok M i rows = true -> acceptable_rows rows m = true -> Z.of_nat (length pre) = i - 1 ->
  fold_left (fun mv q => set_nth mv (Z.to_nat (st q - 1)) (pr q)) (matched_rows rows m)
            (pre ++ repeat 0 (length rows)) = pre ++ m.
Proof.
  intros M rows. induction rows as [|row rows IH]; intros m i pre Hrows Hacc Hpre.
  - destruct m; [reflexivity | discriminate].
  - destruct m as [|p m]; [discriminate|].
    cbn [rows_ok] in Hrows. apply andb_true_iff in Hrows. destruct Hrows as [Hrow Hrows].
    cbn [acceptable_rows] in Hacc. apply andb_true_iff in Hacc. destruct Hacc as [Hp Hacc].
    cbn [matched_rows length repeat].
    destruct (p =? 0) eqn:E0.
    + apply Z.eqb_eq in E0. subst p.
      replace (pre ++ 0 :: repeat 0 (length rows)) with ((pre ++ [0]) ++ repeat 0 (length rows))
        by (rewrite <- app_assoc; reflexivity).
      rewrite (IH m (i + 1) (pre ++ [0]) Hrows Hacc).
      * rewrite <- app_assoc. reflexivity.
      * rewrite app_length. cbn [length]. lia.
    + cbn [orb] in Hp. destruct (existsb_find_pair row p Hp) as [q Hq]. rewrite Hq.
      destruct (find_pair_some row p q Hq) as [Hin Hpr].
      pose proof (row_ok_st M i row q Hrow Hin) as Hst.
      cbn [fold_left]. rewrite Hst, Hpr.
      replace (Z.to_nat (i - 1)) with (length pre) by lia.
      rewrite set_nth_app.
      replace (pre ++ p :: repeat 0 (length rows)) with ((pre ++ [p]) ++ repeat 0 (length rows))
        by (rewrite <- app_assoc; reflexivity).
      rewrite (IH m (i + 1) (pre ++ [p]) Hrows Hacc).
      * rewrite <- app_assoc. reflexivity.
      * rewrite app_length. cbn [length]. lia.
Qed.

Lemma matching_vec_spec : forall M m, wf M = true -> acceptable_rows (pairs M) m = true ->
  matching_vec M (matched M m) = m.
Proof.
  intros M m Hwf Hacc. destruct (wf_facts M Hwf) as [Hlen Hrows].
  unfold matching_vec, matched.
  replace (Z.to_nat (nS M)) with (length (pairs M)) by (unfold zlen in Hlen; lia).
  apply (matching_vec_gen M (pairs M) m 1 [] Hrows Hacc). reflexivity.
Qed.

(* ---------- field 2: size ------------------------------------------------ *)

Lemma r_size_spec : forall M m, wf M = true -> acceptable_rows (pairs M) m = true ->
  r_size M (matched M m) = size m.
Proof.
  intros M m Hwf Hacc. unfold r_size. cbv zeta. rewrite (matching_vec_spec M m Hwf Hacc).
  unfold size. rewrite (countb_split (fun p => p =? 0) m). lia.
Qed.

(* ---------- fields 3, 4: costs ------------------------------------------- *)

Lemma cost_spec : forall M m,
  (sumZ (map rs (matched M m)), sumZ (map rl0 (matched M m))) = (cost_s M m, cost_l M m).
Proof. reflexivity. Qed.

Lemma cost_sq_spec : forall M m,
  (sumZ (map (fun q => rs q * rs q) (matched M m)), sumZ (map (fun q => rl0 q * rl0 q) (matched M m)))
  = (costsq_s M m, costsq_l M m).
Proof. reflexivity. Qed.

(* ---------- field 5: degree ---------------------------------------------- *)

Lemma r_degree_spec : forall M m, r_degree (matched M m) = degree M m.
Proof. intros M m. unfold r_degree, degree. apply fold_left_max0. Qed.

(* ---------- field 6: profile --------------------------------------------- *)

Lemma r_profile_spec : forall M m, r_profile M (matched M m) = profile M m.
Proof. reflexivity. Qed.

(* ---------- fields 7, 8: lecturer target differences --------------------- *)

Lemma r_lec_abs_diffs_spec : forall M m,
  r_lec_abs_diffs M (matched M m) = map (lec_abs_diff M m) (lec_ids M).
Proof.
  intros M m. unfold r_lec_abs_diffs. apply map_ext. intro k. cbv zeta.
  unfold lec_abs_diff, lec_load.
  destruct (nth1 (l_tg M) k 0 - countb (fun q => lec q =? k) (matched M m) <?
            countb (fun q => lec q =? k) (matched M m) - nth1 (l_tg M) k 0) eqn:E.
  - apply Z.ltb_lt in E. lia.
  - apply Z.ltb_ge in E. lia.
Qed.

Lemma r_max_abs_diff_spec : forall M m, r_max_abs_diff M (matched M m) = max_abs_diff M m.
Proof.
  intros M m. unfold r_max_abs_diff, max_abs_diff. rewrite r_lec_abs_diffs_spec.
  rewrite (fold_left_max0 (fun d : Z => d)). rewrite map_id. reflexivity.
Qed.

Lemma r_sum_abs_diff_spec : forall M m, r_sum_abs_diff M (matched M m) = sum_abs_diff M m.
Proof.
  intros M m. unfold r_sum_abs_diff, sum_abs_diff. rewrite r_lec_abs_diffs_spec. reflexivity.
Qed.

(* ---------- field 9: student lines --------------------------------------- *)

Lemma find_student : forall M m i, wf M = true -> acceptable_rows (pairs M) m = true ->
  In i (students_of M) ->
  find (fun q => st q =? i) (rev (matched M m)) = assigned_pair M m i.
Proof.
  intros M m i Hwf Hacc Hin. rewrite (matched_flat M m Hwf Hacc).
  rewrite flat_map_olist_rev.
  rewrite (find_flat (assigned_pair M m)).
  - rewrite memZ_In; [reflexivity|]. apply in_rev. rewrite rev_involutive. assumption.
  - intros k q Hk Hq. apply in_rev in Hk.
    apply (assigned_pair_st M m k q Hwf (students_ge1 M k Hk) Hq).
Qed.

Lemma student_lines_spec : forall M m, wf M = true -> acceptable_rows (pairs M) m = true ->
  student_lines M (matched M m) = spec_student_lines M m.
Proof.
  intros M m Hwf Hacc. unfold student_lines, spec_student_lines, students_of.
  f_equal. apply map_ext_in. intros i Hin.
  rewrite (find_student M m i Hwf Hacc Hin).
  destruct (assigned_pair M m i) as [q|] eqn:E; [|reflexivity].
  rewrite (assigned_pair_st M m i q Hwf (students_ge1 M i Hin) E). reflexivity.
Qed.

(* ---------- field 10: project lines -------------------------------------- *)

Lemma project_lines_spec : forall M m, wf M = true -> acceptable_rows (pairs M) m = true ->
  project_lines M (matched M m) = spec_project_lines M m.
Proof.
  intros M m Hwf Hacc. unfold project_lines, spec_project_lines.
  f_equal. apply map_ext. intro j. cbv zeta.
  pose proof (filter_matched M m (fun q => pr q =? j) Hwf Hacc) as H. cbv beta in H.
  rewrite <- H. clear H.
  generalize (filter (fun q => pr q =? j) (matched M m)). intro mine.
  rewrite zlen_map.
  destruct mine as [|q mine]; [reflexivity|].
  rewrite map_map. reflexivity.
Qed.

(* ---------- field 11: lecturer lines ------------------------------------- *)

Lemma lecturer_lines_spec : forall M m, wf M = true -> acceptable_rows (pairs M) m = true ->
  lecturer_lines M (matched M m) = spec_lecturer_lines M m.
Proof.
  intros M m Hwf Hacc. unfold lecturer_lines, spec_lecturer_lines.
  f_equal. apply map_ext. intro k. cbv zeta.
  pose proof (filter_matched M m (fun q => lec q =? k) Hwf Hacc) as H. cbv beta in H.
  rewrite <- H. clear H.
  assert (Hall : forall q, In q (filter (fun q => lec q =? k) (matched M m)) -> pr q = nth1 m (st q) 0).
  { intros q Hq. apply filter_In in Hq. destruct Hq as [Hq _]. apply (matched_pr M m q Hwf Hacc Hq). }
  revert Hall.
  generalize (filter (fun q => lec q =? k) (matched M m)). intros mine Hall.
  rewrite zlen_map.
  destruct mine as [|q mine]; [reflexivity|].
  rewrite map_map.
  erewrite map_ext_in; [reflexivity|].
  intros q' Hq'. cbv beta. rewrite (Hall q' Hq'). reflexivity.
Qed.

(* ---------- assembly ------------------------------------------------------ *)

(* everything the statistics block prints is what the instance and the printed matching line imply *)
Theorem model_values_spec : forall (M : instance) (m : matching),
  wf M = true -> acceptable_rows (pairs M) m = true ->
  model_values M (matched M m) = spec_values M m.
Proof.
  intros M m Hwf Hacc. unfold model_values, spec_values.
  rewrite (matching_vec_spec M m Hwf Hacc), (r_size_spec M m Hwf Hacc),
          (cost_spec M m), (cost_sq_spec M m), (r_degree_spec M m), (r_profile_spec M m),
          (r_max_abs_diff_spec M m), (r_sum_abs_diff_spec M m),
          (student_lines_spec M m Hwf Hacc), (project_lines_spec M m Hwf Hacc),
          (lecturer_lines_spec M m Hwf Hacc).
  reflexivity.
Qed.

Corollary stats_text_spec : forall (M : instance) (m : matching) (long : bool),
  wf M = true -> acceptable_rows (pairs M) m = true ->
  stats_text M (matched M m) long = spec_stats_text M m long.
Proof.
  intros M m long Hwf Hacc. unfold stats_text, spec_stats_text.
  rewrite (model_values_spec M m Hwf Hacc). reflexivity.
Qed.

Print Assumptions model_values_spec.
Print Assumptions stats_text_spec.
