(* From the values the back end returned to the text the user reads: the printed statistics block of an
   Optimal run is the specification block of the matching those values denote (C11 + C01). *)
From MP Require Import Run.Session LP.Oracle Spec.ResultsSpec Proofs.LPSound Proofs.ResultsProofs
                       Proofs.RunProofs Proofs.RunStructure.
From Coq Require Import Lia.
Local Open Scope list_scope.
Open Scope Z_scope.

Lemma concat_map_filter {A} (f : A -> bool) (ll : list (list A)) :
  concat (map (filter f) ll) = filter f (concat ll).
Proof.
  induction ll as [|l ll IH]; [reflexivity|]. cbn [map concat]. rewrite IH.
  clear. induction l as [|a l IHl]; cbn [filter app]; [reflexivity|].
  destruct (f a); cbn [app]; now rewrite IHl.
Qed.

Lemma row_assigned_filter vals row :
  row_assigned vals row = filter (fun q => negb (val_fun vals (X (st q) (pr q)) =? 0)) row.
Proof.
  unfold row_assigned, val_fun, val_of. apply filter_ext. intro q.
  destruct (lookup vals (X (st q) (pr q))); reflexivity.
Qed.

Lemma assigned_rows vals M :
  concat (map (row_assigned vals) (pairs M)) =
  filter (fun q => negb (val_fun vals (X (st q) (pr q)) =? 0)) (all_pairs M).
Proof.
  unfold all_pairs. rewrite <- concat_map_filter. f_equal. apply map_ext. intro row. apply row_assigned_filter.
Qed.

Lemma valid_acceptable pc M m : valid_b pc M m = true -> acceptable_rows (pairs M) m = true.
Proof.
  unfold valid_b. intro H. apply andb_true_iff in H as [H _]. now apply andb_true_iff in H as [H _].
Qed.

(* the statistics block printed for the values [vals] is the specification block of their matching *)
Theorem printed_block_is_spec : forall M pc vals long,
  wf M = true -> binary (val_fun vals) -> all_sat (val_fun vals) (upper_lower pc M) ->
  let m := matching_of M (val_fun vals) in
  stats_text M (concat (map (row_assigned vals) (pairs M))) long = spec_stats_text M m long /\
  valid_b pc M m = true.
Proof.
  intros M pc vals long Hwf Hbin Hsat m.
  assert (Hst : all_sat (val_fun vals) (student_constrs M)).
  { unfold upper_lower in Hsat. now apply all_sat_app_l in Hsat. }
  assert (Hv : valid_b pc M m = true) by (now apply lp_sound).
  split; [|exact Hv].
  rewrite assigned_rows, (assigned_is_matched M (val_fun vals) Hwf Hbin Hst).
  apply stats_text_spec; [exact Hwf|]. now apply valid_acceptable with pc.
Qed.

(* the values reported by an Optimal run are an in-bounds point of the base constraints *)
Lemma final_point : forall M o solve out base,
  milp_ok M solve -> run M o solve = Ok out -> base_constrs M o = Ok base -> out_status out = Optimal ->
  exists objs, in_bounds M objs (val_fun (out_vals out)) /\ all_sat (val_fun (out_vals out)) base.
Proof.
  intros M o solve out base Hok H Hb Hst.
  destruct (run_structure M o solve out base H Hb) as [Hne [Htr [_ Hlast]]].
  destruct (out_trace out) as [|P0 tr] eqn:Etr; [congruence|].
  set (k := length tr).
  assert (HP : exists P, nth_error (P0 :: tr) k = Some P).
  { destruct (nth_error (P0 :: tr) k) eqn:En; [eauto|]. apply nth_error_None in En. simpl in En. unfold k in En. lia. }
  destruct HP as [P HP].
  destruct (Hlast k P HP eq_refl) as [Hs Hv].
  destruct (Htr k P HP) as [extra Hcs].
  destruct (Hok k P) as [Hopt _]. cbn zeta in Hopt.
  rewrite <- Hs, Hst in Hopt. destruct (Hopt eq_refl) as [[Hsat Hbd] _].
  rewrite <- Hv in Hsat, Hbd.
  exists (pb_objs P). split; [exact Hbd|]. rewrite Hcs in Hsat. now apply all_sat_app_l in Hsat.
Qed.

(* whole run: what get_results prints after '# matching statistics' for an Optimal run is the specification block
   (Spec/ResultsSpec.v) of a valid matching of the instance, for any correct back end *)
Theorem run_printed_block : forall M o solve out long,
  wf M = true -> milp_ok M solve -> run M o solve = Ok out -> out_status out = Optimal ->
  let m := matching_of M (val_fun (out_vals out)) in
  stats_text M (concat (map (row_assigned (out_vals out)) (pairs M))) long = spec_stats_text M m long /\
  valid_b (o_pc o) M m = true.
Proof.
  intros M o solve out long Hwf Hok H Hst.
  destruct (base_constrs M o) as [base|e] eqn:Hb.
  2:{ unfold run in H. rewrite Hb in H. discriminate. }
  destruct (final_point M o solve out base Hok H Hb Hst) as [objs [Hbd Hsat]].
  destruct (base_has_upper_lower M o base Hb) as [rest ->].
  apply printed_block_is_spec; [exact Hwf|exact (in_bounds_binary M objs _ Hbd)|now apply all_sat_app_l in Hsat].
Qed.
