(* C12 for SPA: composition of the students' lecturer lists with the inversion. *)
From MP Require Import Gen.Quotas Proofs.GenProofs.
From Coq Require Import Lia.
Local Open Scope list_scope.
Open Scope Z_scope.

Lemma mapM_nth {A B} (f : A -> result B) : forall l out,
  mapM f l = Ok out ->
  length out = length l /\
  forall i a, nth_error l i = Some a -> exists b, nth_error out i = Some b /\ f a = Ok b.
Proof.
  induction l as [|x l IH]; intros out H.
  - simpl in H. injection H as <-. split; [reflexivity|]. intros i a Hi. destruct i; discriminate.
  - cbn [mapM] in H. destruct (f x) as [y|e] eqn:E; cbn [bind] in H; [|discriminate].
    destruct (mapM f l) as [ys|e] eqn:El; cbn [bind] in H; [|discriminate].
    injection H as <-. destruct (IH ys eq_refl) as [Hlen Hnth]. split; [simpl; now rewrite Hlen|].
    intros i a Hi. destruct i as [|i].
    + simpl in Hi. injection Hi as <-. exists y. split; [reflexivity|exact E].
    + simpl in Hi. simpl. now apply Hnth.
Qed.

Lemma memZ_In : forall x l, memZ x l = true <-> In x l.
Proof.
  intros x l. unfold memZ. rewrite existsb_exists. split.
  - intros [y [Hy E]]. apply Z.eqb_eq in E. now subst.
  - intro H. exists x. split; [exact H|apply Z.eqb_refl].
Qed.

Definition offers (plec : list Z) (k p : Z) : bool :=
  match py_nth plec (p - 1) with Ok c => c =? k | Crash _ => false end.

(* lecturer k lists student i exactly once iff i lists at least one project that k offers; nobody else appears *)
Theorem spa_second_side_spec : forall prefs plec n3 sl inv,
  0 <= n3 ->
  create_student_lec_lists prefs plec n3 = Ok sl -> invert sl n3 = Ok inv ->
  length inv = Z.to_nat n3 /\
  forall k i, 1 <= k <= n3 ->
    count_occZ (nth (Z.to_nat (k - 1)) inv []) i =
    if (1 <=? i) && (i <=? zlen prefs) && existsb (offers plec k) (nth (Z.to_nat (i - 1)) prefs []) then 1 else 0.
Proof.
  intros prefs plec n3 sl inv Hn3 Hsl Hinv.
  unfold create_student_lec_lists in Hsl.
  destruct (mapM_nth _ _ _ Hsl) as [Hlen Hnth].
  assert (Hnd : forall l, In l sl -> nodupZ l = true).
  { intros l Hl. apply In_nth_error in Hl as [idx Hidx].
    assert (Hlt : (idx < length prefs)%nat) by (rewrite <- Hlen; apply nth_error_Some; congruence).
    destruct (nth_error prefs idx) as [a|] eqn:Ea; [|apply nth_error_None in Ea; lia].
    destruct (Hnth idx a Ea) as [b [Hb Hf]]. rewrite Hidx in Hb. injection Hb as <-.
    now destruct (student_lec_list_spec _ _ _ _ Hf). }
  destruct (invert_spec sl n3 inv Hn3 Hnd Hinv) as [HL Hcount]. split; [exact HL|].
  intros k i Hk. rewrite (Hcount k i Hk).
  assert (Hz : zlen sl = zlen prefs) by (unfold zlen; now rewrite Hlen).
  rewrite Hz.
  destruct ((1 <=? i) && (i <=? zlen prefs)) eqn:Hr; [|reflexivity].
  cbn [andb].
  apply andb_true_iff in Hr as [H1 H2]. apply Z.leb_le in H1, H2.
  set (idx := Z.to_nat (i - 1)).
  assert (Hidx : (idx < length prefs)%nat) by (unfold idx, zlen in *; lia).
  destruct (nth_error prefs idx) as [a|] eqn:Ea; [|apply nth_error_None in Ea; lia].
  destruct (Hnth idx a Ea) as [b [Hb Hf]].
  rewrite (nth_error_nth _ _ _ Hb), (nth_error_nth _ _ _ Ea).
  destruct (student_lec_list_spec _ _ _ _ Hf) as [_ Hin].
  destruct (memZ k b) eqn:Em; destruct (existsb (offers plec k) a) eqn:Ee; try reflexivity; exfalso.
  - apply memZ_In in Em. apply Hin in Em as [_ [p [Hp Hpy]]].
    assert (existsb (offers plec k) a = true).
    { apply existsb_exists. exists p. split; [exact Hp|]. unfold offers. rewrite Hpy. apply Z.eqb_refl. }
    congruence.
  - apply existsb_exists in Ee as [p [Hp Ho]]. unfold offers in Ho.
    destruct (py_nth plec (p - 1)) as [c|] eqn:Ec; [|discriminate]. apply Z.eqb_eq in Ho. subst c.
    assert (In k b). { apply Hin. split; [exact Hk|]. exists p. split; assumption. }
    apply memZ_In in H. congruence.
Qed.
