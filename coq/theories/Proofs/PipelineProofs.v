(* C09: every file the generator writes is read back by the solver's importer as a well-formed instance
   with the requested parameters. *)
From MP Require Import Gen.Files Text.Render Proofs.TiesProofs Proofs.GenProofs Proofs.ImportProofs.
From Coq Require Import Lia Permutation.
Local Open Scope list_scope. Open Scope Z_scope.

Definition na_of (a : gargs) : Z := if g_mp a =? 4 then 3 else 2.

(* accepted arguments (after defaults): what Instance_options_parser lets through *)
Definition gargs_ok (a : gargs) : Prop :=
  1 <= g_n1 a /\ 1 <= g_n2 a /\ (g_mp a = 4 -> 1 <= g_n3 a) /\
  1 <= g_pmin a <= g_pmax a /\ g_pmax a <= g_n2 a /\
  0 <= g_lq a <= g_uq a /\ g_n2 a <= g_uq a /\
  (g_mp a = 4 -> 0 <= g_llq a <= g_lt a /\ g_lt a <= g_luq a /\ 1 <= g_luq a) /\
  (g_mp a = 1 \/ g_mp a = 2 \/ g_mp a = 3 \/ g_mp a = 4).

(* the draws of one instance honour the RNG contract *)
Definition draws_contract (a : gargs) (d : draws) : Prop :=
  length (d_first d) = Z.to_nat (g_n1 a) /\ length (d_ties1 d) = Z.to_nat (g_n1 a) /\
  (forall i l t, nth_error (d_first d) i = Some l -> nth_error (d_ties1 d) i = Some t ->
      length t = length l /\ nodupZ l = true /\ g_pmin a <= zlen l <= g_pmax a /\
      forall x, In x l -> 1 <= x <= g_n2 a) /\
  (if g_twopl a
   then exists inv, second_side_unshuffled a d = Ok inv /\
          length (d_second d) = length inv /\ length (d_ties2 d) = length inv /\
          (forall k l0 l t, nth_error inv k = Some l0 -> nth_error (d_second d) k = Some l ->
               nth_error (d_ties2 d) k = Some t -> Permutation l0 l /\ length t = length l)
   else d_second d = [] /\ d_ties2 d = []).

(* ====================================================================== *)
(* A. lines that differ only in blanks are read alike                      *)
(* ====================================================================== *)

Notation SP := (" "%string).
Definition no_nl (l : string) : Prop := contains_char nl l = false.
Definition tokeq (x y : string) : Prop := line_tokens x = line_tokens y.

Lemma step_tokeq : forall na tw i x y a, i <> 0 -> tokeq x y -> step na tw i x a = step na tw i y a.
Proof.
  intros na tw i x y a Hi H. unfold tokeq in H. unfold step. cbv zeta.
  rewrite (eqb_false i 0) by assumption. rewrite H. reflexivity.
Qed.

Lemma run_lines_tokeq : forall na tw ls1 ls2, Forall2 tokeq ls1 ls2 ->
  forall i a, 1 <= i -> run_lines na tw i ls1 a = run_lines na tw i ls2 a.
Proof.
  intros na tw ls1 ls2 H. induction H as [|x y l1 l2 Hxy Hl IH]; intros i a Hi; [reflexivity|].
  cbn [run_lines]. rewrite (step_tokeq na tw i x y a) by (assumption || lia).
  destruct (step na tw i y a) as [a'|e]; [|reflexivity]. cbn [bind]. apply IH. lia.
Qed.

Lemma import_lines_tokeq : forall na tw h ls1 ls2, Forall2 tokeq ls1 ls2 ->
  import_lines (h :: ls1) na tw = import_lines (h :: ls2) na tw.
Proof.
  intros na tw h ls1 ls2 H. unfold import_lines. cbn [run_lines].
  destruct (step na tw 0 h acc0) as [a'|e]; [|reflexivity]. cbn [bind].
  rewrite (run_lines_tokeq na tw ls1 ls2 H) by lia. reflexivity.
Qed.

Lemma Forall2_refl {X} (R : X -> X -> Prop) : (forall x, R x x) -> forall l, Forall2 R l l.
Proof. intros H l. induction l; constructor; auto. Qed.

Lemma lines_aux_no_nl : forall s cur, no_nl cur -> Forall no_nl (lines_aux s cur).
Proof.
  induction s as [|c s IH]; intros cur H.
  - cbn [lines_aux]. destruct cur; [constructor|]. constructor; [assumption|constructor].
  - cbn [lines_aux]. destruct (Ascii.eqb c nl) eqn:E.
    + constructor; [assumption|]. apply IH. reflexivity.
    + apply IH. unfold no_nl. rewrite contains_char_app. unfold no_nl in H. rewrite H.
      cbn [contains_char orb]. rewrite E. reflexivity.
Qed.

Lemma import_lines_ast : forall na tw A TR, wf_ast na tw A = true -> Forall no_nl TR ->
  import_lines (map (join SP) (ast_lines na A) ++ TR) na tw = Ok (denote na tw A).
Proof.
  intros na tw A TR W HT. pose proof (import_render na tw A TR W) as H.
  unfold import_model, render in H. rewrite lines_render in H; [exact H|].
  apply Forall_app_intro; [apply ast_lines_no_nl|exact HT].
Qed.

(* ====================================================================== *)
(* B. the generator's lines                                                *)
(* ====================================================================== *)

Lemma split_ws_aux_trailing : forall s cur, split_ws_aux (s +++ SP) cur = split_ws_aux s cur.
Proof.
  induction s as [|c s IH]; intros cur.
  - cbn [String.append split_ws_aux]. change (is_ws " "%char) with true. cbv iota.
    destruct cur; reflexivity.
  - cbn [String.append split_ws_aux]. destruct (is_ws c); [destruct cur|]; now rewrite IH.
Qed.

Lemma line_tokens_trailing : forall s, line_tokens (s +++ SP) = line_tokens s.
Proof.
  intro s. unfold line_tokens. rewrite remove_char_app.
  change (remove_char colon SP) with SP. apply split_ws_aux_trailing.
Qed.

Lemma join_app_sp : forall xs ys, xs <> [] -> ys <> [] ->
  join SP (xs ++ ys) = join SP xs +++ SP +++ join SP ys.
Proof.
  induction xs as [|x xs IH]; intros ys Hx Hy; [now elim Hx|].
  destruct xs as [|x2 t].
  - destruct ys as [|y ys]; [now elim Hy|]. reflexivity.
  - change ((x :: x2 :: t) ++ ys) with (x :: x2 :: (t ++ ys)). rewrite !join_cons2.
    change (x2 :: t ++ ys) with ((x2 :: t) ++ ys). rewrite IH by (assumption || discriminate).
    now rewrite !append_assoc.
Qed.

Lemma labelled_line : forall labs toks, labs <> [] -> Forall good labs -> Forall good toks ->
  tokeq (join SP labs +++ SP +++ join SP toks) (join SP (labs ++ toks)) /\
  no_nl (join SP labs +++ SP +++ join SP toks).
Proof.
  intros labs toks Hne Hl Ht. destruct toks as [|y toks].
  - cbn [join]. rewrite app_nil_r. change (SP +++ ""%string) with SP. split.
    + unfold tokeq. apply line_tokens_trailing.
    + unfold no_nl. rewrite contains_char_app. rewrite (join_no_nl labs Hl). reflexivity.
  - rewrite <- join_app_sp by (assumption || discriminate). split; [reflexivity|].
    apply join_no_nl. now apply Forall_app_intro.
Qed.

(* the tokens written for a list are the tokens of its maximal tie runs *)
Definition tie_tail (f : list Z) : list tok := map TPlain (removelast f) ++ [TClose (last f 0)].

Lemma tie_tail_cons : forall x f, f <> [] -> tie_tail (x :: f) = TPlain x :: tie_tail f.
Proof. intros x [|y f] H; [now elim H|reflexivity]. Qed.

Lemma group_toks_cons : forall x f, f <> [] -> group_toks (x :: f) = TOpen x :: tie_tail f.
Proof. intros x [|y f] H; [now elim H|reflexivity]. Qed.

Lemma write_from_toks : forall l ties b ts,
  write_from b l ties = Ok ts ->
  if b then l <> [] -> exists f rest, runs l ties = f :: rest /\ f <> [] /\
                                      ts = tie_tail f ++ flat_map group_toks rest
  else ts = flat_map group_toks (runs l ties).
Proof.
  induction l as [|x l IH]; intros ties b ts H.
  - destruct b; [intro Hne; now elim Hne|]. cbn [write_from] in H. injection H as <-. reflexivity.
  - destruct ties as [|t ties]; [discriminate|].
    destruct l as [|y l'].
    + rewrite write_from_last in H. injection H as <-. destruct b.
      * intros _. exists [x], []. destruct t; (split; [reflexivity|split; [discriminate|reflexivity]]).
      * destruct t; reflexivity.
    + rewrite write_from_more in H. rewrite runs_more.
      assert (Hne' : y :: l' <> []) by discriminate.
      destruct b, t; cbn [negb andb] in H.
      * destruct (write_from true (y :: l') ties) as [ts'|] eqn:E; [|discriminate].
        cbn [bind] in H. injection H as <-. intros _.
        destruct (IH ties true ts' E Hne') as (f & rest & Er & Hf & ->). rewrite Er.
        exists (x :: f), rest. split; [reflexivity|]. split; [discriminate|].
        now rewrite tie_tail_cons by assumption.
      * destruct (write_from false (y :: l') ties) as [ts'|] eqn:E; [|discriminate].
        cbn [bind] in H. injection H as <-. intros _.
        pose proof (IH ties false ts' E) as ->.
        exists [x], (runs (y :: l') ties). split; [reflexivity|]. split; [discriminate|reflexivity].
      * destruct (write_from true (y :: l') ties) as [ts'|] eqn:E; [|discriminate].
        cbn [bind] in H. injection H as <-.
        destruct (IH ties true ts' E Hne') as (f & rest & Er & Hf & ->). rewrite Er.
        cbn [flat_map]. rewrite group_toks_cons by assumption. reflexivity.
      * destruct (write_from false (y :: l') ties) as [ts'|] eqn:E; [|discriminate].
        cbn [bind] in H. injection H as <-.
        pose proof (IH ties false ts' E) as ->. reflexivity.
Qed.

Lemma pref_string_runs : forall l t p, pref_string l t = Ok p -> p = join SP (plist_tokens (runs l t)).
Proof.
  intros l t p H. unfold pref_string, write_strings, write in H.
  destruct (write_from false l t) as [ts|] eqn:E; [|discriminate]. cbn [bind] in H. injection H as <-.
  rewrite plist_tokens_render. now rewrite (write_from_toks l t false ts E).
Qed.

Lemma pref_string_total : forall l t, length t = length l -> exists p, pref_string l t = Ok p.
Proof.
  intros l t H. destruct (write_from_ok l t false H) as [ts [E _]].
  unfold pref_string, write_strings, write. rewrite E. cbn [bind]. eexists. reflexivity.
Qed.

(* ---- sections of the generated text ------------------------------------ *)

Definition zipruns (ls : list (list Z)) (ts : list (list bool)) : list plist :=
  map (fun lt => runs (fst lt) (snd lt)) (combine ls ts).

(* [s] is a block of newline-terminated lines whose tokens are those of the token lines [toks] *)
Definition gen_ok (s : string) (toks : list (list string)) : Prop :=
  exists L, s = concat_str (map addnl L) /\ Forall no_nl L /\ Forall2 tokeq L (map (join SP) toks).

Lemma gen_ok_nil : gen_ok ""%string [].
Proof. exists []. split; [reflexivity|]. split; constructor. Qed.

Lemma gen_ok_cons : forall line rest tk tks s,
  tokeq line (join SP tk) /\ no_nl line -> gen_ok rest tks -> s = line +++ NLs +++ rest -> gen_ok s (tk :: tks).
Proof.
  intros line rest tk tks s [H1 H2] (L & -> & HL & HT) ->. exists (line :: L). split; [|split].
  - cbn [map concat_str fold_right]. fold (concat_str (map addnl L)).
    change (addnl line) with (line +++ NLs). now rewrite append_assoc.
  - now constructor.
  - cbn [map]. now constructor.
Qed.

Lemma gen_ok_app : forall s1 t1 s2 t2, gen_ok s1 t1 -> gen_ok s2 t2 -> gen_ok (s1 +++ s2) (t1 ++ t2).
Proof.
  intros s1 t1 s2 t2 (L1 & -> & N1 & T1) (L2 & -> & N2 & T2). exists (L1 ++ L2). split; [|split].
  - now rewrite map_app, concat_str_app.
  - now apply Forall_app_intro.
  - rewrite map_app. now apply Forall2_app.
Qed.

Lemma student_line : forall i l,
  tokeq (sZ i +++ ": " +++ join SP (plist_tokens l)) (join SP (student_toks i l)) /\
  no_nl (sZ i +++ ": " +++ join SP (plist_tokens l)).
Proof.
  intros i l.
  replace (sZ i +++ ": " +++ join SP (plist_tokens l))
    with (join SP [label i] +++ SP +++ join SP (plist_tokens l))
    by (cbn [join]; unfold label, sZ; rewrite append_assoc; reflexivity).
  apply (labelled_line [label i] (plist_tokens l)); [discriminate| |apply plist_tokens_good].
  constructor; [apply label_good|constructor].
Qed.

Lemma hospital_line : forall i a b x l,
  tokeq (sZ i +++ ": " +++ sZ a +++ ": " +++ sZ b +++ ": " +++ join SP (plist_tokens l))
        (join SP (hospital_toks i (a, b, x, l))) /\
  no_nl (sZ i +++ ": " +++ sZ a +++ ": " +++ sZ b +++ ": " +++ join SP (plist_tokens l)).
Proof.
  intros i a b x l.
  replace (sZ i +++ ": " +++ sZ a +++ ": " +++ sZ b +++ ": " +++ join SP (plist_tokens l))
    with (join SP [label i; label a; label b] +++ SP +++ join SP (plist_tokens l))
    by (cbn [join]; unfold label, sZ; rewrite !append_assoc; reflexivity).
  apply (labelled_line [label i; label a; label b] (plist_tokens l)); [discriminate| |apply plist_tokens_good].
  repeat (constructor; [apply label_good|]). constructor.
Qed.

Lemma lecturer_line : forall i a b c l,
  tokeq (sZ i +++ ": " +++ sZ a +++ ": " +++ sZ b +++ ": " +++ sZ c +++ ": " +++ join SP (plist_tokens l))
        (join SP (lecturer_toks i (a, b, c, l))) /\
  no_nl (sZ i +++ ": " +++ sZ a +++ ": " +++ sZ b +++ ": " +++ sZ c +++ ": " +++ join SP (plist_tokens l)).
Proof.
  intros i a b c l.
  replace (sZ i +++ ": " +++ sZ a +++ ": " +++ sZ b +++ ": " +++ sZ c +++ ": " +++ join SP (plist_tokens l))
    with (join SP [label i; label a; label b; label c] +++ SP +++ join SP (plist_tokens l))
    by (cbn [join]; unfold label, sZ; rewrite !append_assoc; reflexivity).
  apply (labelled_line [label i; label a; label b; label c] (plist_tokens l));
    [discriminate| |apply plist_tokens_good].
  repeat (constructor; [apply label_good|]). constructor.
Qed.

Lemma project_line : forall i a b c,
  tokeq (sZ i +++ ": " +++ sZ a +++ ": " +++ sZ b +++ ": " +++ sZ c) (join SP (project_toks i (a, b, c))) /\
  no_nl (sZ i +++ ": " +++ sZ a +++ ": " +++ sZ b +++ ": " +++ sZ c).
Proof.
  intros i a b c.
  replace (sZ i +++ ": " +++ sZ a +++ ": " +++ sZ b +++ ": " +++ sZ c)
    with (join SP (project_toks i (a, b, c)))
    by (unfold project_toks; cbn [join fst snd]; unfold label, sZ; rewrite !append_assoc; reflexivity).
  split; [reflexivity|]. apply join_no_nl. unfold project_toks.
  repeat (constructor; [apply label_good|]). constructor; [apply str_of_Z_good|constructor].
Qed.

Lemma first_lines_gen : forall n i ls ts s, length ls = n -> length ts = n ->
  first_lines i ls ts n = Ok s -> gen_ok s (numbered student_toks i (zipruns ls ts)).
Proof.
  induction n as [|n IH]; intros i ls ts s Hl Ht H.
  - destruct ls; [|discriminate]. cbn [first_lines] in H. injection H as <-. apply gen_ok_nil.
  - destruct ls as [|l ls]; [discriminate|]. destruct ts as [|t ts]; [discriminate|].
    cbn [length] in Hl, Ht. injection Hl as Hl. injection Ht as Ht.
    cbn [first_lines] in H. destruct (pref_string l t) as [p|] eqn:Ep; [|discriminate]. cbn [bind] in H.
    destruct (first_lines (i + 1) ls ts n) as [rest|] eqn:Er; [|discriminate]. cbn [bind] in H.
    injection H as <-. apply pref_string_runs in Ep. subst p.
    unfold zipruns. cbn [combine map fst snd numbered]. fold (zipruns ls ts).
    eapply gen_ok_cons; [apply student_line|exact (IH _ _ _ _ Hl Ht Er)|].
    now rewrite !append_assoc.
Qed.

Lemma hosp_lines_gen2 : forall n i ls ts lq uq xs s,
  length ls = n -> length ts = n -> length lq = n -> length uq = n -> length xs = n ->
  hosp_lines i true ls ts lq uq n = Ok s ->
  gen_ok s (numbered hospital_toks i (combine (combine (combine lq uq) xs) (zipruns ls ts))).
Proof.
  induction n as [|n IH]; intros i ls ts lq uq xs s Hl Ht Hq Hu Hx H.
  - destruct ls; [|discriminate]. destruct lq; [|discriminate].
    cbn [hosp_lines] in H. injection H as <-. apply gen_ok_nil.
  - destruct ls as [|l ls]; [discriminate|]. destruct ts as [|t ts]; [discriminate|].
    destruct lq as [|a lq]; [discriminate|]. destruct uq as [|b uq]; [discriminate|].
    destruct xs as [|x xs]; [discriminate|].
    cbn [length] in Hl, Ht, Hq, Hu, Hx. injection Hl as Hl. injection Ht as Ht.
    injection Hq as Hq. injection Hu as Hu. injection Hx as Hx.
    cbn [hosp_lines tl] in H. destruct (pref_string l t) as [p|] eqn:Ep; [|discriminate]. cbn [bind] in H.
    destruct (hosp_lines (i + 1) true ls ts lq uq n) as [rest|] eqn:Er; [|discriminate]. cbn [bind] in H.
    injection H as <-. apply pref_string_runs in Ep. subst p.
    unfold zipruns. cbn [combine map fst snd numbered]. fold (zipruns ls ts).
    eapply gen_ok_cons; [apply (hospital_line i a b x)|exact (IH _ _ _ _ _ xs _ Hl Ht Hq Hu Hx Er)|].
    now rewrite !append_assoc.
Qed.

Lemma hosp_lines_gen1 : forall n i ls ts lq uq xs s,
  length lq = n -> length uq = n -> length xs = n ->
  hosp_lines i false ls ts lq uq n = Ok s ->
  gen_ok s (numbered hospital_toks i (combine (combine (combine lq uq) xs) (repeat [] n))).
Proof.
  induction n as [|n IH]; intros i ls ts lq uq xs s Hq Hu Hx H.
  - destruct lq; [|discriminate]. cbn [hosp_lines] in H. injection H as <-. apply gen_ok_nil.
  - destruct lq as [|a lq]; [discriminate|]. destruct uq as [|b uq]; [discriminate|].
    destruct xs as [|x xs]; [discriminate|].
    cbn [length] in Hq, Hu, Hx. injection Hq as Hq. injection Hu as Hu. injection Hx as Hx.
    cbn [hosp_lines bind] in H.
    destruct (hosp_lines (i + 1) false (tl ls) (tl ts) lq uq n) as [rest|] eqn:Er; [|discriminate].
    cbn [bind] in H. injection H as <-.
    cbn [combine repeat numbered].
    eapply gen_ok_cons; [apply (hospital_line i a b x [])|exact (IH _ _ _ _ _ xs _ Hq Hu Hx Er)|].
    cbn [plist_tokens flat_map join]. now rewrite !append_assoc.
Qed.

Lemma proj_lines_gen : forall n i lq uq plec s,
  length lq = n -> length uq = n -> length plec = n ->
  proj_lines i lq uq plec n = Ok s ->
  gen_ok s (numbered project_toks i (combine (combine lq uq) plec)).
Proof.
  induction n as [|n IH]; intros i lq uq plec s Hq Hu Hx H.
  - destruct lq; [|discriminate]. cbn [proj_lines] in H. injection H as <-. apply gen_ok_nil.
  - destruct lq as [|a lq]; [discriminate|]. destruct uq as [|b uq]; [discriminate|].
    destruct plec as [|x xs]; [discriminate|].
    cbn [length] in Hq, Hu, Hx. injection Hq as Hq. injection Hu as Hu. injection Hx as Hx.
    cbn [proj_lines] in H.
    destruct (proj_lines (i + 1) lq uq xs n) as [rest|] eqn:Er; [|discriminate].
    cbn [bind] in H. injection H as <-.
    cbn [combine numbered].
    eapply gen_ok_cons; [apply (project_line i a b x)|exact (IH _ _ _ _ _ Hq Hu Hx Er)|].
    now rewrite !append_assoc.
Qed.

Lemma lec_lines_gen2 : forall n i ls ts lq tg uq s,
  length ls = n -> length ts = n -> length lq = n -> length tg = n -> length uq = n ->
  lec_lines i true ls ts lq tg uq n = Ok s ->
  gen_ok s (numbered lecturer_toks i (combine (combine (combine lq tg) uq) (zipruns ls ts))).
Proof.
  induction n as [|n IH]; intros i ls ts lq tg uq s Hl Ht Hq Hg Hu H.
  - destruct ls; [|discriminate]. destruct lq; [|discriminate].
    cbn [lec_lines] in H. injection H as <-. apply gen_ok_nil.
  - destruct ls as [|l ls]; [discriminate|]. destruct ts as [|t ts]; [discriminate|].
    destruct lq as [|a lq]; [discriminate|]. destruct tg as [|b tg]; [discriminate|].
    destruct uq as [|c uq]; [discriminate|].
    cbn [length] in Hl, Ht, Hq, Hu, Hg. injection Hl as Hl. injection Ht as Ht.
    injection Hq as Hq. injection Hu as Hu. injection Hg as Hg.
    cbn [lec_lines tl] in H. destruct (pref_string l t) as [p|] eqn:Ep; [|discriminate]. cbn [bind] in H.
    destruct (lec_lines (i + 1) true ls ts lq tg uq n) as [rest|] eqn:Er; [|discriminate]. cbn [bind] in H.
    injection H as <-. apply pref_string_runs in Ep. subst p.
    unfold zipruns. cbn [combine map fst snd numbered]. fold (zipruns ls ts).
    eapply gen_ok_cons; [apply (lecturer_line i a b c)|exact (IH _ _ _ _ _ _ _ Hl Ht Hq Hg Hu Er)|].
    now rewrite !append_assoc.
Qed.

Lemma lec_lines_gen1 : forall n i ls ts lq tg uq s,
  length lq = n -> length tg = n -> length uq = n ->
  lec_lines i false ls ts lq tg uq n = Ok s ->
  gen_ok s (numbered lecturer_toks i (combine (combine (combine lq tg) uq) (repeat [] n))).
Proof.
  induction n as [|n IH]; intros i ls ts lq tg uq s Hq Hg Hu H.
  - destruct lq; [|discriminate]. cbn [lec_lines] in H. injection H as <-. apply gen_ok_nil.
  - destruct lq as [|a lq]; [discriminate|]. destruct tg as [|b tg]; [discriminate|].
    destruct uq as [|c uq]; [discriminate|].
    cbn [length] in Hq, Hu, Hg. injection Hq as Hq. injection Hu as Hu. injection Hg as Hg.
    cbn [lec_lines bind] in H.
    destruct (lec_lines (i + 1) false (tl ls) (tl ts) lq tg uq n) as [rest|] eqn:Er; [|discriminate].
    cbn [bind] in H. injection H as <-.
    cbn [combine repeat numbered].
    eapply gen_ok_cons; [apply (lecturer_line i a b c [])|exact (IH _ _ _ _ _ _ _ Hq Hg Hu Er)|].
    cbn [plist_tokens flat_map join]. now rewrite !append_assoc.
Qed.

(* a text made of a header line, a block read like the remaining token lines of [A], and anything else *)
Lemma text_import : forall na tw A h T body rest,
  wf_ast na tw A = true -> ast_lines na A = h :: T -> gen_ok body T ->
  import_model (join SP h +++ NLs +++ body +++ rest) na tw = Ok (denote na tw A).
Proof.
  intros na tw A h T body rest W EA (L & -> & NL & TL).
  pose proof (ast_lines_no_nl na A) as NA. rewrite EA in NA. cbn [map] in NA.
  inversion NA as [|? ? Nh _]; subst.
  unfold import_model.
  assert (E : lines (join SP h +++ NLs +++ concat_str (map addnl L) +++ rest) =
              (join SP h :: L) ++ lines_aux rest EmptyString).
  { unfold lines. rewrite <- lines_aux_render by (constructor; assumption).
    f_equal. cbn [map concat_str fold_right]. fold (concat_str (map addnl L)).
    change (addnl (join SP h)) with (join SP h +++ NLs). now rewrite !append_assoc. }
  rewrite E. cbn [app].
  rewrite (import_lines_tokeq na tw (join SP h) (L ++ lines_aux rest EmptyString)
             (map (join SP) T ++ lines_aux rest EmptyString)).
  - change (join SP h :: map (join SP) T ++ lines_aux rest EmptyString)
      with (map (join SP) (h :: T) ++ lines_aux rest EmptyString).
    rewrite <- EA. apply import_lines_ast; [assumption|]. apply lines_aux_no_nl. reflexivity.
  - apply Forall2_app; [assumption|]. apply Forall2_refl. reflexivity.
Qed.

(* ====================================================================== *)
(* C. the instance denoted by a well-formed file is well-formed            *)
(* ====================================================================== *)

Lemma map_fst_ranked_from : forall l r, map fst (ranked_from r l) = concat l.
Proof.
  induction l as [|g l IH]; intros r; [reflexivity|].
  cbn [ranked_from concat]. rewrite map_app, map_map, IH. cbn [fst]. now rewrite map_id.
Qed.

Lemma ranked_from_bounds : forall l r0 x r, In (x, r) (ranked_from r0 l) -> r0 <= r < r0 + zlen l.
Proof.
  induction l as [|g l IH]; intros r0 x r H; [destruct H|].
  cbn [ranked_from] in H. rewrite zlen_cons. pose proof (zlen_nonneg l).
  apply in_app_or in H as [H|H].
  - apply in_map_iff in H as [y [E _]]. injection E as _ <-. lia.
  - apply IH in H. lia.
Qed.

Lemma plist_ok_length : forall l, plist_ok l -> (length l <= length (concat l))%nat.
Proof.
  induction l as [|g l IH]; intros H; [cbn; lia|].
  inversion H as [|? ? Hg Hl]; subst. cbn [concat length]. rewrite app_length.
  specialize (IH Hl). destruct g; [now elim Hg|cbn [length]; lia].
Qed.

Lemma dense_from_same : forall g r rest,
  dense_from r (map snd (map (fun x : Z => (x, r)) g) ++ rest) = dense_from r rest.
Proof.
  induction g as [|x g IH]; intros r rest; [reflexivity|].
  cbn [map snd app dense_from]. rewrite Z.eqb_refl. cbn [orb andb]. apply IH.
Qed.

Lemma dense_from_ranked : forall l r r0, plist_ok l -> (r = r0 \/ r = r0 + 1) ->
  dense_from r0 (map snd (ranked_from r l)) = true.
Proof.
  induction l as [|g l IH]; intros r r0 H Hr; [reflexivity|].
  inversion H as [|? ? Hg Hl]; subst. destruct g as [|x g]; [now elim Hg|].
  cbn [ranked_from map app snd]. rewrite map_app. cbn [dense_from].
  assert (E : (r =? r0) || (r =? r0 + 1) = true).
  { apply orb_true_iff. destruct Hr; [left|right]; now apply Z.eqb_eq. }
  rewrite E. cbn [andb]. rewrite dense_from_same. apply IH; [assumption|right; reflexivity].
Qed.

Lemma dense_ranks_ranked : forall l, plist_ok l -> dense_ranks (map snd (ranked l)) = true.
Proof.
  intros l H. unfold ranked. destruct l as [|g l]; [reflexivity|].
  inversion H as [|? ? Hg Hl]; subst. destruct g as [|x g]; [now elim Hg|].
  cbn [ranked_from map app snd]. rewrite map_app. cbn [dense_ranks]. rewrite Z.eqb_refl. cbn [andb].
  rewrite dense_from_same. apply dense_from_ranked; [assumption|right; reflexivity].
Qed.

Lemma lec_rank_some : forall na A k s r, lec_rank na A k s = Some r ->
  exists x, In (x, r) (ranked (second_list_of na A k)).
Proof.
  intros na A k s r H. unfold lec_rank in H.
  destruct (find (fun xr : Z * Z => fst xr =? s) (rev (ranked (second_list_of na A k)))) as [[x r']|] eqn:E;
    [|discriminate].
  cbn [snd] in H. injection H as <-. apply find_some in E as [E _]. apply in_rev in E. now exists x.
Qed.

Lemma lec_rank_in : forall na A k s, In s (concat (second_list_of na A k)) -> lec_rank na A k s <> None.
Proof.
  intros na A k s H. rewrite <- (map_fst_ranked_from _ 1) in H.
  apply in_map_iff in H as [[s' r] [E Hin]]. cbn [fst] in E. subst s'.
  unfold lec_rank.
  destruct (find (fun xr : Z * Z => fst xr =? s) (rev (ranked (second_list_of na A k)))) eqn:F; [discriminate|].
  pose proof (find_none _ _ F (s, r)) as N. cbn [fst] in N. rewrite Z.eqb_refl in N.
  assert (X : true = false) by (apply N; rewrite <- in_rev; exact Hin). discriminate X.
Qed.

Lemma in_denote_rows : forall na tw A ls i q, In q (concat (denote_rows na tw A i ls)) ->
  exists j l p r, In (j, l) (combine (seqZ i (length ls)) ls) /\ In (p, r) (ranked l) /\
    q = mkPair j p r (lec_of na A p) (if tw then lec_rank na A (lec_of na A p) j else None).
Proof.
  induction ls as [|l ls IH]; intros i q H; [destruct H|].
  cbn [denote_rows concat] in H. apply in_app_or in H as [H|H].
  - unfold denote_row in H. apply in_map_iff in H as [[p r] [<- Hin]].
    exists i, l, p, r. split; [now left|]. split; [assumption|reflexivity].
  - destruct (IH _ _ H) as (j & l' & p & r & H1 & H2 & H3).
    exists j, l', p, r. split; [cbn [length seqZ combine]; now right|]. now split.
Qed.

Lemma length_denote_rows : forall na tw A ls i, length (denote_rows na tw A i ls) = length ls.
Proof. induction ls as [|l ls IH]; intros i; cbn [denote_rows length]; [reflexivity|now rewrite IH]. Qed.

Lemma rows_ok_denote : forall na tw A I ls i,
  nP I = f_n2 A -> (forall p, 1 <= p <= f_n2 A -> nth1 (p_lec I) p 0 = lec_of na A p) ->
  Forall (Rng A) ls -> Forall plist_ok ls -> (forall l, In l ls -> nodupZ (concat l) = true) ->
  rows_ok I i (denote_rows na tw A i ls) = true.
Proof.
  intros na tw A I. induction ls as [|l ls IH]; intros i HP HL HR HO HN; [reflexivity|].
  inversion HR as [|? ? Rl Rls]; subst. inversion HO as [|? ? Ol Ols]; subst.
  cbn [denote_rows rows_ok]. apply andb_true_iff. split.
  - unfold row_ok. apply andb_true_iff. split; [apply andb_true_iff; split|].
    + apply forallb_forall. intros q Hq. unfold denote_row in Hq.
      apply in_map_iff in Hq as [[p r] [<- Hin]]. cbn [st pr lec fst snd].
      destruct (in_ranked_from _ _ _ _ Hin) as [g [Hg Hp]]. pose proof (Rl g p Hg Hp) as Hr.
      rewrite Z.eqb_refl, HP, (HL p Hr), Z.eqb_refl. cbn [andb].
      apply andb_true_iff. split; [apply andb_true_iff; split|reflexivity]; apply Z.leb_le; lia.
    + unfold denote_row. rewrite map_map. cbn [pr].
      change (map (fun x : Z * Z => fst x) (ranked l)) with (map fst (ranked l)).
      unfold ranked. rewrite map_fst_ranked_from. apply HN. now left.
    + unfold denote_row. rewrite map_map. cbn [rs].
      change (map (fun x : Z * Z => snd x) (ranked l)) with (map snd (ranked l)).
      now apply dense_ranks_ranked.
  - apply IH; try assumption. intros l' Hl'. apply HN. now right.
Qed.

Lemma option_eqb_refl : forall o : option Z, option_eqb Z.eqb o o = true.
Proof. intros [z|]; cbn [option_eqb]; [apply Z.eqb_refl|reflexivity]. Qed.

Lemma all2Z_map {X} : forall (R : Z -> Z -> bool) (f g : X -> Z) (l : list X),
  (forall x, In x l -> R (f x) (g x) = true) -> all2Z R (map f l) (map g l) = true.
Proof.
  induction l as [|x l IH]; intros H; [reflexivity|].
  cbn [map all2Z]. rewrite H by (now left). cbn [andb]. apply IH. intros y Hy. apply H. now right.
Qed.

Lemma second_list_of_ok : forall na tw A k, wf_ast na tw A = true -> plist_ok (second_list_of na A k).
Proof.
  intros na tw A k W.
  destruct (wf_ast_facts _ _ _ W) as (_ & _ & _ & _ & _ & _ & _ & _ & _ & O2 & O3 & _).
  unfold second_list_of. destruct (na =? 3).
  - destruct (nth_in_or_default (Z.to_nat (k - 1)) (f_third A) (0, 0, 0, [])) as [H|H].
    + rewrite Forall_forall in O3. apply (O3 _ H).
    + rewrite H. constructor.
  - destruct (nth_in_or_default (Z.to_nat (k - 1)) (f_second_lists A) []) as [H|H].
    + rewrite Forall_forall in O2. apply (O2 _ H).
    + rewrite H. constructor.
Qed.

Lemma denote_pairs : forall na tw A, pairs (denote na tw A) = denote_rows na tw A 1 (f_first A).
Proof. intros. unfold denote. destruct (na =? 3); reflexivity. Qed.
Lemma denote_nS : forall na tw A, nS (denote na tw A) = f_n1 A.
Proof. intros. unfold denote. destruct (na =? 3); reflexivity. Qed.
Lemma denote_nP : forall na tw A, nP (denote na tw A) = f_n2 A.
Proof. intros. unfold denote. destruct (na =? 3); reflexivity. Qed.

Lemma denote_sided : forall na tw A, wf_ast na tw A = true ->
  (tw = true -> two_sided (denote na tw A) = true) /\ (tw = false -> one_sided (denote na tw A) = true).
Proof.
  intros na tw A W.
  destruct (wf_ast_facts _ _ _ W) as (_ & _ & _ & _ & _ & _ & _ & _ & _ & _ & _ & _ & _ & T).
  split; intros ->.
  - unfold two_sided, all_pairs. rewrite denote_pairs. apply forallb_forall. intros q Hq.
    destruct (in_denote_rows _ _ _ _ _ _ Hq) as (j & l & p & r & H1 & H2 & ->). cbn [rl].
    destruct (in_ranked_from _ _ _ _ H2) as [g [Hg Hp]].
    pose proof (T eq_refl (j, l) H1 g p Hg Hp) as N. cbn [fst] in N.
    destruct (lec_rank na A (lec_of na A p) j); [reflexivity|now elim N].
  - unfold one_sided, all_pairs. rewrite denote_pairs. apply forallb_forall. intros q Hq.
    destruct (in_denote_rows _ _ _ _ _ _ Hq) as (j & l & p & r & H1 & H2 & ->). reflexivity.
Qed.

Lemma denote_lec_ranks : forall na tw A, wf_ast na tw A = true ->
  (forall k, zlen (concat (second_list_of na A k)) <= f_n1 A) ->
  forall k, lec_ranks_ok (denote na tw A) k = true.
Proof.
  intros na tw A W Hsec k. set (M := denote na tw A). unfold lec_ranks_ok. cbv zeta.
  assert (P : forall q, In q (lecturer_list M k) ->
              rl q = if tw then lec_rank na A (lec q) (st q) else None).
  { intros q Hq. unfold lecturer_list in Hq. apply filter_In in Hq as [Hq _].
    unfold all_pairs, M in Hq. rewrite denote_pairs in Hq.
    destruct (in_denote_rows _ _ _ _ _ _ Hq) as (j & l & p & r & _ & _ & ->). reflexivity. }
  assert (K : forall q, In q (lecturer_list M k) -> lec q = k).
  { intros q Hq. unfold lecturer_list in Hq. apply filter_In in Hq as [_ Hq]. now apply Z.eqb_eq in Hq. }
  apply andb_true_iff. split.
  - apply forallb_forall. intros a Ha. apply forallb_forall. intros b Hb.
    destruct (st a =? st b) eqn:E; [|reflexivity]. cbn [negb orb]. apply Z.eqb_eq in E.
    rewrite (P a Ha), (P b Hb), (K a Ha), (K b Hb), E. apply option_eqb_refl.
  - apply forallb_forall. intros a Ha. destruct (rl a) as [r|] eqn:E; [|reflexivity].
    rewrite (P a Ha) in E. destruct tw; [|discriminate].
    destruct (lec_rank_some _ _ _ _ _ E) as [x Hx]. unfold ranked in Hx.
    apply ranked_from_bounds in Hx.
    pose proof (plist_ok_length _ (second_list_of_ok na true A (lec a) W)) as L.
    pose proof (Hsec (lec a)) as S. unfold zlen in *. unfold M. rewrite denote_nS.
    apply andb_true_iff. split; apply Z.leb_le; lia.
Qed.

Lemma denote_rows_ok : forall na tw A, wf_ast na tw A = true ->
  (forall l, In l (f_first A) -> nodupZ (concat l) = true) ->
  (forall p, 1 <= p <= f_n2 A -> nth1 (p_lec (denote na tw A)) p 0 = lec_of na A p) ->
  rows_ok (denote na tw A) 1 (pairs (denote na tw A)) = true.
Proof.
  intros na tw A W Hnodup HL.
  destruct (wf_ast_facts _ _ _ W) as (_ & _ & _ & _ & _ & _ & _ & _ & O1 & _ & _ & R & _).
  rewrite denote_pairs. apply rows_ok_denote; try assumption. apply denote_nP.
Qed.

Lemma nth1_pos : forall l p d, 1 <= p -> nth1 l p d = nth (Z.to_nat (p - 1)) l d.
Proof. intros l p d H. unfold nth1. destruct (Z.leb_spec p 0); [lia|reflexivity]. Qed.

Theorem denote_wf : forall na tw A,
  wf_ast na tw A = true ->
  1 <= f_n1 A -> 1 <= f_n2 A -> (na = 3 -> 1 <= f_n3 A) ->
  (forall q, In q (f_second A) -> 0 <= fst (fst q) <= snd (fst q)) ->
  (forall q, In q (f_third A) -> 0 <= fst (fst (fst q)) <= snd (fst (fst q)) /\ snd (fst (fst q)) <= snd (fst q)) ->
  (forall l, In l (f_first A) -> nodupZ (concat l) = true) ->
  (forall k, zlen (concat (second_list_of na A k)) <= f_n1 A) ->
  wf (denote na tw A) = true.
Proof.
  intros na tw A W H1 H2 H3 HQ HT HN HS.
  destruct (wf_ast_facts _ _ _ W) as
    (Hna & L1 & L2 & L3 & L4 & N1 & N2 & N3 & O1 & O2 & O3 & R & LR & T).
  pose proof (denote_lec_ranks na tw A W HS) as LRK.
  pose proof (denote_sided na tw A W) as [S2 S1].
  pose proof (denote_rows_ok na tw A W HN) as RO.
  assert (SD : two_sided (denote na tw A) || one_sided (denote na tw A) = true).
  { destruct tw; [rewrite S2|rewrite S1]; try reflexivity. apply orb_true_r. }
  assert (LK : forallb (lec_ranks_ok (denote na tw A)) (seqZ 1 (Z.to_nat (nL (denote na tw A)))) = true).
  { apply forallb_forall. intros k _. apply LRK. }
  unfold wf. rewrite SD, LK, RO; clear SD LK RO LRK S1 S2.
  - unfold denote. destruct Hna as [-> | ->].
    + change (2 =? 3) with false. cbv iota zeta.
      cbn [nS nP nL p_lq p_uq p_lec l_lq l_tg l_uq pairs].
      unfold zlen in *. rewrite !map_length, length_denote_rows, length_seqZ.
      rewrite L1, L2. rewrite !Z.eqb_refl.
      rewrite (proj2 (Z.leb_le 1 (f_n1 A)) H1), (proj2 (Z.leb_le 1 (f_n2 A)) H2). cbn [andb].
      rewrite !andb_true_r.
      apply andb_true_iff. split; [apply andb_true_iff; split; [apply andb_true_iff; split|]|].
      * apply forallb_forall. intros k Hk. apply g_seqZ_In in Hk.
        apply andb_true_iff. split; apply Z.leb_le; lia.
      * apply all2Z_map. intros q Hq. specialize (HQ q Hq).
        apply andb_true_iff. split; apply Z.leb_le; lia.
      * apply all2Z_map. intros q Hq. specialize (HQ q Hq).
        apply andb_true_iff. split; apply Z.leb_le; lia.
      * apply all2Z_map. intros q Hq. apply Z.leb_le; lia.
    + change (3 =? 3) with true. cbv iota zeta.
      cbn [nS nP nL p_lq p_uq p_lec l_lq l_tg l_uq pairs].
      specialize (L3 eq_refl). specialize (H3 eq_refl). specialize (LR eq_refl).
      unfold zlen in *. rewrite !map_length, length_denote_rows.
      rewrite L1, L2, L3. rewrite !Z.eqb_refl.
      rewrite (proj2 (Z.leb_le 1 (f_n1 A)) H1), (proj2 (Z.leb_le 1 (f_n2 A)) H2),
              (proj2 (Z.leb_le 1 (f_n3 A)) H3). cbn [andb].
      rewrite !andb_true_r.
      apply andb_true_iff. split; [apply andb_true_iff; split; [apply andb_true_iff; split|]|].
      * apply forallb_forall. intros k Hk. apply in_map_iff in Hk as [q [<- Hq]]. specialize (LR q Hq).
        apply andb_true_iff. split; apply Z.leb_le; lia.
      * apply all2Z_map. intros q Hq. specialize (HQ q Hq).
        apply andb_true_iff. split; apply Z.leb_le; lia.
      * apply all2Z_map. intros q Hq. specialize (HT q Hq).
        apply andb_true_iff. split; apply Z.leb_le; lia.
      * apply all2Z_map. intros q Hq. specialize (HT q Hq). apply Z.leb_le; lia.
  - intros p Hp. rewrite nth1_pos by lia. unfold denote, lec_of. destruct Hna as [-> | ->].
    + change (2 =? 3) with false. cbv iota zeta. cbn [p_lec].
      unfold zlen in L2. rewrite nth_seqZ by lia. lia.
    + change (3 =? 3) with true. cbv iota zeta. cbn [p_lec].
      change 0 with (snd ((0, 0, 0) : Z * Z * Z)) at 1. now rewrite map_nth.
Qed.

(* ====================================================================== *)
(* D. the generator: its draws, its sections never fail                    *)
(* ====================================================================== *)

Lemma Forall2_nth_error {X Y} (P : X -> Y -> Prop) : forall (l : list X) (m : list Y),
  length l = length m ->
  (forall i x y, nth_error l i = Some x -> nth_error m i = Some y -> P x y) -> Forall2 P l m.
Proof.
  induction l as [|x l IH]; intros [|y m] Hlen H; try discriminate; constructor.
  - apply (H O); reflexivity.
  - apply IH; [now injection Hlen|]. intros i x' y' Hx Hy. apply (H (S i)); assumption.
Qed.

Lemma Forall2_combine_In {X Y} (P : X -> Y -> Prop) : forall l m x y,
  Forall2 P l m -> In (x, y) (combine l m) -> P x y.
Proof.
  intros l m x y H. induction H as [|a b l m Hab Hlm IH]; intros Hin; [destruct Hin|].
  cbn [combine] in Hin. destruct Hin as [E|Hin]; [injection E as <- <-; assumption|now apply IH].
Qed.

Lemma Forall2_nth {X Y} (P : X -> Y -> Prop) : forall l m i dx dy,
  Forall2 P l m -> (i < length l)%nat -> P (nth i l dx) (nth i m dy).
Proof.
  intros l m i dx dy H. revert i. induction H as [|a b l m Hab Hlm IH]; intros i Hi; [cbn in Hi; lia|].
  destruct i as [|i]; [exact Hab|]. cbn [nth]. apply IH. cbn [length] in Hi. lia.
Qed.

Lemma Forall2_length_ {X Y} (P : X -> Y -> Prop) : forall l m, Forall2 P l m -> length l = length m.
Proof. intros l m H. induction H; cbn [length]; congruence. Qed.

Lemma Forall2_impl_ {X Y} (P Q : X -> Y -> Prop) : (forall x y, P x y -> Q x y) ->
  forall l m, Forall2 P l m -> Forall2 Q l m.
Proof. intros H l m F. induction F; constructor; auto. Qed.

Definition first_ok (a : gargs) (l : list Z) (t : list bool) : Prop :=
  length t = length l /\ nodupZ l = true /\ forall x, In x l -> 1 <= x <= g_n2 a.

Lemma contract_first : forall a d, draws_contract a d -> Forall2 (first_ok a) (d_first d) (d_ties1 d).
Proof.
  intros a d (L1 & L2 & H & _). apply Forall2_nth_error; [congruence|].
  intros i l t Hl Ht. destruct (H i l t Hl Ht) as (A1 & A2 & _ & A4). split; [assumption|split; assumption].
Qed.

Definition n_second (a : gargs) : Z := if g_mp a =? 4 then g_n3 a else g_n2 a.

Lemma filter_length_le_ {X} : forall (p : X -> bool) l, (length (filter p l) <= length l)%nat.
Proof. induction l as [|x l IH]; cbn [filter length]; [lia|]. destruct (p x); cbn [length]; lia. Qed.

Lemma invert_rows : forall first n inv, invert first n = Ok inv ->
  length inv = Z.to_nat n /\ forall k, (length (nth k inv []) <= length first)%nat.
Proof.
  intros first n inv H. unfold invert in H. destruct (existsb _ first); [discriminate|]. injection H as <-.
  split; [now rewrite map_length, length_seqZ|].
  intro k. destruct (nth_in_or_default k
     (map (fun j => map fst (filter (fun il : Z * list Z => memZ j (snd il)) (combine (seqZ 1 (length first)) first)))
          (seqZ 1 (Z.to_nat n))) []) as [Hin|E].
  - apply in_map_iff in Hin as [j [E _]]. rewrite <- E. rewrite map_length.
    etransitivity; [apply filter_length_le_|]. rewrite combine_length, length_seqZ. lia.
  - rewrite E. cbn [length]. lia.
Qed.

Lemma mapM_nth {X Y} : forall (f : X -> result Y) l ys, mapM f l = Ok ys ->
  length ys = length l /\ forall i dx dy, (i < length l)%nat -> f (nth i l dx) = Ok (nth i ys dy).
Proof.
  induction l as [|x l IH]; intros ys H.
  - cbn [mapM] in H. injection H as <-. split; [reflexivity|]. intros i dx dy Hi. cbn in Hi. lia.
  - cbn [mapM] in H. destruct (f x) as [y|] eqn:Fx; [|discriminate]. cbn [bind] in H.
    destruct (mapM f l) as [ys'|] eqn:M; [|discriminate]. cbn [bind] in H. injection H as <-.
    destruct (IH ys' eq_refl) as [L N]. split; [cbn [length]; now rewrite L|].
    intros [|i] dx dy Hi; [exact Fx|]. cbn [nth]. apply N. cbn [length] in Hi. lia.
Qed.

(* the second side under -twopl *)
Lemma contract_second : forall a d, gargs_ok a -> draws_contract a d -> g_twopl a = true ->
  exists inv, second_side_unshuffled a d = Ok inv /\
    length inv = Z.to_nat (n_second a) /\
    length (d_second d) = Z.to_nat (n_second a) /\ length (d_ties2 d) = Z.to_nat (n_second a) /\
    Forall2 (fun l t => length t = length l) (d_second d) (d_ties2 d) /\
    (forall k, (k < Z.to_nat (n_second a))%nat -> Permutation (nth k inv []) (nth k (d_second d) [])) /\
    (forall k, (length (nth k (d_second d) []) <= Z.to_nat (g_n1 a))%nat).
Proof.
  intros a d G (L1 & L2 & _ & C) Tw. rewrite Tw in C. destruct C as (inv & E & S1 & S2 & HP).
  exists inv. split; [assumption|].
  assert (LI : length inv = Z.to_nat (n_second a) /\ forall k, (length (nth k inv []) <= Z.to_nat (g_n1 a))%nat).
  { unfold second_side_unshuffled in E. unfold n_second. destruct (g_mp a =? 4).
    - destruct (create_project_lecturers (g_n2 a) (g_n3 a)) as [plec|]; [|discriminate]. cbn [bind] in E.
      destruct (create_student_lec_lists (d_first d) plec (g_n3 a)) as [sl|] eqn:Esl; [|discriminate].
      cbn [bind] in E. destruct (invert_rows _ _ _ E) as [A1 A2]. split; [assumption|].
      unfold create_student_lec_lists in Esl. destruct (mapM_nth _ _ _ Esl) as [A3 _].
      intro k. specialize (A2 k). lia.
    - destruct (invert_rows _ _ _ E) as [A1 A2]. split; [assumption|]. intro k. specialize (A2 k). lia. }
  destruct LI as [LI LR].
  assert (PK : forall k, (k < Z.to_nat (n_second a))%nat -> Permutation (nth k inv []) (nth k (d_second d) [])).
  { intros k Hk.
    destruct (HP k (nth k inv []) (nth k (d_second d) []) (nth k (d_ties2 d) [])) as [P _];
      try (apply nth_error_nth'; lia). exact P. }
  split; [assumption|]. split; [congruence|]. split; [congruence|]. split; [|split].
  - apply Forall2_nth_error; [congruence|]. intros i l t Hl Ht.
    assert (Hi : (i < length inv)%nat).
    { rewrite <- S1. apply nth_error_Some. rewrite Hl. discriminate. }
    destruct (HP i (nth i inv []) l t) as [_ P]; try assumption. apply nth_error_nth'. exact Hi.
  - exact PK.
  - intro k. destruct (Nat.lt_ge_cases k (Z.to_nat (n_second a))) as [Hk|Hk].
    + rewrite <- (Permutation_length (PK k Hk)). apply LR.
    + rewrite nth_overflow by lia. cbn [length]. lia.
Qed.

Lemma n_second_pos : forall a, gargs_ok a -> 1 <= n_second a.
Proof.
  intros a (_ & H2 & H3 & _). unfold n_second. destruct (Z.eqb_spec (g_mp a) 4) as [E|_]; [now apply H3|assumption].
Qed.

Lemma two_flag : forall a d, gargs_ok a -> draws_contract a d ->
  negb (Nat.eqb (length (d_second d)) 0) = g_twopl a.
Proof.
  intros a d G C. destruct (g_twopl a) eqn:Tw.
  - destruct (contract_second a d G C Tw) as (inv & _ & _ & L & _). pose proof (n_second_pos a G).
    destruct (length (d_second d)); [lia|reflexivity].
  - destruct C as (_ & _ & _ & C). rewrite Tw in C. destruct C as [-> _]. reflexivity.
Qed.

(* totality of the sections *)
Lemma first_lines_total : forall ls ts i n, Forall2 (fun l t => length t = length l) ls ts -> length ls = n ->
  exists s, first_lines i ls ts n = Ok s.
Proof.
  intros ls ts i n H. revert i n. induction H as [|l t ls ts Hlt Hls IH]; intros i n Hn.
  - subst n. exists ""%string. reflexivity.
  - cbn [length] in Hn. subst n. cbn [first_lines].
    destruct (pref_string_total l t Hlt) as [p ->]. cbn [bind].
    destruct (IH (i + 1) (length ls) eq_refl) as [s ->]. cbn [bind]. eexists. reflexivity.
Qed.

Lemma hosp_lines_total2 : forall ls ts, Forall2 (fun l t => length t = length l) ls ts ->
  forall i lq uq n, length ls = n -> length lq = n -> length uq = n ->
  exists s, hosp_lines i true ls ts lq uq n = Ok s.
Proof.
  intros ls ts H. induction H as [|l t ls ts Hlt Hls IH]; intros i lq uq n Hn Hq Hu.
  - cbn [length] in Hn. subst n. destruct lq; [|discriminate]. exists ""%string. reflexivity.
  - cbn [length] in Hn. subst n. destruct lq as [|x lq]; [discriminate|]. destruct uq as [|y uq]; [discriminate|].
    cbn [length] in Hq, Hu. cbn [hosp_lines tl].
    destruct (pref_string_total l t Hlt) as [p ->]. cbn [bind].
    destruct (IH (i + 1) lq uq (length ls) eq_refl) as [s ->]; [lia|lia|]. cbn [bind]. eexists. reflexivity.
Qed.

Lemma hosp_lines_total1 : forall n i ls ts lq uq, length lq = n -> length uq = n ->
  exists s, hosp_lines i false ls ts lq uq n = Ok s.
Proof.
  induction n as [|n IH]; intros i ls ts lq uq Hq Hu.
  - destruct lq; [|discriminate]. exists ""%string. reflexivity.
  - destruct lq as [|x lq]; [discriminate|]. destruct uq as [|y uq]; [discriminate|].
    cbn [length] in Hq, Hu. cbn [hosp_lines bind].
    destruct (IH (i + 1) (tl ls) (tl ts) lq uq) as [s ->]; [lia|lia|]. cbn [bind]. eexists. reflexivity.
Qed.

Lemma proj_lines_total : forall n i lq uq plec, length lq = n -> length uq = n -> length plec = n ->
  exists s, proj_lines i lq uq plec n = Ok s.
Proof.
  induction n as [|n IH]; intros i lq uq plec Hq Hu Hp.
  - destruct lq; [|discriminate]. exists ""%string. reflexivity.
  - destruct lq as [|x lq]; [discriminate|]. destruct uq as [|y uq]; [discriminate|].
    destruct plec as [|z plec]; [discriminate|].
    cbn [length] in Hq, Hu, Hp. cbn [proj_lines].
    destruct (IH (i + 1) lq uq plec) as [s ->]; [lia|lia|lia|]. cbn [bind]. eexists. reflexivity.
Qed.

Lemma lec_lines_total2 : forall ls ts, Forall2 (fun l t => length t = length l) ls ts ->
  forall i lq tg uq n, length ls = n -> length lq = n -> length tg = n -> length uq = n ->
  exists s, lec_lines i true ls ts lq tg uq n = Ok s.
Proof.
  intros ls ts H. induction H as [|l t ls ts Hlt Hls IH]; intros i lq tg uq n Hn Hq Hg Hu.
  - cbn [length] in Hn. subst n. destruct lq; [|discriminate]. exists ""%string. reflexivity.
  - cbn [length] in Hn. subst n. destruct lq as [|x lq]; [discriminate|]. destruct tg as [|z tg]; [discriminate|].
    destruct uq as [|y uq]; [discriminate|].
    cbn [length] in Hq, Hu, Hg. cbn [lec_lines tl].
    destruct (pref_string_total l t Hlt) as [p ->]. cbn [bind].
    destruct (IH (i + 1) lq tg uq (length ls) eq_refl) as [s ->]; [lia|lia|lia|]. cbn [bind]. eexists. reflexivity.
Qed.

Lemma lec_lines_total1 : forall n i ls ts lq tg uq, length lq = n -> length tg = n -> length uq = n ->
  exists s, lec_lines i false ls ts lq tg uq n = Ok s.
Proof.
  induction n as [|n IH]; intros i ls ts lq tg uq Hq Hg Hu.
  - destruct lq; [|discriminate]. exists ""%string. reflexivity.
  - destruct lq as [|x lq]; [discriminate|]. destruct tg as [|z tg]; [discriminate|].
    destruct uq as [|y uq]; [discriminate|].
    cbn [length] in Hq, Hu, Hg. cbn [lec_lines bind].
    destruct (IH (i + 1) (tl ls) (tl ts) lq tg uq) as [s ->]; [lia|lia|lia|]. cbn [bind]. eexists. reflexivity.
Qed.

Lemma quotas_len : forall n q l, 0 < n -> create_quotas n q = Ok l -> length l = Z.to_nat n.
Proof.
  intros n q l Hn H. rewrite create_quotas_eq in H by lia. injection H as <-.
  now rewrite map_length, g_seqZ_length.
Qed.

Lemma plec_total : forall n2 n3, 0 < n3 -> 0 <= n2 ->
  exists l, create_project_lecturers n2 n3 = Ok l /\ length l = Z.to_nat n2 /\ forall x, In x l -> 1 <= x <= n3.
Proof.
  intros n2 n3 H3 H2. destruct (quotas_total n3 n2 H3) as [c Ec].
  assert (E : create_project_lecturers n2 n3 =
              Ok (concat (map (fun kc => repeat (fst kc + 1) (Z.to_nat (snd kc))) (combine (rangeZ n3) c)))).
  { unfold create_project_lecturers. rewrite Ec. reflexivity. }
  eexists. split; [exact E|]. destruct (project_lecturers_spec _ _ _ H3 H2 E) as (A1 & A2 & _). now split.
Qed.

Theorem generated_file_exists : forall a d, gargs_ok a -> draws_contract a d -> exists text, instance_text a d = Ok text.
Proof.
  intros a d G C. pose proof (two_flag a d G C) as TF. pose proof (contract_first a d C) as F1.
  assert (F1' : Forall2 (fun l t => length t = length l) (d_first d) (d_ties1 d)).
  { eapply Forall2_impl_; [|exact F1]. intros l t H. exact (proj1 H). }
  pose proof C as (L1 & _).
  destruct G as (G1 & G2 & G3 & G4 & G5 & G6 & G7 & G8 & G9).
  assert (G : gargs_ok a) by (repeat split; assumption || lia).
  unfold instance_text. destruct (Z.eqb_spec (g_mp a) 4) as [E4|N4].
  - specialize (G3 E4). destruct (G8 E4) as (G81 & G82 & G83).
    unfold spa_instance.
    destruct (plec_total (g_n2 a) (g_n3 a)) as (plec & -> & Lp & _); [lia|lia|]. cbn [bind].
    destruct (quotas_total (g_n2 a) (g_lq a)) as [lqs Elq]; [lia|]. rewrite Elq. cbn [bind].
    destruct (quotas_total (g_n2 a) (g_uq a)) as [uqs Euq]; [lia|]. rewrite Euq. cbn [bind].
    destruct (quotas_total (g_n3 a) (g_llq a)) as [llqs Ellq]; [lia|]. rewrite Ellq. cbn [bind].
    destruct (quotas_total (g_n3 a) (g_lt a)) as [ltgs Eltg]; [lia|]. rewrite Eltg. cbn [bind].
    destruct (quotas_total (g_n3 a) (g_luq a)) as [luqs Eluq]; [lia|]. rewrite Eluq. cbn [bind].
    destruct (first_lines_total _ _ 1 _ F1' L1) as [fl ->]. cbn [bind].
    destruct (proj_lines_total (Z.to_nat (g_n2 a)) 1 lqs uqs plec) as [pl ->];
      [eapply quotas_len; [|eassumption]; lia|eapply quotas_len; [|eassumption]; lia|assumption|].
    cbn [bind]. rewrite TF.
    assert (Q1 : length llqs = Z.to_nat (g_n3 a)) by (eapply quotas_len; [|eassumption]; lia).
    assert (Q2 : length ltgs = Z.to_nat (g_n3 a)) by (eapply quotas_len; [|eassumption]; lia).
    assert (Q3 : length luqs = Z.to_nat (g_n3 a)) by (eapply quotas_len; [|eassumption]; lia).
    destruct (g_twopl a) eqn:Tw.
    + destruct (contract_second a d G C Tw) as (inv & _ & _ & S1 & S2 & S3 & _).
      unfold n_second in S1, S2. rewrite (proj2 (Z.eqb_eq _ _) E4) in S1, S2.
      destruct (lec_lines_total2 _ _ S3 1 llqs ltgs luqs _ S1 Q1 Q2 Q3) as [ll ->]. cbn [bind].
      eexists. reflexivity.
    + destruct (lec_lines_total1 _ 1 (d_second d) (d_ties2 d) llqs ltgs luqs Q1 Q2 Q3) as [ll ->]. cbn [bind].
      eexists. reflexivity.
  - unfold hr_instance.
    destruct (quotas_total (g_n2 a) (g_lq a)) as [lqs Elq]; [lia|]. rewrite Elq. cbn [bind].
    destruct (quotas_total (g_n2 a) (g_uq a)) as [uqs Euq]; [lia|]. rewrite Euq. cbn [bind].
    destruct (first_lines_total _ _ 1 _ F1' L1) as [fl ->]. cbn [bind]. rewrite TF.
    assert (Q1 : length lqs = Z.to_nat (g_n2 a)) by (eapply quotas_len; [|eassumption]; lia).
    assert (Q2 : length uqs = Z.to_nat (g_n2 a)) by (eapply quotas_len; [|eassumption]; lia).
    destruct (g_twopl a) eqn:Tw.
    + destruct (contract_second a d G C Tw) as (inv & _ & _ & S1 & S2 & S3 & _).
      unfold n_second in S1, S2. rewrite (proj2 (Z.eqb_neq _ _) N4) in S1, S2.
      destruct (hosp_lines_total2 _ _ S3 1 lqs uqs _ S1 Q1 Q2) as [hl ->]. cbn [bind].
      eexists. reflexivity.
    + destruct (hosp_lines_total1 _ 1 (d_second d) (d_ties2 d) lqs uqs Q1 Q2) as [hl ->]. cbn [bind].
      eexists. reflexivity.
Qed.

(* ====================================================================== *)
(* E. the abstract file of a generated instance                            *)
(* ====================================================================== *)

Definition sec_lists (a : gargs) (d : draws) (n : nat) : list plist :=
  if g_twopl a then zipruns (d_second d) (d_ties2 d) else repeat [] n.

Definition hr_ast (a : gargs) (d : draws) (lqs uqs : list Z) : file_ast :=
  mkAst (g_n1 a) (g_n2 a) 0 (zipruns (d_first d) (d_ties1 d))
        (combine (combine lqs uqs) (repeat 0 (Z.to_nat (g_n2 a))))
        (sec_lists a d (Z.to_nat (g_n2 a))) [].

Definition spa_ast (a : gargs) (d : draws) (lqs uqs plec llqs ltgs luqs : list Z) : file_ast :=
  mkAst (g_n1 a) (g_n2 a) (g_n3 a) (zipruns (d_first d) (d_ties1 d))
        (combine (combine lqs uqs) plec) []
        (combine (combine (combine llqs ltgs) luqs) (sec_lists a d (Z.to_nat (g_n3 a)))).

(* ---- list helpers ------------------------------------------------------- *)

Lemma In_combine_nth {X Y} : forall (l : list X) (m : list Y) x y dx dy,
  length l = length m -> In (x, y) (combine l m) ->
  exists i, (i < length l)%nat /\ x = nth i l dx /\ y = nth i m dy.
Proof.
  intros l m x y dx dy Hlen H. apply (In_nth _ _ (dx, dy)) in H as [i [Hi E]].
  rewrite combine_length, <- Hlen, Nat.min_id in Hi. rewrite combine_nth in E by assumption.
  injection E as <- <-. now exists i.
Qed.

Lemma length_zipruns : forall ls ts, length ls = length ts -> length (zipruns ls ts) = length ls.
Proof. intros ls ts H. unfold zipruns. rewrite map_length, combine_length. lia. Qed.

Lemma nth_zipruns : forall ls ts i, length ls = length ts ->
  nth i (zipruns ls ts) [] = runs (nth i ls []) (nth i ts []).
Proof.
  intros ls ts i H. unfold zipruns.
  change (@nil (list Z)) with ((fun lt : list Z * list bool => runs (fst lt) (snd lt)) ([], [])) at 1.
  rewrite map_nth. rewrite combine_nth by assumption. reflexivity.
Qed.

Lemma in_zipruns : forall ls ts pl, In pl (zipruns ls ts) ->
  exists l t, In (l, t) (combine ls ts) /\ pl = runs l t.
Proof.
  intros ls ts pl H. unfold zipruns in H. apply in_map_iff in H as [[l t] [<- Hin]]. now exists l, t.
Qed.

Lemma in_combine_seqZ {X} : forall (l : list X) a j x d,
  In (j, x) (combine (seqZ a (length l)) l) -> exists i, (i < length l)%nat /\ j = a + Z.of_nat i /\ x = nth i l d.
Proof.
  intros l a j x d H. apply (In_combine_nth _ _ _ _ 0 d) in H; [|apply length_seqZ].
  destruct H as (i & Hi & E1 & E2). rewrite length_seqZ in Hi. rewrite nth_seqZ in E1 by assumption.
  now exists i.
Qed.

Lemma nth_repeat_nil {X} : forall n i, nth i (repeat (@nil X) n) [] = [].
Proof.
  intros n i. destruct (nth_in_or_default i (repeat (@nil X) n) []) as [H|H]; [|assumption].
  now apply repeat_spec in H.
Qed.

Lemma runs_plist_ok : forall l ties, plist_ok (runs l ties).
Proof.
  induction l as [|x l IH]; intros ties; [constructor|].
  destruct l as [|y l'].
  - destruct ties; (constructor; [discriminate|constructor]).
  - remember (y :: l') as l eqn:El.
    assert (E : runs (x :: l) ties =
      match ties with
      | t :: ties' => if t then match runs l ties' with g' :: gs => (x :: g') :: gs | [] => [[x]] end
                      else [x] :: runs l ties'
      | [] => [x] :: runs l []
      end).
    { subst l. destruct ties; reflexivity. }
    rewrite E. destruct ties as [|t ties'].
    + constructor; [discriminate|apply IH].
    + destruct t.
      * specialize (IH ties'). destruct (runs l ties') as [|g' gs].
        -- constructor; [discriminate|constructor].
        -- inversion IH; subst. constructor; [discriminate|assumption].
      * constructor; [discriminate|apply IH].
Qed.

Lemma count_pos_In : forall l x, count_occZ l x = 1 -> In x l.
Proof.
  intros l x H. destruct (in_dec Z.eq_dec x l) as [Hin|Hn]; [assumption|].
  rewrite g_count_occZ_notin in H by assumption. discriminate.
Qed.

Lemma invert_In : forall first n inv i p, 0 <= n ->
  (forall l, In l first -> nodupZ l = true) -> invert first n = Ok inv ->
  (i < length first)%nat -> 1 <= p <= n -> In p (nth i first []) ->
  In (1 + Z.of_nat i) (nth (Z.to_nat (p - 1)) inv []).
Proof.
  intros first n inv i p Hn Hnd H Hi Hp Hin.
  destruct (invert_spec first n inv Hn Hnd H) as [_ S]. apply count_pos_In. rewrite (S p _ Hp).
  replace (Z.to_nat (1 + Z.of_nat i - 1)) with i by lia.
  rewrite (proj2 (g_memZ_In p _) Hin).
  rewrite (proj2 (Z.leb_le 1 (1 + Z.of_nat i))) by lia.
  rewrite (proj2 (Z.leb_le (1 + Z.of_nat i) (zlen first))) by (unfold zlen; lia). reflexivity.
Qed.

(* ---- converse of wf_ast_facts -------------------------------------------- *)

Lemma plist_ok_forallb : forall ls, Forall plist_ok ls ->
  forallb (fun l : plist => forallb (fun g => negb (Nat.eqb (length g) 0)) l) ls = true.
Proof.
  intros ls H. apply forallb_forall. intros l Hl. rewrite Forall_forall in H. specialize (H l Hl).
  apply forallb_forall. intros g Hg. unfold plist_ok in H. rewrite Forall_forall in H. specialize (H g Hg).
  destruct g; [now elim H|reflexivity].
Qed.

Lemma Tw_intro : forall na A,
  (forall j l, In (j, l) (combine (seqZ 1 (length (f_first A))) (f_first A)) ->
     forall p, In p (concat l) -> In j (concat (second_list_of na A (lec_of na A p)))) ->
  forall il, In il (combine (seqZ 1 (length (f_first A))) (f_first A)) -> Tw na A (fst il) (snd il).
Proof.
  intros na A H [j l] Hil g p Hg Hp. cbn [fst snd] in *. apply lec_rank_in. apply (H j l Hil).
  apply in_concat. exists g. now split.
Qed.

Lemma wf_ast_intro : forall na tw A,
  (na = 2 \/ na = 3) -> zlen (f_first A) = f_n1 A -> zlen (f_second A) = f_n2 A ->
  (na = 3 -> zlen (f_third A) = f_n3 A) -> (na = 2 -> zlen (f_second_lists A) = f_n2 A) ->
  0 <= f_n1 A -> 0 <= f_n2 A -> 0 <= f_n3 A ->
  Forall plist_ok (f_first A ++ f_second_lists A ++ map snd (f_third A)) ->
  Forall (Rng A) (f_first A) ->
  (na = 3 -> forall q, In q (f_second A) -> 1 <= snd q <= f_n3 A) ->
  (tw = true -> forall il, In il (combine (seqZ 1 (length (f_first A))) (f_first A)) -> Tw na A (fst il) (snd il)) ->
  wf_ast na tw A = true.
Proof.
  intros na tw A Hna L1 L2 L3 L4 N1 N2 N3 O R LR T. unfold wf_ast.
  repeat (apply andb_true_iff; split).
  - destruct Hna as [-> | ->]; reflexivity.
  - now apply Z.eqb_eq.
  - now apply Z.eqb_eq.
  - destruct Hna as [-> | ->].
    + change (2 =? 3) with false. cbv iota. apply Z.eqb_eq. now apply L4.
    + change (3 =? 3) with true. cbv iota. apply Z.eqb_eq. now apply L3.
  - now apply Z.leb_le.
  - now apply Z.leb_le.
  - now apply Z.leb_le.
  - now apply plist_ok_forallb.
  - apply forallb_forall. intros l Hl. apply forallb_forall. intros g Hg. apply forallb_forall. intros p Hp.
    rewrite Forall_forall in R. pose proof (R l Hl g p Hg Hp).
    apply andb_true_iff. split; apply Z.leb_le; lia.
  - destruct Hna as [-> | ->].
    + reflexivity.
    + change (3 =? 3) with true. cbv iota. apply forallb_forall. intros q Hq.
      pose proof (LR eq_refl q Hq). apply andb_true_iff. split; apply Z.leb_le; lia.
  - destruct tw; [|reflexivity]. cbn [negb orb].
    apply forallb_forall. intros il Hil. apply forallb_forall. intros g Hg. apply forallb_forall. intros p Hp.
    pose proof (T eq_refl il Hil g p Hg Hp) as N. cbv beta.
    destruct (lec_rank na A (lec_of na A p) (fst il)) eqn:E; [reflexivity|].
    exfalso. apply N. first [exact E | reflexivity].
Qed.

(* ---- facts shared by both generators -------------------------------------- *)

Lemma first_side_facts : forall a d, gargs_ok a -> draws_contract a d ->
  let F := zipruns (d_first d) (d_ties1 d) in
  zlen F = g_n1 a /\ Forall plist_ok F /\
  (forall l g p, In l F -> In g l -> In p g -> 1 <= p <= g_n2 a) /\
  (forall l, In l F -> nodupZ (concat l) = true) /\
  (forall j l, In (j, l) (combine (seqZ 1 (length F)) F) ->
     exists i, (i < Z.to_nat (g_n1 a))%nat /\ j = 1 + Z.of_nat i /\ concat l = nth i (d_first d) []).
Proof.
  intros a d G C F. pose proof (contract_first a d C) as F1. pose proof C as (L1 & L2 & _).
  destruct G as (G1 & _).
  assert (LF : length F = Z.to_nat (g_n1 a)) by (unfold F; rewrite length_zipruns; congruence).
  split; [unfold zlen; rewrite LF; lia|]. split; [|split; [|split]].
  - apply Forall_forall. intros l Hl. apply in_zipruns in Hl as (fl & ft & _ & ->). apply runs_plist_ok.
  - intros l g p Hl Hg Hp. apply in_zipruns in Hl as (fl & ft & Hin & ->).
    destruct (Forall2_combine_In _ _ _ _ _ F1 Hin) as (_ & _ & Rg). apply Rg.
    rewrite <- (concat_runs fl ft). apply in_concat. exists g. now split.
  - intros l Hl. apply in_zipruns in Hl as (fl & ft & Hin & ->).
    destruct (Forall2_combine_In _ _ _ _ _ F1 Hin) as (_ & Nd & _). now rewrite concat_runs.
  - intros j l Hin. apply (in_combine_seqZ _ _ _ _ []) in Hin as (i & Hi & -> & ->).
    exists i. split; [rewrite <- LF; exact Hi|]. split; [reflexivity|]. unfold F. rewrite nth_zipruns by congruence.
    apply concat_runs.
Qed.

Lemma sec_lists_facts : forall a d n, gargs_ok a -> draws_contract a d -> n = Z.to_nat (n_second a) ->
  length (sec_lists a d n) = n /\ Forall plist_ok (sec_lists a d n) /\
  (forall k, zlen (concat (nth k (sec_lists a d n) [])) <= g_n1 a) /\
  (g_twopl a = true -> forall k, concat (nth k (sec_lists a d n) []) = nth k (d_second d) []).
Proof.
  intros a d n G C ->. pose proof G as (G1 & _). unfold sec_lists. destruct (g_twopl a) eqn:Tw.
  - destruct (contract_second a d G C Tw) as (inv & _ & _ & S1 & S2 & S3 & _ & S5).
    assert (CC : forall k, concat (nth k (zipruns (d_second d) (d_ties2 d)) []) = nth k (d_second d) []).
    { intro k. rewrite nth_zipruns by congruence. apply concat_runs. }
    split; [rewrite length_zipruns; congruence|]. split; [|split].
    + apply Forall_forall. intros l Hl. apply in_zipruns in Hl as (fl & ft & _ & ->). apply runs_plist_ok.
    + intro k. rewrite CC. specialize (S5 k). unfold zlen. lia.
    + intros _ k. apply CC.
  - split; [apply repeat_length|]. split; [|split].
    + apply Forall_forall. intros l Hl. apply repeat_spec in Hl. subst l. constructor.
    + intro k. unfold plist. rewrite nth_repeat_nil. cbn. lia.
    + discriminate.
Qed.

Lemma quota_pair : forall n q1 q2 l1 l2 i, 0 < n -> 0 <= q1 <= q2 ->
  create_quotas n q1 = Ok l1 -> create_quotas n q2 = Ok l2 -> (i < Z.to_nat n)%nat ->
  0 <= nth i l1 0 <= nth i l2 0.
Proof.
  intros n q1 q2 l1 l2 i Hn Hq E1 E2 Hi. split.
  - apply (quotas_nonneg n q1 l1); [assumption|lia|assumption|].
    apply nth_In. rewrite (quotas_len n q1 l1 Hn E1). exact Hi.
  - now apply (quotas_monotone n q1 q2 l1 l2).
Qed.

Lemma first_ok_In : forall a ls ts, Forall2 (first_ok a) ls ts ->
  forall l, In l ls -> nodupZ l = true /\ forall x, In x l -> 1 <= x <= g_n2 a.
Proof.
  intros a ls ts H. induction H as [|l t ls ts Hlt Hls IH]; intros l' Hin; [destruct Hin|].
  destruct Hin as [<-|Hin]; [|now apply IH]. destruct Hlt as (_ & A1 & A2). now split.
Qed.

(* ====================================================================== *)
(* F. ha / sm / hr                                                          *)
(* ====================================================================== *)

Lemma hr_ast_wf : forall a d lqs uqs, gargs_ok a -> draws_contract a d -> g_mp a <> 4 ->
  create_quotas (g_n2 a) (g_lq a) = Ok lqs -> create_quotas (g_n2 a) (g_uq a) = Ok uqs ->
  wf_ast 2 (g_twopl a) (hr_ast a d lqs uqs) = true /\
  wf (denote 2 (g_twopl a) (hr_ast a d lqs uqs)) = true.
Proof.
  intros a d lqs uqs G C N4 Elq Euq.
  pose proof G as (G1 & G2 & G3 & G4 & G5 & G6 & G7 & G8 & G9).
  assert (NS : n_second a = g_n2 a) by (unfold n_second; now rewrite (proj2 (Z.eqb_neq _ _) N4)).
  destruct (first_side_facts a d G C) as (ZF & OF & RF & NF & IF).
  destruct (sec_lists_facts a d (Z.to_nat (g_n2 a)) G C) as (LS & OS & CS & DS); [now rewrite NS|].
  pose proof (contract_first a d C) as F1.
  assert (Q1 : length lqs = Z.to_nat (g_n2 a)) by (eapply quotas_len; [|eassumption]; lia).
  assert (Q2 : length uqs = Z.to_nat (g_n2 a)) by (eapply quotas_len; [|eassumption]; lia).
  set (A := hr_ast a d lqs uqs).
  assert (SL : forall k, second_list_of 2 A k = nth (Z.to_nat (k - 1)) (sec_lists a d (Z.to_nat (g_n2 a))) [])
    by reflexivity.
  assert (W : wf_ast 2 (g_twopl a) A = true).
  { apply wf_ast_intro.
    - now left.
    - exact ZF.
    - unfold zlen, A, hr_ast. cbn [f_second f_n2]. rewrite !combine_length, repeat_length, Q1, Q2. lia.
    - discriminate.
    - intros _. unfold zlen, A, hr_ast. cbn [f_second_lists f_n2]. rewrite LS. lia.
    - unfold A, hr_ast. cbn [f_n1]. lia.
    - unfold A, hr_ast. cbn [f_n2]. lia.
    - unfold A, hr_ast. cbn [f_n3]. lia.
    - unfold A, hr_ast. cbn [f_first f_second_lists f_third map]. rewrite app_nil_r.
      apply Forall_app_intro; assumption.
    - apply Forall_forall. intros l Hl g p Hg Hp. exact (RF l g p Hl Hg Hp).
    - discriminate.
    - intros Tw. apply Tw_intro. intros j l Hin p Hp.
      destruct (IF j l Hin) as (i & Hi & -> & EC). rewrite EC in Hp.
      change (lec_of 2 A p) with p. rewrite SL, (DS Tw).
      destruct (contract_second a d G C Tw) as (inv & E & LI & _ & _ & _ & PK & _).
      unfold second_side_unshuffled in E. rewrite (proj2 (Z.eqb_neq _ _) N4) in E.
      assert (Hi' : (i < length (d_first d))%nat) by (destruct C as (L1 & _); lia).
      destruct (first_ok_In a _ _ F1 (nth i (d_first d) []) (nth_In _ _ Hi')) as [_ Rg].
      pose proof (Rg p Hp) as Hr.
      apply (Permutation_in _ (PK (Z.to_nat (p - 1)) ltac:(rewrite NS; lia))).
      apply (invert_In (d_first d) (g_n2 a)); try assumption; [lia|].
      intros l' Hl'. exact (proj1 (first_ok_In a _ _ F1 l' Hl')). }
  split; [exact W|].
  apply denote_wf; try assumption.
  - discriminate.
  - intros [[x y] z] Hq. cbn [fst snd]. unfold A, hr_ast in Hq. cbn [f_second] in Hq.
    apply in_combine_l in Hq. apply (In_combine_nth _ _ _ _ 0 0) in Hq as (i & Hi & -> & ->); [|congruence].
    apply (quota_pair (g_n2 a) (g_lq a) (g_uq a)); try assumption; lia.
  - intros q [].
  - intro k. rewrite SL. apply CS.
Qed.

Lemma hr_imports : forall a d text, gargs_ok a -> draws_contract a d -> g_mp a <> 4 ->
  hr_instance a d = Ok text ->
  exists lqs uqs, create_quotas (g_n2 a) (g_lq a) = Ok lqs /\ create_quotas (g_n2 a) (g_uq a) = Ok uqs /\
    import_model text 2 (g_twopl a) = Ok (denote 2 (g_twopl a) (hr_ast a d lqs uqs)).
Proof.
  intros a d text G C N4 H.
  pose proof G as (G1 & G2 & _).
  assert (NS : n_second a = g_n2 a) by (unfold n_second; now rewrite (proj2 (Z.eqb_neq _ _) N4)).
  unfold hr_instance in H.
  destruct (create_quotas (g_n2 a) (g_lq a)) as [lqs|] eqn:Elq; [|discriminate]. cbn [bind] in H.
  destruct (create_quotas (g_n2 a) (g_uq a)) as [uqs|] eqn:Euq; [|discriminate]. cbn [bind] in H.
  destruct (first_lines 1 (d_first d) (d_ties1 d) (Z.to_nat (g_n1 a))) as [fl|] eqn:Efl; [|discriminate].
  cbn [bind] in H. rewrite (two_flag a d G C) in H.
  destruct (hosp_lines 1 (g_twopl a) (d_second d) (d_ties2 d) lqs uqs (Z.to_nat (g_n2 a))) as [hl|] eqn:Ehl;
    [|discriminate].
  cbn [bind] in H. injection H as <-.
  exists lqs, uqs. split; [reflexivity|]. split; [reflexivity|].
  destruct (hr_ast_wf a d lqs uqs G C N4 Elq Euq) as [W _].
  assert (Q1 : length lqs = Z.to_nat (g_n2 a)) by (eapply quotas_len; [|eassumption]; lia).
  assert (Q2 : length uqs = Z.to_nat (g_n2 a)) by (eapply quotas_len; [|eassumption]; lia).
  pose proof C as (L1 & L2 & _).
  match goal with |- import_model ?t _ _ = _ =>
    replace t
    with (join SP [str_of_Z (g_n1 a); str_of_Z (g_n2 a)] +++ NLs +++ (fl +++ hl) +++ (NLs +++ info_hr a))
    by (cbn [join]; unfold sZ; rewrite !append_assoc; reflexivity) end.
  apply (text_import 2 (g_twopl a) (hr_ast a d lqs uqs) _
           (numbered student_toks 1 (zipruns (d_first d) (d_ties1 d)) ++
            numbered hospital_toks 1 (combine (combine (combine lqs uqs) (repeat 0 (Z.to_nat (g_n2 a))))
                                              (sec_lists a d (Z.to_nat (g_n2 a)))))).
  - exact W.
  - reflexivity.
  - apply gen_ok_app.
    + now apply (first_lines_gen (Z.to_nat (g_n1 a))).
    + unfold sec_lists. destruct (g_twopl a) eqn:Tw.
      * destruct (contract_second a d G C Tw) as (inv & _ & _ & S1 & S2 & _). rewrite NS in S1, S2.
        apply (hosp_lines_gen2 (Z.to_nat (g_n2 a))); try assumption. apply repeat_length.
      * apply (hosp_lines_gen1 (Z.to_nat (g_n2 a)) 1 (d_second d) (d_ties2 d)); try assumption.
        apply repeat_length.
Qed.

(* ====================================================================== *)
(* G. spa                                                                   *)
(* ====================================================================== *)

Lemma spa_ast_wf : forall a d plec lqs uqs llqs ltgs luqs, gargs_ok a -> draws_contract a d -> g_mp a = 4 ->
  create_project_lecturers (g_n2 a) (g_n3 a) = Ok plec ->
  create_quotas (g_n2 a) (g_lq a) = Ok lqs -> create_quotas (g_n2 a) (g_uq a) = Ok uqs ->
  create_quotas (g_n3 a) (g_llq a) = Ok llqs -> create_quotas (g_n3 a) (g_lt a) = Ok ltgs ->
  create_quotas (g_n3 a) (g_luq a) = Ok luqs ->
  wf_ast 3 (g_twopl a) (spa_ast a d lqs uqs plec llqs ltgs luqs) = true /\
  wf (denote 3 (g_twopl a) (spa_ast a d lqs uqs plec llqs ltgs luqs)) = true.
Proof.
  intros a d plec lqs uqs llqs ltgs luqs G C E4 Eplec Elq Euq Ellq Eltg Eluq.
  pose proof G as (G1 & G2 & G3 & G4 & G5 & G6 & G7 & G8 & G9).
  specialize (G3 E4). destruct (G8 E4) as (G81 & G82 & G83).
  assert (NS : n_second a = g_n3 a) by (unfold n_second; now rewrite (proj2 (Z.eqb_eq _ _) E4)).
  destruct (first_side_facts a d G C) as (ZF & OF & RF & NF & IF).
  destruct (sec_lists_facts a d (Z.to_nat (g_n3 a)) G C) as (LS & OS & CS & DS); [now rewrite NS|].
  pose proof (contract_first a d C) as F1.
  destruct (project_lecturers_spec (g_n2 a) (g_n3 a) plec ltac:(lia) ltac:(lia) Eplec) as (LP & RP & _).
  assert (Q1 : length lqs = Z.to_nat (g_n2 a)) by (eapply quotas_len; [|eassumption]; lia).
  assert (Q2 : length uqs = Z.to_nat (g_n2 a)) by (eapply quotas_len; [|eassumption]; lia).
  assert (Q3 : length llqs = Z.to_nat (g_n3 a)) by (eapply quotas_len; [|eassumption]; lia).
  assert (Q4 : length ltgs = Z.to_nat (g_n3 a)) by (eapply quotas_len; [|eassumption]; lia).
  assert (Q5 : length luqs = Z.to_nat (g_n3 a)) by (eapply quotas_len; [|eassumption]; lia).
  set (A := spa_ast a d lqs uqs plec llqs ltgs luqs).
  assert (LQ : length (combine (combine llqs ltgs) luqs) = length (sec_lists a d (Z.to_nat (g_n3 a))))
    by (rewrite !combine_length, LS; lia).
  assert (SL : forall k, second_list_of 3 A k = nth (Z.to_nat (k - 1)) (sec_lists a d (Z.to_nat (g_n3 a))) []).
  { intro k. unfold second_list_of. change (3 =? 3) with true. cbv iota.
    unfold A, spa_ast. cbn [f_third]. rewrite combine_nth by exact LQ. reflexivity. }
  assert (LO : forall p, lec_of 3 A p = nth (Z.to_nat (p - 1)) plec 0).
  { intro p. unfold lec_of. change (3 =? 3) with true. cbv iota.
    unfold A, spa_ast. cbn [f_second]. rewrite combine_nth by (rewrite combine_length; lia). reflexivity. }
  assert (MS : map snd (f_third A) = sec_lists a d (Z.to_nat (g_n3 a))).
  { unfold A, spa_ast. cbn [f_third]. apply map_snd_combine. exact LQ. }
  assert (W : wf_ast 3 (g_twopl a) A = true).
  { apply wf_ast_intro.
    - now right.
    - exact ZF.
    - unfold zlen, A, spa_ast. cbn [f_second f_n2]. rewrite !combine_length, LP, Q1, Q2. lia.
    - intros _. unfold zlen, A, spa_ast. cbn [f_third f_n3]. rewrite !combine_length, LS, Q3, Q4, Q5. lia.
    - discriminate.
    - unfold A, spa_ast. cbn [f_n1]. lia.
    - unfold A, spa_ast. cbn [f_n2]. lia.
    - unfold A, spa_ast. cbn [f_n3]. lia.
    - rewrite MS. unfold A, spa_ast. cbn [f_first f_second_lists app].
      apply Forall_app_intro; assumption.
    - apply Forall_forall. intros l Hl g p Hg Hp. exact (RF l g p Hl Hg Hp).
    - intros _ q Hq. unfold A, spa_ast in Hq. cbn [f_second] in Hq. destruct q as [xy z].
      apply in_combine_r in Hq. cbn [snd]. exact (RP z Hq).
    - intros Tw. apply Tw_intro. intros j l Hin p Hp.
      destruct (IF j l Hin) as (i & Hi & -> & EC). rewrite EC in Hp.
      assert (Hi' : (i < length (d_first d))%nat) by (destruct C as (L1 & _); lia).
      destruct (first_ok_In a _ _ F1 (nth i (d_first d) []) (nth_In _ _ Hi')) as [_ Rg].
      pose proof (Rg p Hp) as Hr.
      rewrite LO. set (k := nth (Z.to_nat (p - 1)) plec 0).
      assert (Hk : 1 <= k <= g_n3 a) by (apply RP, nth_In; lia).
      rewrite SL, (DS Tw).
      destruct (contract_second a d G C Tw) as (inv & E & LI & _ & _ & _ & PK & _).
      unfold second_side_unshuffled in E. rewrite (proj2 (Z.eqb_eq _ _) E4), Eplec in E. cbn [bind] in E.
      destruct (create_student_lec_lists (d_first d) plec (g_n3 a)) as [sl|] eqn:Esl; [|discriminate].
      cbn [bind] in E. unfold create_student_lec_lists in Esl.
      destruct (mapM_nth _ _ _ Esl) as [Lsl Nsl].
      apply (Permutation_in _ (PK (Z.to_nat (k - 1)) ltac:(rewrite NS; lia))).
      apply (invert_In sl (g_n3 a)); try assumption; [lia| |lia|].
      + intros l' Hl'. apply (mapM_In _ _ _ Esl) in Hl' as (x & _ & Hx).
        exact (proj1 (student_lec_list_spec _ _ _ _ Hx)).
      + apply (student_lec_list_spec plec (g_n3 a) (nth i (d_first d) [])); [apply Nsl; exact Hi'|].
        split; [exact Hk|]. exists p. split; [exact Hp|].
        apply py_nth_ok. unfold zlen. lia. }
  split; [exact W|].
  apply denote_wf; try assumption.
  - intros _. exact G3.
  - intros [[x y] z] Hq. cbn [fst snd]. unfold A, spa_ast in Hq. cbn [f_second] in Hq.
    apply in_combine_l in Hq. apply (In_combine_nth _ _ _ _ 0 0) in Hq as (i & Hi & -> & ->); [|congruence].
    apply (quota_pair (g_n2 a) (g_lq a) (g_uq a)); try assumption; lia.
  - intros [[[x y] z] l] Hq. cbn [fst snd]. unfold A, spa_ast in Hq. cbn [f_third] in Hq.
    apply in_combine_l in Hq.
    apply (In_combine_nth _ _ _ _ (0, 0) 0) in Hq as (i & Hi & Exy & ->); [|rewrite combine_length; lia].
    rewrite combine_length in Hi. rewrite combine_nth in Exy by congruence. injection Exy as -> ->.
    split.
    + apply (quota_pair (g_n3 a) (g_llq a) (g_lt a)); try assumption; lia.
    + apply (quotas_monotone (g_n3 a) (g_lt a) (g_luq a)); try assumption; lia.
  - intro k. rewrite SL. apply CS.
Qed.

Lemma spa_imports : forall a d text, gargs_ok a -> draws_contract a d -> g_mp a = 4 ->
  spa_instance a d = Ok text ->
  exists plec lqs uqs llqs ltgs luqs,
    create_project_lecturers (g_n2 a) (g_n3 a) = Ok plec /\
    create_quotas (g_n2 a) (g_lq a) = Ok lqs /\ create_quotas (g_n2 a) (g_uq a) = Ok uqs /\
    create_quotas (g_n3 a) (g_llq a) = Ok llqs /\ create_quotas (g_n3 a) (g_lt a) = Ok ltgs /\
    create_quotas (g_n3 a) (g_luq a) = Ok luqs /\
    import_model text 3 (g_twopl a) = Ok (denote 3 (g_twopl a) (spa_ast a d lqs uqs plec llqs ltgs luqs)).
Proof.
  intros a d text G C E4 H.
  pose proof G as (G1 & G2 & G3 & _). specialize (G3 E4).
  assert (NS : n_second a = g_n3 a) by (unfold n_second; now rewrite (proj2 (Z.eqb_eq _ _) E4)).
  unfold spa_instance in H.
  destruct (create_project_lecturers (g_n2 a) (g_n3 a)) as [plec|] eqn:Eplec; [|discriminate]. cbn [bind] in H.
  destruct (create_quotas (g_n2 a) (g_lq a)) as [lqs|] eqn:Elq; [|discriminate]. cbn [bind] in H.
  destruct (create_quotas (g_n2 a) (g_uq a)) as [uqs|] eqn:Euq; [|discriminate]. cbn [bind] in H.
  destruct (create_quotas (g_n3 a) (g_llq a)) as [llqs|] eqn:Ellq; [|discriminate]. cbn [bind] in H.
  destruct (create_quotas (g_n3 a) (g_lt a)) as [ltgs|] eqn:Eltg; [|discriminate]. cbn [bind] in H.
  destruct (create_quotas (g_n3 a) (g_luq a)) as [luqs|] eqn:Eluq; [|discriminate]. cbn [bind] in H.
  destruct (first_lines 1 (d_first d) (d_ties1 d) (Z.to_nat (g_n1 a))) as [fl|] eqn:Efl; [|discriminate].
  cbn [bind] in H.
  destruct (proj_lines 1 lqs uqs plec (Z.to_nat (g_n2 a))) as [pl|] eqn:Epl; [|discriminate].
  cbn [bind] in H. rewrite (two_flag a d G C) in H.
  destruct (lec_lines 1 (g_twopl a) (d_second d) (d_ties2 d) llqs ltgs luqs (Z.to_nat (g_n3 a))) as [ll|] eqn:Ell;
    [|discriminate].
  cbn [bind] in H. injection H as <-.
  exists plec, lqs, uqs, llqs, ltgs, luqs. repeat (split; [reflexivity|]).
  destruct (spa_ast_wf a d plec lqs uqs llqs ltgs luqs G C E4 Eplec Elq Euq Ellq Eltg Eluq) as [W _].
  destruct (project_lecturers_spec (g_n2 a) (g_n3 a) plec ltac:(lia) ltac:(lia) Eplec) as (LP & _).
  assert (Q1 : length lqs = Z.to_nat (g_n2 a)) by (eapply quotas_len; [|eassumption]; lia).
  assert (Q2 : length uqs = Z.to_nat (g_n2 a)) by (eapply quotas_len; [|eassumption]; lia).
  assert (Q3 : length llqs = Z.to_nat (g_n3 a)) by (eapply quotas_len; [|eassumption]; lia).
  assert (Q4 : length ltgs = Z.to_nat (g_n3 a)) by (eapply quotas_len; [|eassumption]; lia).
  assert (Q5 : length luqs = Z.to_nat (g_n3 a)) by (eapply quotas_len; [|eassumption]; lia).
  pose proof C as (L1 & L2 & _).
  match goal with |- import_model ?t _ _ = _ =>
    replace t
    with (join SP [str_of_Z (g_n1 a); str_of_Z (g_n2 a); str_of_Z (g_n3 a)] +++ NLs +++
          (fl +++ pl +++ ll) +++ (NLs +++ info_spa a))
    by (cbn [join]; unfold sZ; rewrite !append_assoc; reflexivity) end.
  apply (text_import 3 (g_twopl a) (spa_ast a d lqs uqs plec llqs ltgs luqs) _
           (numbered student_toks 1 (zipruns (d_first d) (d_ties1 d)) ++
            numbered project_toks 1 (combine (combine lqs uqs) plec) ++
            numbered lecturer_toks 1 (combine (combine (combine llqs ltgs) luqs)
                                              (sec_lists a d (Z.to_nat (g_n3 a)))))).
  - exact W.
  - reflexivity.
  - apply gen_ok_app; [|apply gen_ok_app].
    + now apply (first_lines_gen (Z.to_nat (g_n1 a))).
    + now apply (proj_lines_gen (Z.to_nat (g_n2 a))).
    + unfold sec_lists. destruct (g_twopl a) eqn:Tw.
      * destruct (contract_second a d G C Tw) as (inv & _ & _ & S1 & S2 & _). rewrite NS in S1, S2.
        now apply (lec_lines_gen2 (Z.to_nat (g_n3 a))).
      * now apply (lec_lines_gen1 (Z.to_nat (g_n3 a)) 1 (d_second d) (d_ties2 d)).
Qed.

(* ====================================================================== *)
(* main theorem                                                            *)
(* ====================================================================== *)

Theorem generated_file_imports : forall a d text,
  gargs_ok a -> draws_contract a d -> instance_text a d = Ok text ->
  exists M, import_model text (na_of a) (g_twopl a) = Ok M /\ wf M = true /\
            nS M = g_n1 a /\ nP M = g_n2 a /\ (g_twopl a = true -> two_sided M = true) /\
            (g_twopl a = false -> one_sided M = true).
Proof.
  intros a d text G C H. unfold instance_text in H. unfold na_of.
  destruct (Z.eqb_spec (g_mp a) 4) as [E4|N4].
  - destruct (spa_imports a d text G C E4 H) as
      (plec & lqs & uqs & llqs & ltgs & luqs & Eplec & Elq & Euq & Ellq & Eltg & Eluq & HI).
    destruct (spa_ast_wf a d plec lqs uqs llqs ltgs luqs G C E4 Eplec Elq Euq Ellq Eltg Eluq) as [W WF].
    eexists. split; [exact HI|]. split; [exact WF|].
    split; [apply denote_nS|]. split; [apply denote_nP|]. apply denote_sided. exact W.
  - destruct (hr_imports a d text G C N4 H) as (lqs & uqs & Elq & Euq & HI).
    destruct (hr_ast_wf a d lqs uqs G C N4 Elq Euq) as [W WF].
    eexists. split; [exact HI|]. split; [exact WF|].
    split; [apply denote_nS|]. split; [apply denote_nP|]. apply denote_sided. exact W.
Qed.


(* concrete sanity checks of the statement: hr two-sided with a tie, spa two-sided, ha one-sided *)
Example ex_hr : let a := mkGargs 3 1 true 2 2 0 1 2 "0.5" "0.5" "0.0" 0 2 0 0 "" 0 in
  let d := mkDraws [[1;2];[2]] [[true;false];[false]] [[1];[2;1]] [[false];[true;true]] in
  (do t <- instance_text a d; do M <- import_model t (na_of a) true; Ok (wf M && two_sided M)) = Ok true.
Proof. vm_compute. reflexivity. Qed.
Example ex_spa : let a := mkGargs 4 1 true 2 3 2 1 2 "0.5" "0.5" "0.0" 0 3 0 2 "2.0" 3 in
  let d := mkDraws [[3;1];[2]] [[true;false];[false]] [[2;1];[1]] [[true;true];[false]] in
  (do t <- instance_text a d; do M <- import_model t (na_of a) true; Ok (wf M && two_sided M)) = Ok true.
Proof. vm_compute. reflexivity. Qed.
Example ex_ha : let a := mkGargs 1 1 false 2 2 0 1 2 "0.5" "0.5" "0.0" 0 2 0 0 "" 0 in
  let d := mkDraws [[1;2];[2]] [[true;false];[false]] [] [] in
  (do t <- instance_text a d; do M <- import_model t (na_of a) false; Ok (wf M && one_sided M)) = Ok true.
Proof. vm_compute. reflexivity. Qed.

Print Assumptions generated_file_exists.
Print Assumptions generated_file_imports.
Print Assumptions denote_wf.
Print Assumptions text_import.
