(* C09: every file the generator writes is read back by the solver's importer as a well-formed instance
   with the requested parameters. *)
From MP Require Import Gen.Files Text.Render Proofs.TiesProofs Proofs.GenProofs Proofs.ImportProofs.
From Coq Require Import Lia Permutation.
Local Open Scope list_scope. Open Scope Z_scope.

Definition na_of (a : gargs) : Z := if g_mp a =? 4 then 3 else 2.

(* accepted arguments (after defaults): what Instance_options_parser lets through *)
Definition gargs_ok (a : gargs) : Prop :=
  1 <= g_n1 a /\ 1 <= g_n2 a /\ (g_mp a = 4 -> 1 <= g_n3 a) /\
  1 <= g_pmin a <= g_pmax a /\ g_pmax a <= g_n2 a /\
  0 <= g_lq a <= g_uq a /\ g_n2 a <= g_uq a /\
  (g_mp a = 4 -> 0 <= g_llq a <= g_lt a /\ g_lt a <= g_luq a /\ 1 <= g_luq a) /\
  (g_mp a = 1 \/ g_mp a = 2 \/ g_mp a = 3 \/ g_mp a = 4).

(* the draws of one instance honour the RNG contract *)
Definition draws_contract (a : gargs) (d : draws) : Prop :=
  length (d_first d) = Z.to_nat (g_n1 a) /\ length (d_ties1 d) = Z.to_nat (g_n1 a) /\
  (forall i l t, nth_error (d_first d) i = Some l -> nth_error (d_ties1 d) i = Some t ->
      length t = length l /\ nodupZ l = true /\ g_pmin a <= zlen l <= g_pmax a /\
      forall x, In x l -> 1 <= x <= g_n2 a) /\
  (if g_twopl a
   then exists inv, second_side_unshuffled a d = Ok inv /\
          length (d_second d) = length inv /\ length (d_ties2 d) = length inv /\
          (forall k l0 l t, nth_error inv k = Some l0 -> nth_error (d_second d) k = Some l ->
               nth_error (d_ties2 d) k = Some t -> Permutation l0 l /\ length t = length l)
   else d_second d = [] /\ d_ties2 d = []).

(* ====================================================================== *)
(* A. lines that differ only in blanks are read alike                      *)
(* ====================================================================== *)

Notation SP := (" "%string).
Definition no_nl (l : string) : Prop := contains_char nl l = false.
Definition tokeq (x y : string) : Prop := line_tokens x = line_tokens y.

Lemma step_tokeq : forall na tw i x y a, i <> 0 -> tokeq x y -> step na tw i x a = step na tw i y a.
Proof.
  intros na tw i x y a Hi H. unfold tokeq in H. unfold step. cbv zeta.
  rewrite (eqb_false i 0) by assumption. rewrite H. reflexivity.
Qed.

Lemma run_lines_tokeq : forall na tw ls1 ls2, Forall2 tokeq ls1 ls2 ->
  forall i a, 1 <= i -> run_lines na tw i ls1 a = run_lines na tw i ls2 a.
Proof.
  intros na tw ls1 ls2 H. induction H as [|x y l1 l2 Hxy Hl IH]; intros i a Hi; [reflexivity|].
  cbn [run_lines]. rewrite (step_tokeq na tw i x y a) by (assumption || lia).
  destruct (step na tw i y a) as [a'|e]; [|reflexivity]. cbn [bind]. apply IH. lia.
Qed.

Lemma import_lines_tokeq : forall na tw h ls1 ls2, Forall2 tokeq ls1 ls2 ->
  import_lines (h :: ls1) na tw = import_lines (h :: ls2) na tw.
Proof.
  intros na tw h ls1 ls2 H. unfold import_lines. cbn [run_lines].
  destruct (step na tw 0 h acc0) as [a'|e]; [|reflexivity]. cbn [bind].
  rewrite (run_lines_tokeq na tw ls1 ls2 H) by lia. reflexivity.
Qed.

Lemma Forall2_refl {X} (R : X -> X -> Prop) : (forall x, R x x) -> forall l, Forall2 R l l.
Proof. intros H l. induction l; constructor; auto. Qed.

Lemma lines_aux_no_nl : forall s cur, no_nl cur -> Forall no_nl (lines_aux s cur).
Proof.
  induction s as [|c s IH]; intros cur H.
  - cbn [lines_aux]. destruct cur; [constructor|]. constructor; [assumption|constructor].
  - cbn [lines_aux]. destruct (Ascii.eqb c nl) eqn:E.
    + constructor; [assumption|]. apply IH. reflexivity.
    + apply IH. unfold no_nl. rewrite contains_char_app. unfold no_nl in H. rewrite H.
      cbn [contains_char orb]. rewrite E. reflexivity.
Qed.

Lemma import_lines_ast : forall na tw A TR, wf_ast na tw A = true -> Forall no_nl TR ->
  import_lines (map (join SP) (ast_lines na A) ++ TR) na tw = Ok (denote na tw A).
Proof.
  intros na tw A TR W HT. pose proof (import_render na tw A TR W) as H.
  unfold import_model, render in H. rewrite lines_render in H; [exact H|].
  apply Forall_app_intro; [apply ast_lines_no_nl|exact HT].
Qed.

(* ====================================================================== *)
(* B. the generator's lines                                                *)
(* ====================================================================== *)

Lemma split_ws_aux_trailing : forall s cur, split_ws_aux (s +++ SP) cur = split_ws_aux s cur.
Proof.
  induction s as [|c s IH]; intros cur.
  - unfold SP. cbn [String.append split_ws_aux]. change (is_ws " "%char) with true. cbv iota.
    destruct cur; reflexivity.
  - cbn [String.append split_ws_aux]. destruct (is_ws c); [destruct cur|]; now rewrite IH.
Qed.

Lemma line_tokens_trailing : forall s, line_tokens (s +++ SP) = line_tokens s.
Proof.
  intro s. unfold line_tokens. rewrite remove_char_app.
  change (remove_char colon SP) with SP. apply split_ws_aux_trailing.
Qed.

Lemma join_app_sp : forall xs ys, xs <> [] -> ys <> [] ->
  join SP (xs ++ ys) = join SP xs +++ SP +++ join SP ys.
Proof.
  induction xs as [|x xs IH]; intros ys Hx Hy; [now elim Hx|].
  destruct xs as [|x2 t].
  - destruct ys as [|y ys]; [now elim Hy|]. reflexivity.
  - change ((x :: x2 :: t) ++ ys) with (x :: x2 :: (t ++ ys)). rewrite !join_cons2.
    change (x2 :: t ++ ys) with ((x2 :: t) ++ ys). rewrite IH by (assumption || discriminate).
    now rewrite !append_assoc.
Qed.

Lemma labelled_line : forall labs toks, labs <> [] -> Forall good labs -> Forall good toks ->
  tokeq (join SP labs +++ SP +++ join SP toks) (join SP (labs ++ toks)) /\
  no_nl (join SP labs +++ SP +++ join SP toks).
Proof.
  intros labs toks Hne Hl Ht. destruct toks as [|y toks].
  - cbn [join]. rewrite app_nil_r. change (SP +++ ""%string) with SP. split.
    + unfold tokeq. apply line_tokens_trailing.
    + unfold no_nl. rewrite contains_char_app. rewrite (join_no_nl labs Hl). reflexivity.
  - rewrite <- join_app_sp by (assumption || discriminate). split; [reflexivity|].
    apply join_no_nl. now apply Forall_app_intro.
Qed.

(* the tokens written for a list are the tokens of its maximal tie runs *)
Definition tie_tail (f : list Z) : list tok := map TPlain (removelast f) ++ [TClose (last f 0)].

Lemma tie_tail_cons : forall x f, f <> [] -> tie_tail (x :: f) = TPlain x :: tie_tail f.
Proof. intros x [|y f] H; [now elim H|reflexivity]. Qed.

Lemma group_toks_cons : forall x f, f <> [] -> group_toks (x :: f) = TOpen x :: tie_tail f.
Proof. intros x [|y f] H; [now elim H|reflexivity]. Qed.

Lemma write_from_toks : forall l ties b ts,
  write_from b l ties = Ok ts ->
  if b then l <> [] -> exists f rest, runs l ties = f :: rest /\ f <> [] /\
                                      ts = tie_tail f ++ flat_map group_toks rest
  else ts = flat_map group_toks (runs l ties).
Proof.
  induction l as [|x l IH]; intros ties b ts H.
  - destruct b; [intro Hne; now elim Hne|]. cbn [write_from] in H. injection H as <-. reflexivity.
  - destruct ties as [|t ties]; [discriminate|].
    destruct l as [|y l'].
    + rewrite write_from_last in H. injection H as <-. destruct b.
      * intros _. exists [x], []. destruct t; (split; [reflexivity|split; [discriminate|reflexivity]]).
      * destruct t; reflexivity.
    + rewrite write_from_more in H. rewrite runs_more.
      assert (Hne' : y :: l' <> []) by discriminate.
      destruct b, t; cbn [negb andb] in H.
      * destruct (write_from true (y :: l') ties) as [ts'|] eqn:E; [|discriminate].
        cbn [bind] in H. injection H as <-. intros _.
        destruct (IH ties true ts' E Hne') as (f & rest & Er & Hf & ->). rewrite Er.
        exists (x :: f), rest. split; [reflexivity|]. split; [discriminate|].
        now rewrite tie_tail_cons by assumption.
      * destruct (write_from false (y :: l') ties) as [ts'|] eqn:E; [|discriminate].
        cbn [bind] in H. injection H as <-. intros _.
        pose proof (IH ties false ts' E) as ->.
        exists [x], (runs (y :: l') ties). split; [reflexivity|]. split; [discriminate|reflexivity].
      * destruct (write_from true (y :: l') ties) as [ts'|] eqn:E; [|discriminate].
        cbn [bind] in H. injection H as <-.
        destruct (IH ties true ts' E Hne') as (f & rest & Er & Hf & ->). rewrite Er.
        cbn [flat_map]. rewrite group_toks_cons by assumption. reflexivity.
      * destruct (write_from false (y :: l') ties) as [ts'|] eqn:E; [|discriminate].
        cbn [bind] in H. injection H as <-.
        pose proof (IH ties false ts' E) as ->. reflexivity.
Qed.

Lemma pref_string_runs : forall l t p, pref_string l t = Ok p -> p = join SP (plist_tokens (runs l t)).
Proof.
  intros l t p H. unfold pref_string, write_strings, write in H.
  destruct (write_from false l t) as [ts|] eqn:E; [|discriminate]. cbn [bind] in H. injection H as <-.
  rewrite plist_tokens_render. now rewrite (write_from_toks l t false ts E).
Qed.

Lemma pref_string_total : forall l t, length t = length l -> exists p, pref_string l t = Ok p.
Proof.
  intros l t H. destruct (write_from_ok l t false H) as [ts [E _]].
  unfold pref_string, write_strings, write. rewrite E. cbn [bind]. eexists. reflexivity.
Qed.
