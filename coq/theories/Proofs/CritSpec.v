(* The primitive stages the code runs for a criterion are the documented objectives of Spec/Optimum.v. *)
From MP Require Import LP.Canon Corr.LPMon.
From Coq Require Import Lia.
Local Open Scope list_scope.
Open Scope Z_scope.

Definition same_objective (a b : objective) : Prop :=
  ob_max a = ob_max b /\ forall m, ob_meas a m = ob_meas b m.

Lemma Forall2_map_same {A} (f g : A -> objective) (l : list A) :
  (forall x, In x l -> same_objective (f x) (g x)) -> Forall2 same_objective (map f l) (map g l).
Proof.
  induction l as [|x l IH]; intro H; [constructor|].
  cbn [map]. constructor; [apply H; now left|apply IH; intros y Hy; apply H; now right].
Qed.

Theorem expand_is_documented : forall M c,
  Forall2 same_objective (map (prim_objective_spec M) (expand M c)) (stages_of M (criterion_of M c)).
Proof.
  intros M [k args]. unfold expand, criterion_of, stages_of. cbn [fst snd].
  destruct k; cbn [map].
  - constructor; [split; [reflexivity|intro m; reflexivity]|constructor].
  - constructor; [split; [reflexivity|intro m; reflexivity]|constructor].
  - rewrite map_map.
    replace (Z.max 0 (arg args 0 1 - 1) + 1) with (Z.max 1 (arg args 0 1)) by lia.
    replace (Z.to_nat (max_rank M - Z.max 0 (arg args 0 1 - 1)))
      with (Z.to_nat (max_rank M - Z.max 1 (arg args 0 1) + 1)) by lia.
    apply Forall2_map_same. intros r _. split; [reflexivity|intro m; reflexivity].
  - rewrite map_map.
    replace (Z.to_nat (Z.min (arg args 0 (max_rank M) + 1) (max_rank M + 1) - 1))
      with (Z.to_nat (Z.min (arg args 0 (max_rank M)) (max_rank M))) by lia.
    apply Forall2_map_same. intros r _. split; [reflexivity|intro m; reflexivity].
  - constructor; [split; [reflexivity|intro m; reflexivity]|constructor].
  - constructor; [split; [reflexivity|intro m; reflexivity]|constructor].
  - constructor; [split; [reflexivity|intro m; reflexivity]|constructor].
  - constructor; [split; [reflexivity|intro m; reflexivity]|constructor].
  - constructor; [split; [reflexivity|intro m; reflexivity]|constructor].
Qed.
