(* The alpha/beta/gamma stability encoding (LP_Solver.stability_constraints) admits exactly the stable
   matchings: soundness for every 0/1 point, completeness through the canonical assignment of Canon.v. *)
From MP Require Import LP.Canon Proofs.LPSound.
From Coq Require Import Lia ZArith Bool List.
Import ListNotations.
Local Open Scope list_scope. Open Scope Z_scope.

Definition binary_ab (v : assignment) : Prop :=
  forall s p, (v (Alpha s p) = 0 \/ v (Alpha s p) = 1) /\ (v (Beta s p) = 0 \/ v (Beta s p) = 1).

Local Notation nz v := (fun q : pair => negb (v (X (st q) (pr q)) =? 0)).

(* ---- generic list facts --------------------------------------------------------- *)

Lemma filter_filter : forall A (f g : A -> bool) l,
  filter g (filter f l) = filter (fun x => f x && g x) l.
Proof.
  intros A f g. induction l as [|a l IH].
  - reflexivity.
  - cbn [filter]. destruct (f a) eqn:Ef.
    + cbn [filter andb]. destruct (g a); rewrite IH; reflexivity.
    + cbn [andb]. exact IH.
Qed.

Lemma filter_nil : forall A (f : A -> bool) l,
  (forall x, In x l -> f x = false) -> filter f l = [].
Proof.
  intros A f. induction l as [|a l IH]; intros H.
  - reflexivity.
  - cbn [filter]. rewrite (H a (or_introl eq_refl)). apply IH.
    intros x Hx. apply H. right. exact Hx.
Qed.

Lemma filter_all : forall A (f : A -> bool) l,
  (forall x, In x l -> f x = true) -> filter f l = l.
Proof.
  intros A f. induction l as [|a l IH]; intros H.
  - reflexivity.
  - cbn [filter]. rewrite (H a (or_introl eq_refl)). f_equal. apply IH.
    intros x Hx. apply H. right. exact Hx.
Qed.

Lemma zlen_filter_ge1 : forall A (f : A -> bool) l x,
  In x l -> f x = true -> 1 <= zlen (filter f l).
Proof.
  intros A f. induction l as [|a l IH]; intros x Hin Hf.
  - destruct Hin.
  - cbn [filter]. destruct Hin as [Hin|Hin].
    + subst a. rewrite Hf. rewrite zlen_cons. pose proof (zlen_nonneg _ (filter f l)). lia.
    + specialize (IH x Hin Hf). destruct (f a).
      * rewrite zlen_cons. lia.
      * exact IH.
Qed.

Lemma countb_and_le : forall A (f g : A -> bool) l,
  countb (fun x => f x && g x) l <= countb f l.
Proof.
  intros A f g. unfold countb. induction l as [|a l IH].
  - cbn. lia.
  - cbn [filter]. destruct (f a); cbn [andb].
    + destruct (g a); rewrite ?zlen_cons; lia.
    + exact IH.
Qed.

Lemma countb_sub : forall A (f g : A -> bool) l,
  countb f l <= countb (fun x => f x && g x) l ->
  forall x, In x l -> f x = true -> g x = true.
Proof.
  intros A f g. induction l as [|a l IH]; intros H x Hin Hf.
  - destruct Hin.
  - pose proof (countb_and_le A f g l) as Hle.
    unfold countb in *. cbn [filter] in H.
    destruct (f a) eqn:Efa; cbn [andb] in H.
    + destruct (g a) eqn:Ega.
      * rewrite !zlen_cons in H.
        destruct Hin as [Hin|Hin]; [subst a; exact Ega|].
        apply IH; [lia|exact Hin|exact Hf].
      * rewrite zlen_cons in H. exfalso. lia.
    + destruct Hin as [Hin|Hin]; [subst a; rewrite Hf in Efa; discriminate|].
      apply IH; [exact H|exact Hin|exact Hf].
Qed.

Lemma countb_ext_in : forall A (f g : A -> bool) l,
  (forall x, In x l -> f x = g x) -> countb f l = countb g l.
Proof.
  intros A f g l H. unfold countb. rewrite (filter_ext_in f g l H). reflexivity.
Qed.

Lemma In_seqZ : forall n a k, In k (seqZ a n) <-> a <= k < a + Z.of_nat n.
Proof.
  induction n as [|n IH]; intros a k.
  - cbn [seqZ In]. lia.
  - cbn [seqZ In]. rewrite IH. lia.
Qed.

(* ---- mapM ------------------------------------------------------------------------- *)

Lemma mapM_In : forall A B (f : A -> result B) l ys x,
  mapM f l = Ok ys -> In x l -> exists y, f x = Ok y /\ In y ys.
Proof.
  intros A B f. induction l as [|a l IH]; intros ys x H Hin.
  - destruct Hin.
  - cbn [mapM] in H. unfold bind in H.
    destruct (f a) as [y|e] eqn:Ea; [|discriminate].
    destruct (mapM f l) as [ys'|e] eqn:El; [|discriminate].
    inversion H; subst ys.
    destruct Hin as [Hin|Hin].
    + subst a. exists y. split; [exact Ea|left; reflexivity].
    + destruct (IH ys' x eq_refl Hin) as [y' [H1 H2]].
      exists y'. split; [exact H1|right; exact H2].
Qed.

Lemma mapM_In_inv : forall A B (f : A -> result B) l ys y,
  mapM f l = Ok ys -> In y ys -> exists x, In x l /\ f x = Ok y.
Proof.
  intros A B f. induction l as [|a l IH]; intros ys y H Hin.
  - cbn [mapM] in H. inversion H; subst ys. destruct Hin.
  - cbn [mapM] in H. unfold bind in H.
    destruct (f a) as [y0|e] eqn:Ea; [|discriminate].
    destruct (mapM f l) as [ys'|e] eqn:El; [|discriminate].
    inversion H; subst ys.
    destruct Hin as [Hin|Hin].
    + subst y0. exists a. split; [left; reflexivity|exact Ea].
    + destruct (IH ys' y eq_refl Hin) as [x [H1 H2]].
      exists x. split; [right; exact H1|exact H2].
Qed.

Lemma mapM_total : forall A B (f : A -> result B) l,
  (forall x, In x l -> exists y, f x = Ok y) -> exists ys, mapM f l = Ok ys.
Proof.
  intros A B f. induction l as [|a l IH]; intros H.
  - exists []. reflexivity.
  - destruct (H a (or_introl eq_refl)) as [y Hy].
    destruct IH as [ys Hys]. { intros x Hx. apply H. right. exact Hx. }
    exists (y :: ys). cbn [mapM]. unfold bind. rewrite Hy, Hys. reflexivity.
Qed.

(* ---- evaluation ------------------------------------------------------------------- *)

Lemma eval_cons : forall v c x l, eval v ((c, x) :: l) = c * v x + eval v l.
Proof. intros. unfold eval. cbn [map fst snd]. rewrite sumZ_cons. reflexivity. Qed.

Lemma eval_neg_xs : forall v (l : list pair),
  eval v (map (fun w => (-1, X (st w) (pr w))) l) = - eval v (xs l).
Proof.
  intros v. induction l as [|a l IH].
  - reflexivity.
  - unfold xs in *. cbn [map]. rewrite !eval_cons, IH. lia.
Qed.

Lemma eval_filter_countb : forall (v : assignment) (g : pair -> bool) l,
  binary v -> eval v (xs (filter g l)) = countb g (filter (nz v) l).
Proof.
  intros v g l Hb. rewrite eval_xs, sum_filter_ind.
  rewrite (sum_filter_nz v (fun q => if g q then 1 else 0) l Hb).
  apply sum_ind_countb.
Qed.

(* ---- well-formedness facts -------------------------------------------------------- *)

Lemma wf_facts : forall M, wf M = true ->
  zlen (p_lec M) = nP M /\
  forallb (fun k => (1 <=? k) && (k <=? nL M)) (p_lec M) = true /\
  rows_ok M 1 (pairs M) = true /\
  forallb (lec_ranks_ok M) (seqZ 1 (Z.to_nat (nL M))) = true.
Proof.
  intros M H. unfold wf in H.
  apply andb_true_iff in H. destruct H as [H W17].
  apply andb_true_iff in H. destruct H as [H W16].
  apply andb_true_iff in H. destruct H as [H W15].
  apply andb_true_iff in H. destruct H as [H W14].
  apply andb_true_iff in H. destruct H as [H W13].
  apply andb_true_iff in H. destruct H as [H W12].
  apply andb_true_iff in H. destruct H as [H W11].
  apply andb_true_iff in H. destruct H as [H W10].
  apply andb_true_iff in H. destruct H as [H W9].
  apply andb_true_iff in H. destruct H as [H W8].
  apply andb_true_iff in H. destruct H as [H W7].
  apply Z.eqb_eq in W7.
  repeat split; assumption.
Qed.

Lemma rows_ok_nth : forall M rows i n row,
  rows_ok M i rows = true -> nth_error rows n = Some row ->
  row_ok M (i + Z.of_nat n) row = true.
Proof.
  intros M. induction rows as [|r t IH]; intros i n row H Hn.
  - destruct n; discriminate.
  - cbn [rows_ok] in H. apply andb_true_iff in H. destruct H as [Hr Ht].
    destruct n as [|n].
    + cbn [nth_error] in Hn. inversion Hn; subst r.
      replace (i + Z.of_nat 0) with i by lia. exact Hr.
    + cbn [nth_error] in Hn.
      replace (i + Z.of_nat (S n)) with (i + 1 + Z.of_nat n) by lia.
      apply IH; assumption.
Qed.

Lemma row_ok_facts : forall M i row, row_ok M i row = true ->
  (forall q, In q row -> st q = i /\ 1 <= pr q <= nP M /\ lec q = nth1 (p_lec M) (pr q) 0) /\
  nodupZ (map pr row) = true /\ dense_ranks (map rs row) = true.
Proof.
  intros M i row H. unfold row_ok in H.
  apply andb_true_iff in H. destruct H as [H Hd].
  apply andb_true_iff in H. destruct H as [Hall Hnd].
  split; [|split; assumption].
  intros q Hq. rewrite forallb_forall in Hall. specialize (Hall q Hq).
  apply andb_true_iff in Hall. destruct Hall as [Hall H4].
  apply andb_true_iff in Hall. destruct Hall as [Hall H3].
  apply andb_true_iff in Hall. destruct Hall as [H1 H2].
  apply Z.eqb_eq in H1. apply Z.leb_le in H2. apply Z.leb_le in H3. apply Z.eqb_eq in H4.
  repeat split; assumption.
Qed.

(* every pair sits in the row of its student *)
Lemma pair_ctx : forall M q, wf M = true -> In q (all_pairs M) ->
  exists n row, nth_error (pairs M) n = Some row /\ In q row /\
                st q = 1 + Z.of_nat n /\ row_ok M (st q) row = true.
Proof.
  intros M q Hwf Hq. unfold all_pairs in Hq. apply in_concat in Hq.
  destruct Hq as [row [Hrow Hin]].
  apply In_nth_error in Hrow. destruct Hrow as [n Hn].
  destruct (wf_facts M Hwf) as [_ [_ [Hrows _]]].
  pose proof (rows_ok_nth M (pairs M) 1 n row Hrows Hn) as Hok.
  destruct (row_ok_facts M _ row Hok) as [Hf _].
  destruct (Hf q Hin) as [Hst _].
  exists n, row. rewrite Hst. repeat split; assumption.
Qed.

Lemma row_in_all : forall M n row q,
  nth_error (pairs M) n = Some row -> In q row -> In q (all_pairs M).
Proof.
  intros M n row q Hn Hq. unfold all_pairs. apply in_concat.
  exists row. split; [|exact Hq]. apply nth_error_In with n. exact Hn.
Qed.

Lemma same_row : forall M a n row, wf M = true -> In a (all_pairs M) ->
  nth_error (pairs M) n = Some row -> st a = 1 + Z.of_nat n -> In a row.
Proof.
  intros M a n row Hwf Ha Hn Hst.
  destruct (pair_ctx M a Hwf Ha) as [n' [row' [Hn' [Hin [Hst' _]]]]].
  assert (n' = n) by lia. subst n'. rewrite Hn in Hn'. inversion Hn'; subst row'. exact Hin.
Qed.

Lemma pair_lec : forall M q, wf M = true -> In q (all_pairs M) ->
  1 <= pr q <= nP M /\ lec q = nth1 (p_lec M) (pr q) 0.
Proof.
  intros M q Hwf Hq.
  destruct (pair_ctx M q Hwf Hq) as [n [row [_ [Hin [_ Hok]]]]].
  destruct (row_ok_facts M _ row Hok) as [Hf _].
  destruct (Hf q Hin) as [_ [H1 H2]]. split; assumption.
Qed.

Lemma same_proj_same_lec : forall M a b, wf M = true ->
  In a (all_pairs M) -> In b (all_pairs M) -> pr a = pr b -> lec a = lec b.
Proof.
  intros M a b Hwf Ha Hb E.
  destruct (pair_lec M a Hwf Ha) as [_ H1]. destruct (pair_lec M b Hwf Hb) as [_ H2].
  rewrite H1, H2, E. reflexivity.
Qed.

Lemma proj_in_ids : forall M q, wf M = true -> In q (all_pairs M) -> In (pr q) (proj_ids M).
Proof.
  intros M q Hwf Hq. destruct (pair_lec M q Hwf Hq) as [H _].
  unfold proj_ids. apply In_seqZ. lia.
Qed.

Lemma lec_in_ids : forall M q, wf M = true -> In q (all_pairs M) -> In (lec q) (lec_ids M).
Proof.
  intros M q Hwf Hq. destruct (pair_lec M q Hwf Hq) as [Hp Hl].
  destruct (wf_facts M Hwf) as [Hlen [Hrng _]].
  unfold lec_ids. apply In_seqZ.
  rewrite forallb_forall in Hrng.
  assert (Hin : In (lec q) (p_lec M)).
  { rewrite Hl. unfold nth1. destruct (pr q <=? 0) eqn:E; [apply Z.leb_le in E; lia|].
    apply nth_In. unfold zlen in Hlen. lia. }
  specialize (Hrng _ Hin). apply andb_true_iff in Hrng. destruct Hrng as [H1 H2].
  apply Z.leb_le in H1. apply Z.leb_le in H2. lia.
Qed.

Lemma rl_pos : forall M q r, wf M = true -> In q (all_pairs M) -> rl q = Some r -> 1 <= r.
Proof.
  intros M q r Hwf Hq Hr.
  pose proof (lec_in_ids M q Hwf Hq) as Hk. unfold lec_ids in Hk.
  destruct (wf_facts M Hwf) as [_ [_ [_ Hlr]]].
  rewrite forallb_forall in Hlr. specialize (Hlr _ Hk).
  unfold lec_ranks_ok in Hlr. apply andb_true_iff in Hlr. destruct Hlr as [_ H2].
  rewrite forallb_forall in H2.
  assert (Hin : In q (lecturer_list M (lec q))).
  { unfold lecturer_list. apply filter_In. split; [exact Hq|apply Z.eqb_refl]. }
  specialize (H2 q Hin). rewrite Hr in H2.
  apply andb_true_iff in H2. destruct H2 as [H2 _]. apply Z.leb_le in H2. exact H2.
Qed.

Lemma two_sided_rl : forall M q, two_sided M = true -> In q (all_pairs M) -> exists r, rl q = Some r.
Proof.
  intros M q H Hq. unfold two_sided in H. rewrite forallb_forall in H. specialize (H q Hq).
  destruct (rl q) as [r|]; [exists r; reflexivity|discriminate].
Qed.

(* ---- the matched pairs and the assigned pair --------------------------------------- *)

Lemma matched_rows_In : forall M rows m i a,
  rows_ok M i rows = true -> In a (matched_rows rows m) ->
  exists n row p, nth_error rows n = Some row /\ nth_error m n = Some p /\
                  (if p =? 0 then None else find_pair row p) = Some a /\ st a = i + Z.of_nat n.
Proof.
  intros M. induction rows as [|row rows IH]; intros m i a Hok Hin.
  - destruct Hin.
  - destruct m as [|p m]; [destruct Hin|].
    cbn [rows_ok] in Hok. apply andb_true_iff in Hok. destruct Hok as [Hr Ht].
    cbn [matched_rows] in Hin.
    assert (Hrest : In a (matched_rows rows m) ->
      exists n row0 p0, nth_error (row :: rows) n = Some row0 /\ nth_error (p :: m) n = Some p0 /\
        (if p0 =? 0 then None else find_pair row0 p0) = Some a /\ st a = i + Z.of_nat n).
    { intros Hin'. destruct (IH m (i + 1) a Ht Hin') as [n [row0 [p0 [H1 [H2 [H3 H4]]]]]].
      exists (S n), row0, p0. cbn [nth_error]. repeat split; try assumption. lia. }
    destruct (if p =? 0 then None else find_pair row p) as [c|] eqn:E.
    + destruct Hin as [Hin|Hin]; [|exact (Hrest Hin)].
      subst c. exists O, row, p. cbn [nth_error]. repeat split; try assumption.
      destruct (p =? 0); [discriminate|]. unfold find_pair in E. apply find_some in E.
      destruct E as [Ha _]. destruct (row_ok_facts M i row Hr) as [Hf _].
      destruct (Hf a Ha) as [Hst _]. lia.
    + exact (Hrest Hin).
Qed.

Lemma matched_rows_intro : forall rows m n row p a,
  nth_error rows n = Some row -> nth_error m n = Some p ->
  (if p =? 0 then None else find_pair row p) = Some a -> In a (matched_rows rows m).
Proof.
  induction rows as [|r rows IH]; intros m n row p a H1 H2 H3.
  - destruct n; discriminate.
  - destruct m as [|p0 m]; [destruct n; discriminate|].
    cbn [matched_rows]. destruct n as [|n].
    + cbn [nth_error] in H1, H2. inversion H1; subst r. inversion H2; subst p0.
      rewrite H3. left. reflexivity.
    + cbn [nth_error] in H1, H2. specialize (IH m n row p a H1 H2 H3).
      destruct (if p0 =? 0 then None else find_pair r p0); [right|]; exact IH.
Qed.

Lemma matched_assigned : forall M m a, wf M = true ->
  In a (matched M m) -> assigned_pair M m (st a) = Some a /\ In a (all_pairs M).
Proof.
  intros M m a Hwf Hin. destruct (wf_facts M Hwf) as [_ [_ [Hrows _]]].
  destruct (matched_rows_In M (pairs M) m 1 a Hrows Hin) as [n [row [p [H1 [H2 [H3 H4]]]]]].
  split.
  - unfold assigned_pair. replace (Z.to_nat (st a - 1)) with n by lia.
    rewrite H1, H2. exact H3.
  - apply (row_in_all M n row a H1).
    destruct (p =? 0); [discriminate|]. unfold find_pair in H3. apply find_some in H3. tauto.
Qed.

Lemma assigned_matched : forall M m q c, wf M = true -> In q (all_pairs M) ->
  assigned_pair M m (st q) = Some c ->
  In c (matched M m) /\ st c = st q /\ In c (all_pairs M) /\ pr c <> 0 /\
  forall n row, nth_error (pairs M) n = Some row -> st q = 1 + Z.of_nat n -> In c row.
Proof.
  intros M m q c Hwf Hq Hc.
  destruct (pair_ctx M q Hwf Hq) as [n [row [Hn [Hin [Hst Hok]]]]].
  unfold assigned_pair in Hc. replace (Z.to_nat (st q - 1)) with n in Hc by lia.
  rewrite Hn in Hc. destruct (nth_error m n) as [p|] eqn:Hm; [|discriminate].
  assert (Hcr : In c row /\ pr c = p /\ p <> 0).
  { destruct (p =? 0) eqn:E; [discriminate|]. apply Z.eqb_neq in E.
    unfold find_pair in Hc. apply find_some in Hc. destruct Hc as [H1 H2].
    apply Z.eqb_eq in H2. tauto. }
  destruct Hcr as [Hcr [Hpc Hp0]].
  destruct (row_ok_facts M _ row Hok) as [Hf _]. destruct (Hf c Hcr) as [Hstc _].
  split; [|split; [|split; [|split]]].
  - unfold matched. apply (matched_rows_intro (pairs M) m n row p c Hn Hm Hc).
  - exact Hstc.
  - apply (row_in_all M n row c Hn Hcr).
  - lia.
  - intros n' row' Hn' Hst'. assert (n' = n) by lia. subst n'.
    rewrite Hn in Hn'. inversion Hn'; subst row'. exact Hcr.
Qed.

(* ---- worst assignee ----------------------------------------------------------------- *)

Lemma fold_max_le : forall (f : pair -> Z) l a,
  (forall x, In x l -> f x <= a) -> 0 <= a -> fold_right Z.max 0 (map f l) <= a.
Proof.
  intros f. induction l as [|x l IH]; intros a H H0.
  - cbn. exact H0.
  - cbn [map fold_right]. apply Z.max_lub.
    + apply H. left. reflexivity.
    + apply IH; [|exact H0]. intros y Hy. apply H. right. exact Hy.
Qed.

Lemma fold_max_ge : forall (f : pair -> Z) l x,
  In x l -> f x <= fold_right Z.max 0 (map f l).
Proof.
  intros f. induction l as [|y l IH]; intros x Hin.
  - destruct Hin.
  - cbn [map fold_right]. destruct Hin as [Hin|Hin].
    + subst y. apply Z.le_max_l.
    + specialize (IH x Hin). lia.
Qed.

Lemma prefers_false_of_le : forall ps a,
  (forall x, In x ps -> rl0 x <= a) -> 0 <= a -> prefers_to_worst (Some a) (worst_rank ps) = false.
Proof.
  intros ps a H H0. destruct ps as [|x ps].
  - reflexivity.
  - unfold worst_rank, prefers_to_worst. apply Z.ltb_ge.
    apply fold_max_le; assumption.
Qed.

Lemma le_of_prefers_false : forall ps a,
  prefers_to_worst (Some a) (worst_rank ps) = false -> forall x, In x ps -> rl0 x <= a.
Proof.
  intros ps a H x Hin. destruct ps as [|y ps]; [destruct Hin|].
  unfold worst_rank, prefers_to_worst in H. apply Z.ltb_ge in H.
  pose proof (fold_max_ge rl0 (y :: ps) x Hin). lia.
Qed.

(* ---- blocking pairs, in terms of the two "quota reached by no-worse others" counts ----- *)

Definition g1 (q a : pair) : bool := (rl0 a <=? rl0 q) && negb (st a =? st q).
Definition gA (q a : pair) : bool := (lec a =? lec q) && g1 q a.
Definition gB (q a : pair) : bool := gA q a && (pr a =? pr q).

Lemma countb_gB_le : forall q l, countb (gB q) l <= countb (fun a => pr a =? pr q) l.
Proof.
  intros q l.
  rewrite (countb_ext_in pair (gB q) (fun a => (pr a =? pr q) && gA q a) l).
  - apply countb_and_le.
  - intros x _. unfold gB. apply andb_comm.
Qed.

Definition c2_of (M : instance) (m : matching) (q : pair) : bool :=
  match assigned_pair M m (st q) with None => true | Some c => rs q <? rs c end.

Lemma blocking_c2 : forall M m q, blocking_b M m q = true -> c2_of M m q = true.
Proof.
  intros M m q H. unfold blocking_b in H. cbv zeta in H.
  apply andb_true_iff in H. destruct H as [H _]. exact H.
Qed.

Lemma no_block_alpha : forall M m q, wf M = true -> two_sided M = true -> In q (all_pairs M) ->
  lec_load M m (lec q) <= countb (gA q) (matched M m) ->
  nth1 (l_uq M) (lec q) 0 <= countb (gA q) (matched M m) ->
  blocking_b M m q = false.
Proof.
  intros M m q Hwf H2s Hq Hload HA.
  destruct (two_sided_rl M q H2s Hq) as [r Hr].
  pose proof (rl_pos M q r Hwf Hq Hr) as Hr1.
  assert (Hr0 : rl0 q = r) by (unfold rl0; rewrite Hr; reflexivity).
  assert (Hall : forall a, In a (matched M m) -> lec a =? lec q = true -> g1 q a = true).
  { apply (countb_sub pair (fun a => lec a =? lec q) (g1 q)).
    unfold lec_load, gA in Hload. cbv beta. exact Hload. }
  assert (Hfull : (lec_load M m (lec q) <? nth1 (l_uq M) (lec q) 0) = false).
  { apply Z.ltb_ge. unfold lec_load.
    pose proof (countb_and_le pair (fun a => lec a =? lec q) (g1 q) (matched M m)) as Hle.
    cbv beta in Hle. unfold gA in HA. lia. }
  unfold blocking_b. cbv zeta. rewrite Hfull.
  assert (HX : match assigned_pair M m (st q) with Some c => lec c =? lec q | None => false end = false).
  { destruct (assigned_pair M m (st q)) as [c|] eqn:Ec; [|reflexivity].
    destruct (assigned_matched M m q c Hwf Hq Ec) as [Hcm [Hst _]].
    destruct (lec c =? lec q) eqn:El; [|reflexivity].
    specialize (Hall c Hcm El). unfold g1 in Hall.
    apply andb_true_iff in Hall. destruct Hall as [_ Hne].
    rewrite Hst, Z.eqb_refl in Hne. discriminate. }
  assert (HY : prefers_to_worst (rl q) (worst_rank (M_of_lec M m (lec q))) = false).
  { rewrite Hr. apply prefers_false_of_le; [|lia].
    intros x Hx. unfold M_of_lec in Hx. apply filter_In in Hx. destruct Hx as [Hxm Hxl].
    specialize (Hall x Hxm Hxl). unfold g1 in Hall.
    apply andb_true_iff in Hall. destruct Hall as [Hle _]. apply Z.leb_le in Hle. lia. }
  assert (HZ : prefers_to_worst (rl q) (worst_rank (M_of_proj M m (pr q))) = false).
  { rewrite Hr. apply prefers_false_of_le; [|lia].
    intros x Hx. unfold M_of_proj in Hx. apply filter_In in Hx. destruct Hx as [Hxm Hxp].
    apply Z.eqb_eq in Hxp.
    destruct (matched_assigned M m x Hwf Hxm) as [_ Hxa].
    pose proof (same_proj_same_lec M x q Hwf Hxa Hq Hxp) as Hl.
    assert (Hxl : lec x =? lec q = true) by (apply Z.eqb_eq; exact Hl).
    specialize (Hall x Hxm Hxl). unfold g1 in Hall.
    apply andb_true_iff in Hall. destruct Hall as [Hle _]. apply Z.leb_le in Hle. lia. }
  rewrite HX, HY, HZ. apply andb_false_iff. right.
  destruct (proj_load M m (pr q) <? nth1 (p_uq M) (pr q) 0); reflexivity.
Qed.

Lemma no_block_beta : forall M m q, wf M = true -> two_sided M = true -> In q (all_pairs M) ->
  proj_load M m (pr q) <= countb (gB q) (matched M m) ->
  nth1 (p_uq M) (pr q) 0 <= countb (gB q) (matched M m) ->
  blocking_b M m q = false.
Proof.
  intros M m q Hwf H2s Hq Hload HB.
  destruct (two_sided_rl M q H2s Hq) as [r Hr].
  pose proof (rl_pos M q r Hwf Hq Hr) as Hr1.
  assert (Hr0 : rl0 q = r) by (unfold rl0; rewrite Hr; reflexivity).
  assert (Hsw : countb (gB q) (matched M m) = countb (fun a => (pr a =? pr q) && gA q a) (matched M m)).
  { apply countb_ext_in. intros x _. unfold gB. apply andb_comm. }
  assert (Hall : forall a, In a (matched M m) -> pr a =? pr q = true -> gA q a = true).
  { apply (countb_sub pair (fun a => pr a =? pr q) (gA q)).
    unfold proj_load in Hload. cbv beta. lia. }
  assert (Hfull : (proj_load M m (pr q) <? nth1 (p_uq M) (pr q) 0) = false).
  { apply Z.ltb_ge. unfold proj_load.
    pose proof (countb_and_le pair (fun a => pr a =? pr q) (gA q) (matched M m)) as Hle.
    cbv beta in Hle. lia. }
  unfold blocking_b. cbv zeta. rewrite Hfull.
  assert (HZ : prefers_to_worst (rl q) (worst_rank (M_of_proj M m (pr q))) = false).
  { rewrite Hr. apply prefers_false_of_le; [|lia].
    intros x Hx. unfold M_of_proj in Hx. apply filter_In in Hx. destruct Hx as [Hxm Hxp].
    specialize (Hall x Hxm Hxp). unfold gA, g1 in Hall.
    apply andb_true_iff in Hall. destruct Hall as [_ Hall].
    apply andb_true_iff in Hall. destruct Hall as [Hle _]. apply Z.leb_le in Hle. lia. }
  rewrite HZ. apply andb_false_iff. right. reflexivity.
Qed.

Lemma not_blocking_counts : forall M m q, wf M = true -> two_sided M = true -> In q (all_pairs M) ->
  blocking_b M m q = false -> c2_of M m q = true ->
  nth1 (l_uq M) (lec q) 0 <= countb (gA q) (matched M m) \/
  nth1 (p_uq M) (pr q) 0 <= countb (gB q) (matched M m).
Proof.
  intros M m q Hwf H2s Hq Hnb Hc2.
  destruct (two_sided_rl M q H2s Hq) as [r Hr].
  assert (Hr0 : rl0 q = r) by (unfold rl0; rewrite Hr; reflexivity).
  unfold blocking_b in Hnb. cbv zeta in Hnb. unfold c2_of in Hc2. rewrite Hc2 in Hnb.
  cbn [andb] in Hnb.
  apply orb_false_iff in Hnb. destruct Hnb as [Hnb H3c].
  apply orb_false_iff in Hnb. destruct Hnb as [H3a H3b].
  destruct (proj_load M m (pr q) <? nth1 (p_uq M) (pr q) 0) eqn:Epu.
  - (* project undersubscribed: the lecturer is full of no-worse others *)
    left. cbn [andb] in H3a, H3b. rewrite H3a in H3b. cbn [negb andb] in H3b.
    apply orb_false_iff in H3b. destruct H3b as [HX HY].
    apply Z.ltb_ge in H3a. unfold lec_load in H3a.
    rewrite Hr in HY.
    assert (E : countb (gA q) (matched M m) = countb (fun a => lec a =? lec q) (matched M m)).
    { apply countb_ext_in. intros a Ha. unfold gA.
      destruct (lec a =? lec q) eqn:El; [|reflexivity]. cbn [andb]. unfold g1.
      apply andb_true_iff. split.
      - apply Z.leb_le. rewrite Hr0.
        apply (le_of_prefers_false _ _ HY). unfold M_of_lec. apply filter_In. split; assumption.
      - apply negb_true_iff. destruct (st a =? st q) eqn:Es; [|reflexivity]. exfalso.
        apply Z.eqb_eq in Es. destruct (matched_assigned M m a Hwf Ha) as [Has _].
        rewrite Es in Has. rewrite Has in HX. rewrite El in HX. discriminate. }
    rewrite E. exact H3a.
  - (* project full: of no-worse others *)
    right. cbn [negb andb] in H3c. apply Z.ltb_ge in Epu. unfold proj_load in Epu.
    rewrite Hr in H3c.
    assert (E : countb (gB q) (matched M m) = countb (fun a => pr a =? pr q) (matched M m)).
    { apply countb_ext_in. intros a Ha. unfold gB.
      destruct (pr a =? pr q) eqn:Ep; [|apply andb_false_r]. rewrite andb_true_r.
      destruct (matched_assigned M m a Hwf Ha) as [Has Haa].
      apply Z.eqb_eq in Ep.
      unfold gA. apply andb_true_iff. split.
      { apply Z.eqb_eq. apply (same_proj_same_lec M a q Hwf Haa Hq Ep). }
      unfold g1. apply andb_true_iff. split.
      - apply Z.leb_le. rewrite Hr0.
        apply (le_of_prefers_false _ _ H3c). unfold M_of_proj. apply filter_In.
        split; [exact Ha|apply Z.eqb_eq; exact Ep].
      - apply negb_true_iff. destruct (st a =? st q) eqn:Es; [|reflexivity]. exfalso.
        apply Z.eqb_eq in Es. rewrite Es in Has. rewrite Has in Hc2. apply Z.ltb_lt in Hc2.
        destruct (pair_ctx M q Hwf Hq) as [n [row [Hn [Hin [Hst Hok]]]]].
        assert (Har : In a row) by (apply (same_row M a n row Hwf Haa Hn); lia).
        destruct (row_ok_facts M _ row Hok) as [_ [Hnd _]].
        pose proof (find_nodup row q Hnd Hin) as F1.
        pose proof (find_nodup row a Hnd Har) as F2.
        rewrite Ep in F2. rewrite F1 in F2. inversion F2; subst a. lia. }
    rewrite E. exact Epu.
Qed.

(* ---- shape of the generated constraints ---------------------------------------------- *)

Definition lk_of (M : instance) (q : pair) : list pair :=
  filter (fun lp => (rl0 lp <=? rl0 q) && negb (st lp =? st q)) (lecturer_list M (lec q)).
Definition pj_of (M : instance) (q : pair) : list pair :=
  filter (fun lp => pr lp =? pr q) (lk_of M q).

Definition c_alpha (M : instance) (q : pair) : constr :=
  mkC ((- nth1 (l_uq M) (lec q) 0, Alpha (st q) (pr q)) :: xs (lk_of M q)) GE 0.
Definition c_beta (M : instance) (q : pair) : constr :=
  mkC ((- nth1 (p_uq M) (pr q) 0, Beta (st q) (pr q)) :: xs (pj_of M q)) GE 0.
Definition c_gamma (row : list pair) (q : pair) : constr :=
  mkC (map (fun w => (-1, X (st w) (pr w))) (wants_prefix (rs q) row)
         ++ [(-1, Alpha (st q) (pr q)); (-1, Beta (st q) (pr q))]) LE (-1).

Lemma stab_pair_inv : forall M row q l3,
  stab_pair M row q = Ok l3 -> l3 = [c_alpha M q; c_beta M q; c_gamma row q].
Proof.
  intros M row q l3 H. unfold stab_pair, better_equal, bind, rl_get in H.
  destruct (rl q) as [r|] eqn:Er; [|discriminate].
  destruct (mapM _ (lecturer_list M (lec q))) as [rks|e]; [|discriminate].
  inversion H. unfold c_alpha, c_beta, c_gamma, pj_of, lk_of, rl0. rewrite Er. reflexivity.
Qed.

Lemma stab_pair_total : forall M row q, two_sided M = true -> In q (all_pairs M) ->
  exists l3, stab_pair M row q = Ok l3.
Proof.
  intros M row q H2s Hq. unfold stab_pair, better_equal, bind.
  destruct (two_sided_rl M q H2s Hq) as [r Hr]. unfold rl_get at 1. rewrite Hr.
  destruct (mapM_total pair Z rl_get (lecturer_list M (lec q))) as [rks Hrks].
  { intros x Hx. unfold lecturer_list in Hx. apply filter_In in Hx. destruct Hx as [Hx _].
    destruct (two_sided_rl M x H2s Hx) as [rx Hrx]. exists rx. unfold rl_get. rewrite Hrx. reflexivity. }
  rewrite Hrks. eexists. reflexivity.
Qed.

Definition row_constrs (M : instance) (row : list pair) : result (list constr) :=
  do cs <- mapM (stab_pair M row) row; Ok (concat cs).

Lemma stability_constrs_total : forall M, two_sided M = true -> exists cs, stability_constrs M = Ok cs.
Proof.
  intros M H2s. unfold stability_constrs.
  destruct (mapM_total (list pair) (list constr) (row_constrs M) (pairs M)) as [pr Hpr].
  { intros row Hrow. unfold row_constrs.
    destruct (mapM_total pair (list constr) (stab_pair M row) row) as [cs Hcs].
    { intros q Hq. apply stab_pair_total; [exact H2s|].
      unfold all_pairs. apply in_concat. exists row. split; assumption. }
    exists (concat cs). unfold bind. rewrite Hcs. reflexivity. }
  exists (concat pr). unfold row_constrs in Hpr. unfold bind at 1. rewrite Hpr. reflexivity.
Qed.

Lemma stab_in : forall M cs row q,
  stability_constrs M = Ok cs -> In row (pairs M) -> In q row ->
  In (c_alpha M q) cs /\ In (c_beta M q) cs /\ In (c_gamma row q) cs.
Proof.
  intros M cs row q H Hrow Hq. unfold stability_constrs in H.
  fold (row_constrs M) in H. unfold bind at 1 in H.
  destruct (mapM (row_constrs M) (pairs M)) as [per_row|e] eqn:E; [|discriminate].
  inversion H; subst cs.
  destruct (mapM_In _ _ _ _ _ row E Hrow) as [rc [Hrc Hin]].
  unfold row_constrs, bind in Hrc.
  destruct (mapM (stab_pair M row) row) as [l|e] eqn:El; [|discriminate].
  inversion Hrc; subst rc.
  destruct (mapM_In _ _ _ _ _ q El Hq) as [l3 [Hl3 Hin3]].
  apply stab_pair_inv in Hl3.
  assert (Hsub : forall c, In c l3 -> In c (concat per_row)).
  { intros c Hc. apply in_concat. exists (concat l). split; [exact Hin|].
    apply in_concat. exists l3. split; assumption. }
  subst l3. repeat split; apply Hsub; cbn [In]; tauto.
Qed.

Lemma stab_in_inv : forall M cs c,
  stability_constrs M = Ok cs -> In c cs ->
  exists row q, In row (pairs M) /\ In q row /\
                (c = c_alpha M q \/ c = c_beta M q \/ c = c_gamma row q).
Proof.
  intros M cs c H Hc. unfold stability_constrs in H.
  fold (row_constrs M) in H. unfold bind at 1 in H.
  destruct (mapM (row_constrs M) (pairs M)) as [per_row|e] eqn:E; [|discriminate].
  inversion H; subst cs.
  apply in_concat in Hc. destruct Hc as [rc [Hrc Hc]].
  destruct (mapM_In_inv _ _ _ _ _ rc E Hrc) as [row [Hrow Hrow2]].
  unfold row_constrs, bind in Hrow2.
  destruct (mapM (stab_pair M row) row) as [l|e] eqn:El; [|discriminate].
  inversion Hrow2; subst rc.
  apply in_concat in Hc. destruct Hc as [l3 [Hl3 Hc]].
  destruct (mapM_In_inv _ _ _ _ _ l3 El Hl3) as [q [Hq Hq2]].
  apply stab_pair_inv in Hq2. subst l3.
  exists row, q. split; [exact Hrow|]. split; [exact Hq|].
  cbn [In] in Hc. destruct Hc as [Hc|[Hc|[Hc|[]]]]; subst c; tauto.
Qed.

(* the two better-or-equal sums, as counts over the assigned pairs *)
Lemma eval_lk : forall M (v : assignment) q, binary v ->
  eval v (xs (lk_of M q)) = countb (gA q) (filter (nz v) (all_pairs M)).
Proof.
  intros M v q Hb. unfold lk_of, lecturer_list. rewrite filter_filter.
  rewrite (eval_filter_countb v _ (all_pairs M) Hb). reflexivity.
Qed.

Lemma eval_pj : forall M (v : assignment) q, binary v ->
  eval v (xs (pj_of M q)) = countb (gB q) (filter (nz v) (all_pairs M)).
Proof.
  intros M v q Hb. unfold pj_of, lk_of, lecturer_list. rewrite !filter_filter.
  rewrite (eval_filter_countb v _ (all_pairs M) Hb).
  apply countb_ext_in. intros x _. unfold gB, gA, g1. rewrite !andb_assoc. reflexivity.
Qed.

(* ---- the "wants to move" prefix ---------------------------------------------------------- *)

Lemma dense_from_lb : forall l r, dense_from r l = true -> forall x, In x l -> r <= x.
Proof.
  induction l as [|y l IH]; intros r H x Hin.
  - destruct Hin.
  - cbn [dense_from] in H. apply andb_true_iff in H. destruct H as [Hy Hl].
    apply orb_true_iff in Hy. rewrite !Z.eqb_eq in Hy.
    destruct Hin as [Hin|Hin].
    + subst y. lia.
    + specialize (IH y Hl x Hin). lia.
Qed.

Lemma prefix_le_sub : forall aim row w, In w (prefix_le aim row) -> In w row /\ rs w <= aim.
Proof.
  intros aim. induction row as [|a t IH]; intros w H.
  - destruct H.
  - cbn [prefix_le] in H. destruct (rs a <=? aim) eqn:E; [|destruct H].
    apply Z.leb_le in E. destruct H as [H|H].
    + subst a. split; [left; reflexivity|exact E].
    + destruct (IH w H) as [H1 H2]. split; [right; exact H1|exact H2].
Qed.

Lemma prefix_le_in : forall aim row r c,
  dense_from r (map rs row) = true -> In c row -> rs c <= aim -> In c (prefix_le aim row).
Proof.
  intros aim. induction row as [|a t IH]; intros r c Hd Hin Hle.
  - destruct Hin.
  - cbn [map dense_from] in Hd. apply andb_true_iff in Hd. destruct Hd as [_ Hd].
    cbn [prefix_le].
    assert (Ha : rs a <= aim).
    { destruct Hin as [Hin|Hin]; [subst a; exact Hle|].
      pose proof (dense_from_lb _ _ Hd (rs c) (in_map rs t c Hin)). lia. }
    apply Z.leb_le in Ha. rewrite Ha.
    destruct Hin as [Hin|Hin]; [left; exact Hin|right].
    apply (IH (rs a) c Hd Hin Hle).
Qed.

Lemma rank_ge1 : forall row q, dense_ranks (map rs row) = true -> In q row -> 1 <= rs q.
Proof.
  intros row q Hd Hq. destruct row as [|a t]; [destruct Hq|].
  cbn [map dense_ranks] in Hd. apply andb_true_iff in Hd. destruct Hd as [H1 Hd].
  apply Z.eqb_eq in H1. destruct Hq as [Hq|Hq]; [subst a; lia|].
  apply (dense_from_lb _ _ Hd (rs q) (in_map rs t q Hq)).
Qed.

Lemma wants_prefix_sub : forall row q w,
  dense_ranks (map rs row) = true -> In q row ->
  In w (wants_prefix (rs q) row) -> In w row /\ rs w <= rs q.
Proof.
  intros row q w Hd Hq Hw. pose proof (rank_ge1 row q Hd Hq) as H1.
  destruct row as [|a t]; [destruct Hq|].
  cbn [map dense_ranks] in Hd. apply andb_true_iff in Hd. destruct Hd as [Ha Hd].
  apply Z.eqb_eq in Ha.
  cbn [wants_prefix] in Hw. destruct (1 <=? rs q); [|destruct Hw].
  destruct Hw as [Hw|Hw].
  - subst a. split; [left; reflexivity|lia].
  - destruct (prefix_le_sub _ _ _ Hw) as [H2 H3]. split; [right; exact H2|exact H3].
Qed.

Lemma wants_prefix_in : forall row q c,
  dense_ranks (map rs row) = true -> In q row -> In c row -> rs c <= rs q ->
  In c (wants_prefix (rs q) row).
Proof.
  intros row q c Hd Hq Hc Hle. pose proof (rank_ge1 row q Hd Hq) as H1.
  destruct row as [|a t]; [destruct Hq|].
  cbn [map dense_ranks] in Hd. apply andb_true_iff in Hd. destruct Hd as [Ha Hd].
  cbn [wants_prefix]. apply Z.leb_le in H1. rewrite H1.
  destruct Hc as [Hc|Hc]; [left; exact Hc|right].
  apply (prefix_le_in (rs q) t 1 c Hd Hc Hle).
Qed.

Lemma sat_GE : forall v l r, sat v (mkC l GE r) = true -> r <= eval v l.
Proof. intros v l r H. unfold sat in H. cbn [c_rel c_lhs c_rhs] in H. apply Z.leb_le. exact H. Qed.

Lemma sat_LE : forall v l r, sat v (mkC l LE r) = true -> eval v l <= r.
Proof. intros v l r H. unfold sat in H. cbn [c_rel c_lhs c_rhs] in H. apply Z.leb_le. exact H. Qed.

Lemma eval_gamma : forall v row q,
  eval v (c_lhs (c_gamma row q)) =
  - eval v (xs (wants_prefix (rs q) row)) - v (Alpha (st q) (pr q)) - v (Beta (st q) (pr q)).
Proof.
  intros v row q. unfold c_gamma. cbn [c_lhs].
  rewrite eval_app, eval_neg_xs, eval_cons, eval_single. lia.
Qed.

(* ---- soundness ---------------------------------------------------------------------------- *)

Theorem stab_sound : forall (M : instance) (pc : bool) (v : assignment) (cs : list constr),
  wf M = true -> two_sided M = true -> binary v -> binary_ab v ->
  all_sat v (upper_lower pc M) -> stability_constrs M = Ok cs -> all_sat v cs ->
  stable_b M (matching_of M v) = true.
Proof.
  intros M pc v cs Hwf H2s Hb Hab Hul Hcs Hsat.
  pose proof (lp_sound M pc v Hwf Hb Hul) as Hval.
  pose proof Hul as Hul'. unfold upper_lower in Hul'.
  apply all_sat_app in Hul'. destruct Hul' as [Hs _].
  pose proof (assigned_is_matched M v Hwf Hb Hs) as Hmat.
  set (m := matching_of M v) in *.
  unfold stable_b, exists_blocking_b. apply negb_true_iff.
  destruct (existsb (blocking_b M m) (all_pairs M)) eqn:Eex; [exfalso|reflexivity].
  apply existsb_exists in Eex. destruct Eex as [q [Hq Hblk]].
  pose proof (blocking_c2 M m q Hblk) as Hc2.
  destruct (pair_ctx M q Hwf Hq) as [n [row [Hn [Hin [Hst Hok]]]]].
  destruct (row_ok_facts M _ row Hok) as [Hf [Hnd Hdense]].
  assert (Hrow : In row (pairs M)) by (apply nth_error_In with n; exact Hn).
  destruct (stab_in M cs row q Hcs Hrow Hin) as [Ca [Cb Cg]].
  unfold all_sat in Hsat. rewrite forallb_forall in Hsat.
  pose proof (Hsat _ Ca) as Sa. pose proof (Hsat _ Cb) as Sb. pose proof (Hsat _ Cg) as Sg.
  (* upper quotas *)
  unfold valid_b in Hval. apply andb_true_iff in Hval. destruct Hval as [Hval Hlec].
  apply andb_true_iff in Hval. destruct Hval as [_ Hproj].
  rewrite forallb_forall in Hlec, Hproj.
  (* the prefix sum vanishes *)
  assert (Hpre : eval v (xs (wants_prefix (rs q) row)) = 0).
  { rewrite (filter_nz_len v _ Hb).
    rewrite filter_nil; [reflexivity|].
    intros w Hw. destruct (wants_prefix_sub row q w Hdense Hin Hw) as [Hwr Hwle].
    destruct (negb (v (X (st w) (pr w)) =? 0)) eqn:Enz; [exfalso|reflexivity].
    assert (Hwm : In w (matched M m)).
    { rewrite <- Hmat. apply filter_In. split; [apply (row_in_all M n row w Hn Hwr)|exact Enz]. }
    destruct (matched_assigned M m w Hwf Hwm) as [Has _].
    destruct (Hf w Hwr) as [Hstw _]. rewrite Hstw in Has.
    unfold c2_of in Hc2. rewrite Has in Hc2. apply Z.ltb_lt in Hc2. lia. }
  unfold c_gamma in Sg. apply sat_LE in Sg.
  change (eval v (c_lhs (c_gamma row q)) <= -1) in Sg.
  rewrite eval_gamma, Hpre in Sg.
  destruct (Hab (st q) (pr q)) as [[Ea|Ea] [Eb|Eb]].
  - lia.
  - (* beta = 1 *)
    unfold c_beta in Sb. apply sat_GE in Sb. rewrite eval_cons, Eb, (eval_pj M v q Hb), Hmat in Sb.
    assert (Hblk' : blocking_b M m q = false).
    { apply no_block_beta; try assumption; [|lia].
      specialize (Hproj _ (proj_in_ids M q Hwf Hq)). unfold proj_ok in Hproj.
      apply orb_true_iff in Hproj. destruct Hproj as [Hp|Hp].
      - apply andb_true_iff in Hp. destruct Hp as [_ Hp]. apply Z.leb_le in Hp. lia.
      - apply andb_true_iff in Hp. destruct Hp as [_ Hp]. apply Z.eqb_eq in Hp.
        pose proof (countb_nonneg _ (gB q) (matched M m)). lia. }
    rewrite Hblk in Hblk'. discriminate.
  - (* alpha = 1 *)
    unfold c_alpha in Sa. apply sat_GE in Sa. rewrite eval_cons, Ea, (eval_lk M v q Hb), Hmat in Sa.
    assert (Hblk' : blocking_b M m q = false).
    { apply no_block_alpha; try assumption; [|lia].
      specialize (Hlec _ (lec_in_ids M q Hwf Hq)). unfold lec_ok in Hlec.
      apply andb_true_iff in Hlec. destruct Hlec as [_ Hl]. apply Z.leb_le in Hl. lia. }
    rewrite Hblk in Hblk'. discriminate.
  - unfold c_alpha in Sa. apply sat_GE in Sa. rewrite eval_cons, Ea, (eval_lk M v q Hb), Hmat in Sa.
    assert (Hblk' : blocking_b M m q = false).
    { apply no_block_alpha; try assumption; [|lia].
      specialize (Hlec _ (lec_in_ids M q Hwf Hq)). unfold lec_ok in Hlec.
      apply andb_true_iff in Hlec. destruct Hlec as [_ Hl]. apply Z.leb_le in Hl. lia. }
    rewrite Hblk in Hblk'. discriminate.
Qed.

(* ---- the canonical assignment ------------------------------------------------------------- *)

Lemma canon_row_nz : forall row p,
  nodupZ (map pr row) = true -> (forall q, In q row -> 1 <= pr q) ->
  filter (fun q => negb (pr q =? 0) && (p =? pr q)) row =
  match (if p =? 0 then None else find_pair row p) with Some c => [c] | None => [] end.
Proof.
  intros row p Hnd Hpr. destruct (p =? 0) eqn:Ep0.
  - apply Z.eqb_eq in Ep0. apply filter_nil. intros x Hx. specialize (Hpr x Hx).
    apply andb_false_iff. right. apply Z.eqb_neq. lia.
  - apply Z.eqb_neq in Ep0. unfold find_pair.
    induction row as [|a t IH].
    + reflexivity.
    + cbn [map nodupZ] in Hnd. apply andb_true_iff in Hnd. destruct Hnd as [Hmem Hnd].
      apply negb_true_iff in Hmem.
      assert (Ha : 1 <= pr a) by (apply Hpr; left; reflexivity).
      cbn [filter find]. rewrite (Z.eqb_sym (pr a) p).
      destruct (pr a =? 0) eqn:Ea0; [apply Z.eqb_eq in Ea0; lia|]. cbn [negb andb].
      destruct (p =? pr a) eqn:Epa.
      * apply Z.eqb_eq in Epa. f_equal. apply filter_nil. intros x Hx.
        apply andb_false_iff. right. apply Z.eqb_neq. intros Hc.
        assert (Hm : memZ (pr a) (map pr t) = true).
        { unfold memZ. apply existsb_exists. exists (pr x). split.
          - apply in_map. exact Hx.
          - apply Z.eqb_eq. lia. }
        rewrite Hm in Hmem. discriminate.
      * apply IH; [exact Hnd|]. intros x Hx. apply Hpr. right. exact Hx.
Qed.

Lemma acceptable_len : forall rows m, acceptable_rows rows m = true -> length rows = length m.
Proof.
  induction rows as [|r rows IH]; intros m H.
  - destruct m; [reflexivity|discriminate].
  - destruct m as [|p m]; [discriminate|]. cbn [acceptable_rows] in H.
    apply andb_true_iff in H. destruct H as [_ H]. cbn [length]. f_equal. apply IH. exact H.
Qed.

Lemma matched_rows_canon : forall M rows m i (ch : Z -> Z),
  rows_ok M i rows = true -> length rows = length m ->
  (forall j, (j < length m)%nat -> ch (i + Z.of_nat j) = nth j m 0) ->
  matched_rows rows m = filter (fun q => negb (pr q =? 0) && (ch (st q) =? pr q)) (concat rows).
Proof.
  intros M. induction rows as [|row rows IH]; intros m i ch Hok Hlen Hch.
  - reflexivity.
  - destruct m as [|p m]; [discriminate|].
    cbn [rows_ok] in Hok. apply andb_true_iff in Hok. destruct Hok as [Hr Ht].
    destruct (row_ok_facts M i row Hr) as [Hf [Hnd _]].
    cbn [matched_rows concat]. rewrite filter_app.
    assert (Hp : ch i = p).
    { specialize (Hch O). cbn [length nth] in Hch. replace (i + Z.of_nat 0) with i in Hch by lia.
      apply Hch. lia. }
    rewrite (filter_ext_in (fun q => negb (pr q =? 0) && (ch (st q) =? pr q))
                           (fun q => negb (pr q =? 0) && (p =? pr q)) row).
    2:{ intros a Ha. destruct (Hf a Ha) as [Hst _]. rewrite Hst, Hp. reflexivity. }
    rewrite (canon_row_nz row p Hnd).
    2:{ intros a Ha. destruct (Hf a Ha) as [_ [Hpa _]]. lia. }
    assert (Hrest : matched_rows rows m =
                    filter (fun q => negb (pr q =? 0) && (ch (st q) =? pr q)) (concat rows)).
    { apply (IH m (i + 1) ch Ht).
      - cbn [length] in Hlen. lia.
      - intros j Hj. specialize (Hch (S j)). cbn [length nth] in Hch.
        replace (i + 1 + Z.of_nat j) with (i + Z.of_nat (S j)) by lia. apply Hch. lia. }
    destruct (if p =? 0 then None else find_pair row p); rewrite Hrest; reflexivity.
Qed.

Lemma nz_canon : forall M prims m q,
  negb (canon M prims m (X (st q) (pr q)) =? 0) = negb (pr q =? 0) && (nth1 m (st q) 0 =? pr q).
Proof.
  intros M prims m q. cbn [canon]. unfold x_val.
  destruct (negb (pr q =? 0) && (nth1 m (st q) 0 =? pr q)); reflexivity.
Qed.

Lemma canon_matched : forall M prims m, wf M = true -> acceptable_rows (pairs M) m = true ->
  filter (nz (canon M prims m)) (all_pairs M) = matched M m.
Proof.
  intros M prims m Hwf Hacc. destruct (wf_facts M Hwf) as [_ [_ [Hrows _]]].
  unfold matched.
  rewrite (matched_rows_canon M (pairs M) m 1 (fun s => nth1 m s 0) Hrows (acceptable_len _ _ Hacc)).
  - unfold all_pairs. apply filter_ext. intros q. apply nz_canon.
  - intros j Hj. unfold nth1. destruct (1 + Z.of_nat j <=? 0) eqn:E; [apply Z.leb_le in E; lia|].
    replace (Z.to_nat (1 + Z.of_nat j - 1)) with j by lia. reflexivity.
Qed.

Lemma canon_binary : forall M prims m, binary (canon M prims m).
Proof.
  intros M prims m. split.
  - intros s p. cbn [canon]. unfold x_val.
    destruct (negb (p =? 0) && (nth1 m s 0 =? p)); [right|left]; reflexivity.
  - intros j. cbn [canon]. destruct (proj_load M m j =? 0); [right|left]; reflexivity.
Qed.

Lemma canon_binary_ab : forall M prims m, binary_ab (canon M prims m).
Proof.
  intros M prims m s p. cbn [canon]. unfold alpha_val, beta_val. split.
  - destruct (lec_of_pair M s p) as [q|]; [|left; reflexivity].
    cbv zeta. destruct (_ <=? _); [right|left]; reflexivity.
  - destruct (lec_of_pair M s p) as [q|]; [|left; reflexivity].
    cbv zeta. destruct (_ <=? _); [right|left]; reflexivity.
Qed.

Lemma lec_of_pair_self : forall M q, wf M = true -> In q (all_pairs M) ->
  lec_of_pair M (st q) (pr q) = Some q.
Proof.
  intros M q Hwf Hq. destruct (pair_ctx M q Hwf Hq) as [n [row [Hn [Hin [Hst Hok]]]]].
  destruct (row_ok_facts M _ row Hok) as [_ [Hnd _]].
  unfold lec_of_pair. replace (Z.to_nat (st q - 1)) with n by lia. rewrite Hn.
  unfold find_pair. apply find_nodup; assumption.
Qed.

Lemma alpha_val_eq : forall M m q, wf M = true -> In q (all_pairs M) ->
  alpha_val M m (st q) (pr q) =
  if nth1 (l_uq M) (lec q) 0 <=? countb (gA q) (matched M m) then 1 else 0.
Proof.
  intros M m q Hwf Hq. unfold alpha_val. rewrite (lec_of_pair_self M q Hwf Hq). cbv zeta.
  unfold M_of_lec. rewrite filter_filter.
  replace (zlen (filter (fun x => (lec x =? lec q) && (negb (st x =? st q) && (rl0 x <=? rl0 q)))
                        (matched M m)))
    with (countb (gA q) (matched M m)); [reflexivity|].
  unfold countb. f_equal. apply filter_ext. intros a. unfold gA, g1.
  rewrite (andb_comm (rl0 a <=? rl0 q)). reflexivity.
Qed.

Lemma beta_val_eq : forall M m q, wf M = true -> In q (all_pairs M) ->
  beta_val M m (st q) (pr q) =
  if nth1 (p_uq M) (pr q) 0 <=? countb (gB q) (matched M m) then 1 else 0.
Proof.
  intros M m q Hwf Hq. unfold beta_val. rewrite (lec_of_pair_self M q Hwf Hq). cbv zeta.
  unfold M_of_proj. rewrite filter_filter.
  replace (zlen (filter (fun x => (pr x =? pr q) && (negb (st x =? st q) && (rl0 x <=? rl0 q)))
                        (matched M m)))
    with (countb (gB q) (matched M m)); [reflexivity|].
  unfold countb. f_equal. apply filter_ext_in. intros a Ha. unfold gB, gA, g1.
  rewrite (andb_comm (rl0 a <=? rl0 q)).
  destruct (pr a =? pr q) eqn:Ep; [|apply andb_false_r].
  rewrite andb_true_r. cbn [andb].
  destruct (matched_assigned M m a Hwf Ha) as [_ Haa]. apply Z.eqb_eq in Ep.
  rewrite (same_proj_same_lec M a q Hwf Haa Hq Ep), Z.eqb_refl. reflexivity.
Qed.

(* ---- completeness ---------------------------------------------------------------------------- *)

Theorem stab_complete : forall (M : instance) (pc : bool) (m : matching) (cs : list constr) (prims : list prim),
  wf M = true -> two_sided M = true -> valid_b pc M m = true -> stable_b M m = true ->
  stability_constrs M = Ok cs ->
  all_sat (canon M prims m) cs /\ binary_ab (canon M prims m).
Proof.
  intros M pc m cs prims Hwf H2s Hval Hstab Hcs.
  split; [|apply canon_binary_ab].
  set (v := canon M prims m).
  assert (Hb : binary v) by apply canon_binary.
  assert (Hacc : acceptable_rows (pairs M) m = true).
  { unfold valid_b in Hval. apply andb_true_iff in Hval. destruct Hval as [Hval _].
    apply andb_true_iff in Hval. tauto. }
  pose proof (canon_matched M prims m Hwf Hacc) as Hmat. fold v in Hmat.
  unfold all_sat. apply forallb_forall. intros c Hc.
  destruct (stab_in_inv M cs c Hcs Hc) as [row [q [Hrow [Hin Hcase]]]].
  assert (Hq : In q (all_pairs M)).
  { unfold all_pairs. apply in_concat. exists row. split; assumption. }
  pose proof (countb_nonneg _ (gA q) (matched M m)) as HA0.
  pose proof (countb_nonneg _ (gB q) (matched M m)) as HB0.
  assert (Eal : v (Alpha (st q) (pr q)) =
                if nth1 (l_uq M) (lec q) 0 <=? countb (gA q) (matched M m) then 1 else 0).
  { unfold v. cbn [canon]. apply alpha_val_eq; assumption. }
  assert (Ebe : v (Beta (st q) (pr q)) =
                if nth1 (p_uq M) (pr q) 0 <=? countb (gB q) (matched M m) then 1 else 0).
  { unfold v. cbn [canon]. apply beta_val_eq; assumption. }
  destruct Hcase as [Hc1|[Hc1|Hc1]]; subst c.
  - (* alpha *)
    unfold c_alpha, sat. cbn [c_rel c_lhs c_rhs]. apply Z.leb_le.
    rewrite eval_cons, (eval_lk M v q Hb), Hmat, Eal.
    destruct (nth1 (l_uq M) (lec q) 0 <=? countb (gA q) (matched M m)) eqn:E.
    + apply Z.leb_le in E. lia.
    + lia.
  - (* beta *)
    unfold c_beta, sat. cbn [c_rel c_lhs c_rhs]. apply Z.leb_le.
    rewrite eval_cons, (eval_pj M v q Hb), Hmat, Ebe.
    destruct (nth1 (p_uq M) (pr q) 0 <=? countb (gB q) (matched M m)) eqn:E.
    + apply Z.leb_le in E. lia.
    + lia.
  - (* gamma *)
    unfold sat. change (c_rel (c_gamma row q)) with LE. change (c_rhs (c_gamma row q)) with (-1).
    apply Z.leb_le. rewrite eval_gamma.
    rewrite (filter_nz_len v _ Hb).
    pose proof (zlen_nonneg _ (filter (nz v) (wants_prefix (rs q) row))) as Hpre0.
    assert (Ha01 : 0 <= v (Alpha (st q) (pr q))).
    { rewrite Eal. destruct (nth1 (l_uq M) (lec q) 0 <=? countb (gA q) (matched M m)); lia. }
    assert (Hb01 : 0 <= v (Beta (st q) (pr q))).
    { rewrite Ebe. destruct (nth1 (p_uq M) (pr q) 0 <=? countb (gB q) (matched M m)); lia. }
    destruct (c2_of M m q) eqn:Ec2.
    + (* the student wants to move: q does not block, so alpha or beta is 1 *)
      assert (Hnb : blocking_b M m q = false).
      { unfold stable_b, exists_blocking_b in Hstab. apply negb_true_iff in Hstab.
        destruct (blocking_b M m q) eqn:Eb; [|reflexivity].
        assert (Hex : existsb (blocking_b M m) (all_pairs M) = true).
        { apply existsb_exists. exists q. split; assumption. }
        rewrite Hex in Hstab. discriminate. }
      destruct (not_blocking_counts M m q Hwf H2s Hq Hnb Ec2) as [HA|HB].
      * apply Z.leb_le in HA. rewrite HA in Eal. lia.
      * apply Z.leb_le in HB. rewrite HB in Ebe. lia.
    + (* the student holds a pair at least as good: the prefix sum is at least 1 *)
      unfold c2_of in Ec2.
      destruct (assigned_pair M m (st q)) as [c|] eqn:Eas; [|discriminate].
      apply Z.ltb_ge in Ec2.
      destruct (assigned_matched M m q c Hwf Hq Eas) as [Hcm [Hstc [Hca [_ Hcrow]]]].
      destruct (pair_ctx M q Hwf Hq) as [n [row' [Hn [Hin' [Hst Hok]]]]].
      assert (Hrr : In q row /\ In c row /\ dense_ranks (map rs row) = true).
      { apply In_nth_error in Hrow. destruct Hrow as [n2 Hn2].
        destruct (wf_facts M Hwf) as [_ [_ [Hrows _]]].
        pose proof (rows_ok_nth M (pairs M) 1 n2 row Hrows Hn2) as Hok2.
        destruct (row_ok_facts M _ row Hok2) as [Hf2 [_ Hd2]].
        destruct (Hf2 q Hin) as [Hst2 _].
        split; [exact Hin|]. split; [|exact Hd2].
        apply (Hcrow n2 row Hn2). lia. }
      destruct Hrr as [_ [Hcr Hdense]].
      assert (Hcp : In c (wants_prefix (rs q) row)).
      { apply wants_prefix_in; assumption. }
      assert (Hnzc : negb (v (X (st c) (pr c)) =? 0) = true).
      { rewrite <- Hmat in Hcm. apply filter_In in Hcm. tauto. }
      pose proof (zlen_filter_ge1 pair (nz v) _ c Hcp Hnzc). lia.
Qed.

Print Assumptions stab_sound.
Print Assumptions stability_constrs_total.
Print Assumptions stab_complete.
