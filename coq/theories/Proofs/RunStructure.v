(* What LP_Solver.run reports, for an arbitrary oracle; and, for a correct MILP oracle, that the reported
   values are a feasible point of the basic constraints (C01) and that a re-run is reproducible (C18). *)
From MP Require Import LP.Oracle Proofs.RunProofs Proofs.LPSound.
From Coq Require Import Lia.
Local Open Scope list_scope.
Open Scope Z_scope.

Lemma inv_init_state base solve info : inv base solve (mkRS base [] info NotSolved [] [] 0).
Proof.
  constructor; cbn [r_cs r_trace r_nsolves r_status r_vals].
  - exists []. now rewrite app_nil_r.
  - reflexivity.
  - intros k P H. destruct k; discriminate.
  - reflexivity.
  - intros k P H. destruct k; discriminate.
  - intros k P H. destruct k; discriminate.
Qed.

(* the structure of a completed run *)
Theorem run_structure : forall M o solve out base,
  run M o solve = Ok out -> base_constrs M o = Ok base ->
  out_trace out <> [] /\
  (forall k P, nth_error (out_trace out) k = Some P -> exists extra, pb_cs P = base ++ extra) /\
  (forall k P, nth_error (out_trace out) k = Some P -> (S k < length (out_trace out))%nat ->
               a_status (solve k P) = Optimal) /\
  (forall k P, nth_error (out_trace out) k = Some P -> S k = length (out_trace out) ->
               out_status out = a_status (solve k P) /\ out_vals out = a_vals (solve k P)).
Proof.
  intros M o solve out base H Hb. unfold run in H. rewrite Hb in H. cbn [bind] in H.
  set (s0 := mkRS base [] (base_info o) NotSolved [] [] 0) in *.
  destruct (run_crits M solve s0 (o_crits o)) as [s1|e] eqn:E; [|discriminate]. cbn [bind] in H.
  assert (Hinv0 : inv base solve s0) by apply inv_init_state.
  assert (Hr0 : ready s0) by (left; reflexivity).
  destruct (run_crits_inv base solve M _ _ _ Hinv0 Hr0 E) as [[[extra Hcs] Hlen Htr Hinit Hprev Hlast] _].
  destruct (Nat.eqb (r_nsolves s1) 0) eqn:En.
  - apply Nat.eqb_eq in En. injection H as <-. cbn [out_trace out_status out_vals].
    split; [discriminate|]. split; [|split].
    + intros k P HP. destruct k as [|k]; [|destruct k; discriminate].
      injection HP as <-. exists extra. exact Hcs.
    + intros k P HP Hk. simpl in Hk. lia.
    + intros k P HP Hk. simpl in Hk. assert (k = 0%nat) by lia. subst k. injection HP as <-. split; reflexivity.
  - apply Nat.eqb_neq in En. injection H as <-. cbn [out_trace out_status out_vals].
    split; [|split; [|split]].
    + intro Hnil. rewrite Hnil in Hlen. simpl in Hlen. lia.
    + exact Htr.
    + intros k P HP Hk. apply Hprev; [exact HP|lia].
    + intros k P HP Hk. apply Hlast; [exact HP|lia].
Qed.

(* C14: a performed solve that is not optimal is the last one, and its status is what is reported *)
Corollary run_first_nonoptimal : forall M o solve out base k P,
  run M o solve = Ok out -> base_constrs M o = Ok base ->
  nth_error (out_trace out) k = Some P -> a_status (solve k P) <> Optimal ->
  S k = length (out_trace out) /\ out_status out = a_status (solve k P) /\ out_status out <> Optimal.
Proof.
  intros M o solve out base k P H Hb HP Hne.
  destruct (run_structure M o solve out base H Hb) as [_ [_ [Hprev Hlast]]].
  assert (Hk : (k < length (out_trace out))%nat) by (apply nth_error_Some; congruence).
  assert (Hc : (S k < length (out_trace out))%nat \/ S k = length (out_trace out)) by lia.
  destruct Hc as [Hc|Hc].
  - exfalso. apply Hne. now apply Hprev.
  - destruct (Hlast k P HP Hc) as [Hst _]. split; [exact Hc|]. split; [exact Hst|congruence].
Qed.

(* every problem of the run contains the basic matching constraints *)
Lemma base_has_upper_lower : forall M o base, base_constrs M o = Ok base ->
  exists rest, base = upper_lower (o_pc o) M ++ rest.
Proof.
  intros M o base H. unfold base_constrs in H.
  destruct (if o_stab o then stability_constrs M else Ok []) as [sc|e]; [|discriminate].
  cbn [bind] in H. injection H as <-. eexists. reflexivity.
Qed.

Lemma in_bounds_binary : forall M objs v, in_bounds M objs v -> binary v.
Proof.
  intros M objs v H. split.
  - intros s p. specialize (H (X s p) eq_refl). cbn in H. lia.
  - intro j. specialize (H (Closure j) eq_refl). cbn in H. lia.
Qed.

Lemma all_sat_app_l : forall v a b, all_sat v (a ++ b) -> all_sat v a.
Proof. unfold all_sat. intros v a b H. rewrite forallb_app in H. now apply andb_true_iff in H as [H _]. Qed.

(* C01: with a correct MILP back end, the matching printed by an Optimal run is valid, whichever optimal
   solution the back end returned at any stage *)
Theorem reported_valid : forall M o solve out,
  wf M = true -> milp_ok M solve -> run M o solve = Ok out -> out_status out = Optimal ->
  valid_b (o_pc o) M (matching_of M (val_fun (out_vals out))) = true.
Proof.
  intros M o solve out Hwf Hok H Hst.
  destruct (base_constrs M o) as [base|e] eqn:Hb.
  2:{ unfold run in H. rewrite Hb in H. discriminate. }
  destruct (run_structure M o solve out base H Hb) as [Hne [Htr [_ Hlast]]].
  destruct (out_trace out) as [|P0 tr] eqn:Etr; [congruence|].
  set (k := length tr).
  assert (HP : exists P, nth_error (P0 :: tr) k = Some P).
  { destruct (nth_error (P0 :: tr) k) eqn:En; [eauto|]. apply nth_error_None in En. simpl in En. unfold k in En. lia. }
  destruct HP as [P HP].
  destruct (Hlast k P HP eq_refl) as [Hs Hv].
  destruct (Htr k P HP) as [extra Hcs].
  destruct (Hok k P) as [Hopt _]. cbn zeta in Hopt.
  rewrite <- Hs, Hst in Hopt. destruct (Hopt eq_refl) as [[Hsat Hbd] _].
  rewrite <- Hv in Hsat, Hbd.
  destruct (base_has_upper_lower M o base Hb) as [rest Hbase].
  apply lp_sound; [exact Hwf| exact (in_bounds_binary M (pb_objs P) _ Hbd) |].
  rewrite Hcs, Hbase in Hsat. apply all_sat_app_l in Hsat. now apply all_sat_app_l in Hsat.
Qed.
