(* generate_instances writes exactly the requested number of files, named 0.txt, 1.txt, ... *)
From MP Require Import Gen.Files.
From Coq Require Import Lia.
Local Open Scope list_scope.
Open Scope Z_scope.

Lemma mapM_fst_names {A} (f : Z * A -> result (string * string)) (name : Z -> string) :
  (forall kd t, f kd = Ok t -> fst t = name (fst kd)) ->
  forall l out, mapM f l = Ok out -> map fst out = map (fun kd => name (fst kd)) l.
Proof.
  intros Hf. induction l as [|kd l IH]; intros out H.
  - simpl in H. now injection H as <-.
  - cbn [mapM] in H. destruct (f kd) as [t|e] eqn:E; cbn [bind] in H; [|discriminate].
    destruct (mapM f l) as [ts|e] eqn:El; cbn [bind] in H; [|discriminate].
    injection H as <-. cbn [map]. f_equal; [now apply Hf|now apply IH].
Qed.

Lemma combine_fst_length {A B} : forall (l : list A) (m : list B),
  (length l <= length m)%nat -> map fst (combine l m) = l.
Proof.
  induction l as [|a l IH]; intros m H; [reflexivity|].
  destruct m as [|b m]; [simpl in H; lia|]. simpl in *. f_equal. apply IH. lia.
Qed.

Lemma seqZ_len : forall n z, length (seqZ z n) = n.
Proof. induction n as [|n IH]; intro z; [reflexivity|]. cbn [seqZ length]. now rewrite IH. Qed.

Theorem generate_names : forall a ds files,
  generate a ds = Ok files -> (Z.to_nat (g_numinst a) <= length ds)%nat ->
  map fst files = map (fun k => sZ k +++ ".txt"%string) (rangeZ (g_numinst a)) /\
  length files = Z.to_nat (g_numinst a).
Proof.
  intros a ds files H Hlen. unfold generate in H.
  assert (Hn : map fst files = map (fun kd : Z * draws => sZ (fst kd) +++ ".txt"%string)
                                   (combine (rangeZ (g_numinst a)) ds)).
  { apply (mapM_fst_names _ (fun k => sZ k +++ ".txt"%string)) in H; [exact H|].
    intros kd t Ht. destruct (instance_text a (snd kd)); cbn [bind] in Ht; [|discriminate].
    injection Ht as <-. reflexivity. }
  assert (Hr : length (rangeZ (g_numinst a)) = Z.to_nat (g_numinst a)).
  { unfold rangeZ. apply seqZ_len. }
  split.
  - rewrite Hn. rewrite <- (map_map fst (fun k => sZ k +++ ".txt"%string)).
    rewrite combine_fst_length; [reflexivity|lia].
  - apply (f_equal (@length string)) in Hn. rewrite !map_length in Hn. rewrite Hn.
    rewrite combine_length. lia.
Qed.
