(* Correctness of the model of Brute_force_solver.run / get_results against the declarative
   specification Spec/BFSpec.v. *)
From MP Require Import Spec.BFSpec.
From Coq Require Import Lia.
Local Open Scope list_scope. Open Scope Z_scope.

Ltac zb := repeat match goal with
  | H : (_ <? _) = true |- _ => apply Z.ltb_lt in H
  | H : (_ <? _) = false |- _ => apply Z.ltb_ge in H
  | H : (_ =? _) = true |- _ => apply Z.eqb_eq in H
  | H : (_ =? _) = false |- _ => apply Z.eqb_neq in H
  | H : (_ <=? _) = true |- _ => apply Z.leb_le in H
  | H : (_ <=? _) = false |- _ => apply Z.leb_gt in H
  end.

(* ====================================================================== *)
(* 1. Strict orders with unique extrema                                    *)
(* ====================================================================== *)

Section Orders.
Context {A : Type}.

(* strict part of a total order on the domain D *)
Definition SO (D : A -> Prop) (lt : A -> A -> bool) : Prop :=
  (forall x y, D x -> D y -> lt x y = true -> lt y x = false) /\
  (forall x y z, D x -> D y -> D z -> lt x y = false -> lt y z = false -> lt x z = false) /\
  (forall x y, D x -> D y -> lt x y = false -> lt y x = false -> x = y).

Definition bestP (lt : A -> A -> bool) (S : A -> Prop) (x : A) : Prop :=
  S x /\ forall y, S y -> lt y x = false.

Lemma SO_irrefl : forall D lt x, SO D lt -> D x -> lt x x = false.
Proof.
  intros D lt x (Has & _ & _) Dx. destruct (lt x x) eqn:E; [|reflexivity].
  pose proof (Has x x Dx Dx E) as E'. congruence.
Qed.

Lemma bestP_ext : forall lt (S S' : A -> Prop) x,
  (forall z, S z <-> S' z) -> bestP lt S x -> bestP lt S' x.
Proof.
  intros lt S S' x Hext (Hin & Hmin). split.
  - now apply Hext.
  - intros y Hy. apply Hmin. now apply Hext.
Qed.

Lemma bestP_unique : forall D lt (S S' : A -> Prop) x y,
  SO D lt -> (forall z, S z -> D z) -> (forall z, S z <-> S' z) ->
  bestP lt S x -> bestP lt S' y -> x = y.
Proof.
  intros D lt S S' x y (_ & _ & Htri) HD Hext (Hx & Hxm) (Hy & Hym).
  apply Hext in Hy.
  apply Htri; auto.
  apply Hym. now apply Hext.
Qed.

Lemma bestP_single : forall D lt y, SO D lt -> D y -> bestP lt (fun z => z = y) y.
Proof.
  intros D lt y HSO Dy. split; [reflexivity|].
  intros z ->. eapply SO_irrefl; eauto.
Qed.

Lemma bestP_add : forall D lt (S : A -> Prop) x y,
  SO D lt -> (forall z, S z -> D z) -> D y ->
  bestP lt S x -> bestP lt (fun z => S z \/ z = y) (if lt y x then y else x).
Proof.
  intros D lt S x y HSO HD Dy (Hx & Hxm).
  pose proof HSO as (Has & Hnt & _).
  destruct (lt y x) eqn:E.
  - split; [now right|]. intros z [Hz | ->].
    + apply (Hnt z x y); auto.
    + eapply SO_irrefl; eauto.
  - split; [now left|]. intros z [Hz | ->]; auto.
Qed.

(* an initial value that is at least as bad as every element can be dropped *)
Lemma bestP_drop_init : forall D lt (S : A -> Prop) z0 x,
  SO D lt -> (forall z, S z -> D z) -> D z0 ->
  (exists p, S p) -> (forall p, S p -> lt z0 p = false) ->
  bestP lt (fun c => c = z0 \/ S c) x -> bestP lt S x.
Proof.
  intros D lt S z0 x (_ & _ & Htri) HD Dz0 (p & Hp) Hworst (Hx & Hxm).
  assert (Sx : S x).
  { destruct Hx as [-> | Hx]; [|assumption].
    assert (p = z0) as <-; [|assumption].
    apply Htri; auto. }
  split; [assumption|]. intros y Hy. apply Hxm. now right.
Qed.

Lemma best_fold_bestP : forall D lt l (S : A -> Prop) d,
  SO D lt -> (forall z, S z -> D z) -> (forall z, In z l -> D z) ->
  bestP lt S d -> bestP lt (fun z => S z \/ In z l) (best lt d l).
Proof.
  intros D lt l. induction l as [|x l IH]; intros S d HSO HD Hl Hb.
  - cbn. eapply bestP_ext; [|exact Hb]. intros z. cbn. tauto.
  - unfold best. cbn [fold_left]. fold (best lt (if lt x d then x else d) l).
    eapply bestP_ext; [|apply (IH (fun z => S z \/ z = x))]; auto.
    + intros z. cbn. split; intros H; [destruct H as [[H|H]|H] | destruct H as [H|[H|H]]]; auto.
    + intros z [Hz | ->]; auto. apply Hl. now left.
    + intros z Hz. apply Hl. now right.
    + eapply bestP_add; eauto. apply Hl. now left.
Qed.

Lemma best_bestP : forall D lt l d,
  SO D lt -> D d -> (forall z, In z l -> D z) ->
  bestP lt (fun z => In z (d :: l)) (best lt d l).
Proof.
  intros D lt l d HSO Dd Hl.
  eapply bestP_ext; [|apply (best_fold_bestP D lt l (fun z => z = d) d)]; auto.
  - intros z. cbn. split; intros [H|H]; auto.
  - now intros z ->.
  - eapply bestP_single; eauto.
Qed.

End Orders.

(* ====================================================================== *)
(* 2. The concrete orders                                                  *)
(* ====================================================================== *)

Definition gtb (x y : Z) : bool := y <? x.
Definition TrueD {A} (x : A) : Prop := True.

Lemma SO_ltb : SO (@TrueD Z) Z.ltb.
Proof.
  repeat split; intros; zb; try apply Z.ltb_ge; try lia.
Qed.

Lemma SO_gtb : SO (@TrueD Z) gtb.
Proof.
  unfold gtb. repeat split; intros; zb; try apply Z.ltb_ge; try lia.
Qed.

Lemma tup_lt_false : forall x y, tup_lt x y = false <->
  (fst y < fst x \/ (fst x = fst y /\ snd y <= snd x)).
Proof.
  intros [a b] [c d]. unfold tup_lt. cbn [fst snd].
  destruct (a <? c) eqn:E1, (a =? c) eqn:E2, (b <? d) eqn:E3; cbn; zb; split; intros; try discriminate; try reflexivity; lia.
Qed.

Lemma tup_lt_true : forall x y, tup_lt x y = true <->
  (fst x < fst y \/ (fst x = fst y /\ snd x < snd y)).
Proof.
  intros [a b] [c d]. unfold tup_lt. cbn [fst snd].
  destruct (a <? c) eqn:E1, (a =? c) eqn:E2, (b <? d) eqn:E3; cbn; zb; split; intros; try discriminate; try reflexivity; lia.
Qed.

Lemma SO_tup : SO (@TrueD (Z * Z)) tup_lt.
Proof.
  repeat split.
  - intros x y _ _ H. apply tup_lt_true in H. apply tup_lt_false. lia.
  - intros x y z _ _ _ H1 H2. apply tup_lt_false in H1, H2. apply tup_lt_false. lia.
  - intros [a b] [c d] _ _ H1 H2. apply tup_lt_false in H1, H2. cbn [fst snd] in *.
    f_equal; lia.
Qed.

Definition lenD (n : nat) (p : list Z) : Prop := length p = n.

Lemma lex_asym : forall a b, length a = length b -> lex_lt a b = true -> lex_lt b a = false.
Proof.
  induction a as [|x a IH]; intros [|y b] Hl H; cbn in *; try discriminate; try reflexivity.
  injection Hl as Hl.
  destruct (x <? y) eqn:E1, (x =? y) eqn:E2, (y <? x) eqn:E3, (y =? x) eqn:E4; cbn in *; zb;
    try discriminate; try reflexivity; try lia.
  now apply IH.
Qed.

Lemma lex_negtrans : forall a b c, length a = length b -> length b = length c ->
  lex_lt a b = false -> lex_lt b c = false -> lex_lt a c = false.
Proof.
  induction a as [|x a IH]; intros [|y b] [|z c] Hl1 Hl2 H1 H2; cbn in *; try discriminate; try reflexivity.
  injection Hl1 as Hl1. injection Hl2 as Hl2.
  destruct (x <? y) eqn:E1, (x =? y) eqn:E2, (y <? z) eqn:E3, (y =? z) eqn:E4,
           (x <? z) eqn:E5, (x =? z) eqn:E6; cbn in *; zb;
    try discriminate; try reflexivity; try lia.
  eapply IH; eauto.
Qed.

Lemma lex_tricho : forall a b, length a = length b ->
  lex_lt a b = false -> lex_lt b a = false -> a = b.
Proof.
  induction a as [|x a IH]; intros [|y b] Hl H1 H2; cbn in *; try discriminate; try reflexivity.
  injection Hl as Hl.
  destruct (x <? y) eqn:E1, (x =? y) eqn:E2, (y <? x) eqn:E3, (y =? x) eqn:E4; cbn in *; zb;
    try discriminate; try lia.
  subst y. f_equal. now apply IH.
Qed.

Lemma SO_greedy : forall n, SO (lenD n) more_greedy.
Proof.
  intros n. unfold lenD, more_greedy. repeat split.
  - intros x y Hx Hy H. apply lex_asym; congruence.
  - intros x y z Hx Hy Hz H1 H2. apply (lex_negtrans z y x); congruence.
  - intros x y Hx Hy H1 H2. apply lex_tricho; congruence.
Qed.

Lemma SO_generous : forall n, SO (lenD n) more_generous.
Proof.
  intros n. unfold lenD, more_generous. repeat split.
  - intros x y Hx Hy H. apply lex_asym; [rewrite !rev_length; congruence | assumption].
  - intros x y z Hx Hy Hz H1 H2. apply (lex_negtrans (rev x) (rev y) (rev z)); auto;
      rewrite !rev_length; congruence.
  - intros x y Hx Hy H1 H2.
    rewrite <- (rev_involutive x), <- (rev_involutive y). f_equal.
    apply lex_tricho; auto. rewrite !rev_length; congruence.
Qed.

Lemma moregre_eq : forall p1 p2, length p1 = length p2 -> moregre p1 p2 = Ok (more_greedy p1 p2).
Proof.
  unfold more_greedy.
  induction p1 as [|a t1 IH]; intros [|b t2] Hl; cbn in *; try discriminate; try reflexivity.
  injection Hl as Hl.
  destruct (b <? a) eqn:E1; cbn; [reflexivity|].
  destruct (a <? b) eqn:E2.
  - destruct (b =? a) eqn:E3; zb; [lia | reflexivity].
  - destruct (b =? a) eqn:E3; zb; [|lia]. cbn. now apply IH.
Qed.

Lemma moregen_rev_eq : forall p1 p2, length p1 = length p2 -> moregen_rev p1 p2 = Ok (lex_lt p1 p2).
Proof.
  induction p1 as [|a t1 IH]; intros [|b t2] Hl; cbn in *; try discriminate; try reflexivity.
  injection Hl as Hl.
  destruct (a <? b) eqn:E1; cbn; [reflexivity|].
  destruct (b <? a) eqn:E2.
  - destruct (a =? b) eqn:E3; zb; [lia | reflexivity].
  - destruct (a =? b) eqn:E3; zb; [|lia]. cbn. now apply IH.
Qed.

Lemma moregen_eq : forall p1 p2, length p1 = length p2 -> moregen p1 p2 = Ok (more_generous p1 p2).
Proof.
  intros p1 p2 Hl. unfold moregen, more_generous.
  rewrite Hl, Nat.ltb_irrefl, firstn_all.
  apply moregen_rev_eq. now rewrite !rev_length.
Qed.

Lemma lex_zeros_least : forall p, (forall x, In x p -> 0 <= x) ->
  lex_lt p (repeat 0 (length p)) = false.
Proof.
  induction p as [|x p IH]; intros H; cbn; [reflexivity|].
  assert (0 <= x) by (apply H; now left).
  destruct (x <? 0) eqn:E1; zb; [lia|]. cbn.
  rewrite IH; [apply andb_false_r|]. intros y Hy. apply H. now right.
Qed.

(* ====================================================================== *)
(* 3. Well-formedness facts, vectors, validity                             *)
(* ====================================================================== *)

Ltac split_andb := repeat match goal with
  | H : (_ && _) = true |- _ => apply andb_true_iff in H; destruct H
  end.

Lemma wf_facts : forall M, wf M = true ->
  1 <= nS M /\ 1 <= nP M /\ 1 <= nL M /\ zlen (pairs M) = nS M /\
  zlen (l_lq M) = nL M /\ zlen (l_tg M) = nL M /\ zlen (l_uq M) = nL M /\
  all2Z (fun a b => (0 <=? a) && (a <=? b)) (l_lq M) (l_tg M) = true /\
  all2Z (fun a b => a <=? b) (l_tg M) (l_uq M) = true /\
  rows_ok M 1 (pairs M) = true.
Proof.
  intros M H. unfold wf in H. split_andb. zb. repeat split; assumption.
Qed.

Lemma seqZ_length : forall n a, length (seqZ a n) = n.
Proof. induction n as [|n IH]; intros a; cbn [seqZ length]; [reflexivity | now rewrite IH]. Qed.

Lemma seqZ_In : forall n a x, In x (seqZ a n) <-> a <= x < a + Z.of_nat n.
Proof.
  induction n as [|n IH]; intros a x; cbn [seqZ In].
  - lia.
  - rewrite IH. lia.
Qed.

Lemma forallb_ext' : forall {A} (f g : A -> bool) l, (forall x, In x l -> f x = g x) -> forallb f l = forallb g l.
Proof.
  induction l as [|x l IH]; intros H; cbn; [reflexivity|].
  rewrite H by now left. rewrite IH; [reflexivity|]. intros y Hy. apply H. now right.
Qed.

Lemma zlen_nonneg : forall {A} (l : list A), 0 <= zlen l.
Proof. intros. unfold zlen. lia. Qed.

Lemma zlen_cons : forall {A} (x : A) l, zlen (x :: l) = 1 + zlen l.
Proof. intros. unfold zlen. cbn [length]. lia. Qed.

Lemma countb_nonneg : forall {A} (f : A -> bool) l, 0 <= countb f l.
Proof. intros. apply zlen_nonneg. Qed.

Lemma countb_cons : forall {A} (f : A -> bool) x l,
  countb f (x :: l) = (if f x then 1 else 0) + countb f l.
Proof. intros. unfold countb. cbn [filter]. destruct (f x); [apply zlen_cons | reflexivity]. Qed.

Lemma countb_zero : forall {A} (f : A -> bool) l, (forall x, In x l -> f x = false) -> countb f l = 0.
Proof.
  induction l as [|x l IH]; intros H; [reflexivity|].
  rewrite countb_cons, H by now left. rewrite IH; [reflexivity|]. intros y Hy. apply H. now right.
Qed.

(* --- matching_pairs vs matched_rows ------------------------------------ *)

Lemma somes_matching_pairs : forall rows v, somes_pairs (matching_pairs rows v) = matched_rows rows v.
Proof.
  induction rows as [|row rows IH]; intros [|p v]; try reflexivity.
  cbn [matching_pairs matched_rows]. destruct (p =? 0); [apply IH|].
  unfold somes_pairs in *. cbn [flat_map]. rewrite IH. destruct (find_pair row p); reflexivity.
Qed.

Lemma zlen_matching_pairs : forall rows v, length v = length rows ->
  zlen (matching_pairs rows v) = size v.
Proof.
  induction rows as [|row rows IH]; intros [|p v] Hl; try discriminate; try reflexivity.
  injection Hl as Hl. cbn [matching_pairs]. unfold size. rewrite countb_cons.
  destruct (p =? 0); cbn [negb].
  - rewrite IH by assumption. reflexivity.
  - rewrite zlen_cons, IH by assumption. reflexivity.
Qed.

Lemma find_none_existsb : forall {A} (f : A -> bool) l,
  match find f l with None => true | Some _ => false end = negb (existsb f l).
Proof.
  induction l as [|x l IH]; cbn; [reflexivity|]. destruct (f x); cbn; [reflexivity | exact IH].
Qed.

Definition isNone (o : option pair) : bool := match o with None => true | Some _ => false end.

Lemma none_acceptable : forall rows v, length v = length rows ->
  existsb isNone (matching_pairs rows v) = negb (acceptable_rows rows v).
Proof.
  induction rows as [|row rows IH]; intros [|p v] Hl; try discriminate; try reflexivity.
  injection Hl as Hl. cbn [matching_pairs acceptable_rows].
  destruct (p =? 0); cbn [orb andb].
  - now apply IH.
  - cbn [existsb]. rewrite IH by assumption. unfold isNone at 1, find_pair.
    rewrite find_none_existsb. now rewrite negb_andb.
Qed.

(* --- consequences of rows_ok ------------------------------------------- *)

Lemma find_pair_In : forall row p q, find_pair row p = Some q -> In q row /\ pr q = p.
Proof.
  intros row p q H. unfold find_pair in H. apply find_some in H. destruct H as [H1 H2]. zb. auto.
Qed.

Lemma row_ok_facts : forall M i row q, row_ok M i row = true -> In q row ->
  st q = i /\ 1 <= pr q <= nP M.
Proof.
  intros M i row q H Hq. unfold row_ok in H. split_andb.
  match goal with H : forallb _ row = true |- _ => rewrite forallb_forall in H; specialize (H q Hq) end.
  split_andb. zb. lia.
Qed.

Lemma matched_rows_st : forall M rows i0 v q, rows_ok M i0 rows = true ->
  In q (matched_rows rows v) -> i0 <= st q.
Proof.
  intros M rows. induction rows as [|row rows IH]; intros i0 [|p v] q Hok Hq; cbn in Hq; try contradiction.
  cbn [rows_ok] in Hok. apply andb_true_iff in Hok. destruct Hok as [Hrow Hrows].
  assert (Hrest : In q (matched_rows rows v) -> i0 <= st q).
  { intros Hq'. apply (IH (i0 + 1) v q Hrows) in Hq'. lia. }
  destruct (p =? 0); [auto|].
  destruct (find_pair row p) as [q'|] eqn:Ef; [|auto].
  destruct Hq as [<- | Hq]; [|auto].
  apply find_pair_In in Ef. destruct Ef as [Ef _].
  apply (row_ok_facts M i0 row q' Hrow) in Ef. lia.
Qed.

Lemma matched_rows_student_count : forall M rows i0 v i, rows_ok M i0 rows = true ->
  countb (fun q => st q =? i) (matched_rows rows v) <= 1.
Proof.
  intros M rows. induction rows as [|row rows IH]; intros i0 [|p v] i Hok; cbn [matched_rows];
    try (unfold countb, zlen; cbn; lia).
  cbn [rows_ok] in Hok. apply andb_true_iff in Hok. destruct Hok as [Hrow Hrows].
  assert (Hrest : countb (fun q => st q =? i) (matched_rows rows v) <= 1) by (apply (IH (i0 + 1)); assumption).
  destruct (p =? 0); [auto|].
  destruct (find_pair row p) as [q'|] eqn:Ef; [|auto].
  rewrite countb_cons.
  destruct (st q' =? i) eqn:E; [|lia].
  zb. rewrite countb_zero; [lia|].
  intros x Hx. apply Z.eqb_neq.
  apply find_pair_In in Ef. destruct Ef as [Ef _].
  apply (row_ok_facts M i0 row q' Hrow) in Ef.
  apply (matched_rows_st M rows (i0 + 1) v x Hrows) in Hx. lia.
Qed.

Lemma acceptable_rows_bounds : forall M rows i0 v, rows_ok M i0 rows = true -> 0 <= nP M ->
  acceptable_rows rows v = true ->
  length v = length rows /\ forall x, In x v -> 0 <= x <= nP M.
Proof.
  intros M rows. induction rows as [|row rows IH]; intros i0 [|p v] Hok HP Hacc; cbn in Hacc; try discriminate.
  - split; [reflexivity|]. intros x [].
  - cbn [rows_ok] in Hok. split_andb.
    destruct (IH (i0 + 1) v) as [Hl Hb]; auto.
    split; [cbn; now rewrite Hl|].
    intros x [<- | Hx]; [|auto].
    match goal with H : (_ || _) = true |- _ => apply orb_true_iff in H; destruct H as [H | H] end.
    + zb. lia.
    + apply existsb_exists in H. destruct H as (q & Hq & Hp). zb.
      eapply row_ok_facts in Hq; eauto. lia.
Qed.

(* --- the two enumerations ---------------------------------------------- *)

Lemma product_In : forall cs n v, In v (product cs n) <-> (length v = n /\ forall x, In x v -> In x cs).
Proof.
  intros cs n. induction n as [|n IH]; intros v; cbn [product].
  - split.
    + intros [<- | []]. split; [reflexivity|]. intros x [].
    + intros [Hl _]. destruct v; [now left | discriminate].
  - rewrite in_flat_map. split.
    + intros (c & Hc & Hv). apply in_map_iff in Hv. destruct Hv as (w & <- & Hw).
      apply IH in Hw. destruct Hw as [Hl Hw]. split; [cbn; now rewrite Hl|].
      intros x [<- | Hx]; auto.
    + intros [Hl Hv]. destruct v as [|c w]; [discriminate|].
      exists c. split; [apply Hv; now left|]. apply in_map. apply IH.
      injection Hl as Hl. split; [assumption|]. intros x Hx. apply Hv. now right.
Qed.

Lemma all_vectors_In : forall rows v, In v (all_vectors rows) <-> acceptable_rows rows v = true.
Proof.
  induction rows as [|row rows IH]; intros v.
  - cbn. split.
    + intros [<- | []]. reflexivity.
    + destruct v; [now left | discriminate].
  - cbn [all_vectors]. rewrite in_flat_map. split.
    + intros (c & Hc & Hv). apply in_map_iff in Hv. destruct Hv as (w & <- & Hw).
      cbn [acceptable_rows]. apply IH in Hw. rewrite Hw, andb_true_r.
      destruct Hc as [<- | Hc]; [reflexivity|].
      apply in_map_iff in Hc. destruct Hc as (q & <- & Hq).
      apply orb_true_iff. right. apply existsb_exists. exists q. split; [assumption | apply Z.eqb_refl].
    + destruct v as [|c w]; [discriminate|]. cbn [acceptable_rows]. intros H. split_andb.
      exists c. split.
      * match goal with H : (_ || _) = true |- _ => apply orb_true_iff in H; destruct H as [H | H] end.
        -- zb. now left.
        -- right. apply existsb_exists in H. destruct H as (q & Hq & Hp). zb. subst c. now apply in_map.
      * apply in_map. now apply IH.
Qed.

Definition vecs (M : instance) : list (list Z) := product (rangeZ (nP M + 1)) (Z.to_nat (nS M)).

Lemma vecs_length : forall M v, wf M = true -> In v (vecs M) -> length v = length (pairs M).
Proof.
  intros M v Hwf Hv. apply wf_facts in Hwf. destruct Hwf as (_ & _ & _ & Hlen & _).
  apply product_In in Hv. destruct Hv as [Hl _]. unfold zlen in Hlen. lia.
Qed.

Lemma all_valid_In : forall pc M v, wf M = true ->
  (In v (all_valid pc M) <-> (In v (vecs M) /\ valid_b pc M v = true)).
Proof.
  intros pc M v Hwf. pose proof (wf_facts M Hwf) as (HS & HP & _ & Hlen & _ & _ & _ & _ & _ & Hrows).
  unfold all_valid. rewrite filter_In, all_vectors_In. split.
  - intros [Hacc Hval]. split; [|assumption].
    eapply acceptable_rows_bounds in Hacc; eauto; [|lia]. destruct Hacc as [Hl Hb].
    apply product_In. split; [unfold zlen in Hlen; lia|].
    intros x Hx. apply Hb in Hx. unfold rangeZ. apply seqZ_In. lia.
  - intros [_ Hval]. split; [|assumption].
    unfold valid_b in Hval. split_andb. assumption.
Qed.

(* --- is_valid = valid_b ------------------------------------------------- *)

Lemma is_valid_eq : forall pc M v, wf M = true -> length v = length (pairs M) ->
  is_valid pc M (matching_pairs (pairs M) v) = valid_b pc M v.
Proof.
  intros pc M v Hwf Hl. pose proof (wf_facts M Hwf) as (_ & _ & _ & _ & _ & _ & _ & _ & _ & Hrows).
  unfold is_valid. fold isNone. rewrite none_acceptable by assumption.
  unfold valid_b. destruct (acceptable_rows (pairs M) v); cbn [negb andb]; [|reflexivity].
  rewrite somes_matching_pairs. fold (matched M v).
  match goal with |- ?a && ?b && ?c = _ => assert (Ha : a = true) end.
  { apply forallb_forall. intros i _. apply Z.leb_le. eapply matched_rows_student_count; eauto. }
  rewrite Ha. cbn [andb]. f_equal.
  - apply forallb_ext'. intros j _. unfold proj_ok, proj_load. cbv zeta.
    set (n := countb (fun q => pr q =? j) (matched M v)).
    destruct pc; cbn [andb];
    destruct (n <? nth1 (p_lq M) j 0) eqn:E1, (nth1 (p_uq M) j 0 <? n) eqn:E2,
             (nth1 (p_lq M) j 0 <=? n) eqn:E3, (n <=? nth1 (p_uq M) j 0) eqn:E4, (n =? 0) eqn:E5;
      cbn; zb; try reflexivity; lia.
  - apply forallb_ext'. intros k _. unfold lec_ok, lec_load. cbv zeta.
    set (n := countb (fun q => lec q =? k) (matched M v)).
    destruct (n <? nth1 (l_lq M) k 0) eqn:E1, (nth1 (l_uq M) k 0 <? n) eqn:E2,
             (nth1 (l_lq M) k 0 <=? n) eqn:E3, (n <=? nth1 (l_uq M) k 0) eqn:E4;
      cbn; zb; try reflexivity; lia.
Qed.

(* ====================================================================== *)
(* 4. The statistics of bf_step are the measures of Spec/Matching.v        *)
(* ====================================================================== *)

Lemma fold_right_max_shift : forall l a x,
  fold_right Z.max (Z.max a x) l = Z.max x (fold_right Z.max a l).
Proof. induction l as [|y l IH]; intros a x; cbn; [lia|]. rewrite IH. lia. Qed.

Lemma fold_left_max_gen : forall {A} (g : A -> Z) l a,
  fold_left (fun m q => if m <? g q then g q else m) l a = fold_right Z.max a (map g l).
Proof.
  induction l as [|x l IH]; intros a; cbn [fold_left map fold_right]; [reflexivity|].
  rewrite IH. replace (if a <? g x then g x else a) with (Z.max a (g x)).
  - apply fold_right_max_shift.
  - destruct (a <? g x) eqn:E; zb; lia.
Qed.

Lemma r_degree_eq : forall M v, r_degree (matched M v) = degree M v.
Proof. intros. unfold r_degree, degree. apply fold_left_max_gen. Qed.

Lemma r_profile_eq : forall M v, r_profile M (matched M v) = profile M v.
Proof. reflexivity. Qed.

Lemma r_lec_abs_diffs_eq : forall M v, r_lec_abs_diffs M (matched M v) = map (lec_abs_diff M v) (lec_ids M).
Proof.
  intros. unfold r_lec_abs_diffs. apply map_ext. intros k. cbv zeta.
  unfold lec_abs_diff, lec_load.
  set (n := countb (fun q => lec q =? k) (matched M v)). set (t := nth1 (l_tg M) k 0).
  destruct (t - n <? n - t) eqn:E; zb; lia.
Qed.

Lemma r_max_abs_diff_eq : forall M v, r_max_abs_diff M (matched M v) = max_abs_diff M v.
Proof.
  intros. unfold r_max_abs_diff, max_abs_diff. rewrite r_lec_abs_diffs_eq.
  rewrite (fold_left_max_gen (fun d => d)). now rewrite map_id.
Qed.

Lemma r_sum_abs_diff_eq : forall M v, r_sum_abs_diff M (matched M v) = sum_abs_diff M v.
Proof. intros. unfold r_sum_abs_diff, sum_abs_diff. now rewrite r_lec_abs_diffs_eq. Qed.

Lemma profile_length : forall M v, length (profile M v) = Z.to_nat (max_rank M).
Proof. intros. unfold profile. now rewrite map_length, seqZ_length. Qed.

Lemma profile_nonneg : forall M v x, In x (profile M v) -> 0 <= x.
Proof.
  intros M v x H. unfold profile in H. apply in_map_iff in H. destruct H as (r & <- & _).
  apply countb_nonneg.
Qed.

(* --- bounds on the lecturer deviations of a valid matching -------------- *)

Lemma all2Z_nth : forall f a b, all2Z f a b = true ->
  length a = length b /\ forall i, (i < length a)%nat -> f (nth i a 0) (nth i b 0) = true.
Proof.
  induction a as [|x a IH]; intros [|y b] H; cbn in H; try discriminate.
  - split; [reflexivity|]. intros i Hi. cbn in Hi. lia.
  - apply andb_true_iff in H. destruct H as [Hxy H]. apply IH in H. destruct H as [Hl Hn].
    split; [cbn; now rewrite Hl|]. intros [|i] Hi; cbn; [assumption|]. apply Hn. cbn in Hi. lia.
Qed.

Lemma fold_right_max_ge : forall l x, In x l -> x <= fold_right Z.max 0 l.
Proof. induction l as [|y l IH]; intros x []; cbn; [lia|]. apply IH in H. lia. Qed.

Lemma fold_right_max_nonneg : forall l, 0 <= fold_right Z.max 0 l.
Proof. induction l; cbn; lia. Qed.

Lemma fold_right_max_le : forall l B, 0 <= B -> (forall x, In x l -> x <= B) -> fold_right Z.max 0 l <= B.
Proof.
  induction l as [|y l IH]; intros B HB H; cbn; [lia|].
  assert (y <= B) by (apply H; now left).
  assert (fold_right Z.max 0 l <= B) by (apply IH; [lia|]; intros; apply H; now right). lia.
Qed.

Lemma sumZ_le : forall l B, (forall x, In x l -> x <= B) -> sumZ l <= B * zlen l.
Proof.
  induction l as [|y l IH]; intros B H; cbn [sumZ fold_right]; [unfold zlen; cbn; lia|].
  rewrite zlen_cons. assert (y <= B) by (apply H; now left).
  assert (sumZ l <= B * zlen l) by (apply IH; intros; apply H; now right). unfold sumZ in *. lia.
Qed.

Lemma lec_abs_diff_bound : forall pc M v k, wf M = true -> valid_b pc M v = true ->
  In k (lec_ids M) -> lec_abs_diff M v k <= max_lec_uq M.
Proof.
  intros pc M v k Hwf Hval Hk.
  pose proof (wf_facts M Hwf) as (_ & _ & HL & _ & Hlq & Htg & Huq & H1 & H2 & _).
  unfold lec_ids in Hk. apply seqZ_In in Hk.
  unfold valid_b in Hval. apply andb_true_iff in Hval. destruct Hval as [_ Hlec].
  rewrite forallb_forall in Hlec. specialize (Hlec k). 
  assert (Hk' : In k (lec_ids M)) by (unfold lec_ids; apply seqZ_In; lia).
  specialize (Hlec Hk'). unfold lec_ok in Hlec. cbv zeta in Hlec.
  apply andb_true_iff in Hlec. destruct Hlec as [Hlo Hhi]. zb.
  apply all2Z_nth in H1. destruct H1 as [Hl1 H1]. apply all2Z_nth in H2. destruct H2 as [Hl2 H2].
  unfold zlen in Hlq, Htg, Huq.
  specialize (H1 (Z.to_nat (k - 1))). specialize (H2 (Z.to_nat (k - 1))).
  assert (Hi1 : (Z.to_nat (k - 1) < length (l_lq M))%nat) by lia.
  assert (Hi2 : (Z.to_nat (k - 1) < length (l_tg M))%nat) by lia.
  specialize (H1 Hi1). specialize (H2 Hi2). apply andb_true_iff in H1. destruct H1 as [H1a H1b]. zb.
  unfold lec_abs_diff. unfold nth1 in *.
  destruct (k <=? 0) eqn:Ek; zb; [lia|].
  assert (Hmax : nth (Z.to_nat (k - 1)) (l_uq M) 0 <= max_lec_uq M).
  { apply fold_right_max_ge. apply nth_In. lia. }
  pose proof (countb_nonneg (fun q => lec q =? k) (matched M v)) as Hnn.
  fold (lec_load M v k) in Hnn. lia.
Qed.

Lemma max_abs_diff_bound : forall pc M v, wf M = true -> valid_b pc M v = true ->
  max_abs_diff M v <= max_lec_uq M.
Proof.
  intros pc M v Hwf Hval. unfold max_abs_diff. apply fold_right_max_le.
  - apply fold_right_max_nonneg.
  - intros x Hx. apply in_map_iff in Hx. destruct Hx as (k & <- & Hk). eapply lec_abs_diff_bound; eauto.
Qed.

Lemma sum_abs_diff_bound : forall pc M v, wf M = true -> valid_b pc M v = true ->
  sum_abs_diff M v <= max_lec_uq M * nL M.
Proof.
  intros pc M v Hwf Hval. unfold sum_abs_diff.
  pose proof (wf_facts M Hwf) as (_ & _ & HL & _).
  replace (nL M) with (zlen (map (lec_abs_diff M v) (lec_ids M))).
  - apply sumZ_le. intros x Hx. apply in_map_iff in Hx. destruct Hx as (k & <- & Hk).
    eapply lec_abs_diff_bound; eauto.
  - unfold zlen, lec_ids. rewrite map_length, seqZ_length. lia.
Qed.

Lemma size_nonneg : forall v, 0 <= size v.
Proof. intros. apply countb_nonneg. Qed.

(* ====================================================================== *)
(* 5. The loop invariant                                                   *)
(* ====================================================================== *)

Definition img {A} (VS : matching -> Prop) (f : matching -> A) : A -> Prop :=
  fun c => exists u, VS u /\ c = f u.
Definition atsz (VS : matching -> Prop) (s : Z) : matching -> Prop := fun u => VS u /\ size u = s.
Definition inl (seen : list matching) : matching -> Prop := fun u => In u seen.

Lemma img_ext : forall {A} (VS VS' : matching -> Prop) (f : matching -> A),
  (forall u, VS u <-> VS' u) -> forall c, img VS f c <-> img VS' f c.
Proof.
  intros A VS VS' f H c. unfold img. split; intros (u & Hu & Hc); exists u; split; auto; now apply H.
Qed.

Lemma atsz_ext : forall (VS VS' : matching -> Prop) s,
  (forall u, VS u <-> VS' u) -> forall u, atsz VS s u <-> atsz VS' s u.
Proof. intros VS VS' s H u. unfold atsz. rewrite H. tauto. Qed.

Section ImgLemmas.
Context {A : Type} (D : A -> Prop) (lt : A -> A -> bool) (f : matching -> A).
Hypothesis HSO : SO D lt.
Hypothesis HDf : forall u, D (f u).

Lemma add_init : forall z0 seen v x, D z0 ->
  bestP lt (fun c => c = z0 \/ img (inl seen) f c) x ->
  bestP lt (fun c => c = z0 \/ img (inl (v :: seen)) f c) (if lt (f v) x then f v else x).
Proof.
  intros z0 seen v x Dz Hb.
  eapply bestP_ext; [|apply (bestP_add D lt (fun c => c = z0 \/ img (inl seen) f c) x (f v)); auto].
  - intros c. unfold img, inl. cbn [In]. split.
    + intros [[H | (u & Hu & ->)] | ->].
      * now left.
      * right. exists u. auto.
      * right. exists v. auto.
    + intros [H | (u & [<- | Hu] & ->)].
      * left. now left.
      * now right.
      * left. right. exists u. auto.
  - intros z [-> | (u & _ & ->)]; auto.
Qed.

Lemma add_atsz : forall seen v s x, size v = s ->
  bestP lt (img (atsz (inl seen) s) f) x ->
  bestP lt (img (atsz (inl (v :: seen)) s) f) (if lt (f v) x then f v else x).
Proof.
  intros seen v s x Hs Hb.
  eapply bestP_ext; [|apply (bestP_add D lt (img (atsz (inl seen) s) f) x (f v)); auto].
  - intros c. unfold img, atsz, inl. cbn [In]. split.
    + intros [(u & [Hu Hsz] & ->) | ->].
      * exists u. auto.
      * exists v. auto.
    + intros (u & [[<- | Hu] Hsz] & ->).
      * now right.
      * left. exists u. auto.
  - intros z (u & _ & ->). auto.
Qed.

Lemma keep_atsz : forall seen v s x, size v <> s ->
  bestP lt (img (atsz (inl seen) s) f) x ->
  bestP lt (img (atsz (inl (v :: seen)) s) f) x.
Proof.
  intros seen v s x Hs Hb.
  eapply bestP_ext; [|exact Hb].
  intros c. unfold img, atsz, inl. cbn [In]. split.
  - intros (u & [Hu Hsz] & ->). exists u. auto.
  - intros (u & [[<- | Hu] Hsz] & ->); [contradiction|]. exists u. auto.
Qed.

Lemma single_atsz : forall seen v s, size v = s -> (forall u, In u seen -> size u < s) ->
  bestP lt (img (atsz (inl (v :: seen)) s) f) (f v).
Proof.
  intros seen v s Hs Hlt.
  eapply bestP_ext; [|apply (bestP_single D lt (f v)); auto].
  intros c. unfold img, atsz, inl. cbn [In]. split.
  - intros ->. exists v. auto.
  - intros (u & [[<- | Hu] Hsz] & ->); [reflexivity|]. apply Hlt in Hu. lia.
Qed.

End ImgLemmas.

Section BF.
Variable pc : bool.
Variable M : instance.
Hypothesis Hwf : wf M = true.

Definition costp (v : matching) : Z * Z := (cost_s M v, cost_l M v).
Definition costsqp (v : matching) : Z * Z := (costsq_s M v, costsq_l M v).
Definition zeros : list Z := repeat 0 (Z.to_nat (max_rank M)).
Definition PD : list Z -> Prop := lenD (Z.to_nat (max_rank M)).

Definition stepv (a : bf_acc) (v : list Z) : result bf_acc :=
  if negb (valid_b pc M v) then Ok a
  else
    let size := size v in
    let cost := costp v in
    let costsq := costsqp v in
    let degree := degree M v in
    let profile := profile M v in
    let maxd := max_abs_diff M v in
    let sumd := sum_abs_diff M v in
    let a1 := if o_size a <? size
              then mkBF size cost degree costsq profile profile (o_gre a) (o_maxdiff a) (o_sumdiff a)
              else a in
    do a2 <- (if size =? o_size a1 then
                let c := if tup_lt cost (o_mincost a1) then cost else o_mincost a1 in
                let d := if degree <? o_mindegree a1 then degree else o_mindegree a1 in
                let sq := if tup_lt costsq (o_minsqcost a1) then costsq else o_minsqcost a1 in
                do g <- moregen profile (o_genmax a1);
                do h <- moregre profile (o_gremax a1);
                Ok (mkBF (o_size a1) c d sq (if g then profile else o_genmax a1)
                         (if h then profile else o_gremax a1) (o_gre a1) (o_maxdiff a1) (o_sumdiff a1))
              else Ok a1);
    do gg <- moregre profile (o_gre a2);
    Ok (mkBF (o_size a2) (o_mincost a2) (o_mindegree a2) (o_minsqcost a2) (o_genmax a2) (o_gremax a2)
             (if gg then profile else o_gre a2)
             (if maxd <? o_maxdiff a2 then maxd else o_maxdiff a2)
             (if sumd <? o_sumdiff a2 then sumd else o_sumdiff a2)).

Lemma bf_step_stepv : forall a v, length v = length (pairs M) -> bf_step pc M a v = stepv a v.
Proof.
  intros a v Hl. unfold bf_step, stepv. cbv zeta.
  rewrite is_valid_eq by assumption.
  rewrite !somes_matching_pairs, !zlen_matching_pairs by assumption.
  fold (matched M v).
  rewrite !r_degree_eq, !r_profile_eq, !r_max_abs_diff_eq, !r_sum_abs_diff_eq.
  reflexivity.
Qed.

Definition Five (seen : list matching) (s : Z) (a : bf_acc) : Prop :=
  bestP tup_lt (img (atsz (inl seen) s) costp) (o_mincost a) /\
  bestP Z.ltb (img (atsz (inl seen) s) (degree M)) (o_mindegree a) /\
  bestP tup_lt (img (atsz (inl seen) s) costsqp) (o_minsqcost a) /\
  bestP more_generous (img (atsz (inl seen) s) (profile M)) (o_genmax a) /\
  bestP more_greedy (img (atsz (inl seen) s) (profile M)) (o_gremax a).

Definition Inv (seen : list matching) (a : bf_acc) : Prop :=
  bestP gtb (fun c => c = -1 \/ img (inl seen) size c) (o_size a) /\
  (o_size a <> -1 -> Five seen (o_size a) a) /\
  bestP more_greedy (fun c => c = zeros \/ img (inl seen) (profile M) c) (o_gre a) /\
  bestP Z.ltb (fun c => c = max_lec_uq M \/ img (inl seen) (max_abs_diff M) c) (o_maxdiff a) /\
  bestP Z.ltb (fun c => c = max_lec_uq M * nL M \/ img (inl seen) (sum_abs_diff M) c) (o_sumdiff a).

Lemma PD_profile : forall u, PD (profile M u).
Proof. intros. apply profile_length. Qed.

Lemma PD_zeros : PD zeros.
Proof. unfold PD, lenD, zeros. apply repeat_length. Qed.

Lemma TDI : forall {A} (x : A), TrueD x.
Proof. intros. exact Logic.I. Qed.

Lemma init_single : forall {A} D (lt : A -> A -> bool) (f : matching -> A) z0,
  SO D lt -> D z0 -> bestP lt (fun c => c = z0 \/ img (inl []) f c) z0.
Proof.
  intros A D lt f z0 HSO Dz. eapply bestP_ext; [|eapply bestP_single; eauto].
  intros c. unfold img, inl. cbn. split; [auto|]. intros [H | (u & [] & _)]. exact H.
Qed.

Lemma Inv_init : Inv [] (bf_init M).
Proof.
  unfold Inv, bf_init. cbn [o_size o_gre o_maxdiff o_sumdiff].
  split; [|split; [|split; [|split]]].
  - apply (init_single TrueD). apply SO_gtb. exact Logic.I.
  - intros H. contradiction H. reflexivity.
  - apply (init_single PD). apply SO_greedy. apply PD_zeros.
  - apply (init_single TrueD). apply SO_ltb. exact Logic.I.
  - apply (init_single TrueD). apply SO_ltb. exact Logic.I.
Qed.

Ltac projs := cbn [o_size o_mincost o_mindegree o_minsqcost o_genmax o_gremax o_gre o_maxdiff o_sumdiff].

Ltac same_if := repeat match goal with
  | |- context [if ?b then ?x else ?x] => replace (if b then x else x) with x by (destruct b; reflexivity)
  end.

Lemma stepv_valid : forall seen a v, Inv seen a -> valid_b pc M v = true ->
  exists a', stepv a v = Ok a' /\ Inv (v :: seen) a'.
Proof.
  intros seen a v (Hsz & Hfive & Hgre & Hmd & Hsd) Hval.
  assert (Lgre : length (profile M v) = length (o_gre a)).
  { rewrite profile_length. destruct Hgre as [[-> | (u & _ & ->)] _]; symmetry;
      [apply PD_zeros | apply profile_length]. }
  assert (Hle : forall u, In u seen -> size u <= o_size a).
  { intros u Hu. destruct Hsz as [_ Hm]. specialize (Hm (size u)). unfold gtb in Hm.
    assert (H : (o_size a <? size u) = false) by (apply Hm; right; exists u; split; auto).
    zb. lia. }
  pose proof (add_init TrueD gtb size SO_gtb (fun u => Logic.I) (-1) seen v (o_size a) Logic.I Hsz) as Nsz.
  pose proof (add_init PD more_greedy (profile M) (SO_greedy _) PD_profile zeros seen v (o_gre a) PD_zeros Hgre) as Ngre.
  pose proof (add_init TrueD Z.ltb (max_abs_diff M) SO_ltb (fun u => Logic.I) _ seen v (o_maxdiff a) Logic.I Hmd) as Nmd.
  pose proof (add_init TrueD Z.ltb (sum_abs_diff M) SO_ltb (fun u => Logic.I) _ seen v (o_sumdiff a) Logic.I Hsd) as Nsd.
  unfold stepv. rewrite Hval. cbn [negb]. cbv zeta.
  destruct (o_size a <? size v) eqn:E1.
  - projs. rewrite Z.eqb_refl. rewrite moregen_eq, moregre_eq by reflexivity. cbn [bind]. projs.
    rewrite moregre_eq by exact Lgre. cbn [bind].
    eexists. split; [reflexivity|]. unfold Inv. projs.
    assert (Eg : gtb (size v) (o_size a) = true) by exact E1. rewrite Eg in Nsz.
    split; [exact Nsz|]. split; [|split; [exact Ngre | split; [exact Nmd | exact Nsd]]].
    intros _. unfold Five. projs. same_if.
    assert (Hlt : forall u, In u seen -> size u < size v).
    { intros u Hu. apply Hle in Hu. zb. lia. }
    split; [|split; [|split; [|split]]].
    + apply (single_atsz TrueD); auto using SO_tup, TDI.
    + apply (single_atsz TrueD); auto using SO_ltb, TDI.
    + apply (single_atsz TrueD); auto using SO_tup, TDI.
    + apply (single_atsz PD); auto using SO_generous, PD_profile. apply SO_generous.
    + apply (single_atsz PD); auto using SO_greedy, PD_profile. apply SO_greedy.
  - assert (Eg : gtb (size v) (o_size a) = false) by exact E1. rewrite Eg in Nsz.
    destruct (size v =? o_size a) eqn:E2.
    + zb. assert (Hne : o_size a <> -1) by (pose proof (size_nonneg v); lia).
      destruct (Hfive Hne) as (F1 & F2 & F3 & F4 & F5).
      assert (Lgen : length (profile M v) = length (o_genmax a)).
      { rewrite profile_length. destruct F4 as [(u & _ & ->) _]. symmetry. apply profile_length. }
      assert (Lgrm : length (profile M v) = length (o_gremax a)).
      { rewrite profile_length. destruct F5 as [(u & _ & ->) _]. symmetry. apply profile_length. }
      rewrite moregen_eq by exact Lgen. rewrite moregre_eq by exact Lgrm. cbn [bind]. projs.
      rewrite moregre_eq by exact Lgre. cbn [bind].
      eexists. split; [reflexivity|]. unfold Inv. projs.
      split; [exact Nsz|]. split; [|split; [exact Ngre | split; [exact Nmd | exact Nsd]]].
      intros _. unfold Five. projs.
      split; [|split; [|split; [|split]]].
      * apply (add_atsz TrueD); auto using SO_tup, TDI.
      * apply (add_atsz TrueD); auto using SO_ltb, TDI.
      * apply (add_atsz TrueD); auto using SO_tup, TDI.
      * apply (add_atsz PD); auto using PD_profile. apply SO_generous.
      * apply (add_atsz PD); auto using PD_profile. apply SO_greedy.
    + cbn [bind]. rewrite moregre_eq by exact Lgre. cbn [bind].
      eexists. split; [reflexivity|]. unfold Inv. projs.
      split; [exact Nsz|]. split; [|split; [exact Ngre | split; [exact Nmd | exact Nsd]]].
      intros Hne. destruct (Hfive Hne) as (F1 & F2 & F3 & F4 & F5). zb.
      unfold Five.
      split; [|split; [|split; [|split]]]; apply keep_atsz; assumption.
Qed.

Lemma stepv_invalid : forall a v, valid_b pc M v = false -> stepv a v = Ok a.
Proof. intros a v H. unfold stepv. now rewrite H. Qed.

Lemma bf_fold_inv : forall vs seen a,
  (forall v, In v vs -> length v = length (pairs M)) -> Inv seen a ->
  exists a', bf_fold pc M a vs = Ok a' /\ Inv (rev (filter (valid_b pc M) vs) ++ seen) a'.
Proof.
  induction vs as [|v vs IH]; intros seen a Hl HI.
  - exists a. split; [reflexivity | exact HI].
  - cbn [bf_fold filter]. rewrite bf_step_stepv by (apply Hl; now left).
    assert (Hl' : forall w, In w vs -> length w = length (pairs M)) by (intros; apply Hl; now right).
    destruct (valid_b pc M v) eqn:Ev.
    + destruct (stepv_valid seen a v HI Ev) as (a1 & -> & HI1). cbn [bind].
      destruct (IH (v :: seen) a1 Hl' HI1) as (a' & Hf & HI').
      exists a'. split; [exact Hf|]. cbn [rev]. rewrite <- app_assoc. exact HI'.
    + rewrite stepv_invalid by assumption. cbn [bind]. apply IH; assumption.
Qed.

(* ====================================================================== *)
(* 6. The specification side and the conclusion                            *)
(* ====================================================================== *)

Definition Best (seen : list matching) (a : bf_acc) : Prop :=
  bestP gtb (img (inl seen) size) (o_size a) /\
  Five seen (o_size a) a /\
  bestP more_greedy (img (inl seen) (profile M)) (o_gre a) /\
  bestP Z.ltb (img (inl seen) (max_abs_diff M)) (o_maxdiff a) /\
  bestP Z.ltb (img (inl seen) (sum_abs_diff M)) (o_sumdiff a).

Lemma Inv_Best : forall seen a u0, Inv seen a -> In u0 seen ->
  (forall u, In u seen -> valid_b pc M u = true) -> Best seen a.
Proof.
  intros seen a u0 (Hsz & Hfive & Hgre & Hmd & Hsd) Hu0 Hval.
  assert (Bsz : bestP gtb (img (inl seen) size) (o_size a)).
  { apply (bestP_drop_init TrueD gtb _ (-1)); auto using SO_gtb, TDI.
    - exists (size u0). exists u0. split; [exact Hu0 | reflexivity].
    - intros p (u & _ & ->). unfold gtb. apply Z.ltb_ge. pose proof (size_nonneg u). lia. }
  unfold Best. split; [exact Bsz|]. split; [|split; [|split]].
  - apply Hfive. destruct Bsz as [(u & _ & ->) _]. pose proof (size_nonneg u). lia.
  - apply (bestP_drop_init PD more_greedy _ zeros); auto using PD_zeros.
    + apply SO_greedy.
    + intros z (u & _ & ->). apply PD_profile.
    + exists (profile M u0). exists u0. split; [exact Hu0 | reflexivity].
    + intros p (u & _ & ->). unfold more_greedy, zeros. rewrite <- (profile_length M u).
      apply lex_zeros_least. apply profile_nonneg.
  - apply (bestP_drop_init TrueD Z.ltb _ (max_lec_uq M)); auto using SO_ltb, TDI.
    + exists (max_abs_diff M u0). exists u0. split; [exact Hu0 | reflexivity].
    + intros p (u & Hu & ->). apply Z.ltb_ge. eapply max_abs_diff_bound; eauto.
  - apply (bestP_drop_init TrueD Z.ltb _ (max_lec_uq M * nL M)); auto using SO_ltb, TDI.
    + exists (sum_abs_diff M u0). exists u0. split; [exact Hu0 | reflexivity].
    + intros p (u & Hu & ->). apply Z.ltb_ge. eapply sum_abs_diff_bound; eauto.
Qed.

Lemma Best_unique : forall seen seen' a a',
  (forall u, In u seen <-> In u seen') -> Best seen a -> Best seen' a' -> a = a'.
Proof.
  intros seen seen' a a' Hext (Bs & (F1 & F2 & F3 & F4 & F5) & Bg & Bm & Bd)
         (Bs' & (F1' & F2' & F3' & F4' & F5') & Bg' & Bm' & Bd').
  assert (Hi : forall u, inl seen u <-> inl seen' u) by exact Hext.
  assert (Es : o_size a = o_size a').
  { apply (bestP_unique TrueD gtb _ _ _ _ SO_gtb (fun z _ => TDI z) (img_ext _ _ size Hi) Bs Bs'). }
  rewrite <- Es in *.
  assert (Hw : forall u, atsz (inl seen) (o_size a) u <-> atsz (inl seen') (o_size a) u)
    by (apply atsz_ext; exact Hi).
  destruct a as [s c d q gn gm g md sd], a' as [s' c' d' q' gn' gm' g' md' sd'].
  cbn [o_size o_mincost o_mindegree o_minsqcost o_genmax o_gremax o_gre o_maxdiff o_sumdiff] in *.
  subst s'. f_equal.
  - apply (bestP_unique TrueD tup_lt _ _ _ _ SO_tup (fun z _ => TDI z) (img_ext _ _ costp Hw) F1 F1').
  - apply (bestP_unique TrueD Z.ltb _ _ _ _ SO_ltb (fun z _ => TDI z) (img_ext _ _ (degree M) Hw) F2 F2').
  - apply (bestP_unique TrueD tup_lt _ _ _ _ SO_tup (fun z _ => TDI z) (img_ext _ _ costsqp Hw) F3 F3').
  - apply (bestP_unique PD more_generous _ _ _ _ (SO_generous _)) with (3 := F4) (4 := F4').
    + intros z (u & _ & ->). apply PD_profile.
    + apply img_ext. exact Hw.
  - apply (bestP_unique PD more_greedy _ _ _ _ (SO_greedy _)) with (3 := F5) (4 := F5').
    + intros z (u & _ & ->). apply PD_profile.
    + apply img_ext. exact Hw.
  - apply (bestP_unique PD more_greedy _ _ _ _ (SO_greedy _)) with (3 := Bg) (4 := Bg').
    + intros z (u & _ & ->). apply PD_profile.
    + apply img_ext. exact Hi.
  - apply (bestP_unique TrueD Z.ltb _ _ _ _ SO_ltb (fun z _ => TDI z) (img_ext _ _ (max_abs_diff M) Hi) Bm Bm').
  - apply (bestP_unique TrueD Z.ltb _ _ _ _ SO_ltb (fun z _ => TDI z) (img_ext _ _ (sum_abs_diff M) Hi) Bd Bd').
Qed.

Lemma best_img : forall {A} D (lt : A -> A -> bool) (f : matching -> A) u0 us,
  SO D lt -> (forall u, D (f u)) ->
  bestP lt (img (inl (u0 :: us)) f) (best lt (f u0) (map f us)).
Proof.
  intros A D lt f u0 us HSO HD.
  eapply bestP_ext; [|apply (best_bestP D lt (map f us) (f u0)); auto].
  - intros c. change (f u0 :: map f us) with (map f (u0 :: us)). rewrite in_map_iff.
    unfold img, inl. split; intros (u & H1 & H2); exists u; auto.
  - intros z Hz. apply in_map_iff in Hz. destruct Hz as (u & <- & _). apply HD.
Qed.

Lemma best_img_at : forall {A} D (lt : A -> A -> bool) (f : matching -> A) V s u0 us,
  SO D lt -> (forall u, D (f u)) ->
  (forall u, In u (u0 :: us) <-> atsz (inl V) s u) ->
  bestP lt (img (atsz (inl V) s) f) (best lt (f u0) (map f us)).
Proof.
  intros A D lt f V s u0 us HSO HD Hext.
  eapply bestP_ext; [|apply (best_img D lt f u0 us); auto].
  apply img_ext. exact Hext.
Qed.

Lemma spec_Best : forall m0 rest, all_valid pc M = m0 :: rest ->
  exists a, bf_spec pc M = Some a /\ Best (m0 :: rest) a.
Proof.
  intros m0 rest HV. unfold bf_spec. rewrite HV. cbv zeta.
  change (maxZ_of (map size rest) (size m0)) with (best gtb (size m0) (map size rest)).
  set (smax := best gtb (size m0) (map size rest)).
  assert (Bs : bestP gtb (img (inl (m0 :: rest)) size) smax).
  { apply (best_img TrueD); auto using SO_gtb, TDI. }
  destruct (filter (fun m => size m =? smax) (m0 :: rest)) as [|v0 vrest] eqn:Ef.
  - exfalso. destruct Bs as [(u & Hu & Hs) _].
    assert (Hin : In u (filter (fun m => size m =? smax) (m0 :: rest))).
    { apply filter_In. split; [exact Hu|]. apply Z.eqb_eq. auto. }
    rewrite Ef in Hin. exact Hin.
  - assert (Hext : forall u, In u (v0 :: vrest) <-> atsz (inl (m0 :: rest)) smax u).
    { intros u. rewrite <- Ef, filter_In. unfold atsz, inl. rewrite Z.eqb_eq. tauto. }
    eexists. split; [reflexivity|].
    unfold Best, Five.
    cbn [o_size o_mincost o_mindegree o_minsqcost o_genmax o_gremax o_gre o_maxdiff o_sumdiff].
    split; [exact Bs|]. split; [split; [|split; [|split; [|split]]] | split; [|split]].
    + apply (best_img_at TrueD tup_lt costp); auto using SO_tup, TDI.
    + apply (best_img_at TrueD Z.ltb (degree M)); auto using SO_ltb, TDI.
    + apply (best_img_at TrueD tup_lt costsqp); auto using SO_tup, TDI.
    + apply (best_img_at PD more_generous (profile M)); auto using PD_profile. apply SO_generous.
    + apply (best_img_at PD more_greedy (profile M)); auto using PD_profile. apply SO_greedy.
    + apply (best_img PD more_greedy (profile M)); auto using PD_profile. apply SO_greedy.
    + apply (best_img TrueD Z.ltb (max_abs_diff M)); auto using SO_ltb, TDI.
    + apply (best_img TrueD Z.ltb (sum_abs_diff M)); auto using SO_ltb, TDI.
Qed.

Definition seenF : list matching := rev (filter (valid_b pc M) (vecs M)) ++ [].

Lemma seenF_In : forall u, In u seenF <-> In u (all_valid pc M).
Proof.
  intros u. unfold seenF. rewrite app_nil_r, <- in_rev, filter_In, all_valid_In by exact Hwf. tauto.
Qed.

Lemma bf_run_inv : exists a, bf_run pc M = Ok a /\ Inv seenF a.
Proof.
  destruct (bf_fold_inv (vecs M) [] (bf_init M)) as (a & Hf & HI).
  - intros v Hv. now apply vecs_length.
  - apply Inv_init.
  - exists a. split; [|exact HI].
    pose proof (wf_facts M Hwf) as (_ & _ & HL & _ & _ & _ & Huq & _).
    unfold bf_run. destruct (l_uq M) eqn:E.
    + unfold zlen in Huq. cbn in Huq. lia.
    + exact Hf.
Qed.

Lemma bf_run_infeasible : forall a, bf_run pc M = Ok a -> Inv seenF a ->
  all_valid pc M = [] -> o_size a = -1.
Proof.
  intros a _ (Hsz & _) HV. destruct Hsz as [[H | (u & Hu & _)] _]; [exact H|].
  apply seenF_In in Hu. rewrite HV in Hu. destruct Hu.
Qed.

Lemma bf_run_feasible : forall a m0 rest, Inv seenF a -> all_valid pc M = m0 :: rest ->
  bf_spec pc M = Some a.
Proof.
  intros a m0 rest HI HV.
  destruct (spec_Best m0 rest HV) as (a' & Hs & HB').
  assert (HB : Best seenF a).
  { apply (Inv_Best seenF a m0 HI).
    - apply seenF_In. rewrite HV. now left.
    - intros u Hu. apply seenF_In in Hu. apply all_valid_In in Hu; [|exact Hwf]. tauto. }
  rewrite Hs. f_equal. symmetry. apply (Best_unique seenF (m0 :: rest)); auto.
  intros u. rewrite seenF_In, HV. tauto.
Qed.

Theorem bf_correct_sec : bf_results pc M = Ok (bf_spec_text pc M).
Proof.
  destruct bf_run_inv as (a & Hrun & HI).
  unfold bf_results. rewrite Hrun. cbn [bind]. f_equal.
  unfold bf_spec_text.
  destruct (all_valid pc M) as [|m0 rest] eqn:HV.
  - pose proof (bf_run_infeasible a Hrun HI HV) as Hsz.
    unfold bf_spec. rewrite HV.
    unfold bf_results_text. rewrite Hsz. cbn [o_size]. reflexivity.
  - rewrite (bf_run_feasible a m0 rest HI HV). reflexivity.
Qed.

Lemma bf_run_spec_sec : forall a, bf_run pc M = Ok a ->
  (all_valid pc M = [] /\ o_size a = -1) \/ (all_valid pc M <> [] /\ 0 <= o_size a /\ bf_spec pc M = Some a).
Proof.
  intros a Hrun. destruct bf_run_inv as (a' & Hrun' & HI).
  rewrite Hrun in Hrun'. injection Hrun' as <-.
  destruct (all_valid pc M) as [|m0 rest] eqn:HV.
  - left. split; [reflexivity|]. now apply bf_run_infeasible.
  - right. split; [discriminate|].
    pose proof (bf_run_feasible a m0 rest HI HV) as Hs. split; [|exact Hs].
    destruct (spec_Best m0 rest HV) as (a' & Hs' & (Bs & _)).
    rewrite Hs in Hs'. injection Hs' as <-.
    destruct Bs as [(u & _ & ->) _]. apply size_nonneg.
Qed.

End BF.

(* ====================================================================== *)
(* 7. Main theorems                                                        *)
(* ====================================================================== *)

(* main goal *)
Theorem bf_correct : forall (pc : bool) (M : instance),
  wf M = true -> bf_results pc M = Ok (bf_spec_text pc M).
Proof. intros pc M Hwf. now apply bf_correct_sec. Qed.

(* record-level version: the nine accumulators are exactly those of the specification *)
Theorem bf_run_spec : forall (pc : bool) (M : instance) (a : bf_acc),
  wf M = true -> bf_run pc M = Ok a ->
  (all_valid pc M = [] /\ o_size a = -1) \/
  (all_valid pc M <> [] /\ 0 <= o_size a /\ bf_spec pc M = Some a).
Proof. intros pc M a Hwf. now apply bf_run_spec_sec. Qed.

Theorem bf_no_crash : forall (pc : bool) (M : instance),
  wf M = true -> exists a, bf_run pc M = Ok a.
Proof. intros pc M Hwf. destruct (bf_run_inv pc M Hwf) as (a & H & _). now exists a. Qed.

Theorem bf_infeasible_iff : forall (pc : bool) (M : instance) (a : bf_acc),
  wf M = true -> bf_run pc M = Ok a -> (o_size a = -1 <-> all_valid pc M = []).
Proof.
  intros pc M a Hwf Hrun.
  destruct (bf_run_spec pc M a Hwf Hrun) as [[H1 H2] | (H1 & H2 & _)]; split; intros H; auto; try lia.
  contradiction.
Qed.

(* o_size is the maximum of size over all valid matchings *)
Theorem bf_size_correct : forall (pc : bool) (M : instance) (a : bf_acc),
  wf M = true -> bf_run pc M = Ok a -> all_valid pc M <> [] ->
  (exists m, In m (all_valid pc M) /\ size m = o_size a) /\
  (forall m, In m (all_valid pc M) -> size m <= o_size a).
Proof.
  intros pc M a Hwf Hrun Hne.
  destruct (bf_run_spec pc M a Hwf Hrun) as [[H1 _] | (_ & _ & Hs)]; [contradiction|].
  destruct (all_valid pc M) as [|m0 rest] eqn:HV; [contradiction|].
  destruct (spec_Best pc M m0 rest HV) as (a' & Hs' & ((u & Hu & Hsz) & Hmax) & _).
  rewrite Hs in Hs'. injection Hs' as <-.
  split.
  - exists u. split; [exact Hu | now symmetry].
  - intros m Hm. specialize (Hmax (size m)). unfold gtb in Hmax.
    assert (H : (o_size a <? size m) = false) by (apply Hmax; exists m; split; [exact Hm | reflexivity]).
    zb. lia.
Qed.

Print Assumptions bf_correct.
Print Assumptions bf_run_spec.
Print Assumptions bf_no_crash.
Print Assumptions bf_infeasible_iff.
Print Assumptions bf_size_correct.
