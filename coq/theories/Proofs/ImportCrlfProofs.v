(* C10 for DOS line ends: the model of the solver's importer reads an instance file whose lines all end in
   "\r\n" as the instance the file denotes.  [lines] splits at "\n" only, so every line keeps a trailing "\r";
   "\r" is one of the whitespace characters of [split_ws], so neither the header (read with [split_ws]) nor
   any later line (read with [line_tokens]) changes its tokens. *)
From MP Require Import Text.Render Proofs.TiesProofs Proofs.ImportProofs Proofs.PipelineProofs Proofs.ImportWsProofs.
From Coq Require Import Lia.
Local Open Scope list_scope. Open Scope Z_scope.

Definition crlf : string := String "013"%char (String "010"%char EmptyString).
Definition render_crlf (na : Z) (A : file_ast) (trailer : list string) : string :=
  concat_str (map (fun l => l +++ crlf) (map (join " "%string) (ast_lines na A) ++ trailer)).

(* ---- sanity check on a concrete file (3-agent, two-sided preferences, one trailer line) ---- *)

Definition ex_ast : file_ast :=
  mkAst 2 2 2 [[[1;2]]; [[2];[1]]] [(0,1,1);(0,2,1)] [] [(0,1,2,[[1];[2]]); (0,0,1,[])].

Example ex_crlf :
  import_model (render_crlf 3 ex_ast ["instance generation info"%string]) 3 true = Ok (denote 3 true ex_ast).
Proof. vm_compute. reflexivity. Qed.

(* ---- a trailing carriage return is whitespace ---- *)

Local Notation CR := (String "013"%char EmptyString).
Definition addcr (l : string) : string := l +++ CR.

Lemma split_ws_aux_cr : forall s cur, split_ws_aux (s +++ CR) cur = split_ws_aux s cur.
Proof.
  induction s as [|c s IH]; intros cur.
  - cbn [String.append split_ws_aux]. change (is_ws "013"%char) with true. cbv iota.
    destruct cur; reflexivity.
  - cbn [String.append split_ws_aux]. destruct (is_ws c); [destruct cur|]; now rewrite IH.
Qed.

Lemma split_ws_cr : forall s, split_ws (addcr s) = split_ws s.
Proof. intro s. unfold split_ws, addcr. apply split_ws_aux_cr. Qed.

Lemma line_tokens_cr : forall s, line_tokens (addcr s) = line_tokens s.
Proof.
  intro s. unfold line_tokens, addcr. rewrite remove_char_app.
  change (remove_char colon CR) with CR. apply split_ws_aux_cr.
Qed.

Lemma addcr_tokeq : forall L, Forall2 tokeq (map addcr L) L.
Proof.
  induction L as [|x L IH]; cbn [map]; constructor; [|exact IH].
  unfold tokeq. apply line_tokens_cr.
Qed.

Lemma addcr_no_nl : forall L, Forall no_nl L -> Forall no_nl (map addcr L).
Proof.
  intros L H. induction H as [|x L Hx _ IH]; cbn [map]; constructor; [|exact IH].
  unfold no_nl, addcr in *. rewrite contains_char_app, Hx. reflexivity.
Qed.

(* ---- the text as newline-terminated lines ---- *)

Lemma crlf_addnl : forall l, l +++ crlf = addnl (addcr l).
Proof. intro l. unfold addnl, addcr, crlf. rewrite append_assoc. reflexivity. Qed.

Lemma map_crlf : forall L, map (fun l => l +++ crlf) L = map addnl (map addcr L).
Proof.
  intro L. rewrite map_map. apply map_ext. intro l. apply crlf_addnl.
Qed.

(* ---- main theorem (no condition on the trailer is needed) ---- *)

Theorem import_render_crlf : forall (na : Z) (twopl : bool) (A : file_ast) (trailer : list string),
  wf_ast na twopl A = true ->
  import_model (render_crlf na A trailer) na twopl = Ok (denote na twopl A).
Proof.
  intros na tw A trailer W.
  pose proof (ast_lines_no_nl na A) as NA.
  destruct (ast_lines_cons na A) as (h & T & EA).
  unfold import_model, render_crlf, lines.
  rewrite map_app, concat_str_app, map_crlf.
  rewrite lines_aux_render by (apply addcr_no_nl; exact NA).
  set (TR := lines_aux (concat_str (map (fun l => l +++ crlf) trailer)) EmptyString).
  assert (HTR : Forall no_nl TR) by (apply lines_aux_no_nl; reflexivity).
  rewrite <- (import_lines_ast na tw A TR W HTR).
  rewrite EA in *. cbn [map app].
  apply import_lines_hdeq.
  - apply split_ws_cr.
  - apply Forall2_app; [apply addcr_tokeq|]. apply Forall2_refl. reflexivity.
Qed.

(* the statement with the (superfluous) premise that the trailer lines contain no newline *)
Corollary import_render_crlf_nonl : forall (na : Z) (twopl : bool) (A : file_ast) (trailer : list string),
  wf_ast na twopl A = true ->
  Forall (fun l => contains_char nl l = false) trailer ->
  import_model (render_crlf na A trailer) na twopl = Ok (denote na twopl A).
Proof. intros na tw A trailer W _. now apply import_render_crlf. Qed.

Print Assumptions import_render_crlf.
