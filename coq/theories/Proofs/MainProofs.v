(* The Solver from its command line (Run/Main.v): refusal precedes reading the file; an accepted command line on a
   well-formed file starts the session on the denoted instance with the criteria in position order. *)
From MP Require Import Run.Main Text.Render Proofs.OptsProofs Proofs.ImportProofs.
Local Open Scope list_scope. Open Scope Z_scope.

(* an unacceptable option set is refused whatever the file is: present, absent, malformed *)
Theorem refused_before_reading : forall c file t0,
  acceptable_ns (c_ns c) (c_twopl c) (c_stab c) = false -> solver_new c file t0 = SUsage.
Proof.
  intros c file t0 H. unfold solver_new. rewrite parse_ns_spec. unfold parse_spec. now rewrite H.
Qed.

(* an acceptable one is never refused: it gets as far as the file *)
Theorem accepted_reaches_file : forall c t0,
  acceptable_ns (c_ns c) (c_twopl c) (c_stab c) = true -> solver_new c None t0 = SNoFile.
Proof.
  intros c t0 H. unfold solver_new. rewrite parse_ns_spec. unfold parse_spec. now rewrite H.
Qed.

(* on a file of the documented format the solver works on the denoted instance, with the requested criteria in
   increasing order of their positions, extras kept with their criterion *)
Theorem accepted_starts_session : forall c A trailer t0,
  acceptable_ns (c_ns c) (c_twopl c) (c_stab c) = true ->
  wf_ast (c_na c) (c_twopl c) A = true ->
  solver_new c (Some (render (c_na c) A trailer)) t0 =
    SReady (init_session (denote (c_na c) (c_twopl c) A)
                         (mkOpts (c_pc c) (c_stab c)
                                 (map (fun e => (e_crit e, e_extras e)) (by_position (SolverOpts.entries (c_ns c)))))
                         (c_bf c) (c_twopl c) t0).
Proof.
  intros c A trailer t0 H W. unfold solver_new. rewrite parse_ns_spec. unfold parse_spec. rewrite H.
  now rewrite (import_render (c_na c) (c_twopl c) A trailer W).
Qed.

(* the outcome never depends on the file when the options are refused, and never is a usage error otherwise *)
Theorem usage_iff_unacceptable : forall c file t0,
  solver_new c file t0 = SUsage <-> acceptable_ns (c_ns c) (c_twopl c) (c_stab c) = false.
Proof.
  intros c file t0. split.
  - intro H. destruct (acceptable_ns (c_ns c) (c_twopl c) (c_stab c)) eqn:E; [|reflexivity].
    unfold solver_new in H. rewrite parse_ns_spec in H. unfold parse_spec in H. rewrite E in H.
    destruct file as [text|]; [|discriminate]. destruct (import_model text (c_na c) (c_twopl c)); discriminate.
  - apply refused_before_reading.
Qed.

Print Assumptions refused_before_reading.
Print Assumptions accepted_starts_session.
Print Assumptions usage_iff_unacceptable.
