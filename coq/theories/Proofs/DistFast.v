(* The normalising evaluator used by the correspondence is pointwise equal to the model. *)
From MP Require Import Gen.Dist Corr.C17Corr.
From Coq Require Import QArith.
Open Scope Q_scope.

Lemma sumQr_correct l : sumQr l == sumQ l.
Proof.
  induction l as [|a l IH]; [reflexivity|].
  change (sumQr (a :: l)) with (Qred (a + sumQr l)).
  change (sumQ (a :: l)) with (a + sumQ l).
  now rewrite Qred_correct, IH.
Qed.

Lemma sumQ_map_red l : sumQ (map Qred l) == sumQ l.
Proof.
  induction l as [|a l IH]; [reflexivity|].
  change (sumQ (map Qred (a :: l))) with (Qred a + sumQ (map Qred l)).
  change (sumQ (a :: l)) with (a + sumQ l).
  now rewrite Qred_correct, IH.
Qed.

Lemma dist_fast_correct n s : Forall2 Qeq (dist_fast n s) (dist n s).
Proof.
  unfold dist_fast, dist. rewrite map_map.
  assert (T : sumQr (map Qred (raws n s)) == sumQ (raws n s)).
  { rewrite sumQr_correct. apply sumQ_map_red. }
  revert T.
  generalize (sumQr (map Qred (raws n s))) as t1.
  generalize (sumQ (raws n s)) as t2.
  intros t2 t1 T.
  induction (raws n s) as [|a l IH]; [constructor|].
  cbn [map]. constructor; [|exact IH].
  now rewrite !Qred_correct, T.
Qed.
