(* The Solver object: getters are read-only (C18), a run that was cut short or is not optimal presents no
   matching (C14), and with a correct MILP back end a re-run reproduces every problem, status and stage
   optimum whatever optimal solutions the back end picks (C18). *)
From MP Require Import Run.Session LP.Oracle Proofs.RunProofs Proofs.RunStructure.
From Coq Require Import Lia.
Local Open Scope list_scope.
Open Scope Z_scope.

(* ---------- getters ---------------------------------------------------------------- *)

Theorem getter_pure : forall s g e s' t, step s (OGet g) e = Ok (s', t) -> s' = s.
Proof.
  intros s g e s' t H. cbn [step] in H. destruct (do_get s g); cbn [bind] in H; [|discriminate].
  now injection H as <- _.
Qed.

Theorem getter_env_irrelevant : forall s g e1 e2, step s (OGet g) e1 = step s (OGet g) e2.
Proof. reflexivity. Qed.

Fixpoint drive_ops (s : session) (ops : list (op * env)) : result (session * list string) :=
  match ops with
  | [] => Ok (s, [])
  | (o, e) :: t =>
      do '(s1, txt) <- step s o e;
      do '(s2, txts) <- drive_ops s1 t;
      Ok (s2, txt :: txts)
  end.

Definition all_getters (ops : list (op * env)) : Prop :=
  forall o e, In (o, e) ops -> exists g, o = OGet g.

(* between two solves: the state never changes and each getter always returns the same text *)
Theorem getters_same_text : forall ops s s' txts,
  all_getters ops -> drive_ops s ops = Ok (s', txts) ->
  s' = s /\
  Forall2 (fun oe t => exists g, fst oe = OGet g /\ do_get s g = Ok t) ops txts.
Proof.
  induction ops as [|[o e] ops IH]; intros s s' txts Hall H.
  - simpl in H. injection H as <- <-. split; [reflexivity|constructor].
  - cbn [drive_ops] in H.
    destruct (Hall o e (or_introl eq_refl)) as [g ->].
    cbn [step] in H. destruct (do_get s g) as [t|er] eqn:Eg; cbn [bind] in H; [|discriminate].
    destruct (drive_ops s ops) as [[s2 ts]|er] eqn:Ed; cbn [bind] in H; [|discriminate].
    injection H as <- <-.
    assert (Hall' : all_getters ops) by (intros o' e' Hin; apply (Hall o' e'); now right).
    destruct (IH s s2 ts Hall' Ed) as [-> HF].
    split; [reflexivity|]. constructor; [|exact HF]. exists g. split; [reflexivity|exact Eg].
Qed.

(* ---------- no matching is presented (C14) ---------------------------------------- *)

Definition timed_out (s : session) : bool :=
  match s_limit s with
  | Some (lim, _) => String.eqb (s_status s) "Not Solved" || (lim <? s_tsolve s - s_tstart s)
  | None => false
  end.

Definition with_vals (s : session) (vals : list (var * Z)) : session :=
  mkSess (s_inst s) (s_opts s) (s_bf s) (s_twopl s) (s_tstart s) (s_solved s) (s_tcreate s) (s_tsolve s)
         (s_limit s) (s_status s) (s_info s) vals (s_has_vars s) (s_bfacc s).

(* when the run timed out or its status is not Optimal, the result text does not depend on the variable
   values at all (so it carries no matching and no statistic), and producing it never fails *)
Theorem no_matching_presented : forall s long,
  timed_out s = true \/ String.eqb (s_status s) "Optimal" = false ->
  (forall vals', lp_results (with_vals s vals') long = lp_results s long) /\
  exists t, lp_results s long = Ok t.
Proof.
  intros s long H.
  assert (E : forall vals', lp_results (with_vals s vals') long = lp_results s long /\ exists t, lp_results s long = Ok t).
  { intro vals'. unfold lp_results, timed_out in *. cbn [with_vals s_inst s_limit s_status s_info s_tsolve s_tstart s_opts s_vals].
    destruct (s_limit s) as [[lim printed]|].
    - destruct H as [H|H].
      + rewrite H. cbn [orb]. split; [reflexivity|eauto].
      + rewrite H. cbn [negb]. rewrite orb_true_r. split; [reflexivity|eauto].
    - destruct H as [H|H]; [discriminate|]. rewrite H. cbn [negb orb]. split; [reflexivity|eauto]. }
  split; [intro v; apply (E v)|apply (E [])].
Qed.

Lemma status_string_optimal : forall st, String.eqb (status_string st) "Optimal" = true -> st = Optimal.
Proof. intros []; simpl; intro H; try discriminate; reflexivity. Qed.

(* ... in particular after a solve in which some performed MILP solve did not end Optimal *)
Theorem solve_nonoptimal_no_matching : forall s lim e s' out base k P long,
  s_bf s = false -> do_solve s lim e = Ok s' ->
  run (s_inst s) (s_opts s) (e_solve e) = Ok out -> base_constrs (s_inst s) (s_opts s) = Ok base ->
  nth_error (out_trace out) k = Some P -> a_status (e_solve e k P) <> Optimal ->
  s_status s' = status_string (a_status (e_solve e k P)) /\
  (forall vals', lp_results (with_vals s' vals') long = lp_results s' long) /\
  exists t, lp_results s' long = Ok t.
Proof.
  intros s lim e s' out base k P long Hbf Hs Hrun Hb HP Hne.
  destruct (run_first_nonoptimal _ _ _ _ _ _ _ Hrun Hb HP Hne) as [_ [Hst Hno]].
  unfold do_solve in Hs. rewrite Hbf, Hrun in Hs.
  destruct (if s_solved s then (clock_at e 0, 1%nat) else (s_tstart s, 0%nat)) as [tstart i0].
  cbn [bind] in Hs. injection Hs as <-. cbn [s_status].
  split; [now rewrite Hst|].
  apply no_matching_presented. right. cbn [s_status].
  destruct (String.eqb (status_string (out_status out)) "Optimal") eqn:E; [|reflexivity].
  exfalso. apply Hno. now apply status_string_optimal.
Qed.

(* a solve that was stopped by the time limit took at least the limit; some time passes before the solve
   starts; hence the run counts as timed out, whatever status the back end reported *)
Theorem limit_stop_times_out : forall s lim printed,
  s_limit s = Some (lim, printed) -> s_tstart s < s_tcreate s -> lim <= s_tsolve s - s_tcreate s ->
  timed_out s = true.
Proof.
  intros s lim printed Hl H1 H2. unfold timed_out. rewrite Hl.
  apply orb_true_iff. right. apply Z.ltb_lt. lia.
Qed.

(* ---------- a re-run is reproducible (C18) ---------------------------------------- *)

Lemma milp_status_det : forall M s1 s2 k1 k2 P,
  milp_ok M s1 -> milp_ok M s2 -> a_status (s1 k1 P) = a_status (s2 k2 P).
Proof.
  intros M s1 s2 k1 k2 P H1 H2.
  destruct (H1 k1 P) as [O1 [I1 [F1 D1]]]. destruct (H2 k2 P) as [O2 [I2 [F2 D2]]]. cbn zeta in *.
  destruct D1 as [D1|D1]; destruct D2 as [D2|D2]; try congruence.
  - exfalso. destruct (O1 D1) as [Hf _]. apply (I2 D2 _ Hf).
  - exfalso. destruct (O2 D2) as [Hf _]. apply (I1 D1 _ Hf).
Qed.

Lemma milp_value_det : forall M s1 s2 k1 k2 P,
  milp_ok M s1 -> milp_ok M s2 -> a_status (s1 k1 P) = Optimal -> a_status (s2 k2 P) = Optimal ->
  objective_value P (val_fun (a_vals (s1 k1 P))) = objective_value P (val_fun (a_vals (s2 k2 P))).
Proof.
  intros M s1 s2 k1 k2 P H1 H2 E1 E2.
  destruct (H1 k1 P) as [O1 _]. destruct (H2 k2 P) as [O2 _]. cbn zeta in *.
  destruct (O1 E1) as [F1 B1]. destruct (O2 E2) as [F2 B2].
  apply Z.le_antisymm; [apply (B2 _ F1)|apply (B1 _ F2)].
Qed.

(* two states agree on everything the next problems depend on *)
Definition agree (a b : rstate) : Prop :=
  r_objs a = r_objs b /\ r_info a = r_info b /\ r_status a = r_status b /\ r_trace a = r_trace b /\
  r_nsolves a = r_nsolves b /\ (ready a -> r_cs a = r_cs b).

Lemma objective_value_prim : forall cs n p objs v,
  objective_value (mkProb cs (prim_objective n p) objs) v = if is_max p then v (Obj n) else - v (Obj n).
Proof.
  intros. unfold objective_value, prim_objective. cbn [pb_objective].
  destruct (is_max p); unfold eval, sumZ; cbn [map fold_right fst snd]; lia.
Qed.

Lemma perform_agree : forall M s1 s2 a b p a' b',
  milp_ok M s1 -> milp_ok M s2 -> agree a b -> ready a ->
  perform M s1 a p = Ok a' -> perform M s2 b p = Ok b' ->
  agree a' b' /\ val_fun (r_vals a') (Obj (length (r_objs a))) = val_fun (r_vals b') (Obj (length (r_objs a))) \/
  agree a' b' /\ r_status a' <> Optimal.
Proof.
  intros M s1 s2 a b p a' b' H1 H2 [Ho [Hi [Hs [Ht [Hn Hc]]]]] Hr Ha Hb.
  specialize (Hc Hr).
  unfold perform in Ha, Hb. rewrite <- Ho, <- Hc, <- Hn, <- Hi, <- Ht in Hb.
  destruct (negb (names_ok (r_objs a ++ [mkObj (prim_ub M p) (prim_name p)]))); [discriminate|].
  set (n := length (r_objs a)) in *.
  set (P := mkProb (r_cs a ++ prim_tie M n p) (prim_objective n p)
                   (r_objs a ++ [mkObj (prim_ub M p) (prim_name p)])) in *.
  injection Ha as <-. injection Hb as <-.
  pose proof (milp_status_det M s1 s2 (r_nsolves a) (r_nsolves a) P H1 H2) as Hst.
  destruct (H1 (r_nsolves a) P) as [_ [_ [_ D1]]]. cbn zeta in D1.
  destruct D1 as [D1|D1].
  - left.
    assert (D2 : a_status (s2 (r_nsolves a) P) = Optimal) by congruence.
    pose proof (milp_value_det M s1 s2 _ _ P H1 H2 D1 D2) as Hv.
    unfold P in Hv at 1 3. rewrite !objective_value_prim in Hv.
    assert (Hv' : val_fun (a_vals (s1 (r_nsolves a) P)) (Obj n) = val_fun (a_vals (s2 (r_nsolves a) P)) (Obj n)).
    { destruct (is_max p); lia. }
    split; [|exact Hv'].
    unfold agree. cbn [r_objs r_info r_status r_trace r_nsolves r_cs].
    repeat split; try reflexivity; try assumption.
    intros _. unfold val_fun in Hv'. now rewrite Hv'.
  - right. split.
    + unfold agree. cbn [r_objs r_info r_status r_trace r_nsolves r_cs].
      repeat split; try reflexivity; try assumption.
      intros [Hz|Hopt]; [discriminate|]. cbn [r_status] in Hopt. congruence.
    + cbn [r_status]. congruence.
Qed.

Lemma agree_ready : forall a b, agree a b -> ready a -> ready b.
Proof. intros a b [_ [_ [Hs [_ [Hn _]]]]] [H|H]; [left|right]; congruence. Qed.

Lemma perform_all_agree : forall M s1 s2 ps a b a' b',
  milp_ok M s1 -> milp_ok M s2 -> agree a b -> ready a ->
  perform_all M s1 a ps = Ok a' -> perform_all M s2 b ps = Ok b' -> agree a' b'.
Proof.
  intros M s1 s2 ps. induction ps as [|p ps IH]; intros a b a' b' H1 H2 Hag Hr Ha Hb.
  - simpl in Ha, Hb. injection Ha as <-. injection Hb as <-. exact Hag.
  - cbn [perform_all] in Ha, Hb.
    destruct (perform M s1 a p) as [a1|e] eqn:Ea; [|discriminate].
    destruct (perform M s2 b p) as [b1|e] eqn:Eb; [|discriminate].
    cbn [bind] in Ha, Hb.
    assert (Hag1 : agree a1 b1).
    { destruct (perform_agree M s1 s2 a b p a1 b1 H1 H2 Hag Hr Ea Eb) as [[H _]|[H _]]; exact H. }
    assert (Hst : r_status a1 = r_status b1) by (destruct Hag1 as [_ [_ [H _]]]; exact H).
    rewrite <- Hst in Hb.
    destruct (status_eqb (r_status a1) Optimal) eqn:Es.
    + apply (IH a1 b1 a' b' H1 H2 Hag1); [|exact Ha|exact Hb].
      right. destruct (r_status a1); try discriminate; reflexivity.
    + injection Ha as <-. injection Hb as <-. exact Hag1.
Qed.

Lemma add_info_agree : forall a b line, agree a b -> agree (add_info a line) (add_info b line).
Proof.
  intros a b line [Ho [Hi [Hs [Ht [Hn Hc]]]]]. unfold agree, add_info.
  cbn [r_objs r_info r_status r_trace r_nsolves r_cs].
  split; [exact Ho|]. split; [congruence|]. split; [exact Hs|]. split; [exact Ht|]. split; [exact Hn|].
  intro Hr. apply Hc. exact Hr.
Qed.

Lemma run_crits_agree : forall M s1 s2 cs a b a' b',
  milp_ok M s1 -> milp_ok M s2 -> agree a b -> ready a ->
  run_crits M s1 a cs = Ok a' -> run_crits M s2 b cs = Ok b' -> agree a' b'.
Proof.
  intros M s1 s2 cs. induction cs as [|c cs IH]; intros a b a' b' H1 H2 Hag Hr Ha Hb.
  - simpl in Ha, Hb. injection Ha as <-. injection Hb as <-. exact Hag.
  - cbn [run_crits] in Ha, Hb.
    destruct (perform_all M s1 (add_info a (crit_info M c)) (expand M c)) as [a1|e] eqn:Ea; [|discriminate].
    destruct (perform_all M s2 (add_info b (crit_info M c)) (expand M c)) as [b1|e] eqn:Eb; [|discriminate].
    cbn [bind] in Ha, Hb.
    assert (Hag1 : agree a1 b1).
    { apply (perform_all_agree M s1 s2 (expand M c) (add_info a (crit_info M c)) (add_info b (crit_info M c)) a1 b1 H1 H2
               (add_info_agree a b (crit_info M c) Hag)); [exact Hr|exact Ea|exact Eb]. }
    assert (Hst : r_status a1 = r_status b1) by (destruct Hag1 as [_ [_ [H _]]]; exact H).
    assert (Hns1 : r_nsolves a1 = r_nsolves b1) by (destruct Hag1 as [_ [_ [_ [_ [H _]]]]]; exact H).
    assert (Hns0 : r_nsolves a = r_nsolves b) by (destruct Hag as [_ [_ [_ [_ [H _]]]]]; exact H).
    rewrite <- Hst, <- Hns1, <- Hns0 in Hb.
    destruct (status_eqb (r_status a1) Optimal || Nat.eqb (r_nsolves a1) (r_nsolves a)) eqn:Es.
    + apply (IH a1 b1 a' b' H1 H2 Hag1); [|exact Ha|exact Hb].
      apply orb_true_iff in Es as [Es|Es].
      * right. destruct (r_status a1); try discriminate; reflexivity.
      * apply Nat.eqb_eq in Es.
        assert (Hsame : a1 = add_info a (crit_info M c)).
        { apply (perform_all_nsolves_eq M s1 (expand M c)); [exact Ea|exact Es]. }
        rewrite Hsame. exact Hr.
    + injection Ha as <-. injection Hb as <-. exact Hag1.
Qed.

(* C18: two runs of the same instance and options against correct MILP back ends (which may return different
   optimal solutions at every stage) hand the very same problems to the back end — so the optimum frozen after
   every stage, which is the right-hand side of a constraint of the later problems, is the same —, end with the
   same status and log the same lines *)
Theorem rerun_reproducible : forall M o s1 s2 out1 out2,
  milp_ok M s1 -> milp_ok M s2 -> run M o s1 = Ok out1 -> run M o s2 = Ok out2 ->
  out_trace out1 = out_trace out2 /\ out_status out1 = out_status out2 /\ out_info out1 = out_info out2.
Proof.
  intros M o s1 s2 out1 out2 H1 H2 R1 R2. unfold run in R1, R2.
  destruct (base_constrs M o) as [base|e]; [|discriminate]. cbn [bind] in R1, R2.
  set (st0 := mkRS base [] (base_info o) NotSolved [] [] 0) in *.
  destruct (run_crits M s1 st0 (o_crits o)) as [a|e] eqn:Ea; [|discriminate].
  destruct (run_crits M s2 st0 (o_crits o)) as [b|e] eqn:Eb; [|discriminate].
  cbn [bind] in R1, R2.
  assert (Hag0 : agree st0 st0) by (unfold agree; repeat split; reflexivity).
  assert (Hr0 : ready st0) by (left; reflexivity).
  pose proof (run_crits_agree M s1 s2 _ _ _ _ _ H1 H2 Hag0 Hr0 Ea Eb) as [Ho [Hi [Hs [Ht [Hn Hc]]]]].
  rewrite <- Hn in R2.
  destruct (Nat.eqb (r_nsolves a) 0) eqn:En.
  - apply Nat.eqb_eq in En. assert (Hcs : r_cs a = r_cs b) by (apply Hc; left; exact En).
    injection R1 as <-. injection R2 as <-. cbn [out_trace out_status out_vals out_info].
    rewrite <- Hcs, <- Ho, <- Hi. split; [reflexivity|]. split; [|reflexivity].
    apply (milp_status_det M s1 s2 0%nat 0%nat _ H1 H2).
  - injection R1 as <-. injection R2 as <-. cbn [out_trace out_status out_vals out_info].
    repeat split; assumption.
Qed.

(* the optimum of the last stage is reproduced as well *)
Theorem last_stage_value : forall M s1 s2 a b p a' b',
  milp_ok M s1 -> milp_ok M s2 -> agree a b -> ready a ->
  perform M s1 a p = Ok a' -> perform M s2 b p = Ok b' -> r_status a' = Optimal ->
  val_fun (r_vals a') (Obj (length (r_objs a))) = val_fun (r_vals b') (Obj (length (r_objs a))).
Proof.
  intros M s1 s2 a b p a' b' H1 H2 Hag Hr Ea Eb Hopt.
  destruct (perform_agree M s1 s2 a b p a' b' H1 H2 Hag Hr Ea Eb) as [[_ H]|[_ H]]; [exact H|congruence].
Qed.

(* ---------- the Solver object solved twice (C18) ---------------------------------- *)

Lemma do_solve_fields : forall s lim e s', do_solve s lim e = Ok s' ->
  s_inst s' = s_inst s /\ s_opts s' = s_opts s /\ s_bf s' = s_bf s /\ s_twopl s' = s_twopl s /\ s_solved s' = true.
Proof.
  intros s lim e s' H. unfold do_solve in H.
  destruct (if s_solved s then (clock_at e 0, 1%nat) else (s_tstart s, 0%nat)) as [tstart i0].
  destruct (s_bf s) eqn:Hbf.
  - destruct (bf_run (o_pc (s_opts s)) (s_inst s)); cbn [bind] in H; [|discriminate].
    injection H as <-. cbn. repeat split; congruence.
  - destruct (run (s_inst s) (s_opts s) (e_solve e)); cbn [bind] in H; [|discriminate].
    injection H as <-. cbn. repeat split; congruence.
Qed.

(* solving the same Solver object again (any time limits, any clock, any two correct back ends): same status,
   same logged lines; the previous solve's values, status and timings do not influence the second solve *)
Theorem resolve_reproducible : forall s lim1 e1 s1 lim2 e2 s2,
  s_bf s = false ->
  milp_ok (s_inst s) (e_solve e1) -> milp_ok (s_inst s) (e_solve e2) ->
  do_solve s lim1 e1 = Ok s1 -> do_solve s1 lim2 e2 = Ok s2 ->
  s_status s2 = s_status s1 /\ s_info s2 = s_info s1.
Proof.
  intros s lim1 e1 s1 lim2 e2 s2 Hbf H1 H2 D1 D2.
  destruct (do_solve_fields _ _ _ _ D1) as [Hi [Ho [Hb _]]].
  unfold do_solve in D1, D2. rewrite Hb, Hi, Ho in D2. rewrite Hbf in D1, D2.
  destruct (if s_solved s then (clock_at e1 0, 1%nat) else (s_tstart s, 0%nat)) as [t1 i1].
  destruct (if s_solved s1 then (clock_at e2 0, 1%nat) else (s_tstart s1, 0%nat)) as [t2 i2].
  destruct (run (s_inst s) (s_opts s) (e_solve e1)) as [out1|] eqn:R1; cbn [bind] in D1; [|discriminate].
  destruct (run (s_inst s) (s_opts s) (e_solve e2)) as [out2|] eqn:R2; cbn [bind] in D2; [|discriminate].
  injection D1 as <-. injection D2 as <-. cbn [s_status s_info].
  destruct (rerun_reproducible _ _ _ _ _ _ H1 H2 R1 R2) as [_ [Hst Hinfo]].
  split; [now rewrite Hst|now rewrite Hinfo].
Qed.
