(* Structure of LP_Solver.run for an ARBITRARY oracle (no assumption on the back end):
   which problems are solved, which status and values are reported, which lines are logged. *)
From MP Require Import LP.Oracle.
From Coq Require Import Lia.
Local Open Scope list_scope.
Open Scope Z_scope.

(* the k-th performed solve received problem P and this is what came back *)
Definition answer_at (solve : oracle) (tr : list problem) (k : nat) : option answer :=
  match nth_error tr k with Some P => Some (solve k P) | None => None end.

(* invariant of the run state *)
Record inv (base : list constr) (solve : oracle) (s : rstate) : Prop := mkInv {
  inv_cs : exists extra, r_cs s = base ++ extra;
  inv_len : length (r_trace s) = r_nsolves s;
  inv_tr : forall k P, nth_error (r_trace s) k = Some P -> exists extra, pb_cs P = base ++ extra;
  inv_init : r_nsolves s = 0%nat -> r_status s = NotSolved;
  inv_prev : forall k P, nth_error (r_trace s) k = Some P -> (S k < r_nsolves s)%nat ->
             a_status (solve k P) = Optimal;
  inv_last : forall k P, nth_error (r_trace s) k = Some P -> S k = r_nsolves s ->
             r_status s = a_status (solve k P) /\ r_vals s = a_vals (solve k P) }.

(* the state is allowed to take another solve: nothing solved yet, or the last solve was optimal *)
Definition ready (s : rstate) : Prop := r_nsolves s = 0%nat \/ r_status s = Optimal.

Lemma nth_error_snoc_lt {A} (l : list A) (x : A) k : (k < length l)%nat -> nth_error (l ++ [x]) k = nth_error l k.
Proof. intro H. now rewrite nth_error_app1. Qed.

Lemma nth_error_snoc_eq {A} (l : list A) (x : A) : nth_error (l ++ [x]) (length l) = Some x.
Proof. rewrite nth_error_app2 by lia. now rewrite Nat.sub_diag. Qed.

Lemma nth_error_snoc_cases {A} (l : list A) (x y : A) k :
  nth_error (l ++ [x]) k = Some y -> (k < length l /\ nth_error l k = Some y)%nat \/ (k = length l /\ y = x).
Proof.
  intro H. destruct (Nat.lt_ge_cases k (length l)) as [Hlt|Hge].
  - left. split; [exact Hlt|]. now rewrite nth_error_snoc_lt in H.
  - right. assert (Hk : (k < length (l ++ [x]))%nat) by (apply nth_error_Some; congruence).
    rewrite app_length in Hk. simpl in Hk. assert (k = length l) by lia. subst k.
    rewrite nth_error_snoc_eq in H. split; [reflexivity|congruence].
Qed.

Lemma perform_inv base solve M s p s' :
  inv base solve s -> ready s -> perform M solve s p = Ok s' -> inv base solve s'.
Proof.
  intros [[extra Hcs] Hlen Htr Hinit Hprev Hlast] Hready H.
  unfold perform in H.
  destruct (negb (names_ok (r_objs s ++ [mkObj (prim_ub M p) (prim_name p)]))); [discriminate|].
  injection H as <-.
  set (n := length (r_objs s)) in *.
  set (P := mkProb (r_cs s ++ prim_tie M n p) (prim_objective n p)
                   (r_objs s ++ [mkObj (prim_ub M p) (prim_name p)])) in *.
  constructor; cbn [r_cs r_trace r_nsolves r_status r_vals].
  - exists (extra ++ prim_tie M n p ++ [prim_freeze n p
              match lookup (a_vals (solve (r_nsolves s) P)) (Obj n) with Some v => v | None => 0 end]).
    rewrite Hcs. now rewrite <- !app_assoc.
  - rewrite app_length. simpl. lia.
  - intros k Q HQ. apply nth_error_snoc_cases in HQ as [[_ HQ]|[_ ->]].
    + now apply Htr with k.
    + exists (extra ++ prim_tie M n p). unfold P. cbn [pb_cs]. rewrite Hcs. now rewrite <- app_assoc.
  - intros Hz. discriminate.
  - intros k Q HQ Hk. apply nth_error_snoc_cases in HQ as [[Hlt HQ]|[-> ->]].
    + assert (Hc : (S k < r_nsolves s \/ S k = r_nsolves s)%nat) by lia.
      destruct Hc as [Hc|Hc].
      * now apply Hprev.
      * destruct (Hlast k Q HQ Hc) as [Hst _].
        destruct Hready as [Hz|Hopt]; [lia|]. congruence.
    + lia.
  - intros k Q HQ Hk. apply nth_error_snoc_cases in HQ as [[Hlt HQ]|[-> ->]].
    + lia.
    + rewrite Hlen. split; reflexivity.
Qed.

Lemma perform_nsolves M solve s p s' : perform M solve s p = Ok s' -> r_nsolves s' = S (r_nsolves s).
Proof.
  unfold perform. destruct (negb _); [discriminate|]. intro H. injection H as <-. reflexivity.
Qed.

Lemma perform_info M solve s p s' : perform M solve s p = Ok s' -> r_info s' = r_info s.
Proof.
  unfold perform. destruct (negb _); [discriminate|]. intro H. injection H as <-. reflexivity.
Qed.

Lemma perform_all_inv base solve M ps : forall s s',
  inv base solve s -> ready s -> perform_all M solve s ps = Ok s' ->
  inv base solve s' /\ r_info s' = r_info s /\ (r_nsolves s <= r_nsolves s')%nat /\
  (ps <> [] -> (0 < r_nsolves s')%nat).
Proof.
  induction ps as [|p ps IH]; intros s s' Hinv Hready H.
  - simpl in H. injection H as <-. split; [assumption|]. split; [reflexivity|]. split; [lia|].
    intro Hne. exfalso. now apply Hne.
  - cbn [perform_all] in H.
    destruct (perform M solve s p) as [s1|e] eqn:E; [|discriminate]. cbn [bind] in H.
    pose proof (perform_inv _ _ _ _ _ _ Hinv Hready E) as Hinv1.
    pose proof (perform_nsolves _ _ _ _ _ E) as Hn1.
    pose proof (perform_info _ _ _ _ _ E) as Hi1.
    destruct (status_eqb (r_status s1) Optimal) eqn:Es.
    + assert (Hr1 : ready s1). { right. destruct (r_status s1); try discriminate; reflexivity. }
      destruct (IH s1 s' Hinv1 Hr1 H) as [Hinv' [Hinfo [Hle _]]].
      split; [exact Hinv'|]. split; [congruence|]. split; [lia|]. intros _. lia.
    + injection H as <-. split; [exact Hinv1|]. split; [exact Hi1|]. split; [lia|]. intros _. lia.
Qed.

Lemma perform_all_nsolves_eq M solve ps : forall s s',
  perform_all M solve s ps = Ok s' -> r_nsolves s' = r_nsolves s -> s' = s.
Proof.
  destruct ps as [|p ps]; intros s s' H Hn.
  - simpl in H. now injection H as <-.
  - exfalso. cbn [perform_all] in H.
    destruct (perform M solve s p) as [s1|e] eqn:E; [|discriminate]. cbn [bind] in H.
    pose proof (perform_nsolves _ _ _ _ _ E) as Hn1.
    assert (Hge : (r_nsolves s1 <= r_nsolves s')%nat).
    { destruct (status_eqb (r_status s1) Optimal).
      - clear E Hn1. revert s1 H. induction ps as [|q ps IH]; intros s1 H.
        + simpl in H. injection H as <-. lia.
        + cbn [perform_all] in H. destruct (perform M solve s1 q) as [s2|e] eqn:E2; [|discriminate].
          cbn [bind] in H. pose proof (perform_nsolves _ _ _ _ _ E2).
          destruct (status_eqb (r_status s2) Optimal).
          * specialize (IH s2 H). lia.
          * injection H as <-. lia.
      - injection H as <-. lia. }
    lia.
Qed.

Lemma add_info_inv base solve s line : inv base solve s -> inv base solve (add_info s line).
Proof. intros [H1 H2 H3 H4 H5 H6]. constructor; auto. Qed.

Lemma str_app_assoc (a b c : string) : (a +++ b) +++ c = a +++ (b +++ c).
Proof. induction a as [|ch a IH]; simpl; [reflexivity|now rewrite IH]. Qed.
Lemma str_app_nil_r (a : string) : a +++ EmptyString = a.
Proof. induction a as [|ch a IH]; simpl; [reflexivity|now rewrite IH]. Qed.
Lemma concat_str_cons (x : string) (l : list string) : concat_str (x :: l) = x +++ concat_str l.
Proof. reflexivity. Qed.

Lemma run_crits_inv base solve M cs : forall s s',
  inv base solve s -> ready s -> run_crits M solve s cs = Ok s' ->
  inv base solve s' /\
  exists j, (j <= length cs)%nat /\ r_info s' = r_info s +++ concat_str (map (crit_info M) (firstn j cs)).
Proof.
  induction cs as [|c cs IH]; intros s s' Hinv Hready H.
  - simpl in H. injection H as <-. split; [assumption|]. exists 0%nat. split; [lia|].
    cbn [firstn map]. unfold concat_str. cbn [fold_right]. now rewrite str_app_nil_r.
  - cbn [run_crits] in H.
    destruct (perform_all M solve (add_info s (crit_info M c)) (expand M c)) as [s1|e] eqn:E; [|discriminate].
    cbn [bind] in H.
    assert (Hr0 : ready (add_info s (crit_info M c))) by exact Hready.
    destruct (perform_all_inv base solve M _ _ _ (add_info_inv _ _ _ _ Hinv) Hr0 E) as [Hinv1 [Hinfo1 _]].
    cbn [add_info r_info] in Hinfo1.
    destruct (status_eqb (r_status s1) Optimal || Nat.eqb (r_nsolves s1) (r_nsolves s)) eqn:Es.
    + assert (Hr1 : ready s1).
      { apply orb_true_iff in Es as [Es|Es].
        - right. destruct (r_status s1); try discriminate; reflexivity.
        - apply Nat.eqb_eq in Es.
          assert (Hsame : s1 = add_info s (crit_info M c)).
          { apply (perform_all_nsolves_eq M solve (expand M c)); [exact E|exact Es]. }
          rewrite Hsame. exact Hr0. }
      destruct (IH s1 s' Hinv1 Hr1 H) as [Hinv' [j [Hj Hinfo]]].
      split; [assumption|]. exists (S j). split; [simpl; lia|].
      rewrite Hinfo, Hinfo1. cbn [firstn map]. rewrite concat_str_cons. now rewrite str_app_assoc.
    + injection H as <-. split; [assumption|]. exists 1%nat. split; [simpl; lia|].
      rewrite Hinfo1. cbn [firstn map]. rewrite concat_str_cons. unfold concat_str. cbn [fold_right].
      now rewrite str_app_nil_r.
Qed.
