(* Generator -> Solver from their command lines: every file written by an accepted generator run is accepted by the
   solver constructed with the documented flags and any acceptable option set, as a well-formed instance. *)
From MP Require Import Gen.ArgsBridge Run.Main Proofs.ArgsProofs Proofs.ArgsGen Proofs.PipelineProofs Proofs.OptsProofs
                       Proofs.MainProofs.
From Coq Require Import Lia.
Local Open Scope list_scope. Open Scope Z_scope.

Lemma mapM_In {A B} (f : A -> result B) : forall l out, mapM f l = Ok out ->
  forall y, In y out -> exists x, In x l /\ f x = Ok y.
Proof.
  induction l as [|x l IH]; intros out H y Hy.
  - cbn [mapM] in H. injection H as <-. destruct Hy.
  - cbn [mapM] in H. destruct (f x) as [b|e] eqn:E; cbn [bind] in H; [|discriminate].
    destruct (mapM f l) as [bs|e] eqn:El; cbn [bind] in H; [|discriminate].
    injection H as <-. destruct Hy as [<-|Hy].
    + exists x. split; [now left|exact E].
    + destruct (IH bs eq_refl y Hy) as [x' [Hin Hx']]. exists x'. split; [now right|exact Hx'].
Qed.

(* every file of a generator run is the instance text of one of the draws *)
Lemma generate_texts : forall g ds files, generate g ds = Ok files ->
  forall nt, In nt files -> exists d, In d ds /\ instance_text g d = Ok (snd nt).
Proof.
  intros g ds files H nt Hin. unfold generate in H.
  destruct (mapM_In _ _ _ H nt Hin) as [[k d] [Hkd Hf]]. cbn [fst snd] in Hf.
  destruct (instance_text g d) as [t|e] eqn:Et; cbn [bind] in Hf; [|discriminate].
  injection Hf as <-. exists d. split; [|exact Et]. now apply in_combine_r in Hkd.
Qed.

(* the whole pipeline: documented generator arguments, draws honouring the RNG contract; each written file, given to
   Solver(argv) with -na 2 / -na 3 as the type requires, -twopl exactly when generated two-sided, and any acceptable
   criteria selection (with or without -pc / -bf; -stab only with -twopl), yields a Solver working on a well-formed
   instance with the requested counts *)
Theorem pipeline_constructs : forall a t1 t2 sk lts ds files c t0,
  documented_ok a = true ->
  (forall d, In d ds -> draws_contract (gargs_of (with_defaults a) t1 t2 sk lts) d) ->
  generator_run a t1 t2 sk lts ds = GFiles files ->
  c_na c = na_of (gargs_of (with_defaults a) t1 t2 sk lts) -> c_twopl c = a_twopl a ->
  acceptable_ns (c_ns c) (c_twopl c) (c_stab c) = true ->
  forall nt, In nt files ->
    exists s, solver_new c (Some (snd nt)) t0 = SReady s /\ wf (s_inst s) = true /\
              nS (s_inst s) = zv (a_n1 a) /\ s_bf s = c_bf c /\ o_pc (s_opts s) = c_pc c /\ o_stab (s_opts s) = c_stab c.
Proof.
  intros a t1 t2 sk lts ds files c t0 Hdoc Hds Hrun Hna Htw Hacc nt Hin.
  set (g := gargs_of (with_defaults a) t1 t2 sk lts) in *.
  unfold generator_run in Hrun. rewrite decide_spec, Hdoc in Hrun. fold g in Hrun.
  destruct (generate g ds) as [fs|e] eqn:Eg; [|discriminate]. injection Hrun as <-.
  destruct (generate_texts g ds fs Eg nt Hin) as [d [Hd Ht]].
  assert (Hok : gargs_ok g).
  { apply (accepted_args_ok a (with_defaults a)). rewrite decide_spec, Hdoc. reflexivity. }
  destruct (generated_file_imports g d (snd nt) Hok (Hds d Hd) Ht) as [M [Hi [Hwf [HnS _]]]].
  assert (Etw : g_twopl g = a_twopl a) by reflexivity.
  unfold solver_new. rewrite parse_ns_spec. unfold parse_spec. rewrite Hacc.
  rewrite Hna, Htw, <- Etw, Hi.
  eexists. split; [reflexivity|]. cbn [s_inst s_bf s_opts init_session o_pc o_stab].
  repeat split; try assumption.
Qed.

Print Assumptions pipeline_constructs.
