(* The first-side lists of an imported generated instance are exactly the drawn lists (so their lengths lie in
   [pmin, pmax] and they list distinct agents of the other side), and every vector of lengths in [pmin, pmax]
   is produced by some draws honouring the random-number contract. *)
From MP Require Import Gen.Files Text.Render Proofs.TiesProofs Proofs.GenProofs Proofs.ImportProofs
                       Proofs.PipelineProofs.
From Coq Require Import Lia Permutation.
Local Open Scope list_scope. Open Scope Z_scope.

(* ====================================================================== *)
(* small helpers                                                           *)
(* ====================================================================== *)

Lemma nodupZ_NoDup : forall l, nodupZ l = true -> NoDup l.
Proof.
  induction l as [|x l IH]; intros H; [constructor|].
  cbn [nodupZ] in H. apply andb_true_iff in H as [H1 H2]. apply negb_true_iff in H1.
  constructor; [|now apply IH]. intro Hin. apply g_memZ_In in Hin. congruence.
Qed.

Lemma zlen_is_length {X} : forall l : list X, zlen l = Z.of_nat (length l).
Proof. reflexivity. Qed.

Lemma nodupZ_seqZ : forall n a, nodupZ (seqZ a n) = true.
Proof.
  induction n as [|n IH]; intros a; [reflexivity|].
  cbn [seqZ nodupZ]. rewrite IH, andb_true_r. apply negb_true_iff.
  destruct (memZ a (seqZ (a + 1) n)) eqn:E; [|reflexivity].
  apply g_memZ_In in E. apply g_seqZ_In in E. lia.
Qed.

Lemma existsb_false_intro {X} (p : X -> bool) : forall l, (forall x, In x l -> p x = false) -> existsb p l = false.
Proof.
  induction l as [|x l IH]; intros H; [reflexivity|].
  cbn [existsb]. rewrite (H x (or_introl eq_refl)). cbn [orb]. apply IH. intros y Hy. apply H. now right.
Qed.

Lemma mapM_total {X Y} (f : X -> result Y) : forall l,
  (forall x, In x l -> exists y, f x = Ok y) -> exists ys, mapM f l = Ok ys.
Proof.
  induction l as [|x l IH]; intros H; [eexists; reflexivity|].
  cbn [mapM]. destruct (H x (or_introl eq_refl)) as [y Ey]. rewrite Ey. cbn [bind].
  destruct IH as [ys Eys]; [intros z Hz; apply H; now right|]. rewrite Eys. cbn [bind]. eexists. reflexivity.
Qed.

(* ====================================================================== *)
(* 1. the imported first-side lists are the draws                          *)
(* ====================================================================== *)

Lemma map_pr_denote_row : forall na tw A i l, map pr (denote_row na tw A i l) = concat l.
Proof.
  intros na tw A i l. unfold denote_row. rewrite map_map. cbn [pr].
  change (map (fun x : Z * Z => fst x) (ranked l)) with (map fst (ranked l)).
  unfold ranked. apply map_fst_ranked_from.
Qed.

Lemma map_pr_denote_rows : forall na tw A ls i,
  map (map pr) (denote_rows na tw A i ls) = map (@concat Z) ls.
Proof.
  induction ls as [|l ls IH]; intros i; cbn [denote_rows map]; [reflexivity|].
  now rewrite map_pr_denote_row, IH.
Qed.

Lemma map_concat_zipruns : forall ls ts, length ls = length ts -> map (@concat Z) (zipruns ls ts) = ls.
Proof.
  induction ls as [|l ls IH]; intros [|t ts] H; try discriminate; [reflexivity|].
  unfold zipruns. cbn [combine map fst snd]. fold (zipruns ls ts).
  rewrite concat_runs, IH; [reflexivity|]. now injection H.
Qed.

Lemma imported_pairs : forall a d text M,
  gargs_ok a -> draws_contract a d -> instance_text a d = Ok text ->
  import_model text (na_of a) (g_twopl a) = Ok M ->
  exists na tw A, pairs M = denote_rows na tw A 1 (zipruns (d_first d) (d_ties1 d)).
Proof.
  intros a d text M G C H HI. unfold instance_text in H. unfold na_of in HI.
  destruct (Z.eqb_spec (g_mp a) 4) as [E4|N4].
  - destruct (spa_imports a d text G C E4 H) as
      (plec & lqs & uqs & llqs & ltgs & luqs & _ & _ & _ & _ & _ & _ & HI').
    rewrite HI' in HI. injection HI as <-. do 3 eexists. rewrite denote_pairs. reflexivity.
  - destruct (hr_imports a d text G C N4 H) as (lqs & uqs & _ & _ & HI').
    rewrite HI' in HI. injection HI as <-. do 3 eexists. rewrite denote_pairs. reflexivity.
Qed.

Theorem generated_lists_are_the_draws : forall a d text M,
  gargs_ok a -> draws_contract a d -> instance_text a d = Ok text ->
  import_model text (na_of a) (g_twopl a) = Ok M ->
  map (map pr) (pairs M) = d_first d /\
  (forall row, In row (pairs M) ->
     g_pmin a <= Z.of_nat (length row) <= g_pmax a /\ NoDup (map pr row) /\
     (forall q, In q row -> 1 <= pr q <= g_n2 a)).
Proof.
  intros a d text M G C H HI.
  destruct (imported_pairs a d text M G C H HI) as (na & tw & A & EP).
  pose proof C as (L1 & L2 & HC & _).
  assert (E : map (map pr) (pairs M) = d_first d).
  { rewrite EP, map_pr_denote_rows. apply map_concat_zipruns. congruence. }
  split; [exact E|]. intros row Hrow.
  assert (Hin : In (map pr row) (d_first d)) by (rewrite <- E; now apply in_map).
  apply In_nth_error in Hin as [i Hi].
  assert (Hlt : (i < length (d_ties1 d))%nat).
  { rewrite L2, <- L1. apply nth_error_Some. rewrite Hi. discriminate. }
  destruct (nth_error (d_ties1 d) i) as [t|] eqn:Et; [|apply nth_error_None in Et; lia].
  destruct (HC i _ t Hi Et) as (_ & Nd & Len & Rg).
  rewrite zlen_is_length, map_length in Len.
  split; [exact Len|]. split; [now apply nodupZ_NoDup|].
  intros q Hq. apply Rg. now apply in_map.
Qed.

(* ====================================================================== *)
(* 2. every length vector occurs                                           *)
(* ====================================================================== *)

Lemma invert_total : forall first n, (forall l x, In l first -> In x l -> 1 <= x <= n) ->
  exists inv, invert first n = Ok inv.
Proof.
  intros first n H. unfold invert. rewrite existsb_false_intro; [eexists; reflexivity|].
  intros l Hl. apply existsb_false_intro. intros x Hx. specialize (H l x Hl Hx).
  apply orb_false_iff. split; apply Z.ltb_ge; lia.
Qed.

Lemma student_lec_list_total : forall plec n3 prefs,
  (forall x, In x plec -> 1 <= x <= n3) -> (forall p, In p prefs -> 1 <= p <= zlen plec) ->
  exists l, student_lec_list plec n3 prefs = Ok l.
Proof.
  intros plec n3 prefs HP HR. unfold student_lec_list.
  destruct (mapM_total (fun p => py_nth plec (p - 1)) prefs) as [lecs E].
  { intros p Hp. exists (nth (Z.to_nat (p - 1)) plec 0). apply py_nth_ok. specialize (HR p Hp). lia. }
  rewrite E. cbn [bind]. rewrite existsb_false_intro; [eexists; reflexivity|].
  intros k Hk. apply (mapM_In _ _ _ E) in Hk as (p & Hp & Ek). specialize (HR p Hp).
  rewrite (py_nth_ok plec (p - 1) 0) in Ek by lia. injection Ek as <-.
  assert (Hin : In (nth (Z.to_nat (p - 1)) plec 0) plec) by (apply nth_In; unfold zlen in HR; lia).
  specialize (HP _ Hin). apply orb_false_iff. split; apply Z.ltb_ge; lia.
Qed.

Lemma second_side_total : forall a d, gargs_ok a ->
  (forall l x, In l (d_first d) -> In x l -> 1 <= x <= g_n2 a) ->
  exists inv, second_side_unshuffled a d = Ok inv.
Proof.
  intros a d G HR. pose proof G as (G1 & G2 & G3 & _).
  unfold second_side_unshuffled. destruct (Z.eqb_spec (g_mp a) 4) as [E4|N4].
  - specialize (G3 E4). destruct (plec_total (g_n2 a) (g_n3 a)) as (plec & Ep & Lp & Rp); [lia|lia|].
    rewrite Ep. cbn [bind].
    destruct (mapM_total (student_lec_list plec (g_n3 a)) (d_first d)) as [sl Esl].
    { intros l Hl. apply student_lec_list_total; [exact Rp|]. intros p Hp.
      unfold zlen. rewrite Lp. specialize (HR l p Hl Hp). lia. }
    unfold create_student_lec_lists. rewrite Esl. cbn [bind].
    apply invert_total. intros l x Hl Hx. apply (mapM_In _ _ _ Esl) in Hl as (prefs & _ & El).
    apply (student_lec_list_spec _ _ _ _ El) in Hx. exact (proj1 Hx).
  - apply invert_total. exact HR.
Qed.

Definition mk_first (lens : list Z) : list (list Z) := map (fun x => seqZ 1 (Z.to_nat x)) lens.
Definition mk_ties1 (lens : list Z) : list (list bool) := map (fun x => repeat false (Z.to_nat x)) lens.
Definition mk_ties2 (inv : list (list Z)) : list (list bool) := map (fun l : list Z => repeat false (length l)) inv.

Theorem every_length_vector_can_occur : forall a lens,
  gargs_ok a -> length lens = Z.to_nat (g_n1 a) ->
  (forall x, In x lens -> g_pmin a <= x <= g_pmax a) ->
  exists d text, draws_contract a d /\ map (fun l => Z.of_nat (length l)) (d_first d) = lens /\ instance_text a d = Ok text.
Proof.
  intros a lens G HL HR.
  pose proof G as (G1 & G2 & G3 & G4 & G5 & _).
  set (F := mk_first lens). set (T := mk_ties1 lens).
  assert (RF : forall l x, In l F -> In x l -> 1 <= x <= g_n2 a).
  { intros l x Hl Hx. apply in_map_iff in Hl as (y & <- & Hy). apply g_seqZ_In in Hx.
    specialize (HR y Hy). lia. }
  assert (LF : map (fun l : list Z => Z.of_nat (length l)) F = lens).
  { unfold F, mk_first. rewrite map_map. rewrite <- (map_id lens) at 2. apply map_ext_in.
    intros x Hx. rewrite length_seqZ. specialize (HR x Hx). lia. }
  assert (C3 : forall i l t, nth_error F i = Some l -> nth_error T i = Some t ->
      length t = length l /\ nodupZ l = true /\ g_pmin a <= zlen l <= g_pmax a /\
      forall x, In x l -> 1 <= x <= g_n2 a).
  { intros i l t Hl Ht. unfold F, mk_first in Hl. unfold T, mk_ties1 in Ht.
    rewrite nth_error_map in Hl, Ht. destruct (nth_error lens i) as [x|] eqn:Ex; [|discriminate].
    cbn [option_map] in Hl, Ht. injection Hl as <-. injection Ht as <-.
    apply nth_error_In in Ex. specialize (HR x Ex).
    split; [now rewrite repeat_length, length_seqZ|]. split; [apply nodupZ_seqZ|].
    split; [unfold zlen; rewrite length_seqZ; lia|].
    intros y Hy. apply g_seqZ_In in Hy. lia. }
  assert (LFn : length F = Z.to_nat (g_n1 a)) by (unfold F, mk_first; now rewrite map_length).
  assert (LTn : length T = Z.to_nat (g_n1 a)) by (unfold T, mk_ties1; now rewrite map_length).
  assert (X : exists d, draws_contract a d /\ d_first d = F).
  { destruct (g_twopl a) eqn:Tw.
    - destruct (second_side_total a (mkDraws F T [] []) G RF) as [inv E].
      exists (mkDraws F T inv (mk_ties2 inv)). split; [|reflexivity].
      unfold draws_contract. cbn [d_first d_ties1 d_second d_ties2]. rewrite Tw.
      split; [exact LFn|]. split; [exact LTn|]. split; [exact C3|].
      exists inv. split; [exact E|]. split; [reflexivity|].
      split; [unfold mk_ties2; now rewrite map_length|].
      intros k l0 l t H0 H1 H2. rewrite H0 in H1. injection H1 as <-.
      unfold mk_ties2 in H2. rewrite nth_error_map, H0 in H2. cbn [option_map] in H2. injection H2 as <-.
      split; [apply Permutation_refl|apply repeat_length].
    - exists (mkDraws F T [] []). split; [|reflexivity].
      unfold draws_contract. cbn [d_first d_ties1 d_second d_ties2]. rewrite Tw.
      split; [exact LFn|]. split; [exact LTn|]. split; [exact C3|]. split; reflexivity. }
  destruct X as (d & C & EF).
  destruct (generated_file_exists a d G C) as [text Ht].
  exists d, text. split; [exact C|]. split; [now rewrite EF|exact Ht].
Qed.

Print Assumptions generated_lists_are_the_draws.
Print Assumptions every_length_vector_can_occur.
