From MP Require Import Gen.Dist.
From Coq Require Import Lqa Lia.
Open Scope Q_scope.

Lemma raws_length n s : length (raws n s) = n.
Proof. unfold raws. now rewrite map_length, seq_length. Qed.

Lemma dist_length n s : length (dist n s) = n.
Proof. unfold dist. now rewrite map_length, raws_length. Qed.

Lemma nth_raws n s i : (i < n)%nat -> nth i (raws n s) 0 = raw n s i.
Proof.
  intro H. unfold raws.
  rewrite nth_indep with (d' := raw n s 0%nat) by (now rewrite map_length, seq_length).
  rewrite map_nth. now rewrite seq_nth.
Qed.

Lemma nth_dist n s i : (i < n)%nat -> nth i (dist n s) 0 = raw n s i / sumQ (raws n s).
Proof.
  intro H. unfold dist.
  rewrite nth_indep with (d' := 0 / sumQ (raws n s)) by (now rewrite map_length, raws_length).
  rewrite (map_nth (fun v => v / sumQ (raws n s))). now rewrite nth_raws.
Qed.

(* the closed form, also valid at x = 0 *)
Lemma raw_closed n s x : raw n s x == 1 + (inject_Z (Z.of_nat x) * (s - 1)) / inject_Z (Z.of_nat n - 1).
Proof.
  destruct x; [|reflexivity].
  simpl. unfold Qdiv. rewrite Qmult_0_l, Qmult_0_l. ring.
Qed.

Lemma raw_pos n s i : (i < n)%nat -> 0 < s -> 0 < raw n s i.
Proof.
  intros Hi Hs. destruct i as [|k]; [reflexivity|].
  unfold raw.
  set (X := inject_Z (Z.of_nat (S k))).
  set (N := inject_Z (Z.of_nat n - 1)).
  assert (HX : 0 < X). { unfold X. change 0 with (inject_Z 0). rewrite <- Zlt_Qlt. lia. }
  assert (HXN : X <= N). { unfold X, N. rewrite <- Zle_Qle. lia. }
  assert (HN : 0 < N) by lra.
  assert (E : 1 + X * (s - 1) / N == (N - X + X * s) / N).
  { field. lra. }
  rewrite E.
  apply Qlt_shift_div_l; [exact HN|].
  assert (P : 0 < X * s) by (apply Qmult_lt_0_compat; assumption).
  lra.
Qed.

Lemma sumQ_pos l : l <> [] -> Forall (fun v => 0 < v) l -> 0 < sumQ l.
Proof.
  induction l as [|a l IH]; intros Hne Hall; [congruence|].
  inversion Hall as [|? ? Ha Hl]; subst.
  destruct l as [|b l'].
  - simpl. lra.
  - assert (0 < sumQ (b :: l')) by (apply IH; [discriminate|assumption]).
    change (sumQ (a :: b :: l')) with (a + sumQ (b :: l')). lra.
Qed.

Lemma raws_pos n s : 0 < s -> Forall (fun v => 0 < v) (raws n s).
Proof.
  intro Hs. apply Forall_forall. intros v Hv.
  apply (In_nth _ _ 0) in Hv. destruct Hv as [i [Hi Hv]].
  rewrite raws_length in Hi. rewrite nth_raws in Hv by assumption. subst v.
  now apply raw_pos.
Qed.

Lemma total_pos n s : (1 <= n)%nat -> 0 < s -> 0 < sumQ (raws n s).
Proof.
  intros Hn Hs. apply sumQ_pos; [|now apply raws_pos].
  intro E. apply (f_equal (@length Q)) in E. rewrite raws_length in E. simpl in E. lia.
Qed.

Lemma sumQ_map_div l t : sumQ (map (fun v => v / t) l) == sumQ l / t.
Proof.
  induction l as [|a l IH]; simpl.
  - unfold Qdiv. ring.
  - rewrite IH. unfold Qdiv. ring.
Qed.

Lemma dist_sum_one n s : (1 <= n)%nat -> 0 < s -> sumQ (dist n s) == 1.
Proof.
  intros Hn Hs. unfold dist. rewrite sumQ_map_div.
  pose proof (total_pos n s Hn Hs) as HT.
  field. lra.
Qed.

Lemma dist_positive n s : (1 <= n)%nat -> 0 < s -> Forall (fun w => 0 < w) (dist n s).
Proof.
  intros Hn Hs. apply Forall_forall. intros w Hw.
  apply (In_nth _ _ 0) in Hw. destruct Hw as [i [Hi Hw]].
  rewrite dist_length in Hi. rewrite nth_dist in Hw by assumption. subst w.
  pose proof (total_pos n s Hn Hs) as HT.
  apply Qlt_shift_div_l; [exact HT|].
  pose proof (raw_pos n s i Hi Hs). lra.
Qed.

(* consecutive weights differ by one constant step *)
Lemma dist_step n s i : (S i < n)%nat ->
  nth (S i) (dist n s) 0 - nth i (dist n s) 0
  == (s - 1) / inject_Z (Z.of_nat n - 1) / sumQ (raws n s).
Proof.
  intro Hi.
  rewrite !nth_dist by lia.
  rewrite (raw_closed n s (S i)), (raw_closed n s i).
  rewrite Nat2Z.inj_succ. unfold Z.succ. rewrite inject_Z_plus.
  unfold Qdiv. ring.
Qed.

Lemma dist_progression n s i j : (S i < n)%nat -> (S j < n)%nat ->
  nth (S i) (dist n s) 0 - nth i (dist n s) 0 == nth (S j) (dist n s) 0 - nth j (dist n s) 0.
Proof. intros Hi Hj. now rewrite !dist_step. Qed.

Lemma dist_ratio n s : (2 <= n)%nat -> 0 < s ->
  nth (n - 1) (dist n s) 0 == s * nth 0 (dist n s) 0.
Proof.
  intros Hn Hs.
  assert (Hn1 : (1 <= n)%nat) by lia.
  pose proof (total_pos n s Hn1 Hs) as HT.
  rewrite !nth_dist by lia.
  assert (E : raw n s (n - 1) == s).
  { rewrite raw_closed.
    assert (EN : Z.of_nat (n - 1) = (Z.of_nat n - 1)%Z) by lia.
    rewrite EN.
    assert (HN : 0 < inject_Z (Z.of_nat n - 1)). { change 0 with (inject_Z 0). rewrite <- Zlt_Qlt. lia. }
    field. lra. }
  rewrite E. simpl raw. field. lra.
Qed.

Lemma dist_single s : 0 < s -> dist 1 s = [1 / (1 + 0)] /\ nth 0 (dist 1 s) 0 == 1.
Proof. intro Hs. split; [reflexivity|]. simpl. field. Qed.
