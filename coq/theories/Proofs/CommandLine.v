(* From the command line to the run: one solve of Solver(argv) on a file of the documented format IS a run of the
   LP model on the denoted instance with the criteria in position order; the theorems about `run` therefore hold for
   the Solver object as a whole (status, stability, lexicographic optimality). *)
From MP Require Import Run.Main Text.Render LP.Oracle LP.Canon Proofs.MainProofs Proofs.RunStructure Proofs.StabRun
                       Proofs.StageAll.
Local Open Scope list_scope. Open Scope Z_scope.

Definition cli_opts (c : cli) : opts :=
  mkOpts (c_pc c) (c_stab c) (map (fun e => (e_crit e, e_extras e)) (by_position (SolverOpts.entries (c_ns c)))).

Theorem command_line_is_run : forall c A trailer t0 limit e s s',
  acceptable_ns (c_ns c) (c_twopl c) (c_stab c) = true ->
  wf_ast (c_na c) (c_twopl c) A = true ->
  c_bf c = false ->
  solver_new c (Some (render (c_na c) A trailer)) t0 = SReady s -> do_solve s limit e = Ok s' ->
  exists out, run (denote (c_na c) (c_twopl c) A) (cli_opts c) (e_solve e) = Ok out /\
              s_status s' = status_string (out_status out) /\ s_vals s' = out_vals out /\ s_info s' = out_info out /\
              s_inst s' = denote (c_na c) (c_twopl c) A.
Proof.
  intros c A trailer t0 limit e s s' Hacc Hwa Hbf Hnew Hsolve.
  rewrite (accepted_starts_session c A trailer t0 Hacc Hwa) in Hnew. injection Hnew as <-.
  unfold do_solve in Hsolve.
  cbn [init_session s_solved s_tstart s_bf s_inst s_opts s_twopl s_status s_info s_vals s_has_vars] in Hsolve.
  rewrite Hbf in Hsolve. fold (cli_opts c) in Hsolve.
  destruct (run (denote (c_na c) (c_twopl c) A) (cli_opts c) (e_solve e)) as [out|er] eqn:Hrun;
    cbn [bind] in Hsolve; [|discriminate].
  injection Hsolve as <-. exists out. cbn [s_status s_vals s_info s_inst]. repeat split; reflexivity.
Qed.

Lemma status_string_inj_optimal : forall st, status_string st = "Optimal"%string -> st = Optimal.
Proof. intros [] H; try reflexivity; discriminate H. Qed.

(* under -stab the printed matching is stable *)
Theorem command_line_stable : forall c A trailer t0 limit e s s',
  acceptable_ns (c_ns c) (c_twopl c) (c_stab c) = true ->
  wf_ast (c_na c) (c_twopl c) A = true ->
  wf (denote (c_na c) (c_twopl c) A) = true -> two_sided (denote (c_na c) (c_twopl c) A) = true ->
  c_bf c = false -> c_stab c = true ->
  milp_ok (denote (c_na c) (c_twopl c) A) (e_solve e) ->
  solver_new c (Some (render (c_na c) A trailer)) t0 = SReady s -> do_solve s limit e = Ok s' ->
  s_status s' = "Optimal"%string ->
  stable_b (denote (c_na c) (c_twopl c) A)
           (matching_of (denote (c_na c) (c_twopl c) A) (val_fun (s_vals s'))) = true.
Proof.
  intros c A trailer t0 limit e s s' Hacc Hwa Hwf Htwo Hbf Hstab Hok Hnew Hsolve Hst.
  destruct (command_line_is_run c A trailer t0 limit e s s' Hacc Hwa Hbf Hnew Hsolve)
    as [out [Hrun [Es [Ev _]]]].
  rewrite Es in Hst. apply status_string_inj_optimal in Hst. rewrite Ev.
  exact (reported_stable _ (cli_opts c) (e_solve e) out Hwf Htwo Hstab Hok Hrun Hst).
Qed.

(* the printed matching is lexicographically optimal for the requested criteria in POSITION order *)
Theorem command_line_lex_optimal : forall c A trailer t0 limit e s s',
  acceptable_ns (c_ns c) (c_twopl c) (c_stab c) = true ->
  wf_ast (c_na c) (c_twopl c) A = true ->
  wf (denote (c_na c) (c_twopl c) A) = true ->
  admissible (denote (c_na c) (c_twopl c) A) (cli_opts c) = true ->
  c_bf c = false ->
  milp_ok (denote (c_na c) (c_twopl c) A) (e_solve e) ->
  solver_new c (Some (render (c_na c) A trailer)) t0 = SReady s -> do_solve s limit e = Ok s' ->
  s_status s' = "Optimal"%string ->
  LexOpt (Feas (c_pc c) (c_stab c) (denote (c_na c) (c_twopl c) A))
         (map (prim_objective_spec (denote (c_na c) (c_twopl c) A))
              (all_prims (denote (c_na c) (c_twopl c) A) (cli_opts c)))
         (matching_of (denote (c_na c) (c_twopl c) A) (val_fun (s_vals s'))).
Proof.
  intros c A trailer t0 limit e s s' Hacc Hwa Hwf Hadm Hbf Hok Hnew Hsolve Hst.
  destruct (command_line_is_run c A trailer t0 limit e s s' Hacc Hwa Hbf Hnew Hsolve)
    as [out [Hrun [Es [Ev _]]]].
  rewrite Es in Hst. apply status_string_inj_optimal in Hst. rewrite Ev.
  exact (run_lex_optimal_all _ (cli_opts c) (e_solve e) out Hwf Hadm Hok Hrun Hst).
Qed.

Print Assumptions command_line_is_run.
Print Assumptions command_line_stable.
Print Assumptions command_line_lex_optimal.
