(* C10 with leading zeros: the model of the solver's importer reads a file of the documented format whose
   numbers are written with leading zeros ("007:", "(03", "12)") and with arbitrary blank/tab layout as the same
   instance.

   NOTE.  The statement without any side condition on the padded tokens is FALSE of the model: wf_ast does not
   constrain quotas/targets nor the entries of second-side lists, so a token may be "-1:"; [pad_token] writes its
   zeros BEFORE the sign ("0-1:") and int("0-1") is a ValueError (in python and in [int_of_str]).  See
   [pad_counterexample] below.  Proved here:
     import_render_pad_partial : the given statement plus "a token that receives k <> 0 zeros contains no '-'";
     import_render_pad_nonneg  : the given statement plus [nonneg_ast A = true] (quotas, targets and second-side
                                 list entries are >= 0), with unconstrained [pads]. *)
From MP Require Import Text.RenderPad Proofs.TiesProofs Proofs.ImportProofs Proofs.PipelineProofs Proofs.ImportWsProofs.
From Coq Require Import Lia DecimalString.
Local Open Scope list_scope. Open Scope Z_scope.

Local Notation rc := (remove_char colon).
Local Notation SP := (" "%string).
Local Notation minus := ("-"%char).
Local Notation opar := ("("%char).
Local Notation cpar := (")"%char).

(* ====================================================================== *)
(* 1. int() ignores leading zeros                                          *)
(* ====================================================================== *)

(* non-empty and not starting with the sign *)
Definition hd_ok (s : string) : Prop :=
  match s with EmptyString => False | String a _ => Ascii.eqb a minus = false end.

Lemma int_zero_cons : forall s, hd_ok s -> int_of_str (String "0"%char s) = int_of_str s.
Proof.
  intros [|a s] H; [contradiction|]. cbn [hd_ok] in H.
  unfold int_of_str, NilZero.int_of_string. rewrite H.
  change (Ascii.eqb "0"%char minus) with false. cbv iota.
  unfold NilZero.uint_of_string. cbn [NilEmpty.uint_of_string].
  destruct (uint_of_char a (NilEmpty.uint_of_string s)) as [d|]; reflexivity.
Qed.

Lemma hd_ok_zeros : forall k s, hd_ok s -> hd_ok (zeros k +++ s).
Proof. intros [|k] s H; [exact H|]. cbn [zeros String.append hd_ok]. reflexivity. Qed.

(* the key fact: leading zeros do not change the value, nor whether the string is a number at all *)
Lemma int_zeros : forall k s, hd_ok s -> int_of_str (zeros k +++ s) = int_of_str s.
Proof.
  induction k as [|k IH]; intros s H; [reflexivity|].
  cbn [zeros String.append]. rewrite int_zero_cons by now apply hd_ok_zeros. now apply IH.
Qed.

Lemma int_open_crash : forall s, int_of_str (String opar s) = Crash ValueError.
Proof.
  intro s. unfold int_of_str, NilZero.int_of_string. change (Ascii.eqb opar minus) with false. cbv iota.
  unfold NilZero.uint_of_string. cbn [NilEmpty.uint_of_string].
  destruct (NilEmpty.uint_of_string s); reflexivity.
Qed.

Lemma uint_close_none : forall s, NilEmpty.uint_of_string (s +++ ")"%string) = None.
Proof.
  induction s as [|a s IH]; [reflexivity|]. cbn [String.append NilEmpty.uint_of_string]. rewrite IH. reflexivity.
Qed.

Lemma uintz_close_none : forall s, NilZero.uint_of_string (s +++ ")"%string) = None.
Proof.
  intro s. unfold NilZero.uint_of_string. rewrite uint_close_none. now destruct (s +++ ")"%string).
Qed.

Lemma int_close_crash : forall s, int_of_str (s +++ ")"%string) = Crash ValueError.
Proof.
  intro s. unfold int_of_str, NilZero.int_of_string. destruct s as [|a s]; [reflexivity|].
  cbn [String.append]. destruct (Ascii.eqb a minus).
  - now rewrite uintz_close_none.
  - change (String a (s +++ ")"%string)) with (String a s +++ ")"%string). now rewrite uintz_close_none.
Qed.

(* ====================================================================== *)
(* 2. tokens: a number with an optional "(" in front or ":" / ")" behind   *)
(* ====================================================================== *)

Definition nominus (s : string) : Prop := contains_char minus s = false.
Definition numstr (s : string) : Prop := s <> EmptyString /\ all_chars digit_or_minus s = true.

Inductive kind := KPlain | KLabel | KOpen | KClose.
Definition mk (kd : kind) (s : string) : string :=
  match kd with
  | KPlain => s
  | KLabel => s +++ ":"%string
  | KOpen => String opar s
  | KClose => s +++ ")"%string
  end.
Definition tshape (t : string) : Prop := exists kd s, numstr s /\ t = mk kd s.

Lemma str_numstr : forall z, numstr (str_of_Z z).
Proof. intro z. split; [apply str_of_Z_nonempty|apply str_of_Z_chars]. Qed.

Lemma numstr_no : forall s c, numstr s -> digit_or_minus c = false -> contains_char c s = false.
Proof. intros s c [_ H] Hc. now apply contains_char_false with digit_or_minus. Qed.

Lemma numstr_pgood : forall s, numstr s -> pgood s.
Proof. intros s [Hn H]. split; [assumption|]. apply all_chars_weaken with digit_or_minus; [apply dm_pch|assumption]. Qed.

Lemma numstr_hd_ok : forall s, numstr s -> nominus s -> hd_ok s.
Proof.
  intros [|a s] [Hn _] H; [now elim Hn|]. unfold nominus in H. cbn [contains_char] in H.
  apply orb_false_iff in H as [H _]. exact H.
Qed.

Lemma zeros_chars : forall k, all_chars digit_or_minus (zeros k) = true.
Proof. induction k as [|k IH]; [reflexivity|]. cbn [zeros all_chars]. rewrite IH. reflexivity. Qed.

Lemma numstr_zeros : forall k s, numstr s -> numstr (zeros k +++ s).
Proof.
  intros k s [Hn H]. split.
  - destruct k; [exact Hn|discriminate].
  - rewrite all_chars_app, zeros_chars, H. reflexivity.
Qed.

Lemma nominus_mk : forall kd s, nominus (mk kd s) -> nominus s.
Proof.
  intros [] s H; unfold nominus in *; cbn [mk] in H.
  - exact H.
  - rewrite contains_char_app in H. now apply orb_false_iff in H as [H _].
  - cbn [contains_char] in H. now apply orb_false_iff in H as [_ H].
  - rewrite contains_char_app in H. now apply orb_false_iff in H as [H _].
Qed.

(* ---- padding a token pads its number ---------------------------------- *)

Lemma pad_token_0 : forall t, pad_token 0 t = t.
Proof. intros [|c r]; [reflexivity|]. destruct c as [[] [] [] [] [] [] [] []]; reflexivity. Qed.

Lemma pad_token_noparen : forall k c r, Ascii.eqb c opar = false -> pad_token k (String c r) = zeros k +++ String c r.
Proof. intros k c r H. destruct c as [[] [] [] [] [] [] [] []]; try reflexivity. discriminate H. Qed.

Lemma dm_not_open : forall c, digit_or_minus c = true -> Ascii.eqb c opar = false.
Proof. intros c H. destruct (Ascii.eqb_spec c opar) as [->|_]; [discriminate H|reflexivity]. Qed.

Lemma pad_token_mk : forall k kd s, numstr s -> pad_token k (mk kd s) = mk kd (zeros k +++ s).
Proof.
  intros k kd [|c r] [Hn H]; [now elim Hn|]. cbn [all_chars] in H. apply andb_true_iff in H as [Hc _].
  pose proof (dm_not_open _ Hc) as Ho.
  destruct kd; cbn [mk].
  - now apply pad_token_noparen.
  - cbn [String.append]. rewrite pad_token_noparen by exact Ho.
    change (String c (r +++ ":"%string)) with (String c r +++ ":"%string). now rewrite append_assoc.
  - reflexivity.
  - cbn [String.append]. rewrite pad_token_noparen by exact Ho.
    change (String c (r +++ ")"%string)) with (String c r +++ ")"%string). now rewrite append_assoc.
Qed.

(* ---- what the importer sees of a token --------------------------------- *)

Definition rkind (kd : kind) : kind := match kd with KLabel => KPlain | x => x end.

Lemma rc_mk : forall kd s, numstr s -> rc (mk kd s) = mk (rkind kd) s.
Proof.
  intros kd s Hs. assert (E : rc s = s) by (apply remove_char_id, numstr_no; [assumption|reflexivity]).
  destruct kd; cbn [mk rkind].
  - exact E.
  - rewrite remove_char_app, E. cbn [remove_char]. rewrite Ascii.eqb_refl. apply append_empty_r.
  - cbn [remove_char]. change (Ascii.eqb opar colon) with false. cbv iota. now rewrite E.
  - rewrite remove_char_app, E. reflexivity.
Qed.

Lemma mk_pgood : forall kd s, kd <> KLabel -> numstr s -> pgood (mk kd s).
Proof.
  intros kd s Hk Hs. destruct (numstr_pgood s Hs) as [Hn H]. destruct kd; cbn [mk].
  - now split.
  - now elim Hk.
  - split; [discriminate|]. cbn [all_chars]. now rewrite H.
  - split.
    + destruct s; [now elim Hn|discriminate].
    + rewrite all_chars_app, H. reflexivity.
Qed.

Lemma mk_rgood : forall kd s, numstr s -> rgood (mk kd s).
Proof.
  intros kd s Hs. destruct kd.
  - apply pgood_rgood, mk_pgood; [discriminate|assumption].
  - split.
    + destruct (numstr_pgood s Hs) as [Hn H]. split.
      * cbn [mk]. destruct s; [now elim Hn|discriminate].
      * cbn [mk]. rewrite all_chars_app, (all_chars_weaken pch lch _ pch_lch H). reflexivity.
    + rewrite rc_mk by assumption. apply pgood_good, mk_pgood; [discriminate|assumption].
  - apply pgood_rgood, mk_pgood; [discriminate|assumption].
  - apply pgood_rgood, mk_pgood; [discriminate|assumption].
Qed.

Lemma tshape_rgood : forall t, tshape t -> rgood t.
Proof. intros t (kd & s & Hs & ->). now apply mk_rgood. Qed.

(* two tokens are read alike, whichever way the importer reads them *)
Definition zeq (s' s : string) : Prop := int_of_str s' = int_of_str s /\ lex_tok s' = lex_tok s.

Lemma zeq_refl : forall s, zeq s s.
Proof. intro s. split; reflexivity. Qed.

Lemma lex_plain : forall s, numstr s -> lex_tok s = (do n <- int_of_str s; Ok (TPlain n)).
Proof.
  intros s Hs. unfold lex_tok.
  rewrite (numstr_no s opar Hs eq_refl), (numstr_no s cpar Hs eq_refl). reflexivity.
Qed.

Lemma lex_open : forall s, numstr s -> lex_tok (String opar s) = (do n <- int_of_str s; Ok (TOpen n)).
Proof.
  intros s Hs. unfold lex_tok. cbn [contains_char remove_char]. rewrite Ascii.eqb_refl. cbn [orb].
  rewrite remove_char_id by (apply numstr_no; [assumption|reflexivity]). reflexivity.
Qed.

Lemma lex_close : forall s, numstr s -> lex_tok (s +++ ")"%string) = (do n <- int_of_str s; Ok (TClose n)).
Proof.
  intros s Hs. unfold lex_tok. rewrite !contains_char_app.
  rewrite (numstr_no s opar Hs eq_refl), (numstr_no s cpar Hs eq_refl).
  change (contains_char opar ")"%string) with false. change (contains_char cpar ")"%string) with true.
  cbn [orb]. rewrite remove_char_app. rewrite remove_char_id by (apply numstr_no; [assumption|reflexivity]).
  change (remove_char cpar ")"%string) with EmptyString. rewrite append_empty_r. reflexivity.
Qed.

Lemma mk_zeq : forall kd s' s, numstr s' -> numstr s -> int_of_str s' = int_of_str s ->
  zeq (rc (mk kd s')) (rc (mk kd s)).
Proof.
  intros kd s' s H' H E. rewrite !rc_mk by assumption. unfold zeq.
  destruct kd; cbn [rkind mk].
  - rewrite !lex_plain by assumption. now rewrite E.
  - rewrite !lex_plain by assumption. now rewrite E.
  - rewrite !int_open_crash, !lex_open by assumption. now rewrite E.
  - rewrite !int_close_crash, !lex_close by assumption. now rewrite E.
Qed.

(* the token-level statement *)
Lemma pad_token_props : forall k t, tshape t -> (k = 0%nat \/ nominus t) ->
  rgood (pad_token k t) /\ zeq (rc (pad_token k t)) (rc t).
Proof.
  intros k t (kd & s & Hs & ->) Hk. rewrite pad_token_mk by assumption.
  pose proof (numstr_zeros k s Hs) as Hz. split; [now apply mk_rgood|].
  apply mk_zeq; try assumption.
  destruct Hk as [->|Hn]; [reflexivity|].
  apply int_zeros, numstr_hd_ok; [assumption|]. now apply nominus_mk with kd.
Qed.

Lemma pad_plain_zeq : forall k s, numstr s -> (k = 0%nat \/ nominus s) ->
  zeq (pad_token k s) s.
Proof.
  intros k s Hs Hk.
  pose proof (pad_token_mk k KPlain s Hs) as E. cbn [mk] in E. rewrite E.
  pose proof (numstr_zeros k s Hs) as Hz.
  assert (Ei : int_of_str (zeros k +++ s) = int_of_str s).
  { destruct Hk as [->|Hn]; [reflexivity|]. now apply int_zeros, numstr_hd_ok. }
  pose proof (mk_zeq KPlain (zeros k +++ s) s Hz Hs Ei) as Z.
  rewrite !rc_mk in Z by assumption. exact Z.
Qed.

(* ====================================================================== *)
(* 3. token lines                                                          *)
(* ====================================================================== *)

Fixpoint pad_safe (ks : list nat) (toks : list string) : Prop :=
  match ks, toks with
  | k :: ks', t :: toks' => (k = 0%nat \/ nominus t) /\ pad_safe ks' toks'
  | _, _ => True
  end.

Fixpoint pads_safe (pads : list (list nat)) (T : list (list string)) : Prop :=
  match pads, T with
  | ks :: pads', l :: T' => pad_safe ks l /\ pads_safe pads' T'
  | _, _ => True
  end.

Lemma pad_safe_of_nth : forall ks toks,
  (forall j k t, nth_error ks j = Some k -> nth_error toks j = Some t -> k <> 0%nat -> contains_char minus t = false) ->
  pad_safe ks toks.
Proof.
  induction ks as [|k ks IH]; intros [|t toks] H; cbn [pad_safe]; try exact I.
  split.
  - destruct k as [|k]; [now left|right]. apply (H 0%nat (S k) t eq_refl eq_refl). discriminate.
  - apply IH. intros j k' t' A B. exact (H (S j) k' t' A B).
Qed.

Lemma pads_safe_of_nth : forall pads T,
  (forall i j ks toks k t, nth_error pads i = Some ks -> nth_error T i = Some toks ->
     nth_error ks j = Some k -> nth_error toks j = Some t -> k <> 0%nat -> contains_char minus t = false) ->
  pads_safe pads T.
Proof.
  induction pads as [|ks pads IH]; intros [|l T] H; cbn [pads_safe]; try exact I.
  split.
  - apply pad_safe_of_nth. intros j k t. exact (H 0%nat j ks l k t eq_refl eq_refl).
  - apply IH. intros i j ks' toks k t A B. exact (H (S i) j ks' toks k t A B).
Qed.

Lemma pad_line_length : forall ks toks, length (pad_line ks toks) = length toks.
Proof.
  induction ks as [|k ks IH]; intros [|t toks]; try reflexivity. cbn [pad_line length]. now rewrite IH.
Qed.

Lemma pad_lines_length : forall pads T, length (pad_lines pads T) = length T.
Proof.
  induction pads as [|ks pads IH]; intros [|l T]; try reflexivity. cbn [pad_lines length]. now rewrite IH.
Qed.

Lemma Forall2_zeq_refl : forall l, Forall2 zeq l l.
Proof. apply Forall2_refl. apply zeq_refl. Qed.

Lemma pad_line_props : forall toks ks, Forall tshape toks -> pad_safe ks toks ->
  Forall rgood (pad_line ks toks) /\ Forall2 zeq (map rc (pad_line ks toks)) (map rc toks).
Proof.
  induction toks as [|t toks IH]; intros ks HT S.
  - destruct ks; split; constructor.
  - inversion HT as [|? ? Ht HT']; subst. destruct ks as [|k ks].
    + change (pad_line [] (t :: toks)) with (t :: toks). split.
      * eapply Forall_impl; [|exact HT]. apply tshape_rgood.
      * apply Forall2_zeq_refl.
    + cbn [pad_safe] in S. destruct S as [Sk S']. cbn [pad_line map].
      destruct (pad_token_props k t Ht Sk) as [R Z]. destruct (IH ks HT' S') as [IR IZ].
      split; constructor; assumption.
Qed.

Lemma pad_header_props : forall h ks, Forall numstr h -> pad_safe ks h -> Forall2 zeq (pad_line ks h) h.
Proof.
  induction h as [|s h IH]; intros ks Hh S.
  - destruct ks; constructor.
  - inversion Hh as [|? ? Hs Hh']; subst. destruct ks as [|k ks].
    + apply Forall2_zeq_refl.
    + cbn [pad_safe] in S. destruct S as [Sk S']. cbn [pad_line].
      constructor; [now apply pad_plain_zeq|now apply IH].
Qed.

(* ====================================================================== *)
(* 4. lines that are read alike token by token                             *)
(* ====================================================================== *)

Definition lineq (x y : string) : Prop := Forall2 zeq (line_tokens x) (line_tokens y).
Definition hdq (x y : string) : Prop := Forall2 zeq (split_ws x) (split_ws y).

Lemma get_int_zeq : forall l l' n, Forall2 zeq l l' -> get_int l n = get_int l' n.
Proof.
  intros l l' n H. revert n. induction H as [|x y l l' [Hi _] _ IH]; intros [|n]; try reflexivity.
  - unfold get_int, get. cbn [nth_error bind]. exact Hi.
  - exact (IH n).
Qed.

Lemma mapM_lex_zeq : forall l l', Forall2 zeq l l' -> mapM lex_tok l = mapM lex_tok l'.
Proof.
  intros l l' H. induction H as [|x y l l' [_ Hl] _ IH]; [reflexivity|].
  cbn [mapM]. now rewrite Hl, IH.
Qed.

Lemma read_strings_zeq : forall l l', Forall2 zeq l l' -> read_strings l = read_strings l'.
Proof. intros l l' H. unfold read_strings. now rewrite (mapM_lex_zeq l l' H). Qed.

Lemma student_ranks_zeq : forall l l' k, Forall2 zeq l l' -> student_ranks l k = student_ranks l' k.
Proof. intros l l' k H. unfold student_ranks. now rewrite (read_strings_zeq l l' H). Qed.

Lemma Forall2_tl {X Y} (R : X -> Y -> Prop) : forall l l', Forall2 R l l' -> Forall2 R (tl l) (tl l').
Proof. intros l l' H. destruct H; [constructor|assumption]. Qed.

Lemma Forall2_skipn {X Y} (R : X -> Y -> Prop) : forall n l l', Forall2 R l l' -> Forall2 R (skipn n l) (skipn n l').
Proof.
  induction n as [|n IH]; intros l l' H; [exact H|]. destruct H; [constructor|]. cbn [skipn]. now apply IH.
Qed.

Lemma step_lineq : forall na tw i x y a, i <> 0 -> lineq x y -> step na tw i x a = step na tw i y a.
Proof.
  intros na tw i x y a Hi H. unfold lineq in H. unfold step. cbv zeta.
  rewrite (eqb_false i 0) by assumption.
  generalize dependent (line_tokens y). generalize (line_tokens x). intros l l' H.
  rewrite (read_strings_zeq (tl l) (tl l')) by now apply Forall2_tl.
  rewrite (student_ranks_zeq (skipn 3 l) (skipn 3 l')) by now apply Forall2_skipn.
  rewrite (student_ranks_zeq (skipn 4 l) (skipn 4 l')) by now apply Forall2_skipn.
  rewrite (get_int_zeq l l' 1 H), (get_int_zeq l l' 2 H), (get_int_zeq l l' 3 H).
  reflexivity.
Qed.

Lemma step0_hdq : forall na tw x y a, hdq x y -> step na tw 0 x a = step na tw 0 y a.
Proof.
  intros na tw x y a H. unfold hdq in H. unfold step. cbv zeta. change (0 =? 0) with true. cbv beta iota.
  generalize dependent (split_ws y). generalize (split_ws x). intros l l' H.
  rewrite (get_int_zeq l l' 0 H), (get_int_zeq l l' 1 H), (get_int_zeq l l' 2 H).
  reflexivity.
Qed.

Lemma run_lines_lineq : forall na tw ls1 ls2, Forall2 lineq ls1 ls2 ->
  forall i a, 1 <= i -> run_lines na tw i ls1 a = run_lines na tw i ls2 a.
Proof.
  intros na tw ls1 ls2 H. induction H as [|x y l1 l2 Hxy Hl IH]; intros i a Hi; [reflexivity|].
  cbn [run_lines]. rewrite (step_lineq na tw i x y a) by (assumption || lia).
  destruct (step na tw i y a) as [a'|e]; [|reflexivity]. cbn [bind]. apply IH. lia.
Qed.

Lemma import_lines_padeq : forall na tw h1 h2 ls1 ls2,
  hdq h1 h2 -> Forall2 lineq ls1 ls2 ->
  import_lines (h1 :: ls1) na tw = import_lines (h2 :: ls2) na tw.
Proof.
  intros na tw h1 h2 ls1 ls2 Hh H. unfold import_lines. cbn [run_lines].
  rewrite (step0_hdq na tw h1 h2 acc0 Hh).
  destruct (step na tw 0 h2 acc0) as [a'|e]; [|reflexivity]. cbn [bind].
  rewrite (run_lines_lineq na tw ls1 ls2 H) by lia. reflexivity.
Qed.

(* ====================================================================== *)
(* 5. the tokens of the documented lines                                   *)
(* ====================================================================== *)

Lemma plain_shape : forall z, tshape (str_of_Z z).
Proof. intro z. exists KPlain, (str_of_Z z). split; [apply str_numstr|reflexivity]. Qed.
Lemma label_shape : forall z, tshape (label z).
Proof. intro z. exists KLabel, (str_of_Z z). split; [apply str_numstr|reflexivity]. Qed.
Lemma open_shape : forall z, tshape (String opar (str_of_Z z)).
Proof. intro z. exists KOpen, (str_of_Z z). split; [apply str_numstr|reflexivity]. Qed.
Lemma close_shape : forall z, tshape (str_of_Z z +++ ")"%string).
Proof. intro z. exists KClose, (str_of_Z z). split; [apply str_numstr|reflexivity]. Qed.

Lemma group_tokens_shape : forall g, Forall tshape (group_tokens g).
Proof.
  intros [|a [|b g]]; cbn [group_tokens].
  - constructor.
  - constructor; [apply plain_shape|constructor].
  - constructor; [apply open_shape|]. apply Forall_app_intro.
    + apply Forall_forall. intros s Hs. apply in_map_iff in Hs as [z [<- _]]. apply plain_shape.
    + constructor; [apply close_shape|constructor].
Qed.

Lemma plist_tokens_shape : forall l, Forall tshape (plist_tokens l).
Proof.
  induction l as [|g l IH]; [constructor|].
  unfold plist_tokens. cbn [flat_map]. apply Forall_app_intro; [apply group_tokens_shape|exact IH].
Qed.

Definition sline_ok (toks : list string) : Prop := Forall tshape toks /\ toks <> [].

Lemma ast_lines_shape : forall na A, Forall sline_ok (ast_lines na A).
Proof.
  intros na A. unfold ast_lines.
  apply Forall_app_intro; [|apply Forall_app_intro].
  - constructor; [|constructor]. split; [|discriminate]. apply Forall_app_intro.
    + repeat (constructor; [apply plain_shape|]). constructor.
    + destruct (na =? 3); [|constructor]. constructor; [apply plain_shape|constructor].
  - apply numbered_P. intros i l. split; [|discriminate].
    constructor; [apply label_shape|apply plist_tokens_shape].
  - destruct (na =? 3).
    + apply Forall_app_intro; apply numbered_P.
      * intros j q. split; [|discriminate].
        repeat (constructor; [apply label_shape|]). constructor; [apply plain_shape|constructor].
      * intros k [[[lq tg] uq] l]. split; [|discriminate].
        apply Forall_app_intro; [|apply plist_tokens_shape].
        repeat (constructor; [apply label_shape|]). constructor.
    + apply numbered_P. intros j ql. split; [|discriminate].
      apply Forall_app_intro; [|apply plist_tokens_shape].
      repeat (constructor; [apply label_shape|]). constructor.
Qed.

Lemma ast_lines_header : forall na A, exists h T, ast_lines na A = h :: T /\ Forall numstr h.
Proof.
  intros na A. unfold ast_lines. cbn [app]. eexists. eexists. split; [reflexivity|].
  repeat (constructor; [apply str_numstr|]).
  destruct (na =? 3); [|constructor]. constructor; [apply str_numstr|constructor].
Qed.

(* ====================================================================== *)
(* 6. the padded, laid-out lines are read like the single-blank lines      *)
(* ====================================================================== *)

Lemma pad_lay_lines_props : forall T pads lys,
  Forall sline_ok T -> length lys = length T ->
  (forall i ly toks, nth_error lys i = Some ly -> nth_error T i = Some toks -> layout_ok ly (length toks) = true) ->
  pads_safe pads T ->
  Forall2 lineq (lay_lines lys (pad_lines pads T)) (map (join SP) T) /\
  Forall (fun s => no_nl s /\ s <> EmptyString) (lay_lines lys (pad_lines pads T)).
Proof.
  induction T as [|toks T IH]; intros pads [|ly lys] HT HL H PSf; try discriminate HL.
  - unfold lay_lines. cbn [combine map]. split; constructor.
  - inversion HT as [|? ? [Ht Hne] HT']; subst.
    pose proof (H 0%nat ly toks eq_refl eq_refl) as Hly.
    assert (G : forall ks pads', pad_safe ks toks -> pads_safe pads' T ->
      Forall2 lineq (lay_lines (ly :: lys) (pad_line ks toks :: pad_lines pads' T)) (map (join SP) (toks :: T)) /\
      Forall (fun s => no_nl s /\ s <> EmptyString) (lay_lines (ly :: lys) (pad_line ks toks :: pad_lines pads' T))).
    { intros ks pads' Sk Sp. destruct (pad_line_props toks ks Ht Sk) as [R Z].
      pose proof (pad_line_length ks toks) as L.
      destruct (IH pads' lys HT') as [I1 I2].
      - cbn [length] in HL. lia.
      - intros i ly' toks' A B. exact (H (S i) ly' toks' A B).
      - exact Sp.
      - unfold lay_lines. cbn [combine map fst snd]. split.
        + constructor; [|exact I1]. unfold lineq.
          rewrite line_tokens_layout; [|exact R|now rewrite L].
          rewrite line_tokens_join.
          * exact Z.
          * apply rgood_rc_good. eapply Forall_impl; [|exact Ht]. apply tshape_rgood.
        + constructor; [|exact I2]. split.
          * apply layout_no_nl; [now apply rgood_good|now rewrite L].
          * apply layout_nonempty; [now apply rgood_good| |now rewrite L].
            intro E. rewrite E in L. destruct toks; [now apply Hne|discriminate L]. }
    destruct pads as [|ks pads'].
    + exact (G [] [] I I).
    + cbn [pads_safe] in PSf. destruct PSf as [Sk Sp]. cbn [pad_lines]. now apply G.
Qed.

Lemma lineq_refl : forall x, lineq x x.
Proof. intro x. apply Forall2_zeq_refl. Qed.

(* ====================================================================== *)
(* main theorem (restricted: see the note at the top of the file)          *)
(* ====================================================================== *)

Theorem import_render_pad_partial : forall na twopl A pads lys trailer final_nl,
  wf_ast na twopl A = true ->
  length lys = length (ast_lines na A) ->
  (forall i ly toks, nth_error lys i = Some ly -> nth_error (ast_lines na A) i = Some toks ->
                     layout_ok ly (length toks) = true) ->
  (* the restriction: a token that is written with k <> 0 leading zeros contains no minus sign *)
  (forall i j ks toks k t, nth_error pads i = Some ks -> nth_error (ast_lines na A) i = Some toks ->
                           nth_error ks j = Some k -> nth_error toks j = Some t -> k <> 0%nat ->
                           contains_char "-"%char t = false) ->
  import_model (render_pad na A pads lys trailer final_nl) na twopl = Ok (denote na twopl A).
Proof.
  intros na tw A pads lys trailer fnl W Hlen Hly Hsafe.
  pose proof (ast_lines_shape na A) as OK.
  pose proof (pads_safe_of_nth _ _ Hsafe) as PS.
  destruct (pad_lay_lines_props _ pads lys OK Hlen Hly PS) as [TE NN].
  destruct (ast_lines_header na A) as (h & T & EA & Hh).
  unfold import_model, render_pad. fold (lay_lines lys (pad_lines pads (ast_lines na A))).
  assert (Hne : lay_lines lys (pad_lines pads (ast_lines na A)) <> []).
  { rewrite EA. destruct lys as [|ly lys']; [rewrite EA in Hlen; discriminate Hlen|].
    unfold lay_lines. destruct pads; cbn [pad_lines combine map]; discriminate. }
  destruct (lines_join_nl (lay_lines lys (pad_lines pads (ast_lines na A))) trailer fnl) as (TR & -> & HTR).
  - eapply Forall_impl; [|exact NN]. now intros s [N _].
  - exact Hne.
  - apply (Forall_last (fun s => s <> EmptyString)); [exact Hne|].
    eapply Forall_impl; [|exact NN]. now intros s [_ N].
  - rewrite <- (import_lines_ast na tw A TR W HTR).
    rewrite EA in *. destruct lys as [|ly lys']; [discriminate Hlen|].
    inversion OK as [|? ? [Sh _] _]; subst.
    pose proof (Hly 0%nat ly h eq_refl eq_refl) as Hly0.
    assert (G : forall ks0 pads', pad_safe ks0 h ->
      Forall2 lineq (lay_lines lys' (pad_lines pads' T)) (map (join SP) T) ->
      import_lines (lay_lines (ly :: lys') (pad_line ks0 h :: pad_lines pads' T) ++ TR) na tw =
      import_lines (map (join SP) (h :: T) ++ TR) na tw).
    { intros ks0 pads' S0 TE'. unfold lay_lines. cbn [combine map fst snd app].
      destruct (pad_line_props h ks0 Sh S0) as [R _].
      apply import_lines_padeq.
      - unfold hdq. rewrite split_ws_layout; [|now apply rgood_good|now rewrite pad_line_length].
        rewrite split_ws_join.
        + now apply pad_header_props.
        + apply rgood_good. eapply Forall_impl; [|exact Sh]. apply tshape_rgood.
      - apply Forall2_app; [exact TE'|]. apply Forall2_refl. apply lineq_refl. }
    destruct pads as [|ks0 pads'].
    + apply (G [] [] I). unfold lay_lines in TE. cbn [pad_lines combine map fst snd] in TE.
      inversion TE as [|? ? ? ? _ TE']; subst. exact TE'.
    + cbn [pads_safe] in PS. destruct PS as [S0 _]. cbn [pad_lines]. apply G; [exact S0|].
      unfold lay_lines in TE. cbn [pad_lines combine map fst snd] in TE.
      inversion TE as [|? ? ? ? _ TE']; subst. exact TE'.
Qed.

(* ====================================================================== *)
(* 7. files without negative numbers: any padding                          *)
(* ====================================================================== *)

(* quotas, targets and the entries of the second-side lists are not negative (wf_ast already bounds the sizes,
   the first-side lists and the lecturer ids from below) *)
Definition nonneg_plist (l : plist) : bool := forallb (forallb (fun x => 0 <=? x)) l.
Definition nonneg_ast (na : Z) (A : file_ast) : bool :=
  forallb (fun q => (0 <=? fst (fst q)) && (0 <=? snd (fst q))) (f_second A) &&
  (if na =? 3
   then forallb (fun q => (0 <=? fst (fst (fst q))) && (0 <=? snd (fst (fst q))) && (0 <=? snd (fst q)) &&
                          nonneg_plist (snd q)) (f_third A)
   else forallb nonneg_plist (f_second_lists A)).

Lemma str_nominus : forall z, 0 <= z -> nominus (str_of_Z z).
Proof.
  intros z Hz. unfold nominus. apply contains_char_false with is_digit; [|reflexivity].
  unfold str_of_Z. destruct z as [|p|p]; [reflexivity| |lia].
  cbn [Z.to_int NilZero.string_of_int]. unfold NilZero.string_of_uint.
  destruct (Pos.to_uint p) as [|u|u|u|u|u|u|u|u|u|u]; try reflexivity; apply (uint_string_digits (_ u)).
Qed.

Lemma label_nominus : forall z, 0 <= z -> nominus (label z).
Proof. intros z Hz. unfold nominus, label. rewrite contains_char_app, (str_nominus z Hz). reflexivity. Qed.

Lemma open_nominus : forall z, 0 <= z -> nominus (String opar (str_of_Z z)).
Proof. intros z Hz. unfold nominus. cbn [contains_char]. rewrite (str_nominus z Hz). reflexivity. Qed.

Lemma close_nominus : forall z, 0 <= z -> nominus (str_of_Z z +++ ")"%string).
Proof. intros z Hz. unfold nominus. rewrite contains_char_app, (str_nominus z Hz). reflexivity. Qed.

Lemma in_removelast {X} : forall (l : list X) x, In x (removelast l) -> In x l.
Proof.
  intros l x H. destruct l as [|a l]; [contradiction|].
  rewrite (app_removelast_last a (l := a :: l)) by discriminate. apply in_or_app. now left.
Qed.

Lemma in_last {X} : forall (l : list X) d, l <> [] -> In (last l d) l.
Proof.
  intros l d H. rewrite (app_removelast_last d H) at 2. apply in_or_app. right. now left.
Qed.

Lemma group_tokens_nominus : forall g, (forall p, In p g -> 0 <= p) -> Forall nominus (group_tokens g).
Proof.
  intros [|a [|b g]] H; cbn [group_tokens].
  - constructor.
  - constructor; [|constructor]. apply str_nominus, H. now left.
  - constructor; [apply open_nominus, H; now left|]. apply Forall_app_intro.
    + apply Forall_forall. intros s Hs. apply in_map_iff in Hs as [z [<- Hz]].
      apply str_nominus, H. right. now apply in_removelast.
    + constructor; [|constructor]. apply close_nominus, H. right. apply in_last. discriminate.
Qed.

Definition plist_nn (l : plist) : Prop := forall g p, In g l -> In p g -> 0 <= p.

Lemma plist_tokens_nominus : forall l, plist_nn l -> Forall nominus (plist_tokens l).
Proof.
  induction l as [|g l IH]; intros H; [constructor|].
  unfold plist_tokens. cbn [flat_map]. apply Forall_app_intro.
  - apply group_tokens_nominus. intros p Hp. apply (H g p); [now left|assumption].
  - apply IH. intros g' p Hg Hp. apply (H g' p); [now right|assumption].
Qed.

Lemma nonneg_plist_nn : forall l, nonneg_plist l = true -> plist_nn l.
Proof.
  intros l H g p Hg Hp. unfold nonneg_plist in H. rewrite forallb_forall in H. specialize (H g Hg).
  rewrite forallb_forall in H. specialize (H p Hp). now apply Z.leb_le in H.
Qed.

Lemma numbered_Pin {X} (P : list string -> Prop) : forall (f : Z -> X -> list string) l i,
  0 <= i -> (forall i x, 0 <= i -> In x l -> P (f i x)) -> Forall P (numbered f i l).
Proof.
  induction l as [|x l IH]; intros i Hi H; cbn [numbered]; constructor.
  - apply H; [assumption|now left].
  - apply IH; [lia|]. intros j y Hj Hy. apply H; [assumption|now right].
Qed.

Lemma ast_lines_nominus : forall na tw A, wf_ast na tw A = true -> nonneg_ast na A = true ->
  Forall (Forall nominus) (ast_lines na A).
Proof.
  intros na tw A W N.
  destruct (wf_ast_facts na tw A W) as (Hna & _ & _ & _ & _ & H1 & H2 & H3 & _ & _ & _ & HR & HL & _).
  unfold nonneg_ast in N. apply andb_true_iff in N as [N1 N2]. rewrite forallb_forall in N1.
  assert (Q : forall q, In q (f_second A) -> 0 <= fst (fst q) /\ 0 <= snd (fst q)).
  { intros q Hq. specialize (N1 q Hq). apply andb_true_iff in N1 as [Na Nb]. apply Z.leb_le in Na, Nb. now split. }
  unfold ast_lines.
  apply Forall_app_intro; [|apply Forall_app_intro].
  - constructor; [|constructor]. apply Forall_app_intro.
    + repeat (constructor; [now apply str_nominus|]). constructor.
    + destruct (na =? 3); [|constructor]. constructor; [now apply str_nominus|constructor].
  - apply numbered_Pin; [lia|]. intros i l Hi Hl. constructor; [now apply label_nominus|].
    apply plist_tokens_nominus. intros g p Hg Hp. rewrite Forall_forall in HR.
    specialize (HR l Hl g p Hg Hp). lia.
  - destruct (na =? 3) eqn:E3.
    + apply Z.eqb_eq in E3. rewrite forallb_forall in N2.
      apply Forall_app_intro; apply numbered_Pin; try lia.
      * intros j q Hj Hq. destruct (Q q Hq) as [Qa Qb]. specialize (HL E3 q Hq).
        constructor; [now apply label_nominus|]. constructor; [now apply label_nominus|].
        constructor; [now apply label_nominus|]. constructor; [apply str_nominus; lia|constructor].
      * intros k q Hk Hq. specialize (N2 q Hq). destruct q as [[[lq tg] uq] l]. cbn [fst snd] in N2.
        apply andb_true_iff in N2 as [N2 Nl]. apply andb_true_iff in N2 as [N2 Nc].
        apply andb_true_iff in N2 as [Na Nb]. apply Z.leb_le in Na, Nb, Nc.
        apply Forall_app_intro; [|now apply plist_tokens_nominus, nonneg_plist_nn].
        repeat (constructor; [now apply label_nominus|]). constructor.
    + rewrite forallb_forall in N2. apply numbered_Pin; [lia|]. intros j [q l] Hj Hql.
      pose proof (in_combine_l _ _ _ _ Hql) as Hq. pose proof (in_combine_r _ _ _ _ Hql) as Hl.
      destruct (Q q Hq) as [Qa Qb]. cbn [fst snd].
      apply Forall_app_intro; [|now apply plist_tokens_nominus, nonneg_plist_nn, N2].
      repeat (constructor; [now apply label_nominus|]). constructor.
Qed.

(* the given statement for files without negative numbers; [pads] is unconstrained *)
Theorem import_render_pad_nonneg : forall na twopl A pads lys trailer final_nl,
  wf_ast na twopl A = true ->
  nonneg_ast na A = true ->
  length lys = length (ast_lines na A) ->
  (forall i ly toks, nth_error lys i = Some ly -> nth_error (ast_lines na A) i = Some toks ->
                     layout_ok ly (length toks) = true) ->
  import_model (render_pad na A pads lys trailer final_nl) na twopl = Ok (denote na twopl A).
Proof.
  intros na tw A pads lys trailer fnl W N Hlen Hly.
  apply import_render_pad_partial; try assumption.
  intros i j ks toks k t _ Ht _ Htt _.
  pose proof (ast_lines_nominus na tw A W N) as NM. rewrite Forall_forall in NM.
  specialize (NM toks (nth_error_In _ _ Ht)). rewrite Forall_forall in NM.
  exact (NM t (nth_error_In _ _ Htt)).
Qed.

(* ====================================================================== *)
(* the counterexample to the unrestricted statement                        *)
(* ====================================================================== *)

Definition cex_ast : file_ast := mkAst 1 1 1 [[[1]]] [(-1, 1, 1)] [[[1]]] [].
Definition cex_lys : list layout :=
  map (fun toks => mkLayout EmptyString (repeat SP (Nat.pred (length toks))) EmptyString) (ast_lines 2 cex_ast).

(* a well-formed file, layouts that fit, one zero in front of the lower quota "-1:" of the hospital: the file is
   "1 1\n1: 1\n1: 0-1: 1: 1\n" and the importer raises ValueError, although the unpadded file is read as its
   denotation *)
Lemma pad_counterexample :
  wf_ast 2 false cex_ast = true /\
  length cex_lys = length (ast_lines 2 cex_ast) /\
  (forall i ly toks, nth_error cex_lys i = Some ly -> nth_error (ast_lines 2 cex_ast) i = Some toks ->
                     layout_ok ly (length toks) = true) /\
  import_model (render_pad 2 cex_ast [[]; []; [0; 1]]%nat cex_lys [] true) 2 false = Crash ValueError /\
  import_model (render_pad 2 cex_ast [] cex_lys [] true) 2 false = Ok (denote 2 false cex_ast).
Proof.
  split; [vm_compute; reflexivity|]. split; [vm_compute; reflexivity|]. split.
  - intros i ly toks H1 H2.
    destruct i as [|[|[|i]]]; vm_compute in H1, H2;
      [| | |destruct i; discriminate H1];
      injection H1 as <-; injection H2 as <-; vm_compute; reflexivity.
  - split; vm_compute; reflexivity.
Qed.

Print Assumptions import_render_pad_partial.
Print Assumptions import_render_pad_nonneg.
Print Assumptions pad_counterexample.
