(* parse_ns (slot-array algorithm of options_parser) = parse_spec (positions in range and distinct,
   criteria by increasing position). *)
From MP Require Import Opts.SolverOpts.
From Coq Require Import Lia.
Local Open Scope list_scope. Open Scope Z_scope.

(* ---- generic list facts ---------------------------------------------------- *)

Lemma set_slot_length : forall A (l : list A) i v, length (set_slot l i v) = length l.
Proof.
  induction l as [|x t IH]; intros i v; [reflexivity|].
  destruct i; cbn [set_slot length]; [reflexivity | now rewrite IH].
Qed.

Lemma nth_set_slot : forall A (l : list A) i v d k,
  (k < length l)%nat -> nth k (set_slot l i v) d = if Nat.eqb k i then v else nth k l d.
Proof.
  induction l as [|x t IH]; intros i v d k Hk; cbn [length] in Hk; [lia|].
  destruct i, k; cbn [set_slot nth Nat.eqb]; try reflexivity.
  apply IH; lia.
Qed.

Lemma existsb_filter_nil : forall A (f : A -> bool) l, existsb f l = false <-> filter f l = [].
Proof.
  induction l as [|x t IH]; cbn [existsb filter]; [tauto|].
  destruct (f x); cbn [orb]; [split; discriminate | exact IH].
Qed.

Lemma flat_map_length_eq : forall A K (B C : K -> list A) ks,
  (forall k, (length (B k) <= length (C k))%nat) ->
  (length (flat_map B ks) = length (flat_map C ks) <->
   forall k, In k ks -> length (B k) = length (C k)).
Proof.
  intros A K B C ks Hle. induction ks as [|k t IH]; cbn [flat_map In].
  - split; [intros _ k [] | reflexivity].
  - rewrite !app_length.
    assert (Ht : (length (flat_map B t) <= length (flat_map C t))%nat).
    { clear IH. induction t as [|k' t' IHt]; cbn [flat_map]; [lia|].
      rewrite !app_length. specialize (Hle k'). lia. }
    specialize (Hle k). split.
    + intros H k' [<- | Hin]; [lia|]. apply IH; [lia | exact Hin].
    + intros H. assert (H1 := H k (or_introl eq_refl)).
      assert (H2 : length (flat_map B t) = length (flat_map C t)).
      { apply IH. intros k' Hin. apply H. now right. }
      lia.
Qed.

Lemma flat_map_filter_cons_length : forall A K (f : K -> A -> bool) (e : A) (t : list A) ks,
  length (flat_map (fun k => filter (f k) (e :: t)) ks) =
  (length (filter (fun k => f k e) ks) + length (flat_map (fun k => filter (f k) t) ks))%nat.
Proof.
  intros A K f e t ks. induction ks as [|k r IH]; [reflexivity|].
  cbn [flat_map]. rewrite !app_length, IH.
  cbn [filter]. destruct (f k e); cbn [length]; lia.
Qed.

(* ---- the slot array ------------------------------------------------------------ *)

Definition o2l {A} (o : option A) : list A := match o with Some x => [x] | None => [] end.

(* the last entry of es at position k *)
Fixpoint lastat (k : Z) (es : list entry) : option entry :=
  match es with
  | [] => None
  | e :: t => match lastat k t with
              | Some x => Some x
              | None => if e_pos e =? k then Some e else None
              end
  end.

Lemma place_length : forall es slots, length (fold_left place es slots) = length slots.
Proof.
  induction es as [|e t IH]; intros slots; cbn [fold_left]; [reflexivity|].
  rewrite IH. apply set_slot_length.
Qed.

Lemma nth_fold_place : forall es slots k,
  (forall e, In e es -> 1 <= e_pos e) -> (k < length slots)%nat ->
  nth k (fold_left place es slots) None =
  match lastat (Z.of_nat k + 1) es with Some x => Some x | None => nth k slots None end.
Proof.
  induction es as [|e t IH]; intros slots k Hpos Hk; [reflexivity|].
  cbn [fold_left lastat].
  rewrite IH; [ | intros e' He'; apply Hpos; now right | unfold place; now rewrite set_slot_length].
  destruct (lastat (Z.of_nat k + 1) t) as [x|]; [reflexivity|].
  unfold place. rewrite nth_set_slot by exact Hk.
  assert (H1 : 1 <= e_pos e) by (apply Hpos; now left).
  destruct (Nat.eqb_spec k (Z.to_nat (e_pos e - 1))) as [Heq|Hne];
    destruct (Z.eqb_spec (e_pos e) (Z.of_nat k + 1)) as [Heq'|Hne']; try reflexivity; lia.
Qed.

Lemma list9 : forall A (l : list A) d, length l = 9%nat ->
  l = [nth 0 l d; nth 1 l d; nth 2 l d; nth 3 l d; nth 4 l d; nth 5 l d; nth 6 l d; nth 7 l d; nth 8 l d].
Proof.
  intros A l d H.
  do 9 (destruct l as [|? l]; [discriminate H|]).
  destruct l; [reflexivity | discriminate H].
Qed.

Lemma seqZ_nslots : seqZ 1 nslots = [1; 2; 3; 4; 5; 6; 7; 8; 9].
Proof. reflexivity. Qed.

Lemma compact_slots : forall es, (forall e, In e es -> 1 <= e_pos e) ->
  compact (fold_left place es (repeat None nslots)) = flat_map (fun k => o2l (lastat k es)) (seqZ 1 nslots).
Proof.
  intros es Hpos.
  assert (Hn : forall k, (k < 9)%nat ->
            nth k (fold_left place es (repeat None nslots)) None = lastat (Z.of_nat k + 1) es).
  { intros k Hk. rewrite nth_fold_place; [ | exact Hpos | exact Hk].
    destruct (lastat (Z.of_nat k + 1) es); [reflexivity|].
    unfold nslots. do 9 (destruct k as [|k]; [reflexivity|]). lia. }
  rewrite (list9 _ (fold_left place es (repeat None nslots)) None) by (rewrite place_length; reflexivity).
  rewrite !Hn by lia. rewrite seqZ_nslots. reflexivity.
Qed.

(* ---- last entry versus bucket ---------------------------------------------------- *)

Lemma lastat_spec : forall k es,
  match lastat k es with
  | None => filter (fun e => (e_pos e =? k)%Z) es = []
  | Some x => exists pre, filter (fun e => (e_pos e =? k)%Z) es = pre ++ [x]
  end.
Proof.
  intros k es. induction es as [|e t IH]; cbn [lastat filter]; [reflexivity|].
  destruct (lastat k t) as [x|].
  - destruct IH as [pre Hpre]. rewrite Hpre.
    destruct (e_pos e =? k); [exists (e :: pre) | exists pre]; reflexivity.
  - rewrite IH. destruct (e_pos e =? k); [exists []|]; reflexivity.
Qed.

Lemma bucket_le : forall es k,
  (length (o2l (lastat k es)) <= length (filter (fun e => (e_pos e =? k)%Z) es))%nat.
Proof.
  intros es k. assert (H := lastat_spec k es). destruct (lastat k es) as [x|]; cbn [o2l length]; [|lia].
  destruct H as [pre ->]. rewrite app_length. cbn [length]. lia.
Qed.

Lemma bucket_eq_iff : forall es k,
  length (o2l (lastat k es)) = length (filter (fun e => (e_pos e =? k)%Z) es) <->
  (length (filter (fun e => (e_pos e =? k)%Z) es) <= 1)%nat.
Proof.
  intros es k. assert (H := lastat_spec k es). destruct (lastat k es) as [x|]; cbn [o2l length].
  - destruct H as [pre ->]. rewrite app_length. cbn [length]. lia.
  - rewrite H. cbn [length]. lia.
Qed.

Lemma bucket_eq : forall es k,
  (length (filter (fun e => (e_pos e =? k)%Z) es) <= 1)%nat ->
  o2l (lastat k es) = filter (fun e => (e_pos e =? k)%Z) es.
Proof.
  intros es k Hle. assert (H := lastat_spec k es). destruct (lastat k es) as [x|]; cbn [o2l].
  - destruct H as [pre Hpre]. rewrite Hpre in *. rewrite app_length in Hle. cbn [length] in Hle.
    destruct pre; [reflexivity | cbn [length] in Hle; lia].
  - now rewrite H.
Qed.

(* ---- distinct positions ------------------------------------------------------------ *)

Lemma distinct_pos_iff : forall es,
  distinct_pos es = true <-> forall k, (length (filter (fun e => (e_pos e =? k)%Z) es) <= 1)%nat.
Proof.
  induction es as [|e t IH]; cbn [distinct_pos filter].
  - split; [intros _ k; cbn [length]; lia | reflexivity].
  - rewrite andb_true_iff, negb_true_iff, existsb_filter_nil, IH. split.
    + intros [Hnil Ht] k. destruct (Z.eqb_spec (e_pos e) k) as [<-|Hne]; [|apply Ht].
      rewrite Hnil. cbn [length]. lia.
    + intros H. split.
      * specialize (H (e_pos e)). rewrite Z.eqb_refl in H. cbn [length] in H.
        destruct (filter (fun e' => e_pos e' =? e_pos e) t); [reflexivity | cbn [length] in H; lia].
      * intros k. specialize (H k). destruct (e_pos e =? k); cbn [length] in H; lia.
Qed.

Lemma in_range_all : forall es, forallb in_range es = true ->
  forall e, In e es -> 1 <= e_pos e <= 9.
Proof.
  intros es H e He. rewrite forallb_forall in H. specialize (H e He).
  unfold in_range, nslots in H. apply andb_true_iff in H. destruct H as [H1 H2].
  apply Z.leb_le in H1. apply Z.leb_le in H2. lia.
Qed.

Lemma by_position_length : forall es, forallb in_range es = true ->
  length (by_position es) = length es.
Proof.
  unfold by_position. induction es as [|e t IH]; intros H.
  - reflexivity.
  - rewrite (flat_map_filter_cons_length _ _ (fun k e => e_pos e =? k)).
    cbn [forallb] in H. apply andb_true_iff in H. destruct H as [He Ht].
    rewrite (IH Ht). cbn [length].
    assert (Hr : 1 <= e_pos e <= 9) by (apply (in_range_all [e]); [cbn; now rewrite He | now left]).
    rewrite seqZ_nslots.
    assert (Hc : e_pos e = 1 \/ e_pos e = 2 \/ e_pos e = 3 \/ e_pos e = 4 \/ e_pos e = 5 \/
                 e_pos e = 6 \/ e_pos e = 7 \/ e_pos e = 8 \/ e_pos e = 9) by lia.
    destruct Hc as [-> | [-> | [-> | [-> | [-> | [-> | [-> | [-> | ->]]]]]]]]; reflexivity.
Qed.

Lemma ordered_length_iff : forall es, forallb in_range es = true ->
  (length (flat_map (fun k => o2l (lastat k es)) (seqZ 1 nslots)) = length es <-> distinct_pos es = true).
Proof.
  intros es R. rewrite <- (by_position_length es R). unfold by_position.
  rewrite (flat_map_length_eq _ _ (fun k => o2l (lastat k es)) (fun k => filter (fun e => (e_pos e =? k)%Z) es))
    by (intro k; apply bucket_le).
  rewrite distinct_pos_iff. split.
  - intros H k. destruct (filter (fun e => (e_pos e =? k)%Z) es) as [|x l] eqn:F; [cbn [length]; lia|].
    rewrite <- F. apply bucket_eq_iff. apply H.
    assert (Hx : In x (filter (fun e => (e_pos e =? k)%Z) es)) by (rewrite F; now left).
    apply filter_In in Hx. destruct Hx as [Hx Hk]. apply Z.eqb_eq in Hk.
    assert (Hr := in_range_all es R x Hx). rewrite seqZ_nslots. cbn [In]. lia.
  - intros H k _. apply bucket_eq_iff. apply H.
Qed.

Lemma ordered_by_position : forall es, distinct_pos es = true ->
  flat_map (fun k => o2l (lastat k es)) (seqZ 1 nslots) = by_position es.
Proof.
  intros es D. unfold by_position. apply flat_map_ext. intros k.
  apply bucket_eq. now apply distinct_pos_iff.
Qed.

(* ---- main theorem ---------------------------------------------------------------- *)

Theorem parse_ns_spec : forall (n : ns) (twopl stab : bool),
  parse_ns n twopl stab = parse_spec n twopl stab.
Proof.
  intros n twopl stab. unfold parse_ns, parse_spec, acceptable_ns.
  generalize (entries n). intros es.
  destruct (forallb in_range es) eqn:R; cbn [negb andb]; [|reflexivity].
  rewrite compact_slots by (intros e He; apply (in_range_all es R e He)).
  destruct (distinct_pos es) eqn:D; cbn [andb].
  - rewrite (proj2 (Nat.eqb_eq _ _) (proj2 (ordered_length_iff es R) D)). cbn [negb].
    rewrite (ordered_by_position es D).
    destruct stab, twopl; reflexivity.
  - assert (Hne : Nat.eqb (length (flat_map (fun k => o2l (lastat k es)) (seqZ 1 nslots))) (length es) = false).
    { apply Nat.eqb_neq. intros H. apply (ordered_length_iff es R) in H. congruence. }
    rewrite Hne. reflexivity.
Qed.

Print Assumptions parse_ns_spec.
