(* The optimality theorems for every option set: with -stab the base hypotheses of StageInv are discharged by
   the stability-encoding theorems, without it by the *_nostab instances. *)
From MP Require Import LP.Canon Proofs.LPSound Proofs.StageInv.
From MP Require Proofs.StabProofs Proofs.CanonProofs Proofs.RunStructure.
From Coq Require Import Lia.
Local Open Scope list_scope.
Open Scope Z_scope.

Lemma binary_ab_same : forall v, binary_ab v <-> StabProofs.binary_ab v.
Proof. intro v. unfold binary_ab, StabProofs.binary_ab. tauto. Qed.

Lemma admissible_two_sided : forall M o, admissible M o = true -> o_stab o = true -> two_sided M = true.
Proof.
  intros M o H Hs. unfold admissible in H. rewrite Hs in H. cbn [negb orb] in H.
  apply andb_true_iff in H as [H _]. apply andb_true_iff in H as [H _]. exact H.
Qed.

Lemma base_stab_shape : forall M o base, o_stab o = true -> base_constrs M o = Ok base ->
  exists sc, stability_constrs M = Ok sc /\
             base = upper_lower (o_pc o) M ++ sc ++ (if needs_loadbal o then loadbal_constrs M else []).
Proof.
  intros M o base Hs H. unfold base_constrs in H. rewrite Hs in H.
  destruct (stability_constrs M) as [sc|e]; [|discriminate].
  cbn [bind] in H. injection H as <-. exists sc. split; reflexivity.
Qed.

Lemma base_constrs_total : forall M o, admissible M o = true -> exists base, base_constrs M o = Ok base.
Proof.
  intros M o H. destruct (o_stab o) eqn:Hs.
  - destruct (StabProofs.stability_constrs_total M (admissible_two_sided M o H Hs)) as [sc Hsc].
    unfold base_constrs. rewrite Hs, Hsc. cbn [bind]. eexists. reflexivity.
  - apply base_constrs_nostab. exact Hs.
Qed.

Lemma base_sound_all : forall M o base, wf M = true -> admissible M o = true -> base_constrs M o = Ok base ->
  forall v, binary v -> binary_ab v -> all_sat v base -> Feas (o_pc o) (o_stab o) M (matching_of M v).
Proof.
  intros M o base Hwf Hadm Hb v Hbin Hab Hsat. destruct (o_stab o) eqn:Hs.
  - destruct (base_stab_shape M o base Hs Hb) as [sc [Hsc ->]].
    pose proof (RunStructure.all_sat_app_l _ _ _ Hsat) as Hul.
    assert (Hscs : all_sat v sc).
    { unfold all_sat in *. rewrite !forallb_app in Hsat.
      apply andb_true_iff in Hsat as [_ H2]. now apply andb_true_iff in H2 as [H2 _]. }
    split.
    + now apply lp_sound.
    + intros _.
      exact (StabProofs.stab_sound M (o_pc o) v sc Hwf (admissible_two_sided M o Hadm Hs) Hbin
               (proj1 (binary_ab_same v) Hab) Hul Hsc Hscs).
  - rewrite <- Hs. apply (base_sound_nostab M o base); assumption.
Qed.

Lemma base_complete_all : forall M o base, wf M = true -> admissible M o = true -> base_constrs M o = Ok base ->
  forall prims m, Feas (o_pc o) (o_stab o) M m ->
  all_sat (canon M prims m) base /\ binary_ab (canon M prims m).
Proof.
  intros M o base Hwf Hadm Hb prims m HF. destruct (o_stab o) eqn:Hs.
  - destruct (base_stab_shape M o base Hs Hb) as [sc [Hsc ->]].
    destruct HF as [Hv Hst]. specialize (Hst eq_refl).
    destruct (StabProofs.stab_complete M (o_pc o) m sc prims Hwf (admissible_two_sided M o Hadm Hs) Hv Hst Hsc)
      as [Hsat Hab].
    split; [|now apply binary_ab_same].
    apply CanonProofs.all_sat_app_intro; [now apply CanonProofs.canon_upper_lower|].
    apply CanonProofs.all_sat_app_intro; [exact Hsat|].
    destruct (needs_loadbal o); [now apply CanonProofs.canon_loadbal|reflexivity].
  - apply (base_complete_nostab M o base); try assumption. now rewrite Hs.
Qed.

(* C02: the run never fails ... *)
Theorem run_total : forall M o solve,
  wf M = true -> admissible M o = true -> milp_ok M solve -> exists out, run M o solve = Ok out.
Proof.
  intros M o solve Hwf Hadm Hok. destruct (base_constrs_total M o Hadm) as [base Hb].
  exact (run_no_crash M o base Hwf Hadm Hb (base_sound_all M o base Hwf Hadm Hb)
                      (base_complete_all M o base Hwf Hadm Hb) solve Hok).
Qed.

(* ... and reports Optimal exactly when a matching satisfying the requested constraints exists *)
Theorem run_status_all : forall M o solve out,
  wf M = true -> admissible M o = true -> milp_ok M solve -> run M o solve = Ok out ->
  ((exists m, Feas (o_pc o) (o_stab o) M m) -> out_status out = Optimal) /\
  ((~ exists m, Feas (o_pc o) (o_stab o) M m) -> out_status out = Infeasible).
Proof.
  intros M o solve out Hwf Hadm Hok Hrun. destruct (base_constrs_total M o Hadm) as [base Hb].
  exact (run_status M o base Hwf Hadm Hb (base_sound_all M o base Hwf Hadm Hb)
                    (base_complete_all M o base Hwf Hadm Hb) solve out Hok Hrun).
Qed.

(* C03 / C04: lexicographic optimality in list (= position) order over all feasible matchings *)
Theorem run_lex_optimal_all : forall M o solve out,
  wf M = true -> admissible M o = true -> milp_ok M solve ->
  run M o solve = Ok out -> out_status out = Optimal ->
  LexOpt (Feas (o_pc o) (o_stab o) M) (map (prim_objective_spec M) (all_prims M o))
         (matching_of M (val_fun (out_vals out))).
Proof.
  intros M o solve out Hwf Hadm Hok Hrun Hst. destruct (base_constrs_total M o Hadm) as [base Hb].
  exact (run_lex_optimal M o base Hwf Hadm Hb (base_sound_all M o base Hwf Hadm Hb)
                         (base_complete_all M o base Hwf Hadm Hb) solve out Hok Hrun Hst).
Qed.

(* a later criterion never worsens an earlier one: the final matching still attains the optimum of the first
   stage over all feasible matchings (and recursively of every later stage within the earlier optima) *)
Lemma LexOpt_head : forall F ob rest m, LexOpt F (ob :: rest) m ->
  F m /\ forall m', F m' -> as_good ob (ob_meas ob m) (ob_meas ob m') = true.
Proof. intros F ob rest m [H1 [H2 _]]. split; assumption. Qed.

Lemma LexOpt_feasible : forall obs F m, LexOpt F obs m -> F m.
Proof. induction obs as [|ob rest IH]; intros F m H; [exact H|]. now destruct H as [H _]. Qed.
