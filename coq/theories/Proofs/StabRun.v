(* C05 at the level of a whole run: with -stab an Optimal run prints a stable matching. *)
From MP Require Import LP.Canon Proofs.LPSound Proofs.StabProofs Proofs.RunProofs Proofs.RunStructure.
From Coq Require Import Lia.
Local Open Scope list_scope.
Open Scope Z_scope.

Lemma in_bounds_binary_ab : forall M objs v, in_bounds M objs v -> binary_ab v.
Proof.
  intros M objs v H s p. split.
  - specialize (H (Alpha s p) eq_refl). cbn in H. lia.
  - specialize (H (Beta s p) eq_refl). cbn in H. lia.
Qed.

Lemma all_sat_app_r : forall v a b, all_sat v (a ++ b) -> all_sat v b.
Proof. unfold all_sat. intros v a b H. rewrite forallb_app in H. now apply andb_true_iff in H as [_ H]. Qed.

Lemma base_with_stab : forall M o base, o_stab o = true -> base_constrs M o = Ok base ->
  exists sc rest, stability_constrs M = Ok sc /\ base = upper_lower (o_pc o) M ++ sc ++ rest.
Proof.
  intros M o base Hs H. unfold base_constrs in H. rewrite Hs in H.
  destruct (stability_constrs M) as [sc|e]; [|discriminate].
  cbn [bind] in H. injection H as <-. exists sc. eexists. split; reflexivity.
Qed.

Theorem reported_stable : forall M o solve out,
  wf M = true -> two_sided M = true -> o_stab o = true ->
  milp_ok M solve -> run M o solve = Ok out -> out_status out = Optimal ->
  stable_b M (matching_of M (val_fun (out_vals out))) = true.
Proof.
  intros M o solve out Hwf H2 Hstab Hok H Hst.
  destruct (base_constrs M o) as [base|e] eqn:Hb.
  2:{ unfold run in H. rewrite Hb in H. discriminate. }
  destruct (run_structure M o solve out base H Hb) as [Hne [Htr [_ Hlast]]].
  destruct (out_trace out) as [|P0 tr] eqn:Etr; [congruence|].
  set (k := length tr).
  assert (HP : exists P, nth_error (P0 :: tr) k = Some P).
  { destruct (nth_error (P0 :: tr) k) eqn:En; [eauto|]. apply nth_error_None in En. simpl in En. unfold k in En. lia. }
  destruct HP as [P HP].
  destruct (Hlast k P HP eq_refl) as [Hs Hv].
  destruct (Htr k P HP) as [extra Hcs].
  destruct (Hok k P) as [Hopt _]. cbn zeta in Hopt.
  rewrite <- Hs, Hst in Hopt. destruct (Hopt eq_refl) as [[Hsat Hbd] _].
  rewrite <- Hv in Hsat, Hbd.
  destruct (base_with_stab M o base Hstab Hb) as [sc [rest [Hsc Hbase]]].
  rewrite Hcs, Hbase in Hsat. apply all_sat_app_l in Hsat.
  pose proof (all_sat_app_l _ _ _ Hsat) as Hul.
  apply all_sat_app_r in Hsat. apply all_sat_app_l in Hsat.
  apply (stab_sound M (o_pc o) _ sc); try assumption.
  - exact (in_bounds_binary M (pb_objs P) _ Hbd).
  - exact (in_bounds_binary_ab M (pb_objs P) _ Hbd).
Qed.
