(* From the command line to the printed matching: Solver(argv) on a file of the documented format, one solve with any
   correct MILP back end; when the status is Optimal the variable values the results are printed from denote a valid
   matching of the instance the file denotes (stable as well under -stab is C05's reported_stable). *)
From MP Require Import Run.Main Text.Render Proofs.MainProofs Proofs.RunStructure LP.Oracle.
Local Open Scope list_scope. Open Scope Z_scope.

Lemma status_string_optimal : forall st, status_string st = "Optimal"%string -> st = Optimal.
Proof. intros [] H; try reflexivity; discriminate H. Qed.

Theorem command_line_valid : forall c A trailer t0 limit e s',
  acceptable_ns (c_ns c) (c_twopl c) (c_stab c) = true ->
  wf_ast (c_na c) (c_twopl c) A = true ->
  wf (denote (c_na c) (c_twopl c) A) = true ->
  c_bf c = false ->
  milp_ok (denote (c_na c) (c_twopl c) A) (e_solve e) ->
  (exists s, solver_new c (Some (render (c_na c) A trailer)) t0 = SReady s /\ do_solve s limit e = Ok s') ->
  s_status s' = "Optimal"%string ->
  valid_b (c_pc c) (denote (c_na c) (c_twopl c) A)
          (matching_of (denote (c_na c) (c_twopl c) A) (val_fun (s_vals s'))) = true.
Proof.
  intros c A trailer t0 limit e s' Hacc Hwa Hwf Hbf Hok [s [Hnew Hsolve]] Hst.
  rewrite (accepted_starts_session c A trailer t0 Hacc Hwa) in Hnew. injection Hnew as <-.
  unfold do_solve in Hsolve. cbn [init_session s_solved s_tstart s_bf s_inst s_opts s_twopl s_status s_info s_vals s_has_vars] in Hsolve.
  rewrite Hbf in Hsolve.
  set (M := denote (c_na c) (c_twopl c) A) in *.
  set (o := mkOpts (c_pc c) (c_stab c) (map (fun e0 => (e_crit e0, e_extras e0)) (by_position (SolverOpts.entries (c_ns c))))) in *.
  destruct (run M o (e_solve e)) as [out|er] eqn:Hrun; cbn [bind] in Hsolve; [|discriminate].
  injection Hsolve as <-. cbn [s_status s_vals] in *.
  apply status_string_optimal in Hst.
  exact (reported_valid M o (e_solve e) out Hwf Hok Hrun Hst).
Qed.

Print Assumptions command_line_valid.
