(* Lemmas about the tie writer / reader (C13). *)
From MP Require Import Base.PyStr Text.Ties.
From Coq Require Import Lia DecimalString DecimalZ Decimal.
Open Scope Z_scope.

(* ---------- token level ------------------------------------------------ *)

Lemma write_from_last : forall b x t ties,
  write_from b [x] (t :: ties) = Ok [if b then TClose x else TPlain x].
Proof. intros [] x [] ties; reflexivity. Qed.

Lemma write_from_more : forall b x y l t ties,
  write_from b (x :: y :: l) (t :: ties) =
  if negb b && t then (do r <- write_from true (y :: l) ties; Ok (TOpen x :: r))
  else if b && negb t then (do r <- write_from false (y :: l) ties; Ok (TClose x :: r))
  else (do r <- write_from b (y :: l) ties; Ok (TPlain x :: r)).
Proof. intros [] x y l [] ties; reflexivity. Qed.

Lemma runs_more : forall x y l t ties,
  runs (x :: y :: l) (t :: ties) =
  if t then match runs (y :: l) ties with g' :: gs => (x :: g') :: gs | [] => [[x]] end
  else [x] :: runs (y :: l) ties.
Proof. reflexivity. Qed.

Lemma write_from_ok : forall l ties b,
  length ties = length l -> exists ts, write_from b l ties = Ok ts /\ map tok_num ts = l.
Proof.
  induction l as [|x l IH]; intros ties b Hlen.
  - exists []. split; reflexivity.
  - destruct ties as [|t ties]; [discriminate|].
    simpl in Hlen. injection Hlen as Hlen.
    cbn [write_from].
    destruct (negb b && t && negb match l with [] => true | _ => false end).
    + destruct (IH ties true Hlen) as [ts [E M]]. rewrite E. eexists; split; [reflexivity|]. simpl. now rewrite M.
    + destruct (b && negb t).
      * destruct (IH ties false Hlen) as [ts [E M]]. rewrite E. eexists; split; [reflexivity|]. simpl. now rewrite M.
      * destruct (match l with [] => true | _ => false end && b).
        -- destruct (IH ties b Hlen) as [ts [E M]]. rewrite E. eexists; split; [reflexivity|]. simpl. now rewrite M.
        -- destruct (IH ties b Hlen) as [ts [E M]]. rewrite E. eexists; split; [reflexivity|]. simpl. now rewrite M.
Qed.

Lemma write_from_crash : forall l ties b,
  (length ties < length l)%nat -> write_from b l ties = Crash IndexError.
Proof.
  induction l as [|x l IH]; intros ties b Hlen; [simpl in Hlen; lia|].
  destruct ties as [|t ties]; [reflexivity|].
  simpl in Hlen. assert (H : (length ties < length l)%nat) by lia.
  cbn [write_from].
  destruct (negb b && t && negb match l with [] => true | _ => false end); [now rewrite IH|].
  destruct (b && negb t); [now rewrite IH|].
  destruct (match l with [] => true | _ => false end && b); now rewrite IH.
Qed.

Lemma read_write_gen : forall l ties b r ts,
  write_from b l ties = Ok ts ->
  read_from r b ts = combine l (ranks_from r l ties).
Proof.
  induction l as [|x l IH]; intros ties b r ts H.
  - simpl in H. injection H as <-. reflexivity.
  - destruct ties as [|t ties]; [discriminate|].
    cbn [ranks_from combine].
    destruct l as [|y l'].
    + rewrite write_from_last in H. injection H as <-.
      destruct b, t; reflexivity.
    + rewrite write_from_more in H.
      destruct b, t; cbn [negb andb] in H.
      * destruct (write_from true (y :: l') ties) as [ts'|] eqn:E; [|discriminate].
        simpl in H. injection H as <-. cbn [read_from]. f_equal. now apply IH.
      * destruct (write_from false (y :: l') ties) as [ts'|] eqn:E; [|discriminate].
        simpl in H. injection H as <-. cbn [read_from]. f_equal. now apply IH.
      * destruct (write_from true (y :: l') ties) as [ts'|] eqn:E; [|discriminate].
        simpl in H. injection H as <-. cbn [read_from]. f_equal. now apply IH.
      * destruct (write_from false (y :: l') ties) as [ts'|] eqn:E; [|discriminate].
        simpl in H. injection H as <-. cbn [read_from]. f_equal. now apply IH.
Qed.

Lemma read_write : forall l ties ts,
  write l ties = Ok ts -> read ts = combine l (ranks_of l ties).
Proof. intros. now apply read_write_gen. Qed.

Lemma length_ranks_from : forall l ties r, length (ranks_from r l ties) = length l.
Proof.
  induction l as [|x l IH]; intros ties r; [reflexivity|].
  destruct ties; simpl; now rewrite IH.
Qed.

Lemma map_fst_combine {A B} : forall (l : list A) (m : list B), length l = length m -> map fst (combine l m) = l.
Proof.
  induction l as [|a l IH]; intros [|b m] H; simpl in *; try discriminate; [reflexivity|].
  f_equal. apply IH. now injection H.
Qed.
Lemma map_snd_combine {A B} : forall (l : list A) (m : list B), length l = length m -> map snd (combine l m) = m.
Proof.
  induction l as [|a l IH]; intros [|b m] H; simpl in *; try discriminate; [reflexivity|].
  f_equal. apply IH. now injection H.
Qed.

(* ranks are dense: first is 1, each step is +0 (tied) or +1 (not tied) *)
Lemma ranks_from_head : forall x l ties r, exists rest, ranks_from r (x :: l) ties = r :: rest.
Proof. intros. destruct ties; simpl; eexists; reflexivity. Qed.

Lemma ranks_from_step : forall l ties r i,
  (S i < length l)%nat -> length ties = length l ->
  nth (S i) (ranks_from r l ties) 0 =
  nth i (ranks_from r l ties) 0 + (if nth i ties false then 0 else 1).
Proof.
  induction l as [|x l IH]; intros ties r i Hi Hlen; [simpl in Hi; lia|].
  destruct ties as [|t ties]; [discriminate|].
  simpl in Hlen. injection Hlen as Hlen.
  destruct i as [|i].
  - destruct l as [|y l]; [simpl in Hi; lia|].
    destruct ties as [|t2 ties]; [discriminate|].
    simpl. destruct t; lia.
  - simpl in Hi.
    change (nth (S (S i)) (ranks_from r (x :: l) (t :: ties)) 0)
      with (nth (S i) (ranks_from (if t then r else r + 1) l ties) 0).
    change (nth (S i) (ranks_from r (x :: l) (t :: ties)) 0)
      with (nth i (ranks_from (if t then r else r + 1) l ties) 0).
    change (nth (S i) (t :: ties) false) with (nth i ties false).
    apply IH; [lia|assumption].
Qed.

(* a decision on the last entry has no effect *)
Lemma write_from_last_irrelevant : forall l ties ties' b,
  length ties = length l -> length ties' = length l ->
  removelast ties = removelast ties' ->
  write_from b l ties = write_from b l ties'.
Proof.
  induction l as [|x l IH]; intros ties ties' b H1 H2 Hr; [reflexivity|].
  destruct ties as [|t ties]; [discriminate|].
  destruct ties' as [|t' ties']; [discriminate|].
  simpl in H1, H2. injection H1 as H1. injection H2 as H2.
  destruct l as [|y l'].
  - destruct ties; [|discriminate]. destruct ties'; [|discriminate].
    simpl. destruct b, t, t'; reflexivity.
  - destruct ties as [|t2 ties]; [discriminate|].
    destruct ties' as [|t2' ties']; [discriminate|].
    simpl removelast in Hr. injection Hr as -> Hr.
    rewrite !write_from_more.
    assert (E : forall c, write_from c (y :: l') (t2 :: ties) = write_from c (y :: l') (t2' :: ties')).
    { intro c. apply IH; simpl; auto. }
    now rewrite !E.
Qed.

(* the groups the written tokens denote are the maximal runs of tied entries *)
Lemma runs_nonnil : forall x l ties, runs (x :: l) ties <> [].
Proof.
  intros x l ties. destruct l as [|y l]; [destruct ties; discriminate|].
  destruct ties as [|[] ties]; try discriminate.
  rewrite runs_more. destruct (runs (y :: l) ties); discriminate.
Qed.

Lemma groups_write_gen : forall l ties b g ts,
  write_from b l ties = Ok ts -> (b = true -> l <> []) ->
  groups_from (if b then Some g else None) ts =
  (if b then match runs l ties with f :: rest => Some ((g ++ f) :: rest) | [] => None end
   else Some (runs l ties)).
Proof.
  induction l as [|x l IH]; intros ties b g ts H Hne.
  - destruct b; [exfalso; now apply Hne|]. simpl in H. injection H as <-. reflexivity.
  - destruct ties as [|t ties]; [discriminate|].
    destruct l as [|y l'].
    + rewrite write_from_last in H. injection H as <-. destruct b, t; reflexivity.
    + assert (Hne' : forall c : bool, c = true -> y :: l' <> []) by (intros c _; discriminate).
      rewrite write_from_more in H. rewrite runs_more.
      destruct b, t; cbn [negb andb] in H.
      * destruct (write_from true (y :: l') ties) as [ts'|] eqn:E; [|discriminate].
        simpl in H. injection H as <-. cbn [groups_from].
        rewrite (IH ties true (g ++ [x]) ts' E (Hne' true)).
        destruct (runs (y :: l') ties) as [|f rest] eqn:Er; [exfalso; revert Er; apply runs_nonnil|].
        now rewrite <- app_assoc.
      * destruct (write_from false (y :: l') ties) as [ts'|] eqn:E; [|discriminate].
        simpl in H. injection H as <-. cbn [groups_from].
        rewrite (IH ties false g ts' E (Hne' false)). reflexivity.
      * destruct (write_from true (y :: l') ties) as [ts'|] eqn:E; [|discriminate].
        simpl in H. injection H as <-. cbn [groups_from].
        rewrite (IH ties true [x] ts' E (Hne' true)).
        destruct (runs (y :: l') ties) as [|f rest] eqn:Er; [exfalso; revert Er; apply runs_nonnil|reflexivity].
      * destruct (write_from false (y :: l') ties) as [ts'|] eqn:E; [|discriminate].
        simpl in H. injection H as <-. cbn [groups_from].
        rewrite (IH ties false g ts' E (Hne' false)). reflexivity.
Qed.

Lemma groups_write : forall l ties ts,
  write l ties = Ok ts -> groups ts = Some (runs l ties).
Proof.
  intros l ties ts H. unfold groups.
  apply (groups_write_gen l ties false [] ts H). discriminate.
Qed.

Lemma concat_runs : forall l ties, concat (runs l ties) = l.
Proof.
  induction l as [|x l IH]; intros ties; [reflexivity|].
  destruct l as [|y l'].
  - destruct ties; reflexivity.
  - remember (y :: l') as l eqn:El.
    assert (E : runs (x :: l) ties =
      match ties with
      | t :: ties' => if t then match runs l ties' with g' :: gs => (x :: g') :: gs | [] => [[x]] end
                      else [x] :: runs l ties'
      | [] => [x] :: runs l []
      end).
    { subst l. destruct ties; reflexivity. }
    rewrite E. destruct ties as [|t ties'].
    + simpl. now rewrite IH.
    + destruct t.
      * specialize (IH ties'). destruct (runs l ties') as [|g' gs].
        -- simpl in IH. subst l. discriminate.
        -- simpl in *. now rewrite IH.
      * simpl. now rewrite IH.
Qed.

(* ---------- character level -------------------------------------------- *)

Definition is_digit (c : ascii) : bool :=
  let n := N_of_ascii c in ((48 <=? n) && (n <=? 57))%N.

Fixpoint all_chars (p : ascii -> bool) (s : string) : bool :=
  match s with EmptyString => true | String a t => p a && all_chars p t end.

Lemma uint_string_digits : forall d, all_chars is_digit (NilEmpty.string_of_uint d) = true.
Proof. induction d; simpl; auto. Qed.

Definition digit_or_minus (c : ascii) : bool := is_digit c || Ascii.eqb c "-"%char.

Lemma all_chars_weaken : forall (p q : ascii -> bool) s,
  (forall c, p c = true -> q c = true) -> all_chars p s = true -> all_chars q s = true.
Proof.
  induction s as [|a s IH]; intros Hpq H; [reflexivity|].
  simpl in *. apply andb_true_iff in H as [Ha Hs]. rewrite (Hpq _ Ha). simpl. now apply IH.
Qed.

Lemma str_of_Z_chars : forall z, all_chars digit_or_minus (str_of_Z z) = true.
Proof.
  intro z. unfold str_of_Z.
  assert (W : forall d, all_chars digit_or_minus (NilZero.string_of_uint d) = true).
  { intro d. destruct d; try reflexivity;
    (apply all_chars_weaken with (p := is_digit);
     [intros c Hc; unfold digit_or_minus; now rewrite Hc | apply (uint_string_digits (_ d))]). }
  destruct (Z.to_int z) as [d|d]; simpl.
  - apply W.
  - apply W.
Qed.

Lemma contains_char_false : forall c s p,
  all_chars p s = true -> p c = false -> contains_char c s = false.
Proof.
  induction s as [|a s IH]; intros p H Hc; [reflexivity|].
  simpl in *. apply andb_true_iff in H as [Ha Hs].
  destruct (Ascii.eqb_spec a c) as [->|_]; [congruence|]. simpl. now apply IH with p.
Qed.

Lemma remove_char_id : forall c s, contains_char c s = false -> remove_char c s = s.
Proof.
  induction s as [|a s IH]; intros H; [reflexivity|].
  simpl in *. apply orb_false_iff in H as [Ha Hs]. rewrite Ha. now rewrite IH.
Qed.

Lemma contains_char_app : forall c s t, contains_char c (s ++ t) = contains_char c s || contains_char c t.
Proof.
  induction s as [|a s IH]; intros t; [reflexivity|].
  simpl. rewrite IH. now rewrite orb_assoc.
Qed.

Lemma remove_char_app : forall c s t, remove_char c (s ++ t) = (remove_char c s ++ remove_char c t)%string.
Proof.
  induction s as [|a s IH]; intros t; [reflexivity|].
  simpl. rewrite IH. now destruct (Ascii.eqb a c).
Qed.

Lemma append_empty_r : forall s, (s ++ "")%string = s.
Proof. induction s as [|a s IH]; simpl; [reflexivity|now rewrite IH]. Qed.

Lemma int_of_str_of_Z : forall z, int_of_str (str_of_Z z) = Ok z.
Proof.
  intro z. unfold int_of_str, str_of_Z.
  rewrite NilZero.isi.
  - now rewrite DecimalZ.of_to.
  - destruct z; simpl; try discriminate.
    intro H. injection H as H. revert H. apply (DecimalPos.Unsigned.to_uint_nonnil p).
  - destruct z; simpl; try discriminate.
    intro H. injection H as H. revert H. apply (DecimalPos.Unsigned.to_uint_nonnil p).
Qed.

Lemma lex_render : forall t, lex_tok (render_tok t) = Ok t.
Proof.
  intro t.
  assert (Ho : forall n, contains_char "("%char (str_of_Z n) = false).
  { intro n. apply contains_char_false with digit_or_minus; [apply str_of_Z_chars|reflexivity]. }
  assert (Hc : forall n, contains_char ")"%char (str_of_Z n) = false).
  { intro n. apply contains_char_false with digit_or_minus; [apply str_of_Z_chars|reflexivity]. }
  destruct t as [n|n|n]; unfold lex_tok, render_tok.
  - cbn [contains_char]. rewrite Ascii.eqb_refl. cbn [orb].
    cbn [remove_char]. rewrite Ascii.eqb_refl.
    rewrite remove_char_id by apply Ho. now rewrite int_of_str_of_Z.
  - rewrite contains_char_app, Ho. cbn [orb].
    change (contains_char "("%char ")"%string) with false. cbn [orb].
    rewrite contains_char_app, Hc. simpl contains_char. cbn [orb].
    rewrite remove_char_app. rewrite remove_char_id by apply Hc.
    simpl remove_char. rewrite append_empty_r. now rewrite int_of_str_of_Z.
  - rewrite Ho, Hc. now rewrite int_of_str_of_Z.
Qed.

Lemma mapM_lex_render : forall ts, mapM lex_tok (map render_tok ts) = Ok ts.
Proof.
  induction ts as [|t ts IH]; [reflexivity|].
  simpl. rewrite lex_render. simpl. rewrite IH. reflexivity.
Qed.

(* the whole round trip on strings *)
Lemma read_strings_write_strings : forall l ties,
  length ties = length l ->
  exists ss, write_strings l ties = Ok ss /\ read_strings ss = Ok (l, ranks_of l ties).
Proof.
  intros l ties Hlen.
  destruct (write_from_ok l ties false Hlen) as [ts [E M]].
  exists (map render_tok ts). split.
  - unfold write_strings, write. rewrite E. reflexivity.
  - unfold read_strings. rewrite mapM_lex_render. simpl.
    rewrite (read_write l ties ts E).
    rewrite map_fst_combine, map_snd_combine; auto;
    unfold ranks_of; now rewrite length_ranks_from.
Qed.
