(* The model of the solver's importer reads every file of the documented format as the instance it denotes. *)
From MP Require Import Text.Render Proofs.TiesProofs.
From Coq Require Import Lia.
Local Open Scope list_scope. Open Scope Z_scope.

(* ====================================================================== *)
(* L1: characters                                                          *)
(* ====================================================================== *)

Definition sp : ascii := " "%char.

(* characters of preference-list tokens / of all tokens / of rendered lines *)
Definition pch (c : ascii) : bool := digit_or_minus c || Ascii.eqb c "("%char || Ascii.eqb c ")"%char.
Definition lch (c : ascii) : bool := pch c || Ascii.eqb c colon.
Definition linech (c : ascii) : bool := lch c || Ascii.eqb c sp.

Lemma ch_facts : forall c,
  implb (digit_or_minus c) (pch c) &&
  implb (pch c) (lch c && negb (Ascii.eqb c colon)) &&
  implb (lch c) (negb (is_ws c) && linech c) &&
  implb (linech c) (negb (Ascii.eqb c nl)) = true.
Proof. intros [[] [] [] [] [] [] [] []]; vm_compute; reflexivity. Qed.

Lemma dm_pch : forall c, digit_or_minus c = true -> pch c = true.
Proof. intros c H. unfold pch. now rewrite H. Qed.
Lemma pch_lch : forall c, pch c = true -> lch c = true.
Proof. intros c H. unfold lch. now rewrite H. Qed.
Lemma pch_not_colon : forall c, pch c = true -> Ascii.eqb c colon = false.
Proof.
  intros c H. pose proof (ch_facts c) as F. rewrite !andb_true_iff in F.
  destruct F as [[[_ F] _] _]. rewrite H in F. cbn [implb] in F.
  apply andb_true_iff in F as [_ F]. now apply negb_true_iff in F.
Qed.
Lemma lch_not_ws : forall c, lch c = true -> is_ws c = false.
Proof.
  intros c H. pose proof (ch_facts c) as F. rewrite !andb_true_iff in F.
  destruct F as [[_ F] _]. rewrite H in F. cbn [implb] in F.
  apply andb_true_iff in F as [F _]. now apply negb_true_iff in F.
Qed.
Lemma lch_linech : forall c, lch c = true -> linech c = true.
Proof. intros c H. unfold linech. now rewrite H. Qed.
Lemma linech_not_nl : forall c, linech c = true -> Ascii.eqb c nl = false.
Proof.
  intros c H. pose proof (ch_facts c) as F. rewrite !andb_true_iff in F.
  destruct F as [_ F]. rewrite H in F. cbn [implb] in F. now apply negb_true_iff in F.
Qed.

Lemma all_chars_app : forall p s t, all_chars p (s +++ t) = all_chars p s && all_chars p t.
Proof.
  induction s as [|a s IH]; intros t; [reflexivity|].
  cbn [String.append all_chars]. rewrite IH. now rewrite andb_assoc.
Qed.

Lemma append_assoc : forall s t u, (s +++ t) +++ u = s +++ (t +++ u).
Proof. induction s as [|a s IH]; intros t u; cbn [String.append]; [reflexivity|now rewrite IH]. Qed.

(* ---- lines ---------------------------------------------------------- *)

Lemma lines_aux_line : forall l cur rest,
  contains_char nl l = false ->
  lines_aux (l +++ String nl rest) cur = (cur +++ l) :: lines_aux rest EmptyString.
Proof.
  induction l as [|a l IH]; intros cur rest H.
  - cbn [String.append lines_aux]. rewrite Ascii.eqb_refl. now rewrite append_empty_r.
  - cbn [contains_char] in H. apply orb_false_iff in H as [Ha Hl].
    cbn [String.append lines_aux]. rewrite Ha. rewrite IH by assumption.
    rewrite append_assoc. reflexivity.
Qed.

Definition addnl (l : string) : string := l +++ String nl EmptyString.

Lemma concat_str_app : forall a b, concat_str (a ++ b) = concat_str a +++ concat_str b.
Proof.
  induction a as [|x a IH]; intros b; [reflexivity|].
  cbn [app concat_str fold_right]. fold (concat_str (a ++ b)). fold (concat_str a).
  rewrite IH. now rewrite append_assoc.
Qed.

Lemma lines_aux_render : forall ls rest,
  Forall (fun l => contains_char nl l = false) ls ->
  lines_aux (concat_str (map addnl ls) +++ rest) EmptyString = ls ++ lines_aux rest EmptyString.
Proof.
  induction ls as [|l ls IH]; intros rest H; [reflexivity|].
  inversion H as [|? ? Hl Hls]; subst.
  cbn [map concat_str fold_right]. fold (concat_str (map addnl ls)).
  unfold addnl at 1. rewrite !append_assoc. cbn [String.append].
  rewrite lines_aux_line by assumption. cbn [String.append app]. f_equal. now apply IH.
Qed.

(* L1a: the lines of a newline-terminated text *)
Lemma lines_render : forall ls,
  Forall (fun l => contains_char nl l = false) ls ->
  lines (concat_str (map (fun l => l +++ String nl EmptyString) ls)) = ls.
Proof.
  intros ls H. unfold lines.
  rewrite <- (append_empty_r (concat_str _)).
  change (fun l => l +++ String nl EmptyString) with addnl.
  rewrite lines_aux_render by assumption. cbn [lines_aux]. now rewrite app_nil_r.
Qed.

Lemma lines_render_app : forall ls tr,
  Forall (fun l => contains_char nl l = false) ls ->
  lines (concat_str (map (fun l => l +++ String nl EmptyString) (ls ++ tr))) =
  ls ++ lines (concat_str (map (fun l => l +++ String nl EmptyString) tr)).
Proof.
  intros ls tr H. unfold lines. change (fun l => l +++ String nl EmptyString) with addnl.
  rewrite map_app, concat_str_app. now apply lines_aux_render.
Qed.

(* ---- tokens --------------------------------------------------------- *)

Definition good (s : string) : Prop := s <> EmptyString /\ all_chars lch s = true.
Definition pgood (s : string) : Prop := s <> EmptyString /\ all_chars pch s = true.

Lemma pgood_good : forall s, pgood s -> good s.
Proof. intros s [H1 H2]. split; [assumption|]. apply all_chars_weaken with pch; [apply pch_lch|assumption]. Qed.

Lemma str_of_Z_nonempty : forall z, str_of_Z z <> EmptyString.
Proof.
  intros z H. pose proof (int_of_str_of_Z z) as E. rewrite H in E. discriminate E.
Qed.

Lemma str_of_Z_pgood : forall z, pgood (str_of_Z z).
Proof.
  intro z. split; [apply str_of_Z_nonempty|].
  apply all_chars_weaken with digit_or_minus; [apply dm_pch|apply str_of_Z_chars].
Qed.

Lemma open_pgood : forall z, pgood (String "("%char (str_of_Z z)).
Proof.
  intro z. split; [discriminate|]. cbn [all_chars]. destruct (str_of_Z_pgood z) as [_ H]. now rewrite H.
Qed.

Lemma close_pgood : forall z, pgood (str_of_Z z +++ ")"%string).
Proof.
  intro z. destruct (str_of_Z_pgood z) as [Hn H]. split.
  - destruct (str_of_Z z); [now elim Hn|discriminate].
  - rewrite all_chars_app, H. reflexivity.
Qed.

Lemma label_good : forall z, good (label z).
Proof.
  intro z. destruct (str_of_Z_pgood z) as [Hn H]. split.
  - unfold label. destruct (str_of_Z z); [now elim Hn|discriminate].
  - unfold label. rewrite all_chars_app.
    rewrite (all_chars_weaken pch lch _ pch_lch H). reflexivity.
Qed.

Lemma Forall_app_intro {A} (P : A -> Prop) : forall l1 l2, Forall P l1 -> Forall P l2 -> Forall P (l1 ++ l2).
Proof. intros l1 l2 H1 H2. apply Forall_app. now split. Qed.

Lemma group_tokens_pgood : forall g, Forall pgood (group_tokens g).
Proof.
  intros [|a [|b g]]; cbn [group_tokens].
  - constructor.
  - constructor; [apply str_of_Z_pgood|constructor].
  - constructor; [apply open_pgood|]. apply Forall_app_intro.
    + apply Forall_forall. intros s Hs. apply in_map_iff in Hs as [z [<- _]]. apply str_of_Z_pgood.
    + constructor; [apply close_pgood|constructor].
Qed.

Lemma plist_tokens_pgood : forall l, Forall pgood (plist_tokens l).
Proof.
  induction l as [|g l IH]; [constructor|].
  unfold plist_tokens. cbn [flat_map]. apply Forall_app_intro; [apply group_tokens_pgood|exact IH].
Qed.

(* ---- split ----------------------------------------------------------- *)

Lemma split_ws_aux_tok : forall t cur rest,
  all_chars lch t = true ->
  split_ws_aux (t +++ rest) cur = split_ws_aux rest (cur +++ t).
Proof.
  induction t as [|a t IH]; intros cur rest H.
  - cbn [String.append]. now rewrite append_empty_r.
  - cbn [all_chars] in H. apply andb_true_iff in H as [Ha Ht].
    cbn [String.append split_ws_aux]. rewrite (lch_not_ws _ Ha).
    rewrite IH by assumption. rewrite append_assoc. reflexivity.
Qed.

Lemma join_cons2 : forall sep x y t, join sep (x :: y :: t) = x +++ sep +++ join sep (y :: t).
Proof. reflexivity. Qed.

(* L1b: split of a single-blank join *)
Lemma split_ws_join : forall toks, Forall good toks -> split_ws (join " "%string toks) = toks.
Proof.
  unfold split_ws.
  induction toks as [|x toks IH]; intros H; [reflexivity|].
  inversion H as [|? ? [Hne Hx] Ht]; subst.
  destruct toks as [|y t].
  - cbn [join]. rewrite <- (append_empty_r x) at 1.
    rewrite split_ws_aux_tok by assumption. cbn [String.append split_ws_aux].
    destruct x; [now elim Hne|reflexivity].
  - rewrite join_cons2. rewrite split_ws_aux_tok by assumption.
    cbn [String.append split_ws_aux]. change (is_ws " "%char) with true. cbn iota.
    destruct x as [|c x]; [now elim Hne|]. f_equal. now apply IH.
Qed.

Lemma remove_char_join : forall c toks,
  Ascii.eqb sp c = false ->
  remove_char c (join " "%string toks) = join " "%string (map (remove_char c) toks).
Proof.
  intros c toks Hc. induction toks as [|x toks IH]; [reflexivity|].
  destruct toks as [|y t]; [reflexivity|].
  rewrite join_cons2. cbn [map]. rewrite join_cons2.
  rewrite !remove_char_app. cbn [map] in IH. rewrite IH.
  cbn [remove_char]. fold sp. rewrite Hc. reflexivity.
Qed.

Lemma remove_colon_label : forall n, remove_char colon (label n) = str_of_Z n.
Proof.
  intro n. unfold label. rewrite remove_char_app.
  rewrite remove_char_id.
  - cbn [remove_char]. rewrite Ascii.eqb_refl. apply append_empty_r.
  - destruct (str_of_Z_pgood n) as [_ H].
    apply contains_char_false with pch; [assumption|reflexivity].
Qed.

Lemma remove_colon_pgood : forall s, pgood s -> remove_char colon s = s.
Proof.
  intros s [_ H]. apply remove_char_id. apply contains_char_false with pch; [assumption|reflexivity].
Qed.

Lemma map_remove_colon_pgood : forall l, Forall pgood l -> map (remove_char colon) l = l.
Proof.
  induction l as [|s l IH]; intros H; [reflexivity|].
  inversion H; subst. cbn [map]. rewrite remove_colon_pgood by assumption. now rewrite IH.
Qed.

Lemma line_tokens_join : forall toks,
  Forall good (map (remove_char colon) toks) ->
  line_tokens (join " "%string toks) = map (remove_char colon) toks.
Proof.
  intros toks H. unfold line_tokens. rewrite remove_char_join by reflexivity. now apply split_ws_join.
Qed.

(* a rendered line has no newline *)
Lemma all_chars_join : forall toks, Forall good toks -> all_chars linech (join " "%string toks) = true.
Proof.
  induction toks as [|x toks IH]; intros H; [reflexivity|].
  inversion H as [|? ? [_ Hx] Ht]; subst.
  assert (Hx' : all_chars linech x = true) by (apply all_chars_weaken with lch; [apply lch_linech|assumption]).
  destruct toks as [|y t]; [exact Hx'|].
  rewrite join_cons2, !all_chars_app, Hx', (IH Ht). reflexivity.
Qed.

Lemma join_no_nl : forall toks, Forall good toks -> contains_char nl (join " "%string toks) = false.
Proof.
  intros toks H. apply contains_char_false with linech; [now apply all_chars_join|reflexivity].
Qed.

(* ====================================================================== *)
(* L2: tie groups                                                          *)
(* ====================================================================== *)

Definition group_toks (g : list Z) : list tok :=
  match g with
  | [] => []
  | [a] => [TPlain a]
  | a :: rest => TOpen a :: map TPlain (removelast rest) ++ [TClose (last rest 0)]
  end.

Lemma group_tokens_render : forall g, group_tokens g = map render_tok (group_toks g).
Proof.
  intros [|a [|b g]]; cbn [group_tokens group_toks]; try reflexivity.
  cbn [map render_tok]. f_equal. rewrite map_app, map_map. reflexivity.
Qed.

Lemma plist_tokens_render : forall l, plist_tokens l = map render_tok (flat_map group_toks l).
Proof.
  induction l as [|g l IH]; [reflexivity|].
  unfold plist_tokens in *. cbn [flat_map]. rewrite map_app, IH, group_tokens_render. reflexivity.
Qed.

Lemma read_tie_tail : forall rest r tail, rest <> [] ->
  read_from r true (map TPlain (removelast rest) ++ [TClose (last rest 0)] ++ tail) =
  map (fun x => (x, r)) rest ++ read_from (r + 1) false tail.
Proof.
  induction rest as [|x rest IH]; intros r tail Hne; [now elim Hne|].
  destruct rest as [|y rest'].
  - reflexivity.
  - change (removelast (x :: y :: rest')) with (x :: removelast (y :: rest')).
    change (last (x :: y :: rest') 0) with (last (y :: rest') 0).
    cbn [map app read_from]. f_equal. apply IH. discriminate.
Qed.

Lemma read_group : forall g r tail, g <> [] ->
  read_from r false (group_toks g ++ tail) = map (fun x => (x, r)) g ++ read_from (r + 1) false tail.
Proof.
  intros [|a [|b g]] r tail Hne; [now elim Hne| reflexivity |].
  cbn [group_toks]. rewrite <- app_comm_cons. cbn [read_from map app]. f_equal.
  rewrite <- app_assoc. apply read_tie_tail. discriminate.
Qed.

Definition plist_ok (l : plist) : Prop := Forall (fun g => g <> []) l.

Lemma read_plist : forall l r, plist_ok l -> read_from r false (flat_map group_toks l) = ranked_from r l.
Proof.
  induction l as [|g l IH]; intros r H; [reflexivity|].
  inversion H; subst. cbn [flat_map ranked_from]. rewrite read_group by assumption. now rewrite IH.
Qed.

Lemma read_strings_plist : forall l, plist_ok l ->
  read_strings (plist_tokens l) = Ok (map fst (ranked l), map snd (ranked l)).
Proof.
  intros l H. unfold read_strings. rewrite plist_tokens_render, mapM_lex_render.
  cbn [bind]. unfold read, ranked. now rewrite read_plist.
Qed.

Lemma combine_fst_snd {A B} : forall (l : list (A * B)), combine (map fst l) (map snd l) = l.
Proof. induction l as [|[a b] l IH]; cbn [map combine fst snd]; [reflexivity|now rewrite IH]. Qed.

(* ====================================================================== *)
(* L3: lines                                                               *)
(* ====================================================================== *)

Lemma get_int_str : forall toks n z, nth_error toks n = Some (str_of_Z z) -> get_int toks n = Ok z.
Proof. intros toks n z H. unfold get_int, get. rewrite H. cbn [bind]. apply int_of_str_of_Z. Qed.

Lemma line_tokens_eq : forall toks toks',
  map (remove_char colon) toks = toks' -> Forall good toks' ->
  line_tokens (join " "%string toks) = toks'.
Proof. intros toks toks' <- H. now apply line_tokens_join. Qed.

Lemma str_of_Z_good : forall z, good (str_of_Z z).
Proof. intro z. apply pgood_good, str_of_Z_pgood. Qed.

Lemma plist_tokens_good : forall l, Forall good (plist_tokens l).
Proof. intro l. eapply Forall_impl; [|apply plist_tokens_pgood]. apply pgood_good. Qed.

Lemma rc_plist : forall l, map (remove_char colon) (plist_tokens l) = plist_tokens l.
Proof. intro l. apply map_remove_colon_pgood, plist_tokens_pgood. Qed.

Lemma rc_str : forall z, remove_char colon (str_of_Z z) = str_of_Z z.
Proof. intro z. apply remove_colon_pgood, str_of_Z_pgood. Qed.

(* the token lines *)
Definition student_toks (i : Z) (l : plist) : list string := label i :: plist_tokens l.
Definition project_toks (j : Z) (q : Z * Z * Z) : list string :=
  [label j; label (fst (fst q)); label (snd (fst q)); str_of_Z (snd q)].
Definition lecturer_toks (k : Z) (q : Z * Z * Z * plist) : list string :=
  let '(lq, tg, uq, l) := q in [label k; label lq; label tg; label uq] ++ plist_tokens l.
Definition hospital_toks (j : Z) (ql : Z * Z * Z * plist) : list string :=
  [label j; label (fst (fst (fst ql))); label (snd (fst (fst ql)))] ++ plist_tokens (snd ql).

Lemma student_line_tokens : forall i l,
  line_tokens (join " "%string (student_toks i l)) = str_of_Z i :: plist_tokens l.
Proof.
  intros i l. apply line_tokens_eq.
  - unfold student_toks. cbn [map]. now rewrite remove_colon_label, rc_plist.
  - constructor; [apply str_of_Z_good|apply plist_tokens_good].
Qed.

Lemma project_line_tokens : forall j q,
  line_tokens (join " "%string (project_toks j q)) =
  [str_of_Z j; str_of_Z (fst (fst q)); str_of_Z (snd (fst q)); str_of_Z (snd q)].
Proof.
  intros j q. apply line_tokens_eq.
  - unfold project_toks. cbn [map]. now rewrite !remove_colon_label, rc_str.
  - repeat (constructor; [apply str_of_Z_good|]). constructor.
Qed.

Lemma lecturer_line_tokens : forall k lq tg uq l,
  line_tokens (join " "%string (lecturer_toks k (lq, tg, uq, l))) =
  [str_of_Z k; str_of_Z lq; str_of_Z tg; str_of_Z uq] ++ plist_tokens l.
Proof.
  intros k lq tg uq l. apply line_tokens_eq.
  - unfold lecturer_toks. rewrite map_app. cbn [map]. now rewrite !remove_colon_label, rc_plist.
  - cbn [app]. repeat (constructor; [apply str_of_Z_good|]). apply plist_tokens_good.
Qed.

Lemma hospital_line_tokens : forall j lq uq x l,
  line_tokens (join " "%string (hospital_toks j (lq, uq, x, l))) =
  [str_of_Z j; str_of_Z lq; str_of_Z uq] ++ plist_tokens l.
Proof.
  intros j lq uq x l. apply line_tokens_eq.
  - unfold hospital_toks. rewrite map_app. cbn [map fst snd]. now rewrite !remove_colon_label, rc_plist.
  - cbn [app]. repeat (constructor; [apply str_of_Z_good|]). apply plist_tokens_good.
Qed.

Lemma ltb_true : forall a b, a < b -> (a <? b) = true.
Proof. intros. now apply Z.ltb_lt. Qed.
Lemma ltb_false : forall a b, b <= a -> (a <? b) = false.
Proof. intros. now apply Z.ltb_ge. Qed.
Lemma eqb_false : forall a b, a <> b -> (a =? b) = false.
Proof. intros. now apply Z.eqb_neq. Qed.

(* header *)
Lemma step_header3 : forall tw n1 n2 n3 a,
  step 3 tw 0 (join " "%string [str_of_Z n1; str_of_Z n2; str_of_Z n3]) a =
  Ok (mkAcc n1 n2 n3 (a_rows a) (a_plq a) (a_puq a) (a_plec a) (a_llq a) (a_ltg a) (a_luq a) (a_ranks a)).
Proof.
  intros. unfold step. cbv zeta. change (0 =? 0) with true. cbv beta iota.
  rewrite split_ws_join by (repeat (constructor; [apply str_of_Z_good|]); constructor).
  rewrite (get_int_str _ 0%nat n1) by reflexivity. cbn [bind].
  rewrite (get_int_str _ 1%nat n2) by reflexivity. cbn [bind].
  change (3 =? 2) with false. change (3 =? 3) with true. cbv beta iota.
  rewrite (get_int_str _ 2%nat n3) by reflexivity. reflexivity.
Qed.

Lemma step_header2 : forall tw n1 n2 a,
  step 2 tw 0 (join " "%string [str_of_Z n1; str_of_Z n2]) a =
  Ok (mkAcc n1 n2 n2 (a_rows a) (a_plq a) (a_puq a) (a_plec a) (a_llq a) (a_ltg a) (a_luq a) (a_ranks a)).
Proof.
  intros. unfold step. cbv zeta. change (0 =? 0) with true. cbv beta iota.
  rewrite split_ws_join by (repeat (constructor; [apply str_of_Z_good|]); constructor).
  rewrite (get_int_str _ 0%nat n1) by reflexivity. cbn [bind].
  rewrite (get_int_str _ 1%nat n2) by reflexivity. cbn [bind].
  change (2 =? 2) with true. cbv beta iota. reflexivity.
Qed.

Definition srow (i : Z) (l : plist) : list (Z * Z * Z) := map (fun pr => (i, fst pr, snd pr)) (ranked l).
Definition entries1 (k : Z) (l : plist) : list ((Z * Z) * Z) := map (fun sr => ((k, fst sr), snd sr)) (ranked l).

(* student line *)
Lemma step_student : forall na tw i l n1 n2 n3 rows plq puq plec llq ltg luq rk,
  1 <= i <= n1 -> plist_ok l ->
  step na tw i (join " "%string (student_toks i l)) (mkAcc n1 n2 n3 rows plq puq plec llq ltg luq rk) =
  Ok (mkAcc n1 n2 n3 (rows ++ [srow i l]) plq puq plec llq ltg luq rk).
Proof.
  intros na tw i l n1 n2 n3 rows plq puq plec llq ltg luq rk Hi Hl.
  unfold step. cbv zeta. rewrite student_line_tokens.
  cbn [a_nS a_nP a_nL a_rows a_plq a_puq a_plec a_llq a_ltg a_luq a_ranks].
  rewrite (eqb_false i 0) by lia. rewrite (ltb_true i (n1 + 1)) by lia.
  cbn [tl]. rewrite read_strings_plist by assumption. cbn [bind].
  rewrite combine_fst_snd. reflexivity.
Qed.

Lemma student_ranks_plist : forall l k, plist_ok l -> student_ranks (plist_tokens l) k = Ok (entries1 k l).
Proof.
  intros l k H. unfold student_ranks. rewrite read_strings_plist by assumption. cbn [bind].
  now rewrite combine_fst_snd.
Qed.

(* 3-agent project line *)
Lemma step_project : forall tw j q n1 n2 n3 rows plq puq plec llq ltg luq rk,
  0 <= n1 -> 1 <= j <= n2 ->
  step 3 tw (n1 + j) (join " "%string (project_toks j q)) (mkAcc n1 n2 n3 rows plq puq plec llq ltg luq rk) =
  Ok (mkAcc n1 n2 n3 rows (plq ++ [fst (fst q)]) (puq ++ [snd (fst q)]) (plec ++ [snd q]) llq ltg luq rk).
Proof.
  intros tw j q n1 n2 n3 rows plq puq plec llq ltg luq rk Hn Hj.
  unfold step. cbv zeta. rewrite project_line_tokens.
  cbn [a_nS a_nP a_nL a_rows a_plq a_puq a_plec a_llq a_ltg a_luq a_ranks].
  rewrite (eqb_false (n1 + j) 0) by lia. rewrite (ltb_false (n1 + j) (n1 + 1)) by lia.
  rewrite (ltb_true (n1 + j) (n1 + n2 + 1)) by lia.
  change (3 =? 3) with true. cbv beta iota.
  rewrite (get_int_str _ 1%nat (fst (fst q))) by reflexivity. cbn [bind].
  rewrite (get_int_str _ 2%nat (snd (fst q))) by reflexivity. cbn [bind].
  rewrite (get_int_str _ 3%nat (snd q)) by reflexivity. reflexivity.
Qed.

(* 3-agent lecturer line *)
Lemma step_lecturer : forall tw k lq tg uq l n1 n2 n3 rows plq puq plec llq ltg luq rk,
  0 <= n1 -> 0 <= n2 -> 1 <= k <= n3 -> plist_ok l ->
  step 3 tw (n1 + n2 + k) (join " "%string (lecturer_toks k (lq, tg, uq, l)))
       (mkAcc n1 n2 n3 rows plq puq plec llq ltg luq rk) =
  Ok (mkAcc n1 n2 n3 rows plq puq plec (llq ++ [lq]) (ltg ++ [tg]) (luq ++ [uq])
            (rk ++ if tw then entries1 k l else [])).
Proof.
  intros tw k lq tg uq l n1 n2 n3 rows plq puq plec llq ltg luq rk Hn1 Hn2 Hk Hl.
  unfold step. cbv zeta. rewrite lecturer_line_tokens.
  cbn [a_nS a_nP a_nL a_rows a_plq a_puq a_plec a_llq a_ltg a_luq a_ranks].
  rewrite (eqb_false (n1 + n2 + k) 0) by lia. rewrite (ltb_false (n1 + n2 + k) (n1 + 1)) by lia.
  rewrite (ltb_false (n1 + n2 + k) (n1 + n2 + 1)) by lia.
  rewrite (ltb_true (n1 + n2 + k) (n1 + n2 + n3 + 1)) by lia.
  change (3 =? 3) with true. cbv beta iota. cbn [andb].
  cbn [app].
  rewrite (get_int_str _ 1%nat lq) by reflexivity. cbn [bind].
  rewrite (get_int_str _ 2%nat tg) by reflexivity. cbn [bind].
  rewrite (get_int_str _ 3%nat uq) by reflexivity. cbn [bind skipn].
  replace (n1 + n2 + k - (n1 + n2)) with k by lia.
  destruct tw.
  - rewrite student_ranks_plist by assumption. reflexivity.
  - reflexivity.
Qed.

(* 2-agent hospital line *)
Lemma step_hospital : forall tw j lq uq x l n1 n2 n3 rows plq puq plec llq ltg luq rk,
  0 <= n1 -> 1 <= j <= n2 -> zlen plq = j - 1 -> plist_ok l ->
  step 2 tw (n1 + j) (join " "%string (hospital_toks j (lq, uq, x, l)))
       (mkAcc n1 n2 n3 rows plq puq plec llq ltg luq rk) =
  Ok (mkAcc n1 n2 n3 rows (plq ++ [lq]) (puq ++ [uq]) (plec ++ [j]) (llq ++ [lq]) (ltg ++ [uq]) (luq ++ [uq])
            (rk ++ if tw then entries1 j l else [])).
Proof.
  intros tw j lq uq x l n1 n2 n3 rows plq puq plec llq ltg luq rk Hn1 Hj Hlen Hl.
  unfold step. cbv zeta. rewrite hospital_line_tokens.
  cbn [a_nS a_nP a_nL a_rows a_plq a_puq a_plec a_llq a_ltg a_luq a_ranks].
  rewrite (eqb_false (n1 + j) 0) by lia. rewrite (ltb_false (n1 + j) (n1 + 1)) by lia.
  rewrite (ltb_true (n1 + j) (n1 + n2 + 1)) by lia.
  change (2 =? 3) with false. change (2 =? 2) with true. cbv beta iota.
  cbn [app].
  rewrite (get_int_str _ 1%nat lq) by reflexivity. cbn [bind].
  rewrite (get_int_str _ 2%nat uq) by reflexivity. cbn [bind skipn].
  replace (n1 + j - n1) with j by lia. rewrite Hlen. replace (j - 1 + 1) with j by lia.
  destruct tw.
  - rewrite student_ranks_plist by assumption. reflexivity.
  - reflexivity.
Qed.

(* trailer lines *)
Lemma step_trailer3 : forall tw i line a,
  0 <= a_nS a -> 0 <= a_nP a -> 0 <= a_nL a -> a_nS a + a_nP a + a_nL a + 1 <= i ->
  step 3 tw i line a = Ok a.
Proof.
  intros tw i line a H1 H2 H3 Hi. unfold step. cbv zeta.
  rewrite (eqb_false i 0) by lia. rewrite (ltb_false i (a_nS a + 1)) by lia.
  rewrite (ltb_false i (a_nS a + a_nP a + 1)) by lia.
  rewrite (ltb_false i (a_nS a + a_nP a + a_nL a + 1)) by lia. reflexivity.
Qed.

Lemma step_trailer2 : forall tw i line a,
  0 <= a_nS a -> 0 <= a_nP a -> a_nS a + a_nP a + 1 <= i ->
  step 2 tw i line a = Ok a.
Proof.
  intros tw i line a H1 H2 Hi. unfold step. cbv zeta.
  rewrite (eqb_false i 0) by lia. rewrite (ltb_false i (a_nS a + 1)) by lia.
  rewrite (ltb_false i (a_nS a + a_nP a + 1)) by lia.
  change (2 =? 3) with false. rewrite andb_false_r. reflexivity.
Qed.

(* ---- sections ---------------------------------------------------------- *)

Lemma zlen_cons {A} : forall (x : A) l, zlen (x :: l) = 1 + zlen l.
Proof. intros. unfold zlen. cbn [length]. lia. Qed.
Lemma zlen_nonneg {A} : forall (l : list A), 0 <= zlen l.
Proof. intros. unfold zlen. lia. Qed.
Lemma zlen_app {A} : forall (l m : list A), zlen (l ++ m) = zlen l + zlen m.
Proof. intros. unfold zlen. rewrite app_length. lia. Qed.

Lemma run_lines_app : forall na tw l1 l2 i a,
  run_lines na tw i (l1 ++ l2) a =
  (do a' <- run_lines na tw i l1 a; run_lines na tw (i + zlen l1) l2 a').
Proof.
  induction l1 as [|l l1 IH]; intros l2 i a.
  - cbn [app run_lines bind]. f_equal. unfold zlen. cbn [length]. lia.
  - cbn [app run_lines]. destruct (step na tw i l a) as [a'|e]; [|reflexivity].
    cbn [bind]. rewrite IH. rewrite zlen_cons. now replace (i + 1 + zlen l1) with (i + (1 + zlen l1)) by lia.
Qed.

Lemma length_numbered {A} : forall (f : Z -> A -> list string) l i, length (numbered f i l) = length l.
Proof. induction l as [|x l IH]; intros i; cbn [numbered length]; [reflexivity|now rewrite IH]. Qed.

Fixpoint srows (i : Z) (ls : list plist) : list (list (Z * Z * Z)) :=
  match ls with [] => [] | l :: t => srow i l :: srows (i + 1) t end.

Fixpoint entries (k : Z) (ls : list plist) : list ((Z * Z) * Z) :=
  match ls with [] => [] | l :: t => entries1 k l ++ entries (k + 1) t end.

Lemma run_students : forall na tw ls i n1 n2 n3 rows plq puq plec llq ltg luq rk,
  1 <= i -> i + zlen ls <= n1 + 1 -> Forall plist_ok ls ->
  run_lines na tw i (map (join " "%string) (numbered student_toks i ls))
            (mkAcc n1 n2 n3 rows plq puq plec llq ltg luq rk) =
  Ok (mkAcc n1 n2 n3 (rows ++ srows i ls) plq puq plec llq ltg luq rk).
Proof.
  induction ls as [|l ls IH]; intros i n1 n2 n3 rows plq puq plec llq ltg luq rk Hi Hlen Hok.
  - cbn [numbered map run_lines srows]. now rewrite app_nil_r.
  - inversion Hok as [|? ? Hl Hls]; subst. rewrite zlen_cons in Hlen. pose proof (zlen_nonneg ls).
    cbn [numbered map run_lines srows]. rewrite step_student by (assumption || lia). cbn [bind].
    rewrite IH by (assumption || lia). now rewrite <- app_assoc.
Qed.

Lemma run_projects : forall tw qs j n1 n2 n3 rows plq puq plec llq ltg luq rk,
  0 <= n1 -> 1 <= j -> j + zlen qs <= n2 + 1 ->
  run_lines 3 tw (n1 + j) (map (join " "%string) (numbered project_toks j qs))
            (mkAcc n1 n2 n3 rows plq puq plec llq ltg luq rk) =
  Ok (mkAcc n1 n2 n3 rows (plq ++ map (fun q => fst (fst q)) qs) (puq ++ map (fun q => snd (fst q)) qs)
            (plec ++ map snd qs) llq ltg luq rk).
Proof.
  induction qs as [|q qs IH]; intros j n1 n2 n3 rows plq puq plec llq ltg luq rk Hn Hj Hlen.
  - cbn [numbered map run_lines]. now rewrite !app_nil_r.
  - rewrite zlen_cons in Hlen. pose proof (zlen_nonneg qs).
    cbn [numbered map run_lines]. rewrite step_project by lia. cbn [bind].
    replace (n1 + j + 1) with (n1 + (j + 1)) by lia.
    rewrite IH by lia. now rewrite <- !app_assoc.
Qed.

Definition third_ok (q : Z * Z * Z * plist) : Prop := plist_ok (snd q).

Lemma run_lecturers : forall tw qs k n1 n2 n3 rows plq puq plec llq ltg luq rk,
  0 <= n1 -> 0 <= n2 -> 1 <= k -> k + zlen qs <= n3 + 1 -> Forall third_ok qs ->
  run_lines 3 tw (n1 + n2 + k) (map (join " "%string) (numbered lecturer_toks k qs))
            (mkAcc n1 n2 n3 rows plq puq plec llq ltg luq rk) =
  Ok (mkAcc n1 n2 n3 rows plq puq plec
            (llq ++ map (fun q => fst (fst (fst q))) qs) (ltg ++ map (fun q => snd (fst (fst q))) qs)
            (luq ++ map (fun q => snd (fst q)) qs)
            (rk ++ if tw then entries k (map snd qs) else [])).
Proof.
  induction qs as [|q qs IH]; intros k n1 n2 n3 rows plq puq plec llq ltg luq rk Hn1 Hn2 Hk Hlen Hok.
  - cbn [numbered map run_lines entries]. rewrite !app_nil_r. now destruct tw; rewrite ?app_nil_r.
  - inversion Hok as [|? ? Hq Hqs]; subst. rewrite zlen_cons in Hlen. pose proof (zlen_nonneg qs).
    destruct q as [[[lq tg] uq] l]. unfold third_ok in Hq. cbn [snd] in Hq.
    cbn [numbered map run_lines]. rewrite step_lecturer by (assumption || lia). cbn [bind].
    replace (n1 + n2 + k + 1) with (n1 + n2 + (k + 1)) by lia.
    rewrite IH by (assumption || lia). cbn [fst snd entries]. rewrite <- !app_assoc.
    destruct tw; reflexivity.
Qed.

Definition hosp_ok (q : Z * Z * Z * plist) : Prop := plist_ok (snd q).

Lemma run_hospitals : forall tw qs j n1 n2 n3 rows plq puq plec llq ltg luq rk,
  0 <= n1 -> 1 <= j -> j + zlen qs <= n2 + 1 -> zlen plq = j - 1 -> Forall hosp_ok qs ->
  run_lines 2 tw (n1 + j) (map (join " "%string) (numbered hospital_toks j qs))
            (mkAcc n1 n2 n3 rows plq puq plec llq ltg luq rk) =
  Ok (mkAcc n1 n2 n3 rows
            (plq ++ map (fun q => fst (fst (fst q))) qs) (puq ++ map (fun q => snd (fst (fst q))) qs)
            (plec ++ seqZ j (length qs))
            (llq ++ map (fun q => fst (fst (fst q))) qs) (ltg ++ map (fun q => snd (fst (fst q))) qs)
            (luq ++ map (fun q => snd (fst (fst q))) qs)
            (rk ++ if tw then entries j (map snd qs) else [])).
Proof.
  induction qs as [|q qs IH]; intros j n1 n2 n3 rows plq puq plec llq ltg luq rk Hn1 Hj Hlen Hplq Hok.
  - cbn [numbered map run_lines entries length seqZ]. rewrite !app_nil_r. now destruct tw; rewrite ?app_nil_r.
  - inversion Hok as [|? ? Hq Hqs]; subst. rewrite zlen_cons in Hlen. pose proof (zlen_nonneg qs).
    destruct q as [[[lq uq] x] l]. unfold hosp_ok in Hq. cbn [snd] in Hq.
    cbn [numbered map run_lines]. rewrite step_hospital by (assumption || lia). cbn [bind].
    replace (n1 + j + 1) with (n1 + (j + 1)) by lia.
    rewrite IH; [| lia | lia | lia | | assumption].
    + cbn [fst snd entries length seqZ]. rewrite <- !app_assoc. destruct tw; reflexivity.
    + rewrite zlen_app, Hplq. unfold zlen. cbn [length]. lia.
Qed.

Lemma run_trailer3 : forall tw tr i a,
  0 <= a_nS a -> 0 <= a_nP a -> 0 <= a_nL a -> a_nS a + a_nP a + a_nL a + 1 <= i ->
  run_lines 3 tw i tr a = Ok a.
Proof.
  induction tr as [|l tr IH]; intros i a H1 H2 H3 Hi; [reflexivity|].
  cbn [run_lines]. rewrite step_trailer3 by assumption. cbn [bind]. apply IH; lia.
Qed.

Lemma run_trailer2 : forall tw tr i a,
  0 <= a_nS a -> 0 <= a_nP a -> a_nS a + a_nP a + 1 <= i ->
  run_lines 2 tw i tr a = Ok a.
Proof.
  induction tr as [|l tr IH]; intros i a H1 H2 Hi; [reflexivity|].
  cbn [run_lines]. rewrite step_trailer2 by assumption. cbn [bind]. apply IH; lia.
Qed.

(* ====================================================================== *)
(* L4: finish                                                              *)
(* ====================================================================== *)

Lemma mapM_map_ok {X Y W} : forall (f : Y -> result W) (h : X -> Y) (g : X -> W) (L : list X),
  (forall x, In x L -> f (h x) = Ok (g x)) -> mapM f (map h L) = Ok (map g L).
Proof.
  induction L as [|x L IH]; intros H; [reflexivity|].
  cbn [map mapM]. rewrite H by (left; reflexivity). cbn [bind].
  rewrite IH by (intros y Hy; apply H; right; exact Hy). reflexivity.
Qed.

Lemma find_app_ {X} : forall (p : X -> bool) l1 l2,
  find p (l1 ++ l2) = match find p l1 with Some y => Some y | None => find p l2 end.
Proof.
  induction l1 as [|x l1 IH]; intros l2; [reflexivity|].
  cbn [app find]. destruct (p x); [reflexivity|apply IH].
Qed.

Lemma lookup_rank_app : forall d1 d2 k f,
  lookup_rank (d1 ++ d2) k f = lookup_rank d2 k (lookup_rank d1 k f).
Proof.
  induction d1 as [|[[a b] r] d1 IH]; intros d2 k f; [reflexivity|].
  cbn [app lookup_rank]. apply IH.
Qed.

Lemma lookup_entries1_same : forall L k s f,
  lookup_rank (map (fun sr : Z * Z => ((k, fst sr), snd sr)) L) (k, s) f =
  match find (fun xr => fst xr =? s) (rev L) with Some xr => Some (snd xr) | None => f end.
Proof.
  induction L as [|x L IH]; intros k s f; [reflexivity|].
  cbn [map lookup_rank fst snd]. rewrite Z.eqb_refl. cbn [andb]. rewrite IH.
  cbn [rev]. rewrite find_app_. destruct (find (fun xr => fst xr =? s) (rev L)); [reflexivity|].
  cbn [find]. destruct (fst x =? s); reflexivity.
Qed.

Lemma lookup_entries1_other : forall L k' k s f, k' <> k ->
  lookup_rank (map (fun sr : Z * Z => ((k', fst sr), snd sr)) L) (k, s) f = f.
Proof.
  induction L as [|x L IH]; intros k' k s f H; [reflexivity|].
  cbn [map lookup_rank fst snd]. rewrite (eqb_false k' k) by assumption. cbn [andb]. now apply IH.
Qed.

Lemma lookup_entries_gt : forall ls k0 k s f, k < k0 -> lookup_rank (entries k0 ls) (k, s) f = f.
Proof.
  induction ls as [|l ls IH]; intros k0 k s f H; [reflexivity|].
  cbn [entries]. rewrite lookup_rank_app. unfold entries1.
  rewrite lookup_entries1_other by lia. apply IH. lia.
Qed.

Definition rank_in (l : plist) (s : Z) (f : option Z) : option Z :=
  match find (fun xr => fst xr =? s) (rev (ranked l)) with Some xr => Some (snd xr) | None => f end.

Lemma lookup_entries : forall ls k0 k s f, k0 <= k ->
  lookup_rank (entries k0 ls) (k, s) f = rank_in (nth (Z.to_nat (k - k0)) ls []) s f.
Proof.
  induction ls as [|l ls IH]; intros k0 k s f H.
  - cbn [entries lookup_rank]. destruct (Z.to_nat (k - k0)); reflexivity.
  - cbn [entries]. rewrite lookup_rank_app. unfold entries1 at 1.
    destruct (Z.eq_dec k0 k) as [->|Hne].
    + rewrite lookup_entries1_same. rewrite lookup_entries_gt by lia.
      replace (k - k) with 0 by lia. reflexivity.
    + rewrite lookup_entries1_other by assumption. rewrite IH by lia.
      replace (Z.to_nat (k - k0)) with (S (Z.to_nat (k - (k0 + 1)))) by lia. reflexivity.
Qed.

Lemma py_nth_ok {X} : forall (l : list X) i d, 0 <= i < zlen l -> py_nth l i = Ok (nth (Z.to_nat i) l d).
Proof.
  intros l i d [H0 H1]. unfold py_nth. rewrite (ltb_false i 0) by lia.
  rewrite (ltb_false i 0) by lia. cbn [orb].
  destruct (zlen l <=? i) eqn:E; [apply Z.leb_le in E; lia|].
  destruct (nth_error l (Z.to_nat i)) as [x|] eqn:En.
  - now rewrite (nth_error_nth _ _ d En).
  - apply nth_error_None in En. unfold zlen in H1. lia.
Qed.

Lemma nth_seqZ : forall n a i d, (i < n)%nat -> nth i (seqZ a n) d = a + Z.of_nat i.
Proof.
  induction n as [|n IH]; intros a i d H; [lia|].
  destruct i as [|i]; cbn [seqZ nth]; [lia|]. rewrite IH by lia. lia.
Qed.

Lemma in_ranked_from : forall l r p x, In (p, x) (ranked_from r l) -> exists g, In g l /\ In p g.
Proof.
  induction l as [|g l IH]; intros r p x H; [destruct H|].
  cbn [ranked_from] in H. apply in_app_or in H as [H|H].
  - apply in_map_iff in H as [y [E Hy]]. injection E as -> _. exists g. split; [now left|assumption].
  - destruct (IH _ _ _ H) as [g' [Hg Hp]]. exists g'. split; [now right|assumption].
Qed.

Lemma existsb_false_intro {X} : forall (f : X -> bool) l, (forall x, In x l -> f x = false) -> existsb f l = false.
Proof.
  intros f l H. destruct (existsb f l) eqn:E; [|reflexivity].
  apply existsb_exists in E as [x [Hx Hf]]. rewrite (H x Hx) in Hf. discriminate.
Qed.

Section Finish.
  Variables (na : Z) (A : file_ast) (nLc : Z) (plec : list Z) (lists : list plist).
  Hypothesis Hlists : forall k, second_list_of na A k = nth (Z.to_nat (k - 1)) lists [].
  Hypothesis Hplec : forall p, 1 <= p <= f_n2 A -> py_nth plec (p - 1) = Ok (lec_of na A p).
  Hypothesis Hlecrange : forall p, 1 <= p <= f_n2 A -> 1 <= lec_of na A p <= nLc.

  Definition Rng (l : plist) : Prop := forall g p, In g l -> In p g -> 1 <= p <= f_n2 A.
  Definition Tw (i : Z) (l : plist) : Prop :=
    forall g p, In g l -> In p g -> lec_rank na A (lec_of na A p) i <> None.

  Lemma lookup_is_lec_rank : forall k s, 1 <= k -> lookup_rank (entries 1 lists) (k, s) None = lec_rank na A k s.
  Proof.
    intros k s Hk. rewrite lookup_entries by assumption. unfold rank_in, lec_rank. now rewrite Hlists.
  Qed.

  Lemma row1 : forall i l, Rng l ->
    mapM (set_lecturer plec) (srow i l) = Ok (denote_row na false A i l).
  Proof.
    intros i l HR. unfold srow, denote_row. apply mapM_map_ok.
    intros [p r] Hin. cbn [fst snd]. unfold set_lecturer.
    destruct (in_ranked_from _ _ _ _ Hin) as [g [Hg Hp]]. pose proof (HR g p Hg Hp) as Hr.
    rewrite (ltb_false p 1) by lia. rewrite Hplec by assumption. reflexivity.
  Qed.

  Lemma rows1 : forall ls i, Forall Rng ls ->
    mapM (mapM (set_lecturer plec)) (srows i ls) = Ok (denote_rows na false A i ls).
  Proof.
    induction ls as [|l ls IH]; intros i H; [reflexivity|].
    inversion H; subst. cbn [srows denote_rows mapM]. rewrite row1 by assumption. cbn [bind].
    rewrite IH by assumption. reflexivity.
  Qed.

  Lemma row2 : forall i l, Rng l -> Tw i l ->
    mapM (set_rank (entries 1 lists)) (denote_row na false A i l) = Ok (denote_row na true A i l).
  Proof.
    intros i l HR HT. unfold denote_row. apply mapM_map_ok.
    intros [p r] Hin. cbn [fst snd]. unfold set_rank. cbn [lec st pr rs].
    destruct (in_ranked_from _ _ _ _ Hin) as [g [Hg Hp]].
    pose proof (HR g p Hg Hp) as Hr. pose proof (HT g p Hg Hp) as Ht.
    rewrite lookup_is_lec_rank by (apply Hlecrange; assumption).
    destruct (lec_rank na A (lec_of na A p) i); [reflexivity|now elim Ht].
  Qed.

  Lemma rows2 : forall ls i, Forall Rng ls ->
    (forall il, In il (combine (seqZ i (length ls)) ls) -> Tw (fst il) (snd il)) ->
    mapM (mapM (set_rank (entries 1 lists))) (denote_rows na false A i ls) = Ok (denote_rows na true A i ls).
  Proof.
    induction ls as [|l ls IH]; intros i HR H; [reflexivity|].
    inversion HR; subst.
    cbn [denote_rows mapM]. rewrite row2; [| assumption | apply (H (i, l)); now left].
    cbn [bind]. rewrite IH; [reflexivity | assumption |].
    intros il Hil. apply H. cbn [length seqZ combine]. now right.
  Qed.

  Lemma rows_prop : forall tw ls i q, Forall Rng ls ->
    In q (concat (denote_rows na tw A i ls)) -> 1 <= pr q <= f_n2 A /\ lec q = lec_of na A (pr q).
  Proof.
    induction ls as [|l ls IH]; intros i q HR Hq; [destruct Hq|].
    inversion HR as [|? ? Hl Hls]; subst.
    cbn [denote_rows concat] in Hq. apply in_app_or in Hq as [Hq|Hq].
    - unfold denote_row in Hq. apply in_map_iff in Hq as [[p r] [<- Hin]]. cbn [pr lec fst snd].
      destruct (in_ranked_from _ _ _ _ Hin) as [g [Hg Hp]]. split; [exact (Hl g p Hg Hp)|reflexivity].
    - now apply IH with (i + 1).
  Qed.

  Lemma finish_ok : forall tw plq puq llq ltg luq,
    Forall Rng (f_first A) ->
    (tw = true -> forall il, In il (combine (seqZ 1 (length (f_first A))) (f_first A)) -> Tw (fst il) (snd il)) ->
    finish tw (mkAcc (f_n1 A) (f_n2 A) nLc (srows 1 (f_first A)) plq puq plec llq ltg luq
                     (if tw then entries 1 lists else [])) =
    Ok (mkInst (f_n1 A) (f_n2 A) nLc plq puq plec llq ltg luq (denote_rows na tw A 1 (f_first A))).
  Proof.
    intros tw plq puq llq ltg luq HR HT. unfold finish.
    cbn [a_nS a_nP a_nL a_rows a_plq a_puq a_plec a_llq a_ltg a_luq a_ranks].
    rewrite rows1 by assumption. cbn [bind].
    assert (E : (if tw then mapM (mapM (set_rank (if tw then entries 1 lists else [])))
                               (denote_rows na false A 1 (f_first A))
                 else Ok (denote_rows na false A 1 (f_first A))) = Ok (denote_rows na tw A 1 (f_first A))).
    { destruct tw; [|reflexivity]. apply rows2; [assumption|]. now apply HT. }
    rewrite E. cbn [bind]. unfold all_pairs. cbn [pairs nP nL].
    rewrite existsb_false_intro.
    2:{ intros q Hq. destruct (rows_prop _ _ _ _ HR Hq) as [Hp _]. apply ltb_false. lia. }
    rewrite existsb_false_intro.
    2:{ intros q Hq. destruct (rows_prop _ _ _ _ HR Hq) as [Hp Hl]. apply ltb_false.
        rewrite Hl. apply Hlecrange. assumption. }
    rewrite existsb_false_intro.
    2:{ intros q Hq. destruct (rows_prop _ _ _ _ HR Hq) as [Hp Hl]. apply ltb_false.
        rewrite Hl. apply Hlecrange. assumption. }
    reflexivity.
  Qed.
End Finish.

(* ====================================================================== *)
(* well-formedness, destructured                                           *)
(* ====================================================================== *)

Lemma forallb_plist_ok : forall ls,
  forallb (fun l : plist => forallb (fun g => negb (Nat.eqb (length g) 0)) l) ls = true -> Forall plist_ok ls.
Proof.
  intros ls H. apply Forall_forall. intros l Hl. rewrite forallb_forall in H. specialize (H l Hl).
  apply Forall_forall. intros g Hg. rewrite forallb_forall in H. specialize (H g Hg).
  destruct g; [discriminate H|discriminate].
Qed.

Lemma wf_ast_facts : forall na tw A, wf_ast na tw A = true ->
  (na = 2 \/ na = 3) /\ zlen (f_first A) = f_n1 A /\ zlen (f_second A) = f_n2 A /\
  (na = 3 -> zlen (f_third A) = f_n3 A) /\ (na = 2 -> zlen (f_second_lists A) = f_n2 A) /\
  0 <= f_n1 A /\ 0 <= f_n2 A /\ 0 <= f_n3 A /\
  Forall plist_ok (f_first A) /\ Forall plist_ok (f_second_lists A) /\ Forall third_ok (f_third A) /\
  Forall (Rng A) (f_first A) /\
  (na = 3 -> forall q, In q (f_second A) -> 1 <= snd q <= f_n3 A) /\
  (tw = true -> forall il, In il (combine (seqZ 1 (length (f_first A))) (f_first A)) -> Tw na A (fst il) (snd il)).
Proof.
  intros na tw A H. unfold wf_ast in H.
  apply andb_true_iff in H as [H H11]. apply andb_true_iff in H as [H H10].
  apply andb_true_iff in H as [H H9]. apply andb_true_iff in H as [H H8].
  apply andb_true_iff in H as [H H7]. apply andb_true_iff in H as [H H6].
  apply andb_true_iff in H as [H H5]. apply andb_true_iff in H as [H H4].
  apply andb_true_iff in H as [H H3]. apply andb_true_iff in H as [H1 H2].
  apply Z.eqb_eq in H2, H3. apply Z.leb_le in H5, H6, H7.
  rewrite !forallb_app in H8. apply andb_true_iff in H8 as [H8a H8]. apply andb_true_iff in H8 as [H8b H8c].
  apply forallb_plist_ok in H8a, H8b, H8c.
  split. { apply orb_true_iff in H1 as [E|E]; apply Z.eqb_eq in E; auto. }
  split; [assumption|]. split; [assumption|].
  split. { intros ->. change (3 =? 3) with true in H4. now apply Z.eqb_eq in H4. }
  split. { intros ->. change (2 =? 3) with false in H4. now apply Z.eqb_eq in H4. }
  split; [assumption|]. split; [assumption|]. split; [assumption|].
  split; [assumption|]. split; [assumption|].
  split. { apply Forall_forall. intros q Hq. unfold third_ok. rewrite Forall_forall in H8c.
           apply H8c. now apply in_map. }
  split. { apply Forall_forall. intros l Hl g p Hg Hp. rewrite forallb_forall in H9.
           specialize (H9 l Hl). rewrite forallb_forall in H9. specialize (H9 g Hg).
           rewrite forallb_forall in H9. specialize (H9 p Hp).
           apply andb_true_iff in H9 as [Ha Hb]. apply Z.leb_le in Ha, Hb. lia. }
  split. { intros ->. change (3 =? 3) with true in H10. intros q Hq.
           rewrite forallb_forall in H10. specialize (H10 q Hq).
           apply andb_true_iff in H10 as [Ha Hb]. apply Z.leb_le in Ha, Hb. lia. }
  intros ->. cbn [negb orb] in H11. intros il Hil g p Hg Hp.
  rewrite forallb_forall in H11. specialize (H11 il Hil).
  rewrite forallb_forall in H11. specialize (H11 g Hg).
  rewrite forallb_forall in H11. specialize (H11 p Hp).
  cbv beta in H11.
  assert (X : forall o : option Z, match o with Some _ => true | None => false end = true -> o <> None)
    by (intros [z|] Ho; [discriminate|discriminate Ho]).
  apply X. exact H11.
Qed.

(* ====================================================================== *)
(* rendered lines have no newline                                          *)
(* ====================================================================== *)

Lemma numbered_good {X} : forall (f : Z -> X -> list string) l i,
  (forall i x, Forall good (f i x)) -> Forall (Forall good) (numbered f i l).
Proof.
  induction l as [|x l IH]; intros i H; cbn [numbered]; [constructor|].
  constructor; [apply H|now apply IH].
Qed.

Lemma ast_lines_good : forall na A, Forall (Forall good) (ast_lines na A).
Proof.
  intros na A. unfold ast_lines.
  apply Forall_app_intro; [|apply Forall_app_intro].
  - constructor; [|constructor]. apply Forall_app_intro.
    + repeat (constructor; [apply str_of_Z_good|]). constructor.
    + destruct (na =? 3); [|constructor]. constructor; [apply str_of_Z_good|constructor].
  - apply numbered_good. intros i l. constructor; [apply label_good|apply plist_tokens_good].
  - destruct (na =? 3).
    + apply Forall_app_intro; apply numbered_good.
      * intros j q. repeat (constructor; [apply label_good|]). constructor; [apply str_of_Z_good|constructor].
      * intros k [[[lq tg] uq] l]. apply Forall_app_intro; [|apply plist_tokens_good].
        repeat (constructor; [apply label_good|]). constructor.
    + apply numbered_good. intros j ql. apply Forall_app_intro; [|apply plist_tokens_good].
      repeat (constructor; [apply label_good|]). constructor.
Qed.

Lemma ast_lines_no_nl : forall na A,
  Forall (fun l => contains_char nl l = false) (map (join " "%string) (ast_lines na A)).
Proof.
  intros na A. apply Forall_forall. intros s Hs. apply in_map_iff in Hs as [toks [<- Ht]].
  apply join_no_nl. pose proof (ast_lines_good na A) as G. rewrite Forall_forall in G. now apply G.
Qed.

Lemma zlen_map_numbered {X} : forall (g : list string -> string) (f : Z -> X -> list string) i l,
  zlen (map g (numbered f i l)) = zlen l.
Proof. intros. unfold zlen. now rewrite map_length, length_numbered. Qed.

Lemma map_combine_fst {X Y W} : forall (f : X -> W) (a : list X) (b : list Y),
  length a = length b -> map (fun q => f (fst q)) (combine a b) = map f a.
Proof.
  induction a as [|x a IH]; intros [|y b] H; cbn [length] in H; try discriminate; [reflexivity|].
  cbn [combine map fst]. f_equal. apply IH. now injection H.
Qed.

Lemma length_seqZ : forall n a, length (seqZ a n) = n.
Proof. induction n as [|n IH]; intros a; cbn [seqZ length]; [reflexivity|now rewrite IH]. Qed.

(* ====================================================================== *)
(* main theorem                                                            *)
(* ====================================================================== *)

Lemma import_render3 : forall (twopl : bool) (A : file_ast) (trailer : list string),
  wf_ast 3 twopl A = true ->
  import_model (render 3 A trailer) 3 twopl = Ok (denote 3 twopl A).
Proof.
  intros tw A trailer W.
  destruct (wf_ast_facts _ _ _ W) as
    (_ & L1 & L2 & L3 & _ & N1 & N2 & N3 & O1 & _ & O3 & R & LR & T).
  specialize (L3 eq_refl). specialize (LR eq_refl).
  unfold import_model, render.
  rewrite lines_render_app by apply ast_lines_no_nl.
  set (TR := lines _).
  unfold import_lines, ast_lines. change (3 =? 3) with true. cbv iota.
  change (numbered (fun i l => label i :: plist_tokens l)) with (numbered student_toks).
  change (numbered (fun j q => [label j; label (fst (fst q)); label (snd (fst q)); str_of_Z (snd q)]))
    with (numbered project_toks).
  change (numbered (fun k q => let '(lq, tg, uq, l) := q in [label k; label lq; label tg; label uq] ++ plist_tokens l))
    with (numbered lecturer_toks).
  rewrite !map_app. cbn [map app]. rewrite <- !app_assoc.
  cbn [run_lines]. rewrite step_header3. cbn [bind acc0 a_rows a_plq a_puq a_plec a_llq a_ltg a_luq a_ranks].
  change (0 + 1) with 1.
  rewrite run_lines_app, run_students by (assumption || lia). cbn [bind app].
  rewrite zlen_map_numbered. replace (1 + zlen (f_first A)) with (f_n1 A + 1) by lia.
  rewrite run_lines_app, run_projects by lia. cbn [bind app].
  rewrite zlen_map_numbered. replace (f_n1 A + 1 + zlen (f_second A)) with (f_n1 A + f_n2 A + 1) by lia.
  rewrite run_lines_app, run_lecturers by (assumption || lia). cbn [bind app].
  rewrite zlen_map_numbered.
  rewrite run_trailer3 by (cbn [a_nS a_nP a_nL]; lia). cbn [bind].
  unfold denote. change (3 =? 3) with true. cbv zeta iota.
  apply finish_ok with (na := 3) (lists := map snd (f_third A)).
  - intro k. unfold second_list_of. change (3 =? 3) with true. cbv iota.
    symmetry. apply (map_nth snd (f_third A) (0, 0, 0, [])).
  - intros p Hp. unfold lec_of. change (3 =? 3) with true. cbv iota.
    rewrite (py_nth_ok _ _ (snd ((0, 0, 0) : Z * Z * Z))).
    + now rewrite map_nth.
    + unfold zlen. rewrite map_length. fold (zlen (f_second A)). lia.
  - intros p Hp. unfold lec_of. change (3 =? 3) with true. cbv iota.
    apply LR. apply nth_In. unfold zlen in L2. lia.
  - exact R.
  - exact T.
Qed.

Lemma import_render2 : forall (twopl : bool) (A : file_ast) (trailer : list string),
  wf_ast 2 twopl A = true ->
  import_model (render 2 A trailer) 2 twopl = Ok (denote 2 twopl A).
Proof.
  intros tw A trailer W.
  destruct (wf_ast_facts _ _ _ W) as
    (_ & L1 & L2 & _ & L4 & N1 & N2 & N3 & O1 & O2 & _ & R & _ & T).
  specialize (L4 eq_refl).
  assert (LL : length (f_second A) = length (f_second_lists A)) by (unfold zlen in L2, L4; lia).
  unfold import_model, render.
  rewrite lines_render_app by apply ast_lines_no_nl.
  set (TR := lines _).
  unfold import_lines, ast_lines. change (2 =? 3) with false. cbv iota.
  change (numbered (fun i l => label i :: plist_tokens l)) with (numbered student_toks).
  change (numbered (fun j ql => [label j; label (fst (fst (fst ql))); label (snd (fst (fst ql)))] ++ plist_tokens (snd ql)))
    with (numbered hospital_toks).
  set (HS := combine (f_second A) (f_second_lists A)).
  assert (LH : zlen HS = f_n2 A).
  { unfold HS, zlen. rewrite combine_length. unfold zlen in L2. lia. }
  assert (OH : Forall hosp_ok HS).
  { apply Forall_forall. intros [q l] Hq. unfold hosp_ok. cbn [snd].
    apply in_combine_r in Hq. rewrite Forall_forall in O2. now apply O2. }
  rewrite !map_app. cbn [map app]. rewrite <- !app_assoc.
  cbn [run_lines]. rewrite step_header2. cbn [bind acc0 a_rows a_plq a_puq a_plec a_llq a_ltg a_luq a_ranks].
  change (0 + 1) with 1.
  rewrite run_lines_app, run_students by (assumption || lia). cbn [bind app].
  rewrite zlen_map_numbered. replace (1 + zlen (f_first A)) with (f_n1 A + 1) by lia.
  rewrite run_lines_app, run_hospitals by (assumption || reflexivity || lia). cbn [bind app].
  rewrite zlen_map_numbered.
  rewrite run_trailer2 by (cbn [a_nS a_nP a_nL]; lia). cbn [bind].
  unfold denote. change (2 =? 3) with false. cbv zeta iota.
  unfold HS.
  rewrite (map_combine_fst (fun q : Z * Z * Z => fst (fst q))) by assumption.
  rewrite (map_combine_fst (fun q : Z * Z * Z => snd (fst q))) by assumption.
  rewrite map_snd_combine by assumption.
  rewrite combine_length, <- LL, Nat.min_id.
  apply finish_ok with (na := 2) (lists := f_second_lists A).
  - intro k. unfold second_list_of. change (2 =? 3) with false. reflexivity.
  - intros p Hp. unfold lec_of. change (2 =? 3) with false. cbv iota.
    rewrite (py_nth_ok _ _ 0).
    + rewrite nth_seqZ by (unfold zlen in L2; lia). f_equal. lia.
    + unfold zlen. rewrite length_seqZ. fold (zlen (f_second A)). lia.
  - intros p Hp. unfold lec_of. change (2 =? 3) with false. cbv iota. exact Hp.
  - exact R.
  - exact T.
Qed.

(* main goal: the model of the solver's importer reads every file of the documented format as the instance it denotes *)
Theorem import_render : forall (na : Z) (twopl : bool) (A : file_ast) (trailer : list string),
  wf_ast na twopl A = true ->
  import_model (render na A trailer) na twopl = Ok (denote na twopl A).
Proof.
  intros na tw A trailer W.
  destruct (wf_ast_facts _ _ _ W) as ([-> | ->] & _).
  - now apply import_render2.
  - now apply import_render3.
Qed.

Print Assumptions lines_render.
Print Assumptions split_ws_join.
Print Assumptions read_strings_plist.
Print Assumptions finish_ok.
Print Assumptions import_render.
