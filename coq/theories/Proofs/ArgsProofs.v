(* decide (the generator's argument checks) = the documented acceptance rule. *)
From MP Require Import Gen.Args.
From Coq Require Import Lia QArith.
Local Open Scope list_scope. Open Scope Z_scope.

Lemma Qle_bool_0_0 : Qle_bool 0 0 = true. Proof. reflexivity. Qed.
Lemma Qle_bool_0_1 : Qle_bool 0 1 = true. Proof. reflexivity. Qed.

(* controlled unfolding: everything of the model, but neither Z comparisons nor Qle_bool *)
Ltac unf :=
  unfold decide, documented_ok, with_defaults, bound_tests;
  cbn [decide required_missing banned_present with_defaults bound_tests first_hit bind ltZ ltQ given zv qv
       documented_ok a_numinst a_mp a_twopl a_skew a_n1 a_n2 a_n3 a_pmin a_pmax a_t1 a_t2 a_lq a_llq a_uq
       a_luq a_lt negb andb orb].

(* split a conjunction of booleans into propositions *)
Ltac split_E E :=
  repeat match type of E with
  | (_ && _) = true => let E1 := fresh "E" in apply andb_true_iff in E; destruct E as [E E1]
  end.

Ltac props :=
  repeat match goal with
  | H : (_ && _) = true |- _ => let H1 := fresh "E" in apply andb_true_iff in H; destruct H as [H H1]
  | H : (_ <=? _) = true |- _ => apply Z.leb_le in H
  | H : true = true |- _ => clear H
  end.

(* all comparisons of the code are false *)
Ltac all_false :=
  repeat match goal with
  | |- context [?x <? ?y] => replace (x <? y) with false by (symmetry; apply Z.ltb_ge; lia)
  end.

(* the bounds part, once every required field is given and no banned one is *)
Ltac doc_true E :=
  props; all_false;
  repeat match goal with H : Qle_bool _ _ = true |- _ => rewrite H; clear H end;
  unf; reflexivity.

Ltac doc_false E :=
  repeat match goal with
  | |- context [?x <? ?y] => destruct (Z.ltb_spec x y); unf; [reflexivity | ]
  | |- context [Qle_bool ?x ?y] => destruct (Qle_bool x y) eqn:?; unf; [ | reflexivity]
  end;
  exfalso;
  repeat match type of E with
  | context [?x <=? ?y] => replace (x <=? y) with true in E by (symmetry; apply Z.leb_le; lia)
  end;
  repeat match goal with H : Qle_bool _ _ = true |- _ => rewrite H in E; clear H end;
  cbn [andb] in E; discriminate E.

Ltac bounds :=
  unf;
  rewrite ?Qle_bool_0_0, ?Qle_bool_0_1; unf;
  let E := fresh "E" in
  match goal with
  | |- _ = (if ?B then _ else _) => destruct B eqn:E
  end;
  [ doc_true E | doc_false E ].

Ltac req o := destruct o as [?v|]; [ | reflexivity].
Ltac ban o := destruct o as [?v|]; [reflexivity | ].
Ltac opt o := destruct o as [?v|].

Lemma decide_HA : forall numinst twopl skew n1 n2 n3 pmin pmax t1 t2 lq llq uq luq lt,
  let a := mkNS numinst HA twopl skew n1 n2 n3 pmin pmax t1 t2 lq llq uq luq lt in
  decide a = if documented_ok a then Accept (with_defaults a) else Reject.
Proof.
  intros numinst twopl skew n1 n2 n3 pmin pmax t1 t2 lq llq uq luq lt a; subst a.
  req n1. req n2. req pmin. req pmax. req uq.
  destruct twopl; [reflexivity | ].
  ban n3. ban t2. ban llq. ban luq. ban lt.
  opt t1; opt lq; bounds.
Qed.

Lemma decide_SM : forall numinst twopl skew n1 n2 n3 pmin pmax t1 t2 lq llq uq luq lt,
  let a := mkNS numinst SM twopl skew n1 n2 n3 pmin pmax t1 t2 lq llq uq luq lt in
  decide a = if documented_ok a then Accept (with_defaults a) else Reject.
Proof.
  intros numinst twopl skew n1 n2 n3 pmin pmax t1 t2 lq llq uq luq lt a; subst a.
  req n1. req pmin. req pmax.
  destruct twopl; [ | reflexivity].
  ban n2. ban n3. ban uq. ban lq. ban llq. ban luq. ban lt.
  opt t1; opt t2; bounds.
Qed.

Lemma decide_HR : forall numinst twopl skew n1 n2 n3 pmin pmax t1 t2 lq llq uq luq lt,
  let a := mkNS numinst HR twopl skew n1 n2 n3 pmin pmax t1 t2 lq llq uq luq lt in
  decide a = if documented_ok a then Accept (with_defaults a) else Reject.
Proof.
  intros numinst twopl skew n1 n2 n3 pmin pmax t1 t2 lq llq uq luq lt a; subst a.
  destruct twopl.
  - req n1. req n2. req pmin. req pmax. req uq.
    ban n3. ban llq. ban luq. ban lt.
    opt t1; opt t2; opt lq; bounds.
  - opt n1; opt n2; opt pmin; opt pmax; opt uq; reflexivity.
Qed.

Lemma decide_SPA : forall numinst twopl skew n1 n2 n3 pmin pmax t1 t2 lq llq uq luq lt,
  let a := mkNS numinst SPA twopl skew n1 n2 n3 pmin pmax t1 t2 lq llq uq luq lt in
  decide a = if documented_ok a then Accept (with_defaults a) else Reject.
Proof.
  intros numinst twopl skew n1 n2 n3 pmin pmax t1 t2 lq llq uq luq lt a; subst a.
  req n1. req n2. req n3. req pmin. req pmax. req uq. req luq.
  opt t1; opt t2; opt lq; opt llq; opt lt; bounds.
Qed.

Theorem decide_spec : forall a : namespace,
  decide a = if documented_ok a then Accept (with_defaults a) else Reject.
Proof.
  intros [numinst m twopl skew n1 n2 n3 pmin pmax t1 t2 lq llq uq luq lt].
  destruct m.
  - apply decide_HA.
  - apply decide_SM.
  - apply decide_HR.
  - apply decide_SPA.
Qed.

Print Assumptions decide_spec.
