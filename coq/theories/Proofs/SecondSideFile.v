(* C12 at the level of the written file: in every file the generator writes in two-sided mode, the second-side
   lists (hospitals' lists for ha/sm/hr, lecturers' lists for spa) of the abstract file the text denotes rank
   exactly the first-side agents that find their owner acceptable, each once, and nobody else. *)
From MP Require Import Gen.Files Text.Render Spec.SecondSide Proofs.TiesProofs Proofs.GenProofs Proofs.ImportProofs
                       Proofs.SpaSecondSide Proofs.PipelineProofs.
From Coq Require Import Lia ZArith Bool List Permutation.
Local Open Scope list_scope. Open Scope Z_scope.

(* ====================================================================== *)
(* small helpers                                                           *)
(* ====================================================================== *)

Lemma count_occ_Z : forall l x, Z.of_nat (count_occ Z.eq_dec l x) = count_occZ l x.
Proof.
  induction l as [|y l IH]; intros x; [reflexivity|].
  cbn [count_occ count_occZ]. destruct (Z.eq_dec y x) as [E|N].
  - rewrite (proj2 (Z.eqb_eq y x) E). rewrite Nat2Z.inj_succ, IH. lia.
  - rewrite (proj2 (Z.eqb_neq y x) N). rewrite IH. lia.
Qed.

Lemma perm_count : forall (l m : list Z) x, Permutation l m ->
  count_occ Z.eq_dec l x = count_occ Z.eq_dec m x.
Proof.
  intros l m x H. induction H as [|y l m H IH|y z l|l m n H1 IH1 H2 IH2].
  - reflexivity.
  - cbn [count_occ]. destruct (Z.eq_dec y x); now rewrite IH.
  - cbn [count_occ]. destruct (Z.eq_dec y x); destruct (Z.eq_dec z x); reflexivity.
  - now rewrite IH1.
Qed.

Lemma count_occ_In_pos : forall (l : list Z) x, In x l -> (0 < count_occ Z.eq_dec l x)%nat.
Proof. intros l x H. now apply count_occ_In. Qed.

Lemma existsb_ext_in {X} (p q : X -> bool) : forall l,
  (forall x, In x l -> p x = q x) -> existsb p l = existsb q l.
Proof.
  induction l as [|x l IH]; intros H; [reflexivity|].
  cbn [existsb]. rewrite (H x (or_introl eq_refl)). f_equal. apply IH. intros y Hy. apply H. now right.
Qed.

(* a list whose Z-valued occurrence counts are the indicator of [in range and b] is exact *)
Lemma exact_from_counts : forall (L : list Z) (n1 : Z) (b : Z -> bool),
  (forall s, count_occZ L s = if (1 <=? s) && (s <=? n1) && b s then 1 else 0) ->
  (forall s, 1 <= s <= n1 -> count_occ Z.eq_dec L s = if b s then 1%nat else 0%nat) /\
  (forall x, In x L -> 1 <= x <= n1).
Proof.
  intros L n1 b H. split.
  - intros s Hs. pose proof (H s) as Hc. rewrite <- count_occ_Z in Hc.
    rewrite (proj2 (Z.leb_le 1 s)) in Hc by lia. rewrite (proj2 (Z.leb_le s n1)) in Hc by lia.
    cbn [andb] in Hc. destruct (b s); lia.
  - intros x Hx. apply count_occ_In_pos in Hx. pose proof (H x) as Hc. rewrite <- count_occ_Z in Hc.
    destruct (Z.leb_spec 1 x) as [A1|A1]; destruct (Z.leb_spec x n1) as [A2|A2]; cbn [andb] in Hc; lia.
Qed.

Lemma first_list_concat : forall a d A s, draws_contract a d ->
  f_first A = zipruns (d_first d) (d_ties1 d) ->
  concat (first_list_of A s) = nth (Z.to_nat (s - 1)) (d_first d) [].
Proof.
  intros a d A s C E. pose proof C as (L1 & L2 & _). unfold first_list_of. rewrite E.
  rewrite nth_zipruns by congruence. apply concat_runs.
Qed.

(* ====================================================================== *)
(* ha / sm / hr                                                            *)
(* ====================================================================== *)

Lemma hr_second_exact : forall a d lqs uqs,
  gargs_ok a -> draws_contract a d -> g_mp a <> 4 -> g_twopl a = true ->
  second_side_exact 2 (hr_ast a d lqs uqs) (g_n2 a).
Proof.
  intros a d lqs uqs G C N4 Tw.
  assert (NS : n_second a = g_n2 a) by (unfold n_second; now rewrite (proj2 (Z.eqb_neq _ _) N4)).
  destruct (sec_lists_facts a d (Z.to_nat (g_n2 a)) G C) as (_ & _ & _ & DS); [now rewrite NS|].
  destruct (contract_second a d G C Tw) as (inv & E & LI & _ & _ & _ & PK & _).
  unfold second_side_unshuffled in E. rewrite (proj2 (Z.eqb_neq _ _) N4) in E.
  pose proof (contract_first a d C) as F1.
  pose proof C as (L1 & L2 & _).
  pose proof G as (G1 & G2 & _).
  destruct (invert_spec (d_first d) (g_n2 a) inv ltac:(lia)
              (fun l Hl => proj1 (first_ok_In a _ _ F1 l Hl)) E) as [_ S].
  set (A := hr_ast a d lqs uqs).
  assert (KEY : forall k, 1 <= k <= g_n2 a -> forall s,
            count_occZ (concat (second_list_of 2 A k)) s =
            if (1 <=? s) && (s <=? g_n1 a) && finds_acceptable 2 A k s then 1 else 0).
  { intros k Hk s.
    change (second_list_of 2 A k) with (nth (Z.to_nat (k - 1)) (sec_lists a d (Z.to_nat (g_n2 a))) []).
    rewrite (DS Tw). rewrite <- count_occ_Z.
    rewrite <- (perm_count _ _ s (PK (Z.to_nat (k - 1)) ltac:(rewrite NS; lia))).
    rewrite count_occ_Z. rewrite (S k s Hk).
    replace (zlen (d_first d)) with (g_n1 a) by (unfold zlen; lia).
    destruct ((1 <=? s) && (s <=? g_n1 a)) eqn:R; [|reflexivity]. cbn [andb].
    unfold finds_acceptable. rewrite (first_list_concat a d A s C eq_refl).
    unfold memZ.
    rewrite (existsb_ext_in (Z.eqb k) (fun j => project_lecturer 2 A j =? k)); [reflexivity|].
    intros j _. unfold project_lecturer. change (2 =? 3) with false. cbv iota. apply Z.eqb_sym. }
  unfold second_side_exact. change (f_n1 A) with (g_n1 a). split.
  - intros k s Hk Hs.
    exact (proj1 (exact_from_counts _ (g_n1 a) (finds_acceptable 2 A k) (KEY k Hk)) s Hs).
  - intros k x Hk Hx.
    exact (proj2 (exact_from_counts _ (g_n1 a) (finds_acceptable 2 A k) (KEY k Hk)) x Hx).
Qed.

(* ====================================================================== *)
(* spa                                                                     *)
(* ====================================================================== *)

Lemma spa_second_exact : forall a d plec lqs uqs llqs ltgs luqs,
  gargs_ok a -> draws_contract a d -> g_mp a = 4 -> g_twopl a = true ->
  create_project_lecturers (g_n2 a) (g_n3 a) = Ok plec ->
  create_quotas (g_n2 a) (g_lq a) = Ok lqs -> create_quotas (g_n2 a) (g_uq a) = Ok uqs ->
  create_quotas (g_n3 a) (g_llq a) = Ok llqs -> create_quotas (g_n3 a) (g_lt a) = Ok ltgs ->
  create_quotas (g_n3 a) (g_luq a) = Ok luqs ->
  second_side_exact 3 (spa_ast a d lqs uqs plec llqs ltgs luqs) (g_n3 a).
Proof.
  intros a d plec lqs uqs llqs ltgs luqs G C E4 Tw Eplec Elq Euq Ellq Eltg Eluq.
  pose proof G as (G1 & G2 & G3 & _). specialize (G3 E4).
  assert (NS : n_second a = g_n3 a) by (unfold n_second; now rewrite (proj2 (Z.eqb_eq _ _) E4)).
  destruct (sec_lists_facts a d (Z.to_nat (g_n3 a)) G C) as (LS & _ & _ & DS); [now rewrite NS|].
  destruct (contract_second a d G C Tw) as (inv & E & LI & _ & _ & _ & PK & _).
  unfold second_side_unshuffled in E. rewrite (proj2 (Z.eqb_eq _ _) E4), Eplec in E. cbn [bind] in E.
  destruct (create_student_lec_lists (d_first d) plec (g_n3 a)) as [sl|] eqn:Esl; [|discriminate].
  cbn [bind] in E.
  destruct (spa_second_side_spec (d_first d) plec (g_n3 a) sl inv ltac:(lia) Esl E) as [_ S].
  pose proof (contract_first a d C) as F1.
  pose proof C as (L1 & L2 & _).
  destruct (project_lecturers_spec (g_n2 a) (g_n3 a) plec ltac:(lia) ltac:(lia) Eplec) as (LP & _).
  assert (Q1 : length lqs = Z.to_nat (g_n2 a)) by (eapply quotas_len; [|eassumption]; lia).
  assert (Q2 : length uqs = Z.to_nat (g_n2 a)) by (eapply quotas_len; [|eassumption]; lia).
  assert (Q3 : length llqs = Z.to_nat (g_n3 a)) by (eapply quotas_len; [|eassumption]; lia).
  assert (Q4 : length ltgs = Z.to_nat (g_n3 a)) by (eapply quotas_len; [|eassumption]; lia).
  assert (Q5 : length luqs = Z.to_nat (g_n3 a)) by (eapply quotas_len; [|eassumption]; lia).
  set (A := spa_ast a d lqs uqs plec llqs ltgs luqs).
  assert (LQ : length (combine (combine llqs ltgs) luqs) = length (sec_lists a d (Z.to_nat (g_n3 a))))
    by (rewrite !combine_length, LS; lia).
  assert (SL : forall k, second_list_of 3 A k = nth (Z.to_nat (k - 1)) (sec_lists a d (Z.to_nat (g_n3 a))) []).
  { intro k. unfold second_list_of. change (3 =? 3) with true. cbv iota.
    unfold A, spa_ast. cbn [f_third]. rewrite combine_nth by exact LQ. reflexivity. }
  assert (PL : forall j, project_lecturer 3 A j = nth (Z.to_nat (j - 1)) plec 0).
  { intro j. unfold project_lecturer. change (3 =? 3) with true. cbv iota.
    unfold A, spa_ast. cbn [f_second]. rewrite combine_nth by (rewrite combine_length; lia). reflexivity. }
  assert (KEY : forall k, 1 <= k <= g_n3 a -> forall s,
            count_occZ (concat (second_list_of 3 A k)) s =
            if (1 <=? s) && (s <=? g_n1 a) && finds_acceptable 3 A k s then 1 else 0).
  { intros k Hk s. rewrite SL, (DS Tw). rewrite <- count_occ_Z.
    rewrite <- (perm_count _ _ s (PK (Z.to_nat (k - 1)) ltac:(rewrite NS; lia))).
    rewrite count_occ_Z. rewrite (S k s Hk).
    replace (zlen (d_first d)) with (g_n1 a) by (unfold zlen; lia).
    destruct ((1 <=? s) && (s <=? g_n1 a)) eqn:R; [|reflexivity]. cbn [andb].
    apply andb_true_iff in R as [R1 R2]. apply Z.leb_le in R1, R2.
    unfold finds_acceptable. rewrite (first_list_concat a d A s C eq_refl).
    assert (Hi : (Z.to_nat (s - 1) < length (d_first d))%nat) by lia.
    destruct (first_ok_In a _ _ F1 _ (nth_In _ [] Hi)) as [_ Rg].
    rewrite (existsb_ext_in (offers plec k) (fun j => project_lecturer 3 A j =? k)); [reflexivity|].
    intros j Hj. specialize (Rg j Hj). unfold offers.
    rewrite (py_nth_ok plec (j - 1) 0) by (unfold zlen; lia). now rewrite PL. }
  unfold second_side_exact. change (f_n1 A) with (g_n1 a). split.
  - intros k s Hk Hs.
    exact (proj1 (exact_from_counts _ (g_n1 a) (finds_acceptable 3 A k) (KEY k Hk)) s Hs).
  - intros k x Hk Hx.
    exact (proj2 (exact_from_counts _ (g_n1 a) (finds_acceptable 3 A k) (KEY k Hk)) x Hx).
Qed.

(* ====================================================================== *)
(* the written text: header line, body read like the token lines, rest     *)
(* ====================================================================== *)

Lemma hr_text_shape : forall a d text, gargs_ok a -> draws_contract a d -> g_mp a <> 4 ->
  hr_instance a d = Ok text ->
  exists lqs uqs h T body rest,
    create_quotas (g_n2 a) (g_lq a) = Ok lqs /\ create_quotas (g_n2 a) (g_uq a) = Ok uqs /\
    ast_lines 2 (hr_ast a d lqs uqs) = h :: T /\
    text = join SP h +++ NLs +++ body +++ rest /\ gen_ok body T.
Proof.
  intros a d text G C N4 H.
  pose proof G as (G1 & G2 & _).
  assert (NS : n_second a = g_n2 a) by (unfold n_second; now rewrite (proj2 (Z.eqb_neq _ _) N4)).
  unfold hr_instance in H.
  destruct (create_quotas (g_n2 a) (g_lq a)) as [lqs|] eqn:Elq; [|discriminate]. cbn [bind] in H.
  destruct (create_quotas (g_n2 a) (g_uq a)) as [uqs|] eqn:Euq; [|discriminate]. cbn [bind] in H.
  destruct (first_lines 1 (d_first d) (d_ties1 d) (Z.to_nat (g_n1 a))) as [fl|] eqn:Efl; [|discriminate].
  cbn [bind] in H. rewrite (two_flag a d G C) in H.
  destruct (hosp_lines 1 (g_twopl a) (d_second d) (d_ties2 d) lqs uqs (Z.to_nat (g_n2 a))) as [hl|] eqn:Ehl;
    [|discriminate].
  cbn [bind] in H. injection H as <-.
  assert (Q1 : length lqs = Z.to_nat (g_n2 a)) by (eapply quotas_len; [|eassumption]; lia).
  assert (Q2 : length uqs = Z.to_nat (g_n2 a)) by (eapply quotas_len; [|eassumption]; lia).
  pose proof C as (L1 & L2 & _).
  exists lqs, uqs, [str_of_Z (g_n1 a); str_of_Z (g_n2 a)],
    (numbered student_toks 1 (zipruns (d_first d) (d_ties1 d)) ++
     numbered hospital_toks 1 (combine (combine (combine lqs uqs) (repeat 0 (Z.to_nat (g_n2 a))))
                                       (sec_lists a d (Z.to_nat (g_n2 a))))),
    (fl +++ hl), (NLs +++ info_hr a).
  split; [reflexivity|]. split; [reflexivity|]. split; [reflexivity|]. split.
  - cbn [join]. unfold sZ. rewrite !append_assoc. reflexivity.
  - apply gen_ok_app.
    + now apply (first_lines_gen (Z.to_nat (g_n1 a))).
    + unfold sec_lists. destruct (g_twopl a) eqn:Tw.
      * destruct (contract_second a d G C Tw) as (inv & _ & _ & S1 & S2 & _). rewrite NS in S1, S2.
        apply (hosp_lines_gen2 (Z.to_nat (g_n2 a))); try assumption. apply repeat_length.
      * apply (hosp_lines_gen1 (Z.to_nat (g_n2 a)) 1 (d_second d) (d_ties2 d)); try assumption.
        apply repeat_length.
Qed.

Lemma spa_text_shape : forall a d text, gargs_ok a -> draws_contract a d -> g_mp a = 4 ->
  spa_instance a d = Ok text ->
  exists plec lqs uqs llqs ltgs luqs h T body rest,
    create_project_lecturers (g_n2 a) (g_n3 a) = Ok plec /\
    create_quotas (g_n2 a) (g_lq a) = Ok lqs /\ create_quotas (g_n2 a) (g_uq a) = Ok uqs /\
    create_quotas (g_n3 a) (g_llq a) = Ok llqs /\ create_quotas (g_n3 a) (g_lt a) = Ok ltgs /\
    create_quotas (g_n3 a) (g_luq a) = Ok luqs /\
    ast_lines 3 (spa_ast a d lqs uqs plec llqs ltgs luqs) = h :: T /\
    text = join SP h +++ NLs +++ body +++ rest /\ gen_ok body T.
Proof.
  intros a d text G C E4 H.
  pose proof G as (G1 & G2 & G3 & _). specialize (G3 E4).
  assert (NS : n_second a = g_n3 a) by (unfold n_second; now rewrite (proj2 (Z.eqb_eq _ _) E4)).
  unfold spa_instance in H.
  destruct (create_project_lecturers (g_n2 a) (g_n3 a)) as [plec|] eqn:Eplec; [|discriminate]. cbn [bind] in H.
  destruct (create_quotas (g_n2 a) (g_lq a)) as [lqs|] eqn:Elq; [|discriminate]. cbn [bind] in H.
  destruct (create_quotas (g_n2 a) (g_uq a)) as [uqs|] eqn:Euq; [|discriminate]. cbn [bind] in H.
  destruct (create_quotas (g_n3 a) (g_llq a)) as [llqs|] eqn:Ellq; [|discriminate]. cbn [bind] in H.
  destruct (create_quotas (g_n3 a) (g_lt a)) as [ltgs|] eqn:Eltg; [|discriminate]. cbn [bind] in H.
  destruct (create_quotas (g_n3 a) (g_luq a)) as [luqs|] eqn:Eluq; [|discriminate]. cbn [bind] in H.
  destruct (first_lines 1 (d_first d) (d_ties1 d) (Z.to_nat (g_n1 a))) as [fl|] eqn:Efl; [|discriminate].
  cbn [bind] in H.
  destruct (proj_lines 1 lqs uqs plec (Z.to_nat (g_n2 a))) as [pl|] eqn:Epl; [|discriminate].
  cbn [bind] in H. rewrite (two_flag a d G C) in H.
  destruct (lec_lines 1 (g_twopl a) (d_second d) (d_ties2 d) llqs ltgs luqs (Z.to_nat (g_n3 a))) as [ll|] eqn:Ell;
    [|discriminate].
  cbn [bind] in H. injection H as <-.
  destruct (project_lecturers_spec (g_n2 a) (g_n3 a) plec ltac:(lia) ltac:(lia) Eplec) as (LP & _).
  assert (Q1 : length lqs = Z.to_nat (g_n2 a)) by (eapply quotas_len; [|eassumption]; lia).
  assert (Q2 : length uqs = Z.to_nat (g_n2 a)) by (eapply quotas_len; [|eassumption]; lia).
  assert (Q3 : length llqs = Z.to_nat (g_n3 a)) by (eapply quotas_len; [|eassumption]; lia).
  assert (Q4 : length ltgs = Z.to_nat (g_n3 a)) by (eapply quotas_len; [|eassumption]; lia).
  assert (Q5 : length luqs = Z.to_nat (g_n3 a)) by (eapply quotas_len; [|eassumption]; lia).
  pose proof C as (L1 & L2 & _).
  exists plec, lqs, uqs, llqs, ltgs, luqs,
    [str_of_Z (g_n1 a); str_of_Z (g_n2 a); str_of_Z (g_n3 a)],
    (numbered student_toks 1 (zipruns (d_first d) (d_ties1 d)) ++
     numbered project_toks 1 (combine (combine lqs uqs) plec) ++
     numbered lecturer_toks 1 (combine (combine (combine llqs ltgs) luqs)
                                       (sec_lists a d (Z.to_nat (g_n3 a))))),
    (fl +++ pl +++ ll), (NLs +++ info_spa a).
  repeat (split; [reflexivity|]). split.
  - cbn [join]. unfold sZ. rewrite !append_assoc. reflexivity.
  - apply gen_ok_app; [|apply gen_ok_app].
    + now apply (first_lines_gen (Z.to_nat (g_n1 a))).
    + now apply (proj_lines_gen (Z.to_nat (g_n2 a))).
    + unfold sec_lists. destruct (g_twopl a) eqn:Tw.
      * destruct (contract_second a d G C Tw) as (inv & _ & _ & S1 & S2 & _). rewrite NS in S1, S2.
        now apply (lec_lines_gen2 (Z.to_nat (g_n3 a))).
      * now apply (lec_lines_gen1 (Z.to_nat (g_n3 a)) 1 (d_second d) (d_ties2 d)).
Qed.

(* ====================================================================== *)
(* main theorem                                                            *)
(* ====================================================================== *)

Theorem generated_file_second_side : forall a d text,
  gargs_ok a -> draws_contract a d -> g_twopl a = true -> instance_text a d = Ok text ->
  exists A h T body rest,
    wf_ast (na_of a) true A = true /\
    ast_lines (na_of a) A = h :: T /\
    text = join SP h +++ NLs +++ body +++ rest /\ gen_ok body T /\
    f_n1 A = g_n1 a /\
    second_side_exact (na_of a) A (n_second a).
Proof.
  intros a d text G C Tw H. unfold instance_text in H. unfold na_of, n_second.
  destruct (Z.eqb_spec (g_mp a) 4) as [E4|N4].
  - destruct (spa_text_shape a d text G C E4 H) as
      (plec & lqs & uqs & llqs & ltgs & luqs & h & T & body & rest &
       Eplec & Elq & Euq & Ellq & Eltg & Eluq & EA & ET & GB).
    destruct (spa_ast_wf a d plec lqs uqs llqs ltgs luqs G C E4 Eplec Elq Euq Ellq Eltg Eluq) as [W _].
    rewrite Tw in W.
    exists (spa_ast a d lqs uqs plec llqs ltgs luqs), h, T, body, rest.
    split; [exact W|]. split; [exact EA|]. split; [exact ET|]. split; [exact GB|].
    split; [reflexivity|].
    now apply (spa_second_exact a d plec lqs uqs llqs ltgs luqs).
  - destruct (hr_text_shape a d text G C N4 H) as
      (lqs & uqs & h & T & body & rest & Elq & Euq & EA & ET & GB).
    destruct (hr_ast_wf a d lqs uqs G C N4 Elq Euq) as [W _]. rewrite Tw in W.
    exists (hr_ast a d lqs uqs), h, T, body, rest.
    split; [exact W|]. split; [exact EA|]. split; [exact ET|]. split; [exact GB|].
    split; [reflexivity|].
    now apply hr_second_exact.
Qed.

(* concrete sanity checks of the exactness predicate on the abstract files of two small generated instances
   (hr two-sided with a tie; spa two-sided where student 1 lists two projects of different lecturers) *)
Example ex_hr_exact :
  let a := mkGargs 3 1 true 2 2 0 1 2 "0.5" "0.5" "0.0" 0 2 0 0 "" 0 in
  let d := mkDraws [[1;2];[2]] [[true;false];[false]] [[1];[2;1]] [[false];[true;true]] in
  let A := hr_ast a d [0;0] [1;1] in
  map (fun k => map (fun s => (count_occ Z.eq_dec (concat (second_list_of 2 A k)) s, finds_acceptable 2 A k s))
                    [1;2]) [1;2]
  = [[(1%nat, true); (0%nat, false)]; [(1%nat, true); (1%nat, true)]].
Proof. vm_compute. reflexivity. Qed.

Print Assumptions generated_file_second_side.
