(* The central optimality proof (C02, C03, C04): a run of the solver with a correct MILP back end reports
   Optimal exactly when a feasible matching exists, and then the printed matching is lexicographically
   optimal for the requested criteria, in order. *)
From MP Require Import LP.Canon Proofs.LPSound Proofs.CanonProofs Proofs.RunProofs Proofs.RunStructure
                       Proofs.SessionProofs Proofs.TiesProofs.
From Coq Require Import Lia ZArith Bool List.
Import ListNotations.
Local Open Scope list_scope. Open Scope Z_scope.

Definition binary_ab (v : assignment) : Prop :=   (* same definition as in StabProofs.v *)
  forall s p, (v (Alpha s p) = 0 \/ v (Alpha s p) = 1) /\ (v (Beta s p) = 0 \/ v (Beta s p) = 1).

(* the criteria all have at least one stage *)
Definition stages_nonempty (M : instance) (o : opts) : Prop := forall c, In c (o_crits o) -> expand M c <> [].

(* ---- generic list helpers ------------------------------------------------------------------ *)

Lemma NoDup_app_intro {A} (a b : list A) :
  NoDup a -> NoDup b -> (forall x, In x a -> ~ In x b) -> NoDup (a ++ b).
Proof.
  induction a as [|x a IH]; intros Ha Hb Hd; [exact Hb|].
  cbn [app]. inversion Ha as [|y l Hx Ha']; subst. constructor.
  - intro Hin. apply in_app_or in Hin. destruct Hin as [Hin|Hin]; [now apply Hx|].
    apply (Hd x); [left; reflexivity|exact Hin].
  - apply IH; [exact Ha'|exact Hb|]. intros z Hz. apply Hd. right. exact Hz.
Qed.

Lemma NoDup_app_l {A} (a b : list A) : NoDup (a ++ b) -> NoDup a.
Proof.
  induction a as [|x a IH]; intro H; [constructor|].
  cbn [app] in H. inversion H as [|y l Hx H']; subst. constructor.
  - intro Hin. apply Hx. apply in_or_app. left. exact Hin.
  - apply IH. exact H'.
Qed.

Lemma NoDup_map_inj_in {A B} (f : A -> B) (l : list A) :
  (forall x y, In x l -> In y l -> f x = f y -> x = y) -> NoDup l -> NoDup (map f l).
Proof.
  induction l as [|x l IH]; intros Hinj Hnd; [constructor|].
  inversion Hnd as [|y l' Hx Hnd']; subst. cbn [map]. constructor.
  - intro Hin. apply in_map_iff in Hin. destruct Hin as [y [Hy Hin]].
    assert (y = x) by (apply Hinj; [right; exact Hin|left; reflexivity|exact Hy]). subst y. now apply Hx.
  - apply IH; [|exact Hnd']. intros a b Ha Hb. apply Hinj; right; assumption.
Qed.

Lemma NoDup_seqZ : forall n a, NoDup (seqZ a n).
Proof.
  induction n as [|n IH]; intro a; cbn [seqZ]; constructor.
  - intro H. apply in_seqZ in H. lia.
  - apply IH.
Qed.

Lemma has_dup_false : forall l, NoDup l -> has_dup l = false.
Proof.
  induction l as [|x l IH]; intro H; [reflexivity|].
  inversion H as [|y l' Hx H']; subst. cbn [has_dup]. rewrite (IH H'). rewrite orb_false_r.
  destruct (existsb (String.eqb x) l) eqn:E; [|reflexivity].
  apply existsb_exists in E. destruct E as [y [Hy E]]. apply String.eqb_eq in E. subst y. contradiction.
Qed.

(* ---- names of the objective variables are pairwise distinct ----------------------------- *)

Definition prim_crit (p : prim) : crit :=
  match p with
  | PSize true => MaxSize | PSize false => MinSize
  | PRank false _ => Generous | PRank true _ => Greedy
  | PCost _ _ => MinCost | PSqCost _ _ => MinSqCost
  | PLmb => LoadMaxBal | PLsb => LoadSumBal | PCostLsb _ _ => MinCostLsb
  end.

Lemma expand_crit : forall M c p, In p (expand M c) -> prim_crit p = fst c.
Proof.
  intros M [cr args] p H. unfold expand in H. cbn [fst snd] in *.
  destruct cr; cbv zeta in H;
    try (destruct H as [<-|[]]; reflexivity);
    apply in_map_iff in H; destruct H as [r [<- _]]; reflexivity.
Qed.

Lemma name_crit : forall p q, prim_name p = prim_name q -> prim_crit p = prim_crit q.
Proof.
  intros p q H.
  destruct p as [[]|[] r|y z|y z| | |y z]; destruct q as [[]|[] r'|y' z'|y' z'| | |y' z'];
    cbn [prim_crit]; try reflexivity; exfalso; cbn [prim_name String.append] in H; discriminate H.
Qed.

Lemma str_of_Z_inj : forall a b, str_of_Z a = str_of_Z b -> a = b.
Proof.
  intros a b H. pose proof (int_of_str_of_Z a) as Ha. rewrite H, int_of_str_of_Z in Ha. congruence.
Qed.

Lemma append_inj_l : forall (a b c : string), (a +++ b = a +++ c)%string -> b = c.
Proof. induction a as [|ch a IH]; intros b c H; cbn [String.append] in H; [exact H|]. injection H as H. now apply IH. Qed.

Lemma expand_names_nodup : forall M c, NoDup (map prim_name (expand M c)).
Proof.
  intros M [cr args]. unfold expand. cbn [fst snd].
  destruct cr; cbv zeta; try (cbn [map]; constructor; [intros []|constructor]).
  - rewrite map_map. apply NoDup_map_inj_in.
    + intros x y _ _ H. cbn [prim_name] in H. apply append_inj_l in H. now apply str_of_Z_inj.
    + apply NoDup_rev. apply NoDup_seqZ.
  - rewrite map_map. apply NoDup_map_inj_in.
    + intros x y _ _ H. cbn [prim_name] in H. apply append_inj_l in H. now apply str_of_Z_inj.
    + apply NoDup_seqZ.
Qed.

Lemma crit_eqb_refl : forall c, crit_eqb c c = true.
Proof. destruct c; reflexivity. Qed.

Lemma all_names_nodup : forall M cs, distinct_crits cs = true ->
  NoDup (map prim_name (flat_map (expand M) cs)).
Proof.
  intros M cs. induction cs as [|c t IH]; intro H; [constructor|].
  cbn [distinct_crits] in H. apply andb_true_iff in H. destruct H as [Hc Ht].
  cbn [flat_map]. rewrite map_app. apply NoDup_app_intro.
  - apply expand_names_nodup.
  - apply IH. exact Ht.
  - intros x Hx Hx'. apply in_map_iff in Hx. destruct Hx as [p [Hp Hpin]].
    apply in_map_iff in Hx'. destruct Hx' as [q [Hq Hqin]].
    apply in_flat_map in Hqin. destruct Hqin as [d [Hd Hqin]].
    apply expand_crit in Hpin. apply expand_crit in Hqin.
    assert (E : prim_crit p = prim_crit q) by (apply name_crit; congruence).
    apply negb_true_iff in Hc.
    assert (Hex : existsb (fun d => crit_eqb (fst d) (fst c)) t = true).
    { apply existsb_exists. exists d. split; [exact Hd|]. rewrite <- Hqin, <- Hpin, E. apply crit_eqb_refl. }
    congruence.
Qed.

Definition objs_of (M : instance) (ps : list prim) : list objinfo :=
  map (fun p => mkObj (prim_ub M p) (prim_name p)) ps.

Lemma names_ok_objs_of : forall M ps, NoDup (map prim_name ps) -> names_ok (objs_of M ps) = true.
Proof.
  intros M ps H. unfold names_ok, objs_of.
  assert (E : map oi_name (map (fun p => mkObj (prim_ub M p) (prim_name p)) ps) = map prim_name ps)
    by (rewrite map_map; reflexivity).
  rewrite E, (has_dup_false _ H). reflexivity.
Qed.

(* ---- bounds and assignments -------------------------------------------------------------- *)

Lemma in_bounds_prefix : forall M a b v, in_bounds M (a ++ b) v -> in_bounds M a v.
Proof.
  intros M a b v H x Hx. specialize (H x).
  destruct x as [s p|s p|s p|j|k|n]; try exact (H Hx).
  cbn [var_exists] in Hx. apply Nat.ltb_lt in Hx.
  cbn [var_exists model_bounds fst snd] in *. rewrite nth_error_app1 in H by exact Hx.
  apply H. apply Nat.ltb_lt. rewrite app_length. lia.
Qed.

Lemma in_bounds_binary_ab : forall M objs v, in_bounds M objs v -> binary_ab v.
Proof.
  intros M objs v H s p. split.
  - specialize (H (Alpha s p) eq_refl). cbn in H. lia.
  - specialize (H (Beta s p) eq_refl). cbn in H. lia.
Qed.

Lemma all_sat_app_r : forall v a b, all_sat v (a ++ b) -> all_sat v b.
Proof. intros v a b H. apply all_sat_app in H. tauto. Qed.

Lemma NoDup_map_app_l {A B} (f : A -> B) (a b : list A) : NoDup (map f (a ++ b)) -> NoDup (map f a).
Proof. rewrite map_app. apply NoDup_app_l. Qed.

(* ---- lexicographic optimality as a chain of refinements ---------------------------------- *)

Definition Refines (F : matching -> Prop) (obs : list objective) (G : matching -> Prop) : Prop :=
  forall rest m, LexOpt G rest m -> LexOpt F (obs ++ rest) m.

Lemma LexOpt_in : forall obs (F : matching -> Prop) m, LexOpt F obs m -> F m.
Proof. intros [|ob rest] F m H; cbn [LexOpt] in H; tauto. Qed.

Lemma Refines_refl : forall (F : matching -> Prop), Refines F [] F.
Proof. intros F rest m H. exact H. Qed.

Lemma Refines_trans : forall (F G H : matching -> Prop) o1 o2, Refines F o1 G -> Refines G o2 H -> Refines F (o1 ++ o2) H.
Proof. intros F G H o1 o2 A B rest m Hm. rewrite <- app_assoc. apply A. apply B. exact Hm. Qed.

Lemma Refines_step : forall (F : matching -> Prop) ob a, (forall m', F m' -> as_good ob a (ob_meas ob m') = true) ->
  Refines F [ob] (fun m => F m /\ ob_meas ob m = a).
Proof.
  intros F ob a Hopt rest m Hm. cbn [app LexOpt].
  destruct (LexOpt_in _ _ _ Hm) as [Hf Ha]. split; [exact Hf|]. split.
  - intros m' Hm'. rewrite Ha. now apply Hopt.
  - rewrite Ha. exact Hm.
Qed.

(* ============================================================================================ *)

Section StageInvariant.
  Variables (M : instance) (o : opts) (base : list constr).
  Hypothesis Hwf : wf M = true.
  Hypothesis Hadm : admissible M o = true.
  Hypothesis Hbase : base_constrs M o = Ok base.
  (* soundness of the base constraints: any in-bounds point satisfying them denotes a feasible matching *)
  Hypothesis base_sound : forall v, binary v -> binary_ab v -> all_sat v base ->
                          Feas (o_pc o) (o_stab o) M (matching_of M v).
  (* completeness: a feasible matching's canonical assignment satisfies them and has 0/1 alpha, beta *)
  Hypothesis base_complete : forall prims m, Feas (o_pc o) (o_stab o) M m ->
                             all_sat (canon M prims m) base /\ binary_ab (canon M prims m).

  Local Notation FeasM := (Feas (o_pc o) (o_stab o) M).
  Local Notation spec := (prim_objective_spec M).

  Lemma base_upper_lower : forall v, all_sat v base -> all_sat v (upper_lower (o_pc o) M).
  Proof.
    intros v H. destruct (base_has_upper_lower M o base Hbase) as [rest E]. rewrite E in H.
    now apply all_sat_app_l in H.
  Qed.

  Lemma base_loadbal : forall v, needs_loadbal o = true -> all_sat v base -> lb_ok M v.
  Proof.
    intros v Hn H. pose proof Hbase as Hb. unfold base_constrs in Hb.
    destruct (if o_stab o then stability_constrs M else Ok []) as [sc|e]; [|discriminate].
    cbn [bind] in Hb. injection Hb as <-. rewrite Hn in H.
    apply all_sat_app_r in H. apply all_sat_app_r in H. exact H.
  Qed.

  Lemma prim_needs_loadbal : forall p, In p (all_prims M o) ->
    match p with PLmb | PLsb | PCostLsb _ _ => needs_loadbal o = true | _ => True end.
  Proof.
    intros p Hp. unfold all_prims in Hp. apply in_flat_map in Hp. destruct Hp as [c [Hc Hp]].
    apply expand_crit in Hp.
    destruct p as [mx|g r|y z|y z| | |y z]; try exact I;
      unfold needs_loadbal; apply existsb_exists; exists c; (split; [exact Hc|]);
      rewrite <- Hp; reflexivity.
  Qed.

  (* what the tying constraints of a stage say about any point of the base constraints *)
  Lemma tie_sound : forall v n p, In p (all_prims M o) -> binary v -> all_sat v base ->
    all_sat v (prim_tie M n p) ->
    if is_max p then v (Obj n) = prim_meas M p (matching_of M v)
    else prim_meas M p (matching_of M v) <= v (Obj n).
  Proof.
    intros v n p Hp Hb Hbs Ht.
    pose proof (base_upper_lower v Hbs) as Hul.
    pose proof (tie_sound_eq M (o_pc o) v n p Hwf Hb Hul Ht) as He.
    pose proof (prim_needs_loadbal p Hp) as Hl.
    pose proof (all_prims_nonneg M o p Hadm Hp) as Hz.
    destruct p as [mx|g r|y z|y z| | |y z]; cbn [is_max].
    - destruct mx; lia.
    - destruct g; lia.
    - lia.
    - lia.
    - apply (tie_sound_ge M (o_pc o) v n PLmb Hwf Hb Hul (base_loadbal v Hl Hbs) Ht).
    - apply (tie_sound_ge M (o_pc o) v n PLsb Hwf Hb Hul (base_loadbal v Hl Hbs) Ht).
    - apply (tie_sound_ge M (o_pc o) v n (PCostLsb y z) Hwf Hb Hul (base_loadbal v Hl Hbs) Ht). tauto.
  Qed.

  (* the canonical assignment of a feasible matching respects every variable bound *)
  Lemma canon_in_bounds : forall prims m, FeasM m -> (forall p, In p prims -> In p (all_prims M o)) ->
    in_bounds M (objs_of M prims) (canon M prims m).
  Proof.
    intros prims m Hm Hps x Hx.
    pose proof Hm as [Hv _].
    destruct (canon_binary M prims m) as [Hbx Hbc].
    destruct (base_complete prims m Hm) as [_ Hab].
    destruct x as [s p|s p|s p|j|k|n]; cbn [model_bounds fst snd].
    - specialize (Hbx s p). lia.
    - destruct (Hab s p) as [H _]. lia.
    - destruct (Hab s p) as [_ H]. lia.
    - specialize (Hbc j). lia.
    - cbn [var_exists] in Hx. apply andb_true_iff in Hx. destruct Hx as [H1 H2].
      apply Z.leb_le in H1. apply Z.leb_le in H2.
      rewrite canon_AbsDiff. apply (absdiff_bounds M (o_pc o) m k Hwf Hv).
      unfold lec_ids. apply in_seqZ. lia.
    - cbn [var_exists] in Hx. apply Nat.ltb_lt in Hx. unfold objs_of in Hx. rewrite map_length in Hx.
      destruct (nth_error prims n) as [p|] eqn:En.
      2:{ apply nth_error_None in En. lia. }
      unfold objs_of. rewrite (map_nth_error _ _ _ En). cbn [oi_ub].
      rewrite (canon_Obj M prims m n p En).
      apply (meas_bounds M (o_pc o) o m p Hwf Hadm Hv). apply Hps. apply (nth_error_In _ _ En).
  Qed.

  (* ---- the stage invariant ---------------------------------------------------------------- *)

  Record J (s : rstate) (ps : list prim) (F : matching -> Prop) : Prop := mkJ {
    J_objs : r_objs s = objs_of M ps;
    J_prims : forall p, In p ps -> In p (all_prims M o);
    J_base : exists extra, r_cs s = base ++ extra;
    J_sound : forall v, in_bounds M (r_objs s) v -> all_sat v (r_cs s) -> F (matching_of M v);
    J_compl : forall m prims', F m -> (exists rest, prims' = ps ++ rest) ->
              all_sat (canon M prims' m) (r_cs s);
    J_sub : forall m, F m -> FeasM m;
    J_ne : (exists m, FeasM m) -> exists m, F m;
    J_status : (r_nsolves s = 0%nat /\ r_status s = NotSolved) \/
               (r_nsolves s <> 0%nat /\ r_status s = Optimal /\ F (matching_of M (val_fun (r_vals s)))) }.

  Definition Bad (s : rstate) : Prop :=
    (~ exists m, FeasM m) /\ r_status s = Infeasible /\ r_nsolves s <> 0%nat.

  Lemma J_init : forall info, J (mkRS base [] info NotSolved [] [] 0) [] (fun m => FeasM m).
  Proof.
    intro info. constructor; cbn [r_objs r_cs r_nsolves r_status r_vals].
    - reflexivity.
    - intros p [].
    - exists []. now rewrite app_nil_r.
    - intros v Hb Hs. apply base_sound; [exact (in_bounds_binary M [] v Hb)|exact (in_bounds_binary_ab M [] v Hb)|exact Hs].
    - intros m prims' Hm _. apply (base_complete prims' m Hm).
    - intros m Hm. exact Hm.
    - intros H. exact H.
    - left. split; reflexivity.
  Qed.

  Lemma J_add_info : forall s ps F line, J s ps F -> J (add_info s line) ps F.
  Proof. intros s ps F line [H1 H2 H3 H4 H5 H6 H7 H8]. constructor; assumption. Qed.

  (* ---- one primitive stage ------------------------------------------------------------------ *)

  Lemma perform_J : forall solve s ps F p, milp_ok M solve -> J s ps F -> In p (all_prims M o) ->
    NoDup (map prim_name (ps ++ [p])) ->
    exists s', perform M solve s p = Ok s' /\ r_nsolves s' = S (r_nsolves s) /\
      ((exists G, J s' (ps ++ [p]) G /\ Refines F [spec p] G /\ r_status s' = Optimal) \/ Bad s').
  Proof.
    intros solve s ps F p Hok HJ Hp Hnd.
    destruct HJ as [Hobjs Hprims [extra Hcs] Hsound Hcompl Hsub Hne Hstat].
    assert (Hlen : length (r_objs s) = length ps) by (rewrite Hobjs; apply map_length).
    assert (Hobjs' : r_objs s ++ [mkObj (prim_ub M p) (prim_name p)] = objs_of M (ps ++ [p])).
    { rewrite Hobjs. unfold objs_of. rewrite map_app. reflexivity. }
    unfold perform. cbv zeta. rewrite Hobjs'. rewrite (names_ok_objs_of M _ Hnd). cbn [negb].
    rewrite Hlen. set (n := length ps).
    set (P := mkProb (r_cs s ++ prim_tie M n p) (prim_objective n p) (objs_of M (ps ++ [p]))).
    set (a := solve (r_nsolves s) P).
    eexists. split; [reflexivity|]. split; [reflexivity|].
    cbn [r_status r_nsolves].
    assert (Hnth : nth_error (ps ++ [p]) n = Some p) by apply nth_error_snoc_eq.
    assert (Hprims' : forall q, In q (ps ++ [p]) -> In q (all_prims M o)).
    { intros q Hq. apply in_app_or in Hq. destruct Hq as [Hq|[<-|[]]]; [now apply Hprims|exact Hp]. }
    assert (Hcan : forall m, F m -> feasible M P (canon M (ps ++ [p]) m)).
    { intros m Hm. split; unfold P; cbn [pb_cs pb_objs].
      - apply all_sat_app_intro.
        + apply Hcompl; [exact Hm|exists [p]; reflexivity].
        + apply (canon_tie M (o_pc o)); [exact Hwf|exact (proj1 (Hsub m Hm))|exact Hnth].
      - apply canon_in_bounds; [now apply Hsub|exact Hprims']. }
    destruct (Hok (r_nsolves s) P) as [Hopt [Hinf [_ Hdec]]]. cbv zeta in Hopt, Hinf, Hdec.
    fold a in Hopt, Hinf, Hdec.
    destruct Hdec as [Hst|Hst].
    - left. destruct (Hopt Hst) as [[Hsat Hbd] Hbest]. unfold P in Hsat, Hbd. cbn [pb_cs pb_objs] in Hsat, Hbd.
      set (vs := val_fun (a_vals a)) in *.
      apply all_sat_app in Hsat. destruct Hsat as [Hsat_cs Hsat_tie].
      assert (Hbd0 : in_bounds M (r_objs s) vs).
      { rewrite Hobjs. unfold objs_of in Hbd. rewrite map_app in Hbd. apply in_bounds_prefix in Hbd. exact Hbd. }
      set (ms := matching_of M vs).
      assert (HFs : F ms) by (apply Hsound; assumption).
      assert (Hbase_s : all_sat vs base).
      { rewrite Hcs in Hsat_cs. now apply all_sat_app_l in Hsat_cs. }
      pose proof (tie_sound vs n p Hp (in_bounds_binary M _ vs Hbd0) Hbase_s Hsat_tie) as Htie.
      fold ms in Htie.
      set (av := vs (Obj n)) in *.
      assert (Hfrozen : match lookup (a_vals a) (Obj n) with Some v => v | None => 0 end = av) by reflexivity.
      rewrite Hfrozen.
      assert (Hbest' : forall m, F m -> if is_max p then prim_meas M p m <= av else av <= prim_meas M p m).
      { intros m Hm. pose proof (Hbest _ (Hcan m Hm)) as Hb. unfold P in Hb.
        rewrite !objective_value_prim in Hb. rewrite (canon_Obj M _ m n p Hnth) in Hb. fold av in Hb.
        destruct (is_max p); lia. }
      assert (Hav : prim_meas M p ms = av).
      { pose proof (Hbest' ms HFs) as Hb. destruct (is_max p); lia. }
      exists (fun m => F m /\ prim_meas M p m = av). split; [|split].
      + constructor; cbn [r_cs r_objs r_nsolves r_status r_vals].
        * reflexivity.
        * exact Hprims'.
        * exists (extra ++ prim_tie M n p ++ [prim_freeze n p av]). rewrite Hcs, <- !app_assoc. reflexivity.
        * intros v Hv Hsatv.
          apply all_sat_app in Hsatv. destruct Hsatv as [Hsv Hfr].
          apply all_sat_app in Hsv. destruct Hsv as [Hsv Htv].
          assert (Hv0 : in_bounds M (r_objs s) v).
          { rewrite Hobjs. unfold objs_of in Hv. rewrite map_app in Hv. apply in_bounds_prefix in Hv. exact Hv. }
          assert (HFv : F (matching_of M v)) by (apply Hsound; assumption).
          split; [exact HFv|].
          assert (Hbase_v : all_sat v base).
          { rewrite Hcs in Hsv. now apply all_sat_app_l in Hsv. }
          pose proof (tie_sound v n p Hp (in_bounds_binary M _ v Hv0) Hbase_v Htv) as Htie_v.
          pose proof (Hbest' _ HFv) as Hb.
          apply all_sat_single in Hfr. unfold prim_freeze in Hfr.
          destruct (is_max p).
          -- apply sat_GE in Hfr. rewrite eval_single in Hfr. lia.
          -- apply sat_LE in Hfr. rewrite eval_single in Hfr. lia.
        * intros m prims' [HFm Hmeas] [rest ->].
          assert (Hnth' : nth_error ((ps ++ [p]) ++ rest) n = Some p).
          { rewrite nth_error_app1; [exact Hnth|]. rewrite app_length. cbn [length]. unfold n. lia. }
          apply all_sat_app_intro; [apply all_sat_app_intro|].
          -- apply Hcompl; [exact HFm|]. exists ([p] ++ rest). now rewrite app_assoc.
          -- apply (canon_tie M (o_pc o)); [exact Hwf|exact (proj1 (Hsub m HFm))|exact Hnth'].
          -- apply all_sat_single. unfold prim_freeze.
             destruct (is_max p).
             ++ apply sat_GE. rewrite eval_single, (canon_Obj M _ m n p Hnth'). lia.
             ++ apply sat_LE. rewrite eval_single, (canon_Obj M _ m n p Hnth'). lia.
        * intros m [HFm _]. now apply Hsub.
        * intros _. exists ms. split; assumption.
        * right. split; [discriminate|]. split; [exact Hst|]. split; assumption.
      + apply (Refines_step F (spec p) av). intros m' Hm'. pose proof (Hbest' m' Hm') as Hb.
        unfold as_good, prim_objective_spec. cbn [ob_max ob_meas].
        destruct (is_max p); apply Z.leb_le; exact Hb.
      + exact Hst.
    - right. split; [|split].
      + intros Hex. destruct (Hne Hex) as [m' Hm']. apply (Hinf Hst _ (Hcan m' Hm')).
      + exact Hst.
      + discriminate.
  Qed.

  (* ---- the stages of one criterion ---------------------------------------------------------- *)

  Lemma status_eqb_Optimal : forall st, status_eqb st Optimal = true <-> st = Optimal.
  Proof. intros []; cbn; split; intro H; (reflexivity || discriminate). Qed.

  Lemma perform_all_J : forall todo solve s ps F, milp_ok M solve -> J s ps F ->
    (forall p, In p todo -> In p (all_prims M o)) ->
    NoDup (map prim_name (ps ++ todo)) ->
    exists s', perform_all M solve s todo = Ok s' /\
      (r_nsolves s <= r_nsolves s')%nat /\ (todo <> [] -> r_nsolves s' <> 0%nat) /\ (todo = [] -> s' = s) /\
      ((exists G, J s' (ps ++ todo) G /\ Refines F (map spec todo) G) \/ Bad s').
  Proof.
    induction todo as [|p t IH]; intros solve s ps F Hok HJ Hin Hnd.
    - exists s. cbn [perform_all]. split; [reflexivity|]. split; [lia|]. split; [intro H; now exfalso|].
      split; [reflexivity|]. left. exists F. rewrite app_nil_r. split; [exact HJ|apply Refines_refl].
    - cbn [perform_all].
      assert (Hnd1 : NoDup (map prim_name (ps ++ [p]))).
      { apply (NoDup_map_app_l prim_name (ps ++ [p]) t). rewrite <- app_assoc. exact Hnd. }
      destruct (perform_J solve s ps F p Hok HJ (Hin p (or_introl eq_refl)) Hnd1)
        as [s1 [E1 [Hn1 Hres]]].
      rewrite E1. cbn [bind].
      destruct Hres as [[G [HJ1 [Href1 Hst1]]]|Hbad].
      + rewrite (proj2 (status_eqb_Optimal _) Hst1).
        assert (Hnd2 : NoDup (map prim_name ((ps ++ [p]) ++ t))) by (rewrite <- app_assoc; exact Hnd).
        destruct (IH solve s1 (ps ++ [p]) G Hok HJ1 (fun q Hq => Hin q (or_intror Hq)) Hnd2)
          as [s' [E' [Hle [_ [_ Hres']]]]].
        exists s'. split; [exact E'|]. split; [lia|]. split; [intros _; lia|]. split; [discriminate|].
        destruct Hres' as [[G' [HJ' Href']]|Hbad'].
        * left. exists G'. rewrite <- app_assoc in HJ'. split; [exact HJ'|].
          cbn [map]. apply (Refines_trans F G G' [spec p] (map spec t) Href1 Href').
        * right. exact Hbad'.
      + destruct Hbad as [Hno [Hst Hnz]].
        assert (Es : status_eqb (r_status s1) Optimal = false) by (rewrite Hst; reflexivity).
        rewrite Es. exists s1. split; [reflexivity|]. split; [lia|]. split; [intros _; exact Hnz|].
        split; [discriminate|]. right. split; [exact Hno|]. split; [exact Hst|exact Hnz].
  Qed.

  (* ---- the criteria in order -------------------------------------------------------------- *)

  Lemma run_crits_J : forall cs solve s ps F, milp_ok M solve -> J s ps F ->
    (forall c, In c cs -> In c (o_crits o)) ->
    NoDup (map prim_name (ps ++ flat_map (expand M) cs)) ->
    exists s', run_crits M solve s cs = Ok s' /\
      ((exists G, J s' (ps ++ flat_map (expand M) cs) G /\
                  Refines F (map spec (flat_map (expand M) cs)) G) \/ Bad s').
  Proof.
    induction cs as [|c t IH]; intros solve s ps F Hok HJ Hin Hnd.
    - exists s. cbn [run_crits]. split; [reflexivity|]. left. exists F. cbn [flat_map map]. rewrite app_nil_r.
      split; [exact HJ|apply Refines_refl].
    - cbn [run_crits]. cbn [flat_map] in Hnd.
      assert (Hin1 : forall p, In p (expand M c) -> In p (all_prims M o)).
      { intros p Hp. unfold all_prims. apply in_flat_map. exists c. split; [apply Hin; left; reflexivity|exact Hp]. }
      assert (Hnd1 : NoDup (map prim_name (ps ++ expand M c))).
      { apply (NoDup_map_app_l prim_name (ps ++ expand M c) (flat_map (expand M) t)).
        rewrite <- app_assoc. exact Hnd. }
      destruct (perform_all_J (expand M c) solve (add_info s (crit_info M c)) ps F Hok
                  (J_add_info s ps F _ HJ) Hin1 Hnd1) as [s1 [E1 [Hle [_ [_ Hres]]]]].
      cbn [add_info r_nsolves] in Hle.
      rewrite E1. cbn [bind].
      destruct Hres as [[G [HJ1 Href1]]|Hbad].
      + (* the criterion left status Optimal, or it had no stage and nothing has been solved yet:
           in both cases the loop continues *)
        assert (Econt : status_eqb (r_status s1) Optimal || Nat.eqb (r_nsolves s1) (r_nsolves s) = true).
        { destruct (J_status _ _ _ HJ1) as [[Hz Hst]|[Hnz1 [Hst HG]]].
          - apply orb_true_iff. right. apply Nat.eqb_eq. lia.
          - apply orb_true_iff. left. now apply status_eqb_Optimal. }
        rewrite Econt.
        assert (Hnd2 : NoDup (map prim_name ((ps ++ expand M c) ++ flat_map (expand M) t)))
          by (rewrite <- app_assoc; exact Hnd).
        destruct (IH solve s1 (ps ++ expand M c) G Hok HJ1 (fun d Hd => Hin d (or_intror Hd)) Hnd2)
          as [s' [E' Hres']].
        exists s'. split; [exact E'|].
        destruct Hres' as [[G' [HJ' Href']]|Hbad'].
        * left. exists G'. cbn [flat_map]. rewrite <- app_assoc in HJ'. split; [exact HJ'|].
          rewrite map_app. apply (Refines_trans F G G' _ _ Href1 Href').
        * right. exact Hbad'.
      + destruct Hbad as [Hno [Hst Hnz1]].
        assert (Es : status_eqb (r_status s1) Optimal = false) by (rewrite Hst; reflexivity).
        assert (En : Nat.eqb (r_nsolves s1) (r_nsolves s) = false).
        { apply Nat.eqb_neq. intro Heq.
          assert (Hs1 : s1 = add_info s (crit_info M c)).
          { apply (perform_all_nsolves_eq M solve (expand M c) _ _ E1). exact Heq. }
          rewrite Hs1 in Hst. cbn [add_info r_status] in Hst.
          destruct (J_status _ _ _ HJ) as [[_ Hs]|[_ [Hs _]]]; congruence. }
        rewrite Es, En. cbn [orb].
        exists s1. split; [reflexivity|]. right. split; [exact Hno|]. split; [exact Hst|exact Hnz1].
  Qed.

  (* ---- the plain solve when no stage was performed --------------------------------------------- *)

  Lemma plain_solve : forall solve k s ps F, milp_ok M solve -> J s ps F ->
    let a := solve k (mkProb (r_cs s) [] (r_objs s)) in
    ((exists m, FeasM m) -> a_status a = Optimal) /\
    ((~ exists m, FeasM m) -> a_status a = Infeasible) /\
    (a_status a = Optimal -> F (matching_of M (val_fun (a_vals a)))).
  Proof.
    intros solve k s ps F Hok HJ a.
    destruct (Hok k (mkProb (r_cs s) [] (r_objs s))) as [Hopt [_ [Hex Hdec]]]. cbv zeta in Hopt, Hex, Hdec.
    fold a in Hopt, Hex, Hdec.
    assert (H3 : a_status a = Optimal -> F (matching_of M (val_fun (a_vals a)))).
    { intro Hst. destruct (Hopt Hst) as [[Hsat Hbd] _]. cbn [pb_cs pb_objs] in Hsat, Hbd.
      apply (J_sound _ _ _ HJ); assumption. }
    split; [|split; [|exact H3]].
    - intro Hf. destruct (J_ne _ _ _ HJ Hf) as [m Hm]. apply Hex. exists (canon M ps m).
      split; cbn [pb_cs pb_objs].
      + apply (J_compl _ _ _ HJ); [exact Hm|]. exists []. now rewrite app_nil_r.
      + rewrite (J_objs _ _ _ HJ). apply canon_in_bounds; [exact (J_sub _ _ _ HJ m Hm)|exact (J_prims _ _ _ HJ)].
    - intro Hno. destruct Hdec as [Hst|Hst]; [|exact Hst].
      exfalso. apply Hno. exists (matching_of M (val_fun (a_vals a))). apply (J_sub _ _ _ HJ). now apply H3.
  Qed.

  (* ---- the whole run ---------------------------------------------------------------------- *)

  Lemma all_prims_nodup : NoDup (map prim_name (all_prims M o)).
  Proof.
    unfold all_prims. apply all_names_nodup.
    pose proof Hadm as Ha. unfold admissible in Ha.
    apply andb_true_iff in Ha. destruct Ha as [Ha _]. apply andb_true_iff in Ha. tauto.
  Qed.

  Lemma run_J : forall solve, milp_ok M solve ->
    exists s1, run_crits M solve (mkRS base [] (base_info o) NotSolved [] [] 0) (o_crits o) = Ok s1 /\
      ((exists G, J s1 (all_prims M o) G /\ Refines (fun m => FeasM m) (map spec (all_prims M o)) G) \/ Bad s1).
  Proof.
    intros solve Hok.
    destruct (run_crits_J (o_crits o) solve _ [] (fun m => FeasM m) Hok (J_init (base_info o))
                (fun c Hc => Hc) all_prims_nodup) as [s1 [E Hres]].
    exists s1. split; [exact E|]. exact Hres.
  Qed.

  (* C02 *)
  Theorem run_no_crash : forall solve, milp_ok M solve -> exists out, run M o solve = Ok out.
  Proof.
    intros solve Hok. destruct (run_J solve Hok) as [s1 [E _]].
    unfold run. rewrite Hbase. cbn [bind]. rewrite E. cbn [bind].
    destruct (Nat.eqb (r_nsolves s1) 0); eexists; reflexivity.
  Qed.

  Theorem run_status : forall solve out, milp_ok M solve -> run M o solve = Ok out ->
    ((exists m, FeasM m) -> out_status out = Optimal) /\
    ((~ exists m, FeasM m) -> out_status out = Infeasible).
  Proof.
    intros solve out Hok Hrun. destruct (run_J solve Hok) as [s1 [E Hres]].
    unfold run in Hrun. rewrite Hbase in Hrun. cbn [bind] in Hrun. rewrite E in Hrun. cbn [bind] in Hrun.
    destruct (Nat.eqb (r_nsolves s1) 0) eqn:En; injection Hrun as <-; cbn [out_status].
    - apply Nat.eqb_eq in En. destruct Hres as [[G [HJ _]]|[_ [_ Hnz]]]; [|contradiction].
      destruct (plain_solve solve 0%nat s1 _ G Hok HJ) as [H1 [H2 _]]. split; assumption.
    - apply Nat.eqb_neq in En. destruct Hres as [[G [HJ _]]|[Hno [Hst _]]].
      + destruct (J_status _ _ _ HJ) as [[Hz _]|[_ [Hst HG]]]; [contradiction|].
        split; [intros _; exact Hst|]. intro Hno. exfalso. apply Hno. eexists. apply (J_sub _ _ _ HJ _ HG).
      + split; [intro Hf; contradiction|intros _; exact Hst].
  Qed.

  (* C03 / C04 *)
  Theorem run_lex_optimal : forall solve out, milp_ok M solve ->
    run M o solve = Ok out -> out_status out = Optimal ->
    LexOpt (Feas (o_pc o) (o_stab o) M) (map (prim_objective_spec M) (all_prims M o))
           (matching_of M (val_fun (out_vals out))).
  Proof.
    intros solve out Hok Hrun Hopt. destruct (run_J solve Hok) as [s1 [E Hres]].
    unfold run in Hrun. rewrite Hbase in Hrun. cbn [bind] in Hrun. rewrite E in Hrun. cbn [bind] in Hrun.
    assert (Hfin : forall (G : matching -> Prop), Refines (fun m => FeasM m) (map spec (all_prims M o)) G ->
                   G (matching_of M (val_fun (out_vals out))) ->
                   LexOpt (Feas (o_pc o) (o_stab o) M) (map spec (all_prims M o))
                          (matching_of M (val_fun (out_vals out)))).
    { intros G Href HG. specialize (Href [] _ HG). rewrite app_nil_r in Href. exact Href. }
    destruct (Nat.eqb (r_nsolves s1) 0) eqn:En; injection Hrun as <-; cbn [out_status out_vals] in *.
    - apply Nat.eqb_eq in En. destruct Hres as [[G [HJ Href]]|[_ [_ Hnz]]]; [|contradiction].
      destruct (plain_solve solve 0%nat s1 _ G Hok HJ) as [_ [_ H3]].
      apply (Hfin G Href). now apply H3.
    - apply Nat.eqb_neq in En. destruct Hres as [[G [HJ Href]]|[_ [Hst _]]]; [|congruence].
      destruct (J_status _ _ _ HJ) as [[Hz _]|[_ [_ HG]]]; [contradiction|].
      apply (Hfin G Href HG).
  Qed.

End StageInvariant.

(* ---- the criteria of an admissible option set all have a stage ------------------------------ *)

(* (admissible_stages_nonempty removed: 'admissible' no longer restricts generous / greedy cut-offs, and the
   optimality theorems no longer need every criterion to have a stage) *)

(* ---- without -stab the two hypotheses on the base constraints are theorems -------------------- *)

Lemma canon_binary_ab : forall M prims m, binary_ab (canon M prims m).
Proof.
  intros M prims m s p. cbn [canon]. unfold alpha_val, beta_val.
  destruct (lec_of_pair M s p) as [q|]; [|split; left; reflexivity].
  split.
  - destruct (_ <=? _); [right|left]; reflexivity.
  - destruct (_ <=? _); [right|left]; reflexivity.
Qed.

Lemma base_sound_nostab : forall M o base, wf M = true -> o_stab o = false -> base_constrs M o = Ok base ->
  forall v, binary v -> binary_ab v -> all_sat v base -> Feas (o_pc o) (o_stab o) M (matching_of M v).
Proof.
  intros M o base Hwf Hs Hb v Hbin _ Hsat. rewrite Hs. split; [|discriminate].
  destruct (base_has_upper_lower M o base Hb) as [rest E]. rewrite E in Hsat.
  apply lp_sound; [exact Hwf|exact Hbin|]. now apply all_sat_app_l in Hsat.
Qed.

Lemma base_complete_nostab : forall M o base, wf M = true -> o_stab o = false -> base_constrs M o = Ok base ->
  forall prims m, Feas (o_pc o) (o_stab o) M m ->
  all_sat (canon M prims m) base /\ binary_ab (canon M prims m).
Proof.
  intros M o base Hwf Hs Hb prims m [Hv _]. split; [|apply canon_binary_ab].
  unfold base_constrs in Hb. rewrite Hs in Hb. cbn [bind] in Hb. injection Hb as <-.
  apply all_sat_app_intro; [now apply canon_upper_lower|]. cbn [app].
  destruct (needs_loadbal o); [now apply canon_loadbal|reflexivity].
Qed.

Lemma base_constrs_nostab : forall M o, o_stab o = false -> exists base, base_constrs M o = Ok base.
Proof. intros M o Hs. unfold base_constrs. rewrite Hs. cbn [bind]. eexists. reflexivity. Qed.

Theorem run_no_crash_nostab : forall M o solve, wf M = true -> admissible M o = true -> o_stab o = false ->
  milp_ok M solve -> exists out, run M o solve = Ok out.
Proof.
  intros M o solve Hwf Hadm Hs Hok. destruct (base_constrs_nostab M o Hs) as [base Hb].
  exact (run_no_crash M o base Hwf Hadm Hb (base_sound_nostab M o base Hwf Hs Hb)
           (base_complete_nostab M o base Hwf Hs Hb) solve Hok).
Qed.

Theorem run_status_nostab : forall M o solve out, wf M = true -> admissible M o = true -> o_stab o = false ->
  milp_ok M solve -> run M o solve = Ok out ->
  ((exists m, Feas (o_pc o) (o_stab o) M m) -> out_status out = Optimal) /\
  ((~ exists m, Feas (o_pc o) (o_stab o) M m) -> out_status out = Infeasible).
Proof.
  intros M o solve out Hwf Hadm Hs Hok Hrun. destruct (base_constrs_nostab M o Hs) as [base Hb].
  exact (run_status M o base Hwf Hadm Hb (base_sound_nostab M o base Hwf Hs Hb)
           (base_complete_nostab M o base Hwf Hs Hb) solve out Hok Hrun).
Qed.

Theorem run_lex_optimal_nostab : forall M o solve out, wf M = true -> admissible M o = true -> o_stab o = false ->
  milp_ok M solve -> run M o solve = Ok out -> out_status out = Optimal ->
  LexOpt (Feas (o_pc o) (o_stab o) M) (map (prim_objective_spec M) (all_prims M o))
         (matching_of M (val_fun (out_vals out))).
Proof.
  intros M o solve out Hwf Hadm Hs Hok Hrun Hopt. destruct (base_constrs_nostab M o Hs) as [base Hb].
  exact (run_lex_optimal M o base Hwf Hadm Hb (base_sound_nostab M o base Hwf Hs Hb)
           (base_complete_nostab M o base Hwf Hs Hb) solve out Hok Hrun Hopt).
Qed.

Check run_no_crash.
Check run_status.
Check run_lex_optimal.
Print Assumptions run_no_crash.
Print Assumptions run_status.
Print Assumptions run_lex_optimal.
Print Assumptions run_no_crash_nostab.
Print Assumptions run_status_nostab.
Print Assumptions run_lex_optimal_nostab.
