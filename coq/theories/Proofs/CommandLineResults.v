(* From the command line to the printed text: after Solver(argv).solve() on a file of the documented format ended
   Optimal within its limit, get_results_short / _long return the frame around exactly the specification block of
   the (valid) matching the back end's values denote, with the line "stability_correct: True" iff -stab was given. *)
From MP Require Import Run.Main Text.Render LP.Oracle LP.Canon Spec.ResultsSpec Proofs.MainProofs Proofs.RunStructure Proofs.StabRun
                       Proofs.StageAll Proofs.EndToEnd Proofs.SessionProofs Proofs.StabLineProofs Proofs.CommandLine.
Local Open Scope list_scope. Open Scope Z_scope.

Theorem command_line_results : forall c A trailer t0 limit e s s' long,
  acceptable_ns (c_ns c) (c_twopl c) (c_stab c) = true ->
  wf_ast (c_na c) (c_twopl c) A = true ->
  wf (denote (c_na c) (c_twopl c) A) = true ->
  (c_stab c = true -> two_sided (denote (c_na c) (c_twopl c) A) = true) ->
  c_bf c = false ->
  milp_ok (denote (c_na c) (c_twopl c) A) (e_solve e) ->
  solver_new c (Some (render (c_na c) A trailer)) t0 = SReady s -> do_solve s limit e = Ok s' ->
  s_status s' = "Optimal"%string -> timed_out s' = false ->
  let M := denote (c_na c) (c_twopl c) A in
  let m := matching_of M (val_fun (s_vals s')) in
  valid_b (c_pc c) M m = true /\
  exists ri, lp_results s' long =
             Ok (results_frame ri (if c_stab c then Some "True"%string else None) (spec_stats_text M m long)).
Proof.
  intros c A trailer t0 limit e s s' long Hacc Hwa Hwf Htwo Hbf Hok Hnew Hsolve Hst Hto M m.
  rewrite (accepted_starts_session c A trailer t0 Hacc Hwa) in Hnew. injection Hnew as <-.
  unfold do_solve in Hsolve.
  cbn [init_session s_solved s_tstart s_bf s_inst s_opts s_twopl s_status s_info s_vals s_has_vars] in Hsolve.
  rewrite Hbf in Hsolve. fold (cli_opts c) in Hsolve. fold M in Hsolve.
  destruct (run M (cli_opts c) (e_solve e)) as [out|er] eqn:Hrun; cbn [bind] in Hsolve; [|discriminate].
  injection Hsolve as <-. cbn [s_status] in Hst.
  assert (Hopt : out_status out = Optimal) by (apply status_string_inj_optimal; exact Hst).
  destruct (run_printed_block M (cli_opts c) (e_solve e) out long Hwf Hok Hrun Hopt) as [Hblock Hvalid].
  subst m. cbn [s_vals]. split; [exact Hvalid|].
  unfold timed_out in Hto. cbn [s_limit s_status s_tsolve s_tstart] in Hto.
  unfold lp_results. cbn [s_inst s_opts s_limit s_status s_tsolve s_tstart s_vals s_info].
  cbn [cli_opts o_stab]. fold M. rewrite Hblock.
  assert (Hchk : c_stab c = true -> check_stability M (pa_with_none M (out_vals out)) = Ok true).
  { intro Hs. apply (run_check_true M (cli_opts c) (e_solve e) out Hwf (Htwo Hs)); [exact Hs|exact Hok|exact Hrun|exact Hopt]. }
  destruct limit as [[lim printed]|].
  - rewrite Hto. rewrite Hst. change (String.eqb "Optimal" "Optimal") with true. cbn [negb orb].
    destruct (c_stab c) eqn:Hs.
    + rewrite (Hchk eq_refl). cbn [bind show_bool]. eexists. reflexivity.
    + cbn [bind]. eexists. reflexivity.
  - rewrite Hst. change (String.eqb "Optimal" "Optimal") with true. cbn [negb orb].
    destruct (c_stab c) eqn:Hs.
    + rewrite (Hchk eq_refl). cbn [bind show_bool]. eexists. reflexivity.
    + cbn [bind]. eexists. reflexivity.
Qed.

Print Assumptions command_line_results.

(* the Solver object built from its command line, solved twice: same status, same logged lines *)
Theorem command_line_resolve : forall c A trailer t0 s lim1 e1 s1 lim2 e2 s2,
  acceptable_ns (c_ns c) (c_twopl c) (c_stab c) = true ->
  wf_ast (c_na c) (c_twopl c) A = true ->
  c_bf c = false ->
  milp_ok (denote (c_na c) (c_twopl c) A) (e_solve e1) -> milp_ok (denote (c_na c) (c_twopl c) A) (e_solve e2) ->
  solver_new c (Some (render (c_na c) A trailer)) t0 = SReady s ->
  do_solve s lim1 e1 = Ok s1 -> do_solve s1 lim2 e2 = Ok s2 ->
  s_status s2 = s_status s1 /\ s_info s2 = s_info s1.
Proof.
  intros c A trailer t0 s lim1 e1 s1 lim2 e2 s2 Hacc Hwa Hbf Hok1 Hok2 Hnew H1 H2.
  rewrite (accepted_starts_session c A trailer t0 Hacc Hwa) in Hnew. injection Hnew as <-.
  exact (resolve_reproducible (init_session (denote (c_na c) (c_twopl c) A) (cli_opts c) (c_bf c) (c_twopl c) t0)
                              lim1 e1 s1 lim2 e2 s2 Hbf Hok1 Hok2 H1 H2).
Qed.

Print Assumptions command_line_resolve.
