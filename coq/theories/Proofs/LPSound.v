(* Soundness of the basic (upper/lower quota) constraints: every 0/1 point satisfying them denotes a
   valid matching, and the assigned pairs are exactly the pairs the printed matching line denotes. *)
From MP Require Import LP.Oracle.
From Coq Require Import Lia ZArith Bool List.
Import ListNotations.
Local Open Scope list_scope. Open Scope Z_scope.

Local Notation nz v := (fun q : pair => negb (v (X (st q) (pr q)) =? 0)).

(* ---- sums, lengths ---------------------------------------------------------- *)

Lemma sumZ_cons : forall x l, sumZ (x :: l) = x + sumZ l.
Proof. reflexivity. Qed.

Lemma sumZ_app : forall a b, sumZ (a ++ b) = sumZ a + sumZ b.
Proof.
  induction a as [|x a IH]; intros b.
  - reflexivity.
  - cbn [app]. rewrite !sumZ_cons, IH. lia.
Qed.

Lemma zlen_cons : forall A (x : A) l, zlen (x :: l) = 1 + zlen l.
Proof. intros. unfold zlen. cbn [length]. lia. Qed.

Lemma zlen_nonneg : forall A (l : list A), 0 <= zlen l.
Proof. intros. unfold zlen. lia. Qed.

Lemma countb_nonneg : forall A (g : A -> bool) l, 0 <= countb g l.
Proof. intros. unfold countb. apply zlen_nonneg. Qed.

Lemma sum_ind_countb : forall (g : pair -> bool) l,
  sumZ (map (fun q => if g q then 1 else 0) l) = countb g l.
Proof.
  intros g. induction l as [|a l IH].
  - reflexivity.
  - cbn [map]. rewrite sumZ_cons, IH. unfold countb. cbn [filter].
    destruct (g a) eqn:E.
    + rewrite zlen_cons. reflexivity.
    + lia.
Qed.

(* ---- evaluation ------------------------------------------------------------- *)

Lemma eval_app : forall v a b, eval v (a ++ b) = eval v a + eval v b.
Proof. intros. unfold eval. rewrite map_app, sumZ_app. reflexivity. Qed.

Lemma eval_single : forall v c x, eval v [(c, x)] = c * v x.
Proof. intros. unfold eval, sumZ. cbn [map fold_right fst snd]. lia. Qed.

Lemma eval_xs : forall v l,
  eval v (xs l) = sumZ (map (fun q => 1 * v (X (st q) (pr q))) l).
Proof. intros. unfold eval, xs. rewrite map_map. reflexivity. Qed.

Lemma sum_filter_ind : forall (v : assignment) (g : pair -> bool) l,
  sumZ (map (fun q => 1 * v (X (st q) (pr q))) (filter g l)) =
  sumZ (map (fun q => (if g q then 1 else 0) * v (X (st q) (pr q))) l).
Proof.
  intros v g. induction l as [|a l IH].
  - reflexivity.
  - cbn [filter map]. destruct (g a) eqn:E.
    + cbn [map]. rewrite !sumZ_cons, IH. reflexivity.
    + rewrite sumZ_cons, IH. lia.
Qed.

(* weighted sum over a list = sum over its non-zero positions, for 0/1 values *)
Lemma sum_filter_nz : forall (v : assignment) (f : pair -> Z) l,
  binary v ->
  sumZ (map (fun q => f q * v (X (st q) (pr q))) l) = sumZ (map f (filter (nz v) l)).
Proof.
  intros v f l [Hb _]. induction l as [|a l IH].
  - reflexivity.
  - cbn [map filter]. rewrite sumZ_cons, IH.
    destruct (Hb (st a) (pr a)) as [E|E]; rewrite E.
    + change (negb (0 =? 0)) with false. cbv iota. lia.
    + change (negb (1 =? 0)) with true. cbv iota. cbn [map]. rewrite sumZ_cons. lia.
Qed.

Lemma sum_ones : forall A (l : list A), sumZ (map (fun _ => 1) l) = zlen l.
Proof.
  induction l as [|a l IH].
  - reflexivity.
  - cbn [map]. rewrite sumZ_cons, IH, zlen_cons. reflexivity.
Qed.

Lemma filter_nz_len : forall (v : assignment) row,
  binary v -> eval v (xs row) = zlen (filter (nz v) row).
Proof.
  intros v row Hb. rewrite eval_xs.
  rewrite (sum_filter_nz v (fun _ => 1) row Hb). apply sum_ones.
Qed.

(* ---- one row ---------------------------------------------------------------- *)

Lemma find_nodup : forall row q,
  nodupZ (map pr row) = true -> In q row ->
  find (fun q' => pr q' =? pr q) row = Some q.
Proof.
  induction row as [|a t IH]; intros q Hnd Hin.
  - destruct Hin.
  - cbn [map nodupZ] in Hnd. apply andb_true_iff in Hnd. destruct Hnd as [Hmem Hnd].
    apply negb_true_iff in Hmem.
    cbn [find]. destruct (pr a =? pr q) eqn:E.
    + destruct Hin as [Hin|Hin].
      * subst. reflexivity.
      * exfalso. apply Z.eqb_eq in E.
        assert (Hm : memZ (pr a) (map pr t) = true).
        { unfold memZ. apply existsb_exists. exists (pr q). split.
          - apply in_map. exact Hin.
          - apply Z.eqb_eq. exact E. }
        rewrite Hm in Hmem. discriminate.
    + destruct Hin as [Hin|Hin].
      * subst. rewrite Z.eqb_refl in E. discriminate.
      * apply IH; assumption.
Qed.

Lemma row_step : forall (v : assignment) row (rest : list pair),
  binary v ->
  nodupZ (map pr row) = true ->
  (forall q, In q row -> 1 <= pr q) ->
  eval v (xs row) <= 1 ->
  match (if row_choice v row =? 0 then None else find_pair row (row_choice v row)) with
  | Some q => q :: rest
  | None => rest
  end = filter (nz v) row ++ rest.
Proof.
  intros v row rest Hb Hnd Hpr Hle.
  rewrite (filter_nz_len v row Hb) in Hle.
  unfold row_choice.
  destruct (filter (nz v) row) as [|q [|q' t]] eqn:E.
  - cbn [rev]. change (0 =? 0) with true. cbv iota. reflexivity.
  - cbn [rev app].
    assert (Hin : In q row).
    { assert (H : In q (filter (nz v) row)) by (rewrite E; left; reflexivity).
      apply filter_In in H. tauto. }
    assert (Hq := Hpr q Hin).
    destruct (pr q =? 0) eqn:E0.
    + apply Z.eqb_eq in E0. lia.
    + unfold find_pair. rewrite (find_nodup row q Hnd Hin). reflexivity.
  - exfalso. rewrite !zlen_cons in Hle. pose proof (zlen_nonneg _ t). lia.
Qed.

Lemma matched_rows_filter : forall (v : assignment) rows,
  binary v ->
  (forall row, In row rows ->
     nodupZ (map pr row) = true /\ (forall q, In q row -> 1 <= pr q) /\ eval v (xs row) <= 1) ->
  matched_rows rows (map (row_choice v) rows) = filter (nz v) (concat rows).
Proof.
  intros v rows Hb. induction rows as [|row rows IH]; intros Hgood.
  - reflexivity.
  - cbn [map matched_rows concat].
    destruct (Hgood row (or_introl eq_refl)) as [Hnd [Hpr Hle]].
    rewrite (row_step v row _ Hb Hnd Hpr Hle).
    rewrite filter_app. f_equal. apply IH.
    intros r Hr. apply Hgood. right. exact Hr.
Qed.

(* ---- well-formedness facts ---------------------------------------------------- *)

Lemma rows_ok_facts : forall M rows i,
  rows_ok M i rows = true ->
  forall row, In row rows ->
    nodupZ (map pr row) = true /\ (forall q, In q row -> 1 <= pr q).
Proof.
  intros M. induction rows as [|r t IH]; intros i H row Hin.
  - destruct Hin.
  - cbn [rows_ok] in H. apply andb_true_iff in H. destruct H as [Hr Ht].
    destruct Hin as [Hin|Hin].
    + subst r. unfold row_ok in Hr.
      apply andb_true_iff in Hr. destruct Hr as [Hr _].
      apply andb_true_iff in Hr. destruct Hr as [Hall Hnd].
      split; [exact Hnd|].
      intros q Hq. rewrite forallb_forall in Hall. specialize (Hall q Hq).
      apply andb_true_iff in Hall. destruct Hall as [Hall _].
      apply andb_true_iff in Hall. destruct Hall as [Hall _].
      apply andb_true_iff in Hall. destruct Hall as [_ H1].
      apply Z.leb_le in H1. exact H1.
    + apply (IH (i + 1) Ht row Hin).
Qed.

Lemma wf_rows_ok : forall M, wf M = true -> rows_ok M 1 (pairs M) = true.
Proof.
  intros M H. unfold wf in H.
  repeat (apply andb_true_iff in H; let H' := fresh "W" in destruct H as [H H']).
  assumption.
Qed.

Lemma student_sat : forall (M : instance) (v : assignment),
  all_sat v (student_constrs M) -> forall row, In row (pairs M) -> eval v (xs row) <= 1.
Proof.
  intros M v H row Hin. unfold all_sat, student_constrs in H.
  rewrite forallb_forall in H.
  specialize (H (mkC (xs row) LE 1)).
  assert (Hc : In (mkC (xs row) LE 1) (map (fun row => mkC (xs row) LE 1) (pairs M))).
  { apply (in_map (fun row => mkC (xs row) LE 1)). exact Hin. }
  specialize (H Hc). unfold sat in H. cbn [c_rel c_lhs c_rhs] in H.
  apply Z.leb_le in H. exact H.
Qed.

Lemma assigned_is_matched_aux : forall (M : instance) (v : assignment),
  wf M = true -> binary v -> all_sat v (student_constrs M) ->
  matched M (matching_of M v) = filter (nz v) (all_pairs M).
Proof.
  intros M v Hwf Hb Hs. unfold matched, matching_of, all_pairs.
  apply matched_rows_filter; [exact Hb|].
  intros row Hin.
  destruct (rows_ok_facts M (pairs M) 1 (wf_rows_ok M Hwf) row Hin) as [Hnd Hpr].
  split; [exact Hnd|]. split; [exact Hpr|].
  apply (student_sat M v Hs row Hin).
Qed.

(* ---- main results 1 and 2 ------------------------------------------------------- *)

Lemma sum_x_matched : forall (M : instance) (v : assignment) (f : pair -> Z),
  wf M = true -> binary v -> all_sat v (student_constrs M) ->
  sumZ (map (fun q => f q * v (X (st q) (pr q))) (all_pairs M)) = sumZ (map f (matched M (matching_of M v))).
Proof.
  intros M v f Hwf Hb Hs.
  rewrite (assigned_is_matched_aux M v Hwf Hb Hs).
  apply sum_filter_nz. exact Hb.
Qed.

Lemma assigned_is_matched : forall (M : instance) (v : assignment),
  wf M = true -> binary v -> all_sat v (student_constrs M) ->
  filter (fun q => negb (v (X (st q) (pr q)) =? 0)) (all_pairs M) = matched M (matching_of M v).
Proof.
  intros M v Hwf Hb Hs. symmetry. apply assigned_is_matched_aux; assumption.
Qed.

(* ---- loads ------------------------------------------------------------------------ *)

Lemma eval_filter_count : forall (M : instance) (v : assignment) (g : pair -> bool),
  wf M = true -> binary v -> all_sat v (student_constrs M) ->
  eval v (xs (filter g (all_pairs M))) = countb g (matched M (matching_of M v)).
Proof.
  intros M v g Hwf Hb Hs.
  rewrite eval_xs, sum_filter_ind.
  rewrite (sum_x_matched M v (fun q => if g q then 1 else 0) Hwf Hb Hs).
  apply sum_ind_countb.
Qed.

Lemma all_sat_app : forall v a b, all_sat v (a ++ b) -> all_sat v a /\ all_sat v b.
Proof.
  intros v a b H. unfold all_sat in *. rewrite forallb_app in H.
  apply andb_true_iff in H. exact H.
Qed.

Lemma all_sat_flat_map : forall (v : assignment) (f : Z -> list constr) ids,
  all_sat v (flat_map f ids) -> forall j c, In j ids -> In c (f j) -> sat v c = true.
Proof.
  intros v f ids H j c Hj Hc. unfold all_sat in H. rewrite forallb_forall in H.
  apply H. apply in_flat_map. exists j. split; assumption.
Qed.

Lemma acceptable_choice : forall (v : assignment) rows,
  acceptable_rows rows (map (row_choice v) rows) = true.
Proof.
  intros v. induction rows as [|row rows IH].
  - reflexivity.
  - cbn [map acceptable_rows]. apply andb_true_iff. split; [|exact IH].
    unfold row_choice.
    destruct (rev (filter (nz v) row)) as [|q t] eqn:E.
    + reflexivity.
    + apply orb_true_iff. right. apply existsb_exists. exists q. split.
      * assert (H : In q (rev (filter (nz v) row))) by (rewrite E; left; reflexivity).
        apply in_rev in H. apply filter_In in H. tauto.
      * apply Z.eqb_refl.
Qed.

(* ---- main result 3 -------------------------------------------------------------------- *)

Theorem lp_sound : forall (M : instance) (pc : bool) (v : assignment),
  wf M = true -> binary v -> all_sat v (upper_lower pc M) ->
  valid_b pc M (matching_of M v) = true.
Proof.
  intros M pc v Hwf Hb Hall. unfold upper_lower in Hall.
  apply all_sat_app in Hall. destruct Hall as [Hs Hall].
  apply all_sat_app in Hall. destruct Hall as [Hp Hl].
  unfold valid_b. apply andb_true_iff. split; [apply andb_true_iff; split|].
  - unfold matching_of. apply acceptable_choice.
  - apply forallb_forall. intros j Hj. unfold proj_ok, proj_load.
    pose proof (eval_filter_count M v (fun q => pr q =? j) Hwf Hb Hs) as Hn.
    fold (project_list M j) in Hn.
    pose proof (countb_nonneg _ (fun q => pr q =? j) (matched M (matching_of M v))) as Hn0.
    set (n := countb (fun q => pr q =? j) (matched M (matching_of M v))) in *.
    unfold project_constrs in Hp.
    pose proof (all_sat_flat_map v _ _ Hp j) as Hc. cbv beta zeta in Hc.
    destruct pc.
    + pose proof (Hc _ Hj (or_introl eq_refl)) as H1.
      pose proof (Hc _ Hj (or_intror (or_introl eq_refl))) as H2.
      unfold sat in H1, H2. cbn [c_rel c_lhs c_rhs] in H1, H2.
      apply Z.leb_le in H1. apply Z.leb_le in H2.
      rewrite eval_app, eval_single, Hn in H1, H2.
      destruct Hb as [_ Hcl]. destruct (Hcl j) as [E|E]; rewrite E in H1, H2.
      * apply orb_true_iff. left. apply andb_true_iff. split; apply Z.leb_le; lia.
      * apply orb_true_iff. right. cbn [andb]. apply Z.eqb_eq. lia.
    + pose proof (Hc _ Hj (or_introl eq_refl)) as H1.
      pose proof (Hc _ Hj (or_intror (or_introl eq_refl))) as H2.
      unfold sat in H1, H2. cbn [c_rel c_lhs c_rhs] in H1, H2.
      apply Z.leb_le in H1. apply Z.leb_le in H2.
      rewrite Hn in H1, H2.
      apply orb_true_iff. left. apply andb_true_iff. split; apply Z.leb_le; lia.
  - apply forallb_forall. intros k Hk. unfold lec_ok, lec_load.
    pose proof (eval_filter_count M v (fun q => lec q =? k) Hwf Hb Hs) as Hn.
    fold (lecturer_list M k) in Hn.
    set (n := countb (fun q => lec q =? k) (matched M (matching_of M v))) in *.
    unfold lecturer_constrs in Hl.
    pose proof (all_sat_flat_map v _ _ Hl k) as Hc. cbv beta zeta in Hc.
    pose proof (Hc _ Hk (or_introl eq_refl)) as H1.
    pose proof (Hc _ Hk (or_intror (or_introl eq_refl))) as H2.
    unfold sat in H1, H2. cbn [c_rel c_lhs c_rhs] in H1, H2.
    apply Z.leb_le in H1. apply Z.leb_le in H2.
    rewrite Hn in H1, H2.
    apply andb_true_iff. split; apply Z.leb_le; lia.
Qed.

Print Assumptions sum_x_matched.
Print Assumptions assigned_is_matched.
Print Assumptions lp_sound.
