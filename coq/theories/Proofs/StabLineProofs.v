(* C06, consequence: the 'stability_correct' line printed after an Optimal LP run with the stability option
   is always True.  The list handed to check_stability by get_results is the assignment of the printed
   matching; that matching is valid (hence within the checker theorem's domain) and stable; so the checker
   answers True. *)
From MP Require Import Run.Session LP.Oracle Proofs.LPSound Proofs.CheckerProofs Proofs.StabRun Proofs.RunProofs
                       Proofs.RunStructure Proofs.EndToEnd.
From MP Require Import Proofs.SessionProofs.
From MP Require Proofs.CanonProofs.
From Coq Require Import Lia.
Local Open Scope list_scope. Open Scope Z_scope.

(* ---------- 1. the list handed to the checker --------------------------------------- *)

(* one row: under the student constraint and 0/1 values, the filtered row is [] or a single pair *)
Lemma row_with_none : forall (v : assignment) row,
  binary v ->
  nodupZ (map pr row) = true ->
  (forall q, In q row -> 1 <= pr q) ->
  eval v (xs row) <= 1 ->
  match filter (fun q => negb (v (X (st q) (pr q)) =? 0)) row with [] => [None] | l => map Some l end =
  [if row_choice v row =? 0 then None else find_pair row (row_choice v row)].
Proof.
  intros v row Hb Hnd Hpr Hle.
  pose proof (row_step v row [] Hb Hnd Hpr Hle) as H.
  rewrite app_nil_r in H.
  destruct (if row_choice v row =? 0 then None else find_pair row (row_choice v row)) as [q|].
  - rewrite <- H. reflexivity.
  - rewrite <- H. reflexivity.
Qed.

Lemma rows_with_none : forall vals rows,
  binary (val_fun vals) ->
  (forall row, In row rows ->
     nodupZ (map pr row) = true /\ (forall q, In q row -> 1 <= pr q) /\ eval (val_fun vals) (xs row) <= 1) ->
  concat (map (fun row => match row_assigned vals row with [] => [None] | l => map Some l end) rows) =
  map (fun ip : list pair * Z => match ip with (row, p) => if p =? 0 then None else find_pair row p end)
      (combine rows (map (row_choice (val_fun vals)) rows)).
Proof.
  intros vals rows Hb.
  set (f := fun row : list pair => match row_assigned vals row with [] => [None] | l => map Some l end).
  induction rows as [|row rows IH]; intros Hgood.
  - reflexivity.
  - cbn [map combine concat].
    destruct (Hgood row (or_introl eq_refl)) as [Hnd [Hpr Hle]].
    assert (Hrow : f row = [if row_choice (val_fun vals) row =? 0 then None
                            else find_pair row (row_choice (val_fun vals) row)]).
    { unfold f. rewrite row_assigned_filter. apply row_with_none; assumption. }
    rewrite Hrow. cbn [app]. f_equal. apply IH.
    intros r Hr. apply Hgood. right. exact Hr.
Qed.

Lemma pa_with_none_is_assignment : forall M vals,
  wf M = true -> binary (val_fun vals) -> all_sat (val_fun vals) (student_constrs M) ->
  pa_with_none M vals = assignment_of M (matching_of M (val_fun vals)).
Proof.
  intros M vals Hwf Hb Hs. unfold pa_with_none, assignment_of, matching_of.
  apply rows_with_none; [exact Hb|].
  intros row Hin.
  destruct (rows_ok_facts M (pairs M) 1 (wf_rows_ok M Hwf) row Hin) as [Hnd Hpr].
  split; [exact Hnd|]. split; [exact Hpr|].
  apply (student_sat M (val_fun vals) Hs row Hin).
Qed.

(* ---------- 2. valid matchings are in the checker theorem's domain -------------------- *)

Lemma wf_proj_uq_nonneg : forall M j, wf M = true -> In j (proj_ids M) -> 0 <= nth1 (p_uq M) j 0.
Proof.
  intros M j Hwf Hj.
  destruct (CanonProofs.wf_destruct M Hwf) as [_ _ _ _ Hplq Hpuq _ _ _ _ _ Hpq _ _ _ _].
  unfold proj_ids in Hj. apply CanonProofs.in_seqZ in Hj.
  rewrite CanonProofs.nth1_nth by lia.
  destruct (CanonProofs.all2Z_nth _ _ _ Hpq) as [_ H1].
  unfold zlen in *.
  specialize (H1 (Z.to_nat (j - 1))).
  assert (L1 : (Z.to_nat (j - 1) < length (p_lq M))%nat) by lia.
  specialize (H1 L1).
  apply andb_true_iff in H1. destruct H1 as [H1a H1b].
  apply Z.leb_le in H1a, H1b. lia.
Qed.

Lemma valid_respects_upper : forall pc M m, wf M = true -> valid_b pc M m = true -> respects_upper_b M m = true.
Proof.
  intros pc M m Hwf Hv. unfold valid_b in Hv. unfold respects_upper_b.
  apply andb_true_iff in Hv. destruct Hv as [Hv Hl].
  apply andb_true_iff in Hv. destruct Hv as [Ha Hp].
  apply andb_true_iff. split; [apply andb_true_iff; split|].
  - exact Ha.
  - apply forallb_forall. intros j Hj.
    rewrite forallb_forall in Hp. specialize (Hp j Hj). unfold proj_ok in Hp. cbv zeta in Hp.
    apply orb_true_iff in Hp. destruct Hp as [Hp|Hp].
    + apply andb_true_iff in Hp. destruct Hp as [_ Hp]. exact Hp.
    + apply andb_true_iff in Hp. destruct Hp as [_ Hp]. apply Z.eqb_eq in Hp. rewrite Hp.
      apply Z.leb_le. apply wf_proj_uq_nonneg; assumption.
  - apply forallb_forall. intros k Hk.
    rewrite forallb_forall in Hl. specialize (Hl k Hk). unfold lec_ok in Hl. cbv zeta in Hl.
    apply andb_true_iff in Hl. destruct Hl as [_ Hl]. exact Hl.
Qed.

(* ---------- 3. the printed line ------------------------------------------------------ *)

(* the getter, once the checker's answer is known *)
Lemma lp_results_stab_true : forall s long,
  timed_out s = false -> s_status s = "Optimal"%string -> o_stab (s_opts s) = true ->
  check_stability (s_inst s) (pa_with_none (s_inst s) (s_vals s)) = Ok true ->
  exists ri body, lp_results s long = Ok (results_frame ri (Some "True"%string) body).
Proof.
  intros s long Hto Hst Hstab Hchk. unfold lp_results. unfold timed_out in Hto.
  rewrite Hstab, Hchk. cbn [bind show_bool].
  destruct (s_limit s) as [[lim printed]|].
  - rewrite Hto. rewrite Hst. change (String.eqb "Optimal" "Optimal") with true. cbn [negb orb].
    eexists. eexists. reflexivity.
  - rewrite Hst. change (String.eqb "Optimal" "Optimal") with true. cbn [negb orb].
    eexists. eexists. reflexivity.
Qed.

(* the checker's answer on the values of an Optimal run with -stab *)
Lemma run_check_true : forall M o solve out,
  wf M = true -> two_sided M = true -> o_stab o = true ->
  milp_ok M solve -> run M o solve = Ok out -> out_status out = Optimal ->
  check_stability M (pa_with_none M (out_vals out)) = Ok true.
Proof.
  intros M o solve out Hwf H2 Hstab Hok H Hst.
  destruct (base_constrs M o) as [base|er] eqn:Hb.
  2:{ unfold run in H. rewrite Hb in H. discriminate. }
  destruct (final_point M o solve out base Hok H Hb Hst) as [objs [Hbd Hsat]].
  destruct (base_has_upper_lower M o base Hb) as [rest Hbase].
  rewrite Hbase in Hsat. apply all_sat_app_l in Hsat.
  assert (Hbin : binary (val_fun (out_vals out))) by exact (in_bounds_binary M objs _ Hbd).
  assert (Hstu : all_sat (val_fun (out_vals out)) (student_constrs M)).
  { unfold upper_lower in Hsat. now apply all_sat_app_l in Hsat. }
  rewrite (pa_with_none_is_assignment M (out_vals out) Hwf Hbin Hstu).
  pose proof (reported_valid M o solve out Hwf Hok H Hst) as Hvalid.
  pose proof (reported_stable M o solve out Hwf H2 Hstab Hok H Hst) as Hstable.
  rewrite (check_correct M _ Hwf H2 (valid_respects_upper (o_pc o) M _ Hwf Hvalid)).
  rewrite Hstable. reflexivity.
Qed.

Theorem printed_stability_correct : forall s lim e s' long,
  s_bf s = false -> o_stab (s_opts s) = true ->
  wf (s_inst s) = true -> two_sided (s_inst s) = true ->
  milp_ok (s_inst s) (e_solve e) ->
  do_solve s lim e = Ok s' -> s_status s' = "Optimal"%string ->
  timed_out s' = false ->
  exists ri body, lp_results s' long = Ok (results_frame ri (Some "True"%string) body).
Proof.
  intros s lim e s' long Hbf Hstab Hwf H2 Hok Hs Hst Hto.
  unfold do_solve in Hs. rewrite Hbf in Hs.
  destruct (if s_solved s then (clock_at e 0, 1%nat) else (s_tstart s, 0%nat)) as [tstart i0].
  destruct (run (s_inst s) (s_opts s) (e_solve e)) as [out|er] eqn:R; cbn [bind] in Hs; [|discriminate].
  injection Hs as <-. cbn [s_status] in Hst.
  assert (Hopt : out_status out = Optimal).
  { apply status_string_optimal. rewrite Hst. reflexivity. }
  apply lp_results_stab_true.
  - exact Hto.
  - cbn [s_status]. exact Hst.
  - cbn [s_opts]. exact Hstab.
  - cbn [s_inst s_vals]. apply (run_check_true _ (s_opts s) (e_solve e)); assumption.
Qed.

Print Assumptions pa_with_none_is_assignment.
Print Assumptions valid_respects_upper.
Print Assumptions printed_stability_correct.
