(* Proofs about the generator models (C08, C12) and the tie writer at probability 0 / 1. *)
From MP Require Import Gen.Quotas Text.Ties Proofs.TiesProofs.
From Coq Require Import Lia.
Local Open Scope list_scope. Open Scope Z_scope.

(* ---------- seqZ / basic list helpers ------------------------------------ *)

Lemma g_seqZ_length : forall n a, length (seqZ a n) = n.
Proof. induction n as [|n IH]; intros a; cbn [seqZ length]; [reflexivity|now rewrite IH]. Qed.

Lemma g_seqZ_nth : forall n a i d, (i < n)%nat -> nth i (seqZ a n) d = a + Z.of_nat i.
Proof.
  induction n as [|n IH]; intros a i d Hi; [lia|].
  destruct i as [|i]; cbn [seqZ nth].
  - lia.
  - rewrite IH by lia. lia.
Qed.

Lemma g_seqZ_In : forall n a x, In x (seqZ a n) <-> a <= x < a + Z.of_nat n.
Proof.
  induction n as [|n IH]; intros a x; cbn [seqZ In].
  - split; [tauto|lia].
  - rewrite IH. lia.
Qed.

Lemma g_nth_map_seqZ : forall {A} (f : Z -> A) n a i d,
  (i < n)%nat -> nth i (map f (seqZ a n)) d = f (a + Z.of_nat i).
Proof.
  intros A f n a i d Hi.
  rewrite (nth_indep _ d (f 0)) by (rewrite map_length, g_seqZ_length; exact Hi).
  rewrite map_nth. now rewrite g_seqZ_nth.
Qed.

Lemma g_memZ_In : forall x l, memZ x l = true <-> In x l.
Proof.
  intros x l. unfold memZ. rewrite existsb_exists. split.
  - intros [y [Hy E]]. apply Z.eqb_eq in E. now subst.
  - intros H. exists x. split; [assumption|apply Z.eqb_refl].
Qed.

Lemma g_count_occZ_app : forall l m x, count_occZ (l ++ m) x = count_occZ l x + count_occZ m x.
Proof.
  induction l as [|y l IH]; intros m x; cbn [app count_occZ]; [reflexivity|].
  rewrite IH. lia.
Qed.

Lemma g_count_occZ_repeat : forall y n x,
  count_occZ (repeat y n) x = if y =? x then Z.of_nat n else 0.
Proof.
  induction n as [|n IH]; intros x; cbn [repeat count_occZ].
  - now destruct (y =? x).
  - rewrite IH. destruct (y =? x); lia.
Qed.

Lemma g_count_occZ_notin : forall l x, ~ In x l -> count_occZ l x = 0.
Proof.
  induction l as [|y l IH]; intros x H; cbn [count_occZ]; [reflexivity|].
  rewrite IH by (intro K; apply H; now right).
  destruct (Z.eqb_spec y x) as [E|_]; [|reflexivity].
  exfalso. apply H. now left.
Qed.

Lemma g_sumZ_app : forall l m, sumZ (l ++ m) = sumZ l + sumZ m.
Proof.
  induction l as [|y l IH]; intros m; [reflexivity|].
  unfold sumZ in *. cbn [app fold_right]. rewrite IH. lia.
Qed.

(* ---------- create_quotas -------------------------------------------------- *)

Definition qf (n q i : Z) : Z := q / n + (if i <? q mod n then 1 else 0).

Lemma create_quotas_eq : forall n q, n <> 0 ->
  create_quotas n q = Ok (map (qf n q) (seqZ 0 (Z.to_nat n))).
Proof.
  intros n q Hn. unfold create_quotas, rangeZ, qf.
  destruct (Z.eqb_spec n 0) as [E|_]; [contradiction|reflexivity].
Qed.

Lemma sumZ_spread : forall c r m a,
  sumZ (map (fun i => c + (if i <? r then 1 else 0)) (seqZ a m)) =
  c * Z.of_nat m + Z.max 0 (Z.min (r - a) (Z.of_nat m)).
Proof.
  induction m as [|m IH]; intros a.
  - cbn [seqZ map]. unfold sumZ. cbn [fold_right]. change (Z.of_nat 0) with 0. lia.
  - cbn [seqZ map]. unfold sumZ in *. cbn [fold_right]. rewrite IH.
    rewrite Nat2Z.inj_succ.
    destruct (Z.ltb_spec a r) as [H|H]; lia.
Qed.

Lemma qf_nth : forall n q l i, 0 < n -> create_quotas n q = Ok l -> (i < Z.to_nat n)%nat ->
  nth i l 0 = qf n q (Z.of_nat i).
Proof.
  intros n q l i Hn H Hi. rewrite create_quotas_eq in H by lia.
  injection H as <-. now rewrite g_nth_map_seqZ.
Qed.

Theorem quotas_spec : forall n q l, 0 < n -> 0 <= q -> create_quotas n q = Ok l ->
  length l = Z.to_nat n /\ sumZ l = q /\
  (forall i, (i < length l)%nat -> nth i l 0 = q / n \/ nth i l 0 = q / n + 1) /\
  (forall i j, (i <= j)%nat -> (j < length l)%nat -> nth j l 0 <= nth i l 0).      (* larger shares first *)
Proof.
  intros n q l Hn Hq H.
  assert (Hlen : length l = Z.to_nat n).
  { rewrite create_quotas_eq in H by lia. injection H as <-.
    now rewrite map_length, g_seqZ_length. }
  split; [exact Hlen|]. split; [|split].
  - rewrite create_quotas_eq in H by lia. injection H as <-.
    unfold qf. rewrite sumZ_spread.
    pose proof (Z.mod_pos_bound q n Hn) as Hb.
    pose proof (Z.div_mod q n ltac:(lia)) as Hd.
    rewrite Z2Nat.id by lia. lia.
  - intros i Hi. rewrite (qf_nth n q l i Hn H) by lia. unfold qf.
    destruct (Z.of_nat i <? q mod n); [right|left]; lia.
  - intros i j Hij Hj.
    rewrite (qf_nth n q l i Hn H), (qf_nth n q l j Hn H) by lia. unfold qf.
    destruct (Z.ltb_spec (Z.of_nat i) (q mod n)) as [A|A];
    destruct (Z.ltb_spec (Z.of_nat j) (q mod n)) as [B|B]; lia.
Qed.

Theorem quotas_total : forall n q, 0 < n -> exists l, create_quotas n q = Ok l.
Proof. intros n q Hn. eexists. apply create_quotas_eq. lia. Qed.

(* pointwise monotone in the total *)
Theorem quotas_monotone : forall n q1 q2 l1 l2, 0 < n -> 0 <= q1 <= q2 ->
  create_quotas n q1 = Ok l1 -> create_quotas n q2 = Ok l2 ->
  forall i, (i < Z.to_nat n)%nat -> nth i l1 0 <= nth i l2 0.
Proof.
  intros n q1 q2 l1 l2 Hn Hq H1 H2 i Hi.
  rewrite (qf_nth n q1 l1 i Hn H1 Hi), (qf_nth n q2 l2 i Hn H2 Hi). unfold qf.
  assert (Hd : q1 / n <= q2 / n) by (apply Z.div_le_mono; lia).
  pose proof (Z.div_mod q1 n ltac:(lia)) as D1.
  pose proof (Z.div_mod q2 n ltac:(lia)) as D2.
  destruct (Z.eq_dec (q1 / n) (q2 / n)) as [E|NE].
  - rewrite E in D1 |- *.
    assert (Hr : q1 mod n <= q2 mod n) by lia.
    destruct (Z.ltb_spec (Z.of_nat i) (q1 mod n)) as [A|A];
    destruct (Z.ltb_spec (Z.of_nat i) (q2 mod n)) as [B|B]; lia.
  - destruct (Z.of_nat i <? q1 mod n); destruct (Z.of_nat i <? q2 mod n); lia.
Qed.

(* ---------- create_project_lecturers --------------------------------------- *)

Definition blocks (a : Z) (counts : list Z) : list Z :=
  concat (map (fun kc : Z * Z => repeat (fst kc + 1) (Z.to_nat (snd kc)))
              (combine (seqZ a (length counts)) counts)).

Lemma blocks_cons : forall a c cs,
  blocks a (c :: cs) = repeat (a + 1) (Z.to_nat c) ++ blocks (a + 1) cs.
Proof. reflexivity. Qed.

Lemma blocks_length : forall counts a, (forall c, In c counts -> 0 <= c) ->
  Z.of_nat (length (blocks a counts)) = sumZ counts.
Proof.
  induction counts as [|c cs IH]; intros a Hpos; [reflexivity|].
  rewrite blocks_cons, app_length, repeat_length, Nat2Z.inj_add.
  rewrite IH by (intros d Hd; apply Hpos; now right).
  assert (0 <= c) by (apply Hpos; now left).
  unfold sumZ. cbn [fold_right]. lia.
Qed.

Lemma blocks_In : forall counts a x, In x (blocks a counts) ->
  a + 1 <= x <= a + Z.of_nat (length counts).
Proof.
  induction counts as [|c cs IH]; intros a x H; [destruct H|].
  rewrite blocks_cons in H. apply in_app_or in H as [H|H].
  - apply repeat_spec in H. cbn [length]. lia.
  - apply IH in H. cbn [length]. lia.
Qed.

Lemma blocks_count : forall counts a k, (forall c, In c counts -> 0 <= c) ->
  (k < length counts)%nat ->
  count_occZ (blocks a counts) (a + Z.of_nat k + 1) = nth k counts 0.
Proof.
  induction counts as [|c cs IH]; intros a k Hpos Hk; [cbn [length] in Hk; lia|].
  rewrite blocks_cons, g_count_occZ_app, g_count_occZ_repeat.
  assert (Hc : 0 <= c) by (apply Hpos; now left).
  destruct k as [|k].
  - cbn [nth]. rewrite g_count_occZ_notin.
    + destruct (Z.eqb_spec (a + 1) (a + Z.of_nat 0 + 1)) as [_|NE]; lia.
    + intro K. apply blocks_In in K. lia.
  - cbn [nth]. cbn [length] in Hk.
    destruct (Z.eqb_spec (a + 1) (a + Z.of_nat (S k) + 1)) as [E|_]; [lia|].
    replace (a + Z.of_nat (S k) + 1) with (a + 1 + Z.of_nat k + 1) by lia.
    rewrite IH; [lia| |lia]. intros d Hd. apply Hpos. now right.
Qed.

Definition nth_sorted (l : list Z) : Prop :=
  forall i j, (i <= j)%nat -> (j < length l)%nat -> nth i l 0 <= nth j l 0.

Lemma nth_sorted_app : forall l m, nth_sorted l -> nth_sorted m ->
  (forall x y, In x l -> In y m -> x <= y) -> nth_sorted (l ++ m).
Proof.
  intros l m Hl Hm Hlm i j Hij Hj. rewrite app_length in Hj.
  destruct (Nat.lt_ge_cases j (length l)) as [Jl|Jl].
  - rewrite !app_nth1 by lia. now apply Hl.
  - rewrite (app_nth2 l m 0 Jl).
    destruct (Nat.lt_ge_cases i (length l)) as [Il|Il].
    + rewrite app_nth1 by lia. apply Hlm; apply nth_In; lia.
    + rewrite (app_nth2 l m 0 Il). apply Hm; lia.
Qed.

Lemma nth_sorted_repeat : forall x n, nth_sorted (repeat x n).
Proof.
  intros x n i j Hij Hj. rewrite repeat_length in Hj.
  assert (E : forall k, (k < n)%nat -> nth k (repeat x n) 0 = x).
  { intros k Hk. apply (repeat_spec n x). apply nth_In. now rewrite repeat_length. }
  rewrite !E by lia. lia.
Qed.

Lemma blocks_sorted : forall counts a, nth_sorted (blocks a counts).
Proof.
  induction counts as [|c cs IH]; intros a.
  - intros i j _ Hj. cbn [blocks length combine map concat] in Hj. unfold blocks in Hj. cbn in Hj. lia.
  - rewrite blocks_cons. apply nth_sorted_app; [apply nth_sorted_repeat|apply IH|].
    intros x y Hx Hy. apply repeat_spec in Hx. apply blocks_In in Hy. lia.
Qed.

Lemma quotas_nonneg : forall n q l c, 0 < n -> 0 <= q -> create_quotas n q = Ok l -> In c l -> 0 <= c.
Proof.
  intros n q l c Hn Hq H Hc. rewrite create_quotas_eq in H by lia. injection H as <-.
  apply in_map_iff in Hc as [i [<- _]]. unfold qf.
  assert (0 <= q / n) by (apply Z.div_pos; lia).
  destruct (i <? q mod n); lia.
Qed.

Theorem project_lecturers_spec : forall n2 n3 l, 0 < n3 -> 0 <= n2 -> create_project_lecturers n2 n3 = Ok l ->
  length l = Z.to_nat n2 /\ (forall x, In x l -> 1 <= x <= n3) /\
  (forall k counts, create_quotas n3 n2 = Ok counts -> (k < Z.to_nat n3)%nat ->
       count_occZ l (Z.of_nat k + 1) = nth k counts 0) /\
  (forall i j, (i <= j)%nat -> (j < length l)%nat -> nth i l 0 <= nth j l 0).
Proof.
  intros n2 n3 l Hn3 Hn2 H. unfold create_project_lecturers in H.
  destruct (create_quotas n3 n2) as [counts|e] eqn:Q; [|discriminate].
  cbn [bind] in H. injection H as H.
  destruct (quotas_spec n3 n2 counts Hn3 Hn2 Q) as [Hlen [Hsum _]].
  assert (Hpos : forall c, In c counts -> 0 <= c) by (intros c Hc; exact (quotas_nonneg n3 n2 counts c Hn3 Hn2 Q Hc)).
  assert (Hl : l = blocks 0 counts).
  { subst l. unfold blocks, rangeZ. now rewrite Hlen. }
  clear H. subst l.
  split; [|split; [|split]].
  - pose proof (blocks_length counts 0 Hpos) as HL.
    rewrite Hsum in HL. lia.
  - intros x Hx. apply blocks_In in Hx. rewrite Hlen in Hx. lia.
  - intros k counts' Hq Hk. injection Hq as <-.
    replace (Z.of_nat k + 1) with (0 + Z.of_nat k + 1) by lia.
    apply blocks_count; [|lia].
    exact Hpos.
  - apply blocks_sorted.
Qed.

(* ---------- inversion (create_pref_lists_from_other_lists) ----------------- *)

Definition inv_row (a : Z) (first : list (list Z)) (j : Z) : list Z :=
  map fst (filter (fun il : Z * list Z => memZ j (snd il)) (combine (seqZ a (length first)) first)).

Lemma inv_row_cons : forall a l ls j,
  inv_row a (l :: ls) j = if memZ j l then a :: inv_row (a + 1) ls j else inv_row (a + 1) ls j.
Proof.
  intros a l ls j. unfold inv_row. cbn [length seqZ combine filter snd].
  destruct (memZ j l); reflexivity.
Qed.

Lemma inv_row_count : forall first a j i,
  count_occZ (inv_row a first j) i =
  if (a <=? i) && (i <? a + zlen first) && memZ j (nth (Z.to_nat (i - a)) first []) then 1 else 0.
Proof.
  induction first as [|l ls IH]; intros a j i.
  - unfold inv_row, zlen. cbn [length seqZ combine filter map count_occZ].
    change (Z.of_nat 0) with 0.
    destruct (Z.leb_spec a i); destruct (Z.ltb_spec i (a + 0)); cbn [andb]; try reflexivity; lia.
  - rewrite inv_row_cons.
    assert (Hz : zlen (l :: ls) = zlen ls + 1) by (unfold zlen; cbn [length]; lia).
    rewrite Hz.
    assert (Hrest : count_occZ (inv_row (a + 1) ls j) i =
                    if (a + 1 <=? i) && (i <? a + (zlen ls + 1)) &&
                       memZ j (nth (Z.to_nat (i - a)) (l :: ls) []) then 1 else 0).
    { rewrite IH. replace (a + 1 + zlen ls) with (a + (zlen ls + 1)) by lia.
      destruct (Z.leb_spec (a + 1) i) as [G|G]; cbn [andb]; [|reflexivity].
      replace (Z.to_nat (i - a)) with (S (Z.to_nat (i - (a + 1)))) by lia.
      reflexivity. }
    destruct (Z.eq_dec i a) as [->|NE].
    + assert (Hpos : 0 <= zlen ls) by (unfold zlen; lia).
      replace (a - a) with 0 by lia. change (Z.to_nat 0) with O. cbn [nth].
      replace (a - a) with 0 in Hrest by lia. change (Z.to_nat 0) with O in Hrest. cbn [nth] in Hrest.
      destruct (Z.leb_spec (a + 1) a) as [G|_]; [lia|]. cbn [andb] in Hrest.
      destruct (Z.leb_spec a a) as [_|G]; [|lia].
      destruct (Z.ltb_spec a (a + (zlen ls + 1))) as [_|G]; [|lia]. cbn [andb].
      destruct (memZ j l); cbn [count_occZ]; rewrite Hrest, ?Z.eqb_refl; reflexivity.
    + assert (Hhead : count_occZ (if memZ j l then a :: inv_row (a + 1) ls j else inv_row (a + 1) ls j) i
                      = count_occZ (inv_row (a + 1) ls j) i).
      { destruct (memZ j l); [|reflexivity]. cbn [count_occZ].
        destruct (Z.eqb_spec a i) as [E|_]; [congruence|lia]. }
      rewrite Hhead, Hrest.
      destruct (Z.leb_spec (a + 1) i) as [G|G]; destruct (Z.leb_spec a i) as [G'|G']; try lia; reflexivity.
Qed.

Theorem invert_spec : forall first n2 inv, 0 <= n2 ->
  (forall l, In l first -> nodupZ l = true) ->
  invert first n2 = Ok inv ->
  length inv = Z.to_nat n2 /\
  forall j i, 1 <= j <= n2 ->
    count_occZ (nth (Z.to_nat (j - 1)) inv []) i =
    if (1 <=? i) && (i <=? zlen first) && memZ j (nth (Z.to_nat (i - 1)) first []) then 1 else 0.
Proof.
  intros first n2 inv Hn2 _ H. unfold invert in H.
  destruct (existsb _ first); [discriminate|]. injection H as <-.
  split; [now rewrite map_length, g_seqZ_length|].
  intros j i Hj.
  rewrite (g_nth_map_seqZ (fun j => inv_row 1 first j)) by lia.
  replace (1 + Z.of_nat (Z.to_nat (j - 1))) with j by lia.
  rewrite inv_row_count.
  destruct (Z.ltb_spec i (1 + zlen first)); destruct (Z.leb_spec i (zlen first)); try lia; reflexivity.
Qed.

(* ---------- student lecturer lists ------------------------------------------ *)

Lemma mapM_In : forall {A B} (f : A -> result B) l ys, mapM f l = Ok ys ->
  forall y, In y ys <-> exists x, In x l /\ f x = Ok y.
Proof.
  intros A B f. induction l as [|x l IH]; intros ys H y.
  - cbn [mapM] in H. injection H as <-. split; [intros []|intros [x [[] _]]].
  - cbn [mapM] in H. destruct (f x) as [y0|e] eqn:Fx; [|discriminate]. cbn [bind] in H.
    destruct (mapM f l) as [ys0|e] eqn:M; [|discriminate]. cbn [bind] in H.
    injection H as <-. cbn [In]. rewrite (IH ys0 eq_refl y). split.
    + intros [E|[x' [Hx' Fx']]].
      * subst y0. exists x. split; [now left|assumption].
      * exists x'. split; [now right|assumption].
    + intros [x' [[E|Hx'] Fx']].
      * subst x'. left. congruence.
      * right. exists x'. split; assumption.
Qed.

Lemma nodupZ_filter_seqZ : forall (p : Z -> bool) n a, nodupZ (filter p (seqZ a n)) = true.
Proof.
  intros p. induction n as [|n IH]; intros a; [reflexivity|].
  cbn [seqZ filter]. destruct (p a); [|apply IH].
  cbn [nodupZ]. rewrite IH, andb_true_r. apply negb_true_iff.
  destruct (memZ a (filter p (seqZ (a + 1) n))) eqn:E; [|reflexivity].
  apply g_memZ_In in E. apply filter_In in E as [E _]. apply g_seqZ_In in E. lia.
Qed.

Theorem student_lec_list_spec : forall plec n3 prefs l,
  student_lec_list plec n3 prefs = Ok l ->
  nodupZ l = true /\
  forall k, In k l <-> (1 <= k <= n3 /\ exists p, In p prefs /\ py_nth plec (p - 1) = Ok k).
Proof.
  intros plec n3 prefs l H. unfold student_lec_list in H.
  destruct (mapM (fun p => py_nth plec (p - 1)) prefs) as [lecs|e] eqn:M; [|discriminate].
  cbn [bind] in H.
  destruct (existsb _ lecs); [discriminate|]. injection H as <-.
  split; [apply nodupZ_filter_seqZ|].
  intros k. rewrite filter_In, g_seqZ_In, g_memZ_In.
  rewrite (mapM_In _ prefs lecs M k).
  split.
  - intros [A B]. split; [lia|exact B].
  - intros [A B]. split; [lia|exact B].
Qed.

(* ---------- tie probability 0 and 1 ------------------------------------------ *)

Lemma no_ties_gen : forall l ties ts,
  write_from false l ties = Ok ts -> (forall t, In t ties -> t = false) -> ts = map TPlain l.
Proof.
  induction l as [|x l IH]; intros ties ts H Hf.
  - cbn [write_from] in H. injection H as <-. reflexivity.
  - destruct ties as [|t ties]; [discriminate|].
    assert (Ht : t = false) by (apply Hf; now left). subst t.
    assert (Hf' : forall t, In t ties -> t = false) by (intros t Ht; apply Hf; now right).
    destruct l as [|y l'].
    + rewrite write_from_last in H. injection H as <-. reflexivity.
    + rewrite write_from_more in H. cbn [negb andb] in H.
      destruct (write_from false (y :: l') ties) as [r|e] eqn:E; [|discriminate].
      cbn [bind] in H. injection H as <-.
      rewrite (IH ties r E Hf'). reflexivity.
Qed.

Theorem no_ties_no_parens : forall l ties ts,
  write l ties = Ok ts -> (forall t, In t ties -> t = false) -> ts = map TPlain l.
Proof. intros l ties ts H Hf. now apply (no_ties_gen l ties ts). Qed.

Lemma runs_all_true : forall l ties, l <> [] -> length ties = length l ->
  (forall t, In t ties -> t = true) -> runs l ties = [l].
Proof.
  induction l as [|x l IH]; intros ties Hne Hlen Ht; [contradiction|].
  destruct ties as [|t ties]; [discriminate|].
  cbn [length] in Hlen. injection Hlen as Hlen.
  destruct l as [|y l'].
  - reflexivity.
  - assert (E : t = true) by (apply Ht; now left). subst t.
    rewrite runs_more.
    rewrite (IH ties); [reflexivity|discriminate|exact Hlen|].
    intros t Hin. apply Ht. now right.
Qed.

Theorem all_ties_one_group : forall l ties ts,
  write l ties = Ok ts -> (2 <= length l)%nat -> length ties = length l -> (forall t, In t ties -> t = true) ->
  groups ts = Some [l].
Proof.
  intros l ties ts H Hl Hlen Ht.
  rewrite (groups_write l ties ts H).
  rewrite runs_all_true; [reflexivity| |exact Hlen|exact Ht].
  intro E. subst l. cbn [length] in Hl. lia.
Qed.

Print Assumptions quotas_spec.
Print Assumptions quotas_total.
Print Assumptions quotas_monotone.
Print Assumptions project_lecturers_spec.
Print Assumptions invert_spec.
Print Assumptions student_lec_list_spec.
Print Assumptions no_ties_no_parens.
Print Assumptions all_ties_one_group.
