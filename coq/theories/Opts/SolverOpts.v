(* Model of options_parser: _get_optimisation_tuples, _get_and_check_orderings,
   _get_ordered_optimisations, _stability_requirements_check.  argparse itself (flag order
   independence, int conversion, nargs) is trusted.  No proofs here. *)
From MP Require Export LP.Build.
Local Open Scope list_scope.
Open Scope Z_scope.

(* the namespace: one entry per criterion in the order of _get_optimisation_tuples; an entry is absent or
   carries the position followed by the extra arguments (none for the four scalar options) *)
Definition crit_order : list crit :=
  [MaxSize; MinSize; Generous; Greedy; MinCost; MinSqCost; LoadMaxBal; LoadSumBal; MinCostLsb].

Definition ns := list (option (list Z)).

Record entry := mkEntry { e_crit : crit; e_pos : Z; e_extras : list Z }.

Fixpoint entries_of (cs : list crit) (n : ns) : list entry :=
  match cs, n with
  | c :: cs', Some (p :: ex) :: n' => mkEntry c p ex :: entries_of cs' n'
  | _ :: cs', _ :: n' => entries_of cs' n'
  | _, _ => []
  end.
Definition entries (n : ns) : list entry := entries_of crit_order n.

Definition nslots : nat := 9.

Fixpoint set_slot {A} (l : list A) (i : nat) (v : A) : list A :=
  match l, i with
  | [], _ => []
  | _ :: t, O => v :: t
  | x :: t, S k => x :: set_slot t k v
  end.

(* ordered_opts[position - 1] = (opt, extras) in tuple order: a later criterion overwrites an earlier one *)
Definition place (slots : list (option entry)) (e : entry) : list (option entry) :=
  set_slot slots (Z.to_nat (e_pos e - 1)) (Some e).

Definition compact {A} (l : list (option A)) : list A :=
  flat_map (fun o => match o with Some x => [x] | None => [] end) l.

Definition in_range (e : entry) : bool := (1 <=? e_pos e) && (e_pos e <=? Z.of_nat nslots).

Definition parse_ns (n : ns) (twopl stab : bool) : result (list (crit * list Z)) :=
  let es := entries n in
  if negb (forallb in_range es) then Crash SystemExit2
  else
    let ordered := compact (fold_left place es (repeat None nslots)) in
    if negb (Nat.eqb (length ordered) (length es)) then Crash SystemExit2
    else if stab && negb twopl then Crash SystemExit2
    else Ok (map (fun e => (e_crit e, e_extras e)) ordered).

(* ---- specification side --------------------------------------------------- *)

(* the requested criteria in increasing order of position *)
Definition by_position (es : list entry) : list entry :=
  flat_map (fun k => filter (fun e => e_pos e =? k) es) (seqZ 1 nslots).

Fixpoint distinct_pos (es : list entry) : bool :=
  match es with
  | [] => true
  | e :: t => negb (existsb (fun e' => e_pos e' =? e_pos e) t) && distinct_pos t
  end.

Definition acceptable_ns (n : ns) (twopl stab : bool) : bool :=
  forallb in_range (entries n) && distinct_pos (entries n) && (negb stab || twopl).

Definition parse_spec (n : ns) (twopl stab : bool) : result (list (crit * list Z)) :=
  if acceptable_ns n twopl stab
  then Ok (map (fun e => (e_crit e, e_extras e)) (by_position (entries n)))
  else Crash SystemExit2.
