(* The SPA-STL instance the solver works on (matchingproblems.solver.model.Model after import_model),
   its derived lists, and the executable well-formedness predicate.  No proofs here. *)
From MP Require Export Base.PyStr.
Open Scope Z_scope.

(* Pair: one entry of a student's preference list. ids are 1-based, as printed.
   [rl] = rank_lecturer, absent (attribute missing) for one-sided files. *)
Record pair := mkPair { st : Z; pr : Z; rs : Z; lec : Z; rl : option Z }.

Record instance := mkInst {
  nS : Z; nP : Z; nL : Z;
  p_lq : list Z; p_uq : list Z; p_lec : list Z;       (* proj_lower_quotas, proj_upper_quotas, proj_lecturers *)
  l_lq : list Z; l_tg : list Z; l_uq : list Z;        (* lec_lower_quotas, lec_targets, lec_upper_quotas *)
  pairs : list (list pair) }.

Definition pair_eqb (a b : pair) : bool :=
  (st a =? st b) && (pr a =? pr b) && (rs a =? rs b) && (lec a =? lec b) && option_eqb Z.eqb (rl a) (rl b).

Definition zl_eqb := list_eqb Z.eqb.

Definition instance_eqb (a b : instance) : bool :=
  (nS a =? nS b) && (nP a =? nP b) && (nL a =? nL b) &&
  zl_eqb (p_lq a) (p_lq b) && zl_eqb (p_uq a) (p_uq b) && zl_eqb (p_lec a) (p_lec b) &&
  zl_eqb (l_lq a) (l_lq b) && zl_eqb (l_tg a) (l_tg b) && zl_eqb (l_uq a) (l_uq b) &&
  list_eqb (list_eqb pair_eqb) (pairs a) (pairs b).

Definition all_pairs (I : instance) : list pair := concat (pairs I).

(* set_project_lists / set_lecturer_lists / set_rank_lists: appending in row-major order into the slot of
   the project / lecturer / rank is a stable filter of the flattened pairs *)
Definition project_list (I : instance) (j : Z) : list pair := filter (fun q => pr q =? j) (all_pairs I).
Definition lecturer_list (I : instance) (k : Z) : list pair := filter (fun q => lec q =? k) (all_pairs I).
Definition rank_list (I : instance) (r : Z) : list pair := filter (fun q => rs q =? r) (all_pairs I).

Definition max_rank (I : instance) : Z := fold_left (fun m q => if m <? rs q then rs q else m) (all_pairs I) 0.

Definition project_lists (I : instance) : list (list pair) := map (project_list I) (seqZ 1 (Z.to_nat (nP I))).
Definition lecturer_lists (I : instance) : list (list pair) := map (lecturer_list I) (seqZ 1 (Z.to_nat (nL I))).
Definition rank_lists (I : instance) : list (list pair) := map (rank_list I) (seqZ 1 (Z.to_nat (max_rank I))).

Definition two_sided (I : instance) : bool := forallb (fun q => match rl q with Some _ => true | None => false end) (all_pairs I).
Definition one_sided (I : instance) : bool := forallb (fun q => match rl q with Some _ => false | None => true end) (all_pairs I).

(* ---- well-formedness ---------------------------------------------------- *)

(* ranks of one list: start at 1, each step +0 or +1 *)
Fixpoint dense_from (r : Z) (l : list Z) : bool :=
  match l with
  | [] => true
  | x :: t => ((x =? r) || (x =? r + 1)) && dense_from x t
  end.
Definition dense_ranks (l : list Z) : bool :=
  match l with [] => true | x :: t => (x =? 1) && dense_from 1 t end.

Definition row_ok (I : instance) (i : Z) (row : list pair) : bool :=
  forallb (fun q => (st q =? i) && (1 <=? pr q) && (pr q <=? nP I) &&
                    (lec q =? nth1 (p_lec I) (pr q) 0)) row &&
  nodupZ (map pr row) && dense_ranks (map rs row).

Fixpoint rows_ok (I : instance) (i : Z) (rows : list (list pair)) : bool :=
  match rows with
  | [] => true
  | r :: t => row_ok I i r && rows_ok I (i + 1) t
  end.

Fixpoint all2Z (f : Z -> Z -> bool) (a b : list Z) : bool :=
  match a, b with
  | [], [] => true
  | x :: a', y :: b' => f x y && all2Z f a' b'
  | _, _ => false
  end.

(* a lecturer's ranks of the students come from one (tied) list over distinct students: for one lecturer
   the same student always has the same rank, and a rank is a position class in a list of at most nS
   students, so 1 <= rank <= nS.  (Density is not required: a lecturer may list students that rank none of
   its projects.) *)
Definition lec_ranks_ok (I : instance) (k : Z) : bool :=
  let lp := lecturer_list I k in
  forallb (fun a => forallb (fun b => negb (st a =? st b) || option_eqb Z.eqb (rl a) (rl b)) lp) lp &&
  forallb (fun a => match rl a with
                    | Some r => (1 <=? r) && (r <=? nS I)
                    | None => true end) lp.

Definition wf (I : instance) : bool :=
  (1 <=? nS I) && (1 <=? nP I) && (1 <=? nL I) &&
  (zlen (pairs I) =? nS I) &&
  (zlen (p_lq I) =? nP I) && (zlen (p_uq I) =? nP I) && (zlen (p_lec I) =? nP I) &&
  (zlen (l_lq I) =? nL I) && (zlen (l_tg I) =? nL I) && (zlen (l_uq I) =? nL I) &&
  forallb (fun k => (1 <=? k) && (k <=? nL I)) (p_lec I) &&
  all2Z (fun a b => (0 <=? a) && (a <=? b)) (p_lq I) (p_uq I) &&
  all2Z (fun a b => (0 <=? a) && (a <=? b)) (l_lq I) (l_tg I) &&
  all2Z (fun a b => a <=? b) (l_tg I) (l_uq I) &&
  rows_ok I 1 (pairs I) &&
  (two_sided I || one_sided I) &&
  forallb (lec_ranks_ok I) (seqZ 1 (Z.to_nat (nL I))).
