(* Model of generator_shared.create_string_pref (writer) and
   fileIO._get_simple_pref_list_and_ranks (reader).  No proofs here. *)
From MP Require Export Base.PyStr.
Open Scope Z_scope.

(* A token of a preference list: "(n", "n)" or "n". *)
Inductive tok := TOpen (n : Z) | TClose (n : Z) | TPlain (n : Z).

Definition tok_eqb (a b : tok) : bool :=
  match a, b with
  | TOpen x, TOpen y | TClose x, TClose y | TPlain x, TPlain y => x =? y
  | _, _ => false
  end.

Definition tok_num (t : tok) : Z := match t with TOpen n | TClose n | TPlain n => n end.

(* ---- writer ----------------------------------------------------------
   for i in range(len(pref_list)):
       if not in_tie and ties[i] and i < len-1:  '(' + str ; in_tie = True
       elif in_tie and not ties[i]:              str + ')' ; in_tie = False
       elif i == len-1 and in_tie:               str + ')'
       else:                                     str
   [ties] shorter than the list raises IndexError at the first missing index
   (python evaluates ties[i] only when the preceding conjunct lets it). *)
Fixpoint write_from (in_tie : bool) (l : list Z) (ties : list bool) : result (list tok) :=
  match l with
  | [] => Ok []
  | x :: l' =>
      let last := match l' with [] => true | _ => false end in
      match ties with
      | [] => Crash IndexError
      | t :: ties' =>
          if negb in_tie && t && negb last then
            do r <- write_from true l' ties'; Ok (TOpen x :: r)
          else if in_tie && negb t then
            do r <- write_from false l' ties'; Ok (TClose x :: r)
          else if last && in_tie then
            do r <- write_from in_tie l' ties'; Ok (TClose x :: r)
          else
            do r <- write_from in_tie l' ties'; Ok (TPlain x :: r)
      end
  end.
Definition write (l : list Z) (ties : list bool) : result (list tok) := write_from false l ties.

Definition render_tok (t : tok) : string :=
  match t with
  | TOpen n => String "("%char (str_of_Z n)
  | TClose n => (str_of_Z n ++ ")")%string
  | TPlain n => str_of_Z n
  end.

Definition write_strings (l : list Z) (ties : list bool) : result (list string) :=
  do ts <- write l ties; Ok (map render_tok ts).

(* ---- reader ----------------------------------------------------------
   if '(' in t: n = int(t.replace('(','')); rank kept; in_tie = True
   elif ')' in t: n = int(t.replace(')','')); rank kept then rank+=1; in_tie = False
   else: n = int(t); rank kept; if not in_tie: rank += 1 *)
Definition lex_tok (s : string) : result tok :=
  if contains_char "("%char s then
    do n <- int_of_str (remove_char "("%char s); Ok (TOpen n)
  else if contains_char ")"%char s then
    do n <- int_of_str (remove_char ")"%char s); Ok (TClose n)
  else do n <- int_of_str s; Ok (TPlain n).

Fixpoint read_from (rank : Z) (in_tie : bool) (ts : list tok) : list (Z * Z) :=
  match ts with
  | [] => []
  | TOpen n :: r => (n, rank) :: read_from rank true r
  | TClose n :: r => (n, rank) :: read_from (rank + 1) false r
  | TPlain n :: r => (n, rank) :: read_from (if in_tie then rank else rank + 1) in_tie r
  end.
Definition read (ts : list tok) : list (Z * Z) := read_from 1 false ts.

(* the whole python function on strings: crashes with ValueError at the first bad token *)
Definition read_strings (ss : list string) : result (list Z * list Z) :=
  do ts <- mapM lex_tok ss;
  let r := read ts in Ok (map fst r, map snd r).

(* ---- specification side ----------------------------------------------- *)

(* dense ranks: r_0 = 1, r_{i+1} = r_i + (if tied(i) then 0 else 1); a decision on the last entry
   has no effect because there is no r_n *)
Fixpoint ranks_from (r : Z) (l : list Z) (ties : list bool) : list Z :=
  match l with
  | [] => []
  | _ :: l' =>
      match ties with
      | [] => r :: ranks_from (r + 1) l' []
      | t :: ties' => r :: ranks_from (if t then r else r + 1) l' ties'
      end
  end.
Definition ranks_of (l : list Z) (ties : list bool) : list Z := ranks_from 1 l ties.

(* maximal runs of tied entries: the declarative reading of "entry i is tied with entry i+1" *)
Fixpoint runs (l : list Z) (ties : list bool) : list (list Z) :=
  match l with
  | [] => []
  | x :: l' =>
      match l', ties with
      | [], _ => [[x]]
      | _, t :: ties' =>
          if t then match runs l' ties' with
                    | g :: gs => (x :: g) :: gs
                    | [] => [[x]]
                    end
          else [x] :: runs l' ties'
      | _, [] => [x] :: runs l' []
      end
  end.

(* grouping denoted by a token list: Some groups iff parentheses are balanced, non-nested and
   every parenthesised group has at least two entries *)
Fixpoint groups_from (open : option (list Z)) (ts : list tok) : option (list (list Z)) :=
  match ts with
  | [] => match open with None => Some [] | Some _ => None end
  | TPlain n :: r =>
      match open with
      | None => option_map (cons [n]) (groups_from None r)
      | Some g => groups_from (Some (g ++ [n])) r
      end
  | TOpen n :: r =>
      match open with
      | None => groups_from (Some [n]) r
      | Some _ => None
      end
  | TClose n :: r =>
      match open with
      | None => None
      | Some g => option_map (cons (g ++ [n])) (groups_from None r)
      end
  end.
Definition groups (ts : list tok) : option (list (list Z)) := groups_from None ts.
