(* The documented instance-file format with arbitrary blank/tab layout: every token line of [ast_lines] is
   written with any run of blanks/tabs before the first token, between tokens and after the last token;
   the trailing information block and the final newline are optional.  No proofs here. *)
From MP Require Export Text.Render.
Local Open Scope string_scope. Local Open Scope list_scope. Open Scope Z_scope.

Definition blank_char (c : ascii) : bool := Ascii.eqb c " "%char || Ascii.eqb c "009"%char.   (* space or tab *)
Fixpoint all_blank (s : string) : bool :=
  match s with EmptyString => true | String a t => blank_char a && all_blank t end.
Definition sep_ok (s : string) : bool := all_blank s && negb (String.eqb s "").  (* a non-empty run of blanks/tabs *)

(* the layout of one line: blanks before the first token, one separator per gap, blanks after the last token *)
Record layout := mkLayout { ly_lead : string; ly_seps : list string; ly_trail : string }.
Definition layout_ok (ly : layout) (ntoks : nat) : bool :=
  all_blank (ly_lead ly) && all_blank (ly_trail ly) && forallb sep_ok (ly_seps ly) &&
  Nat.eqb (length (ly_seps ly)) (Nat.pred ntoks).

Fixpoint ws_join (seps : list string) (toks : list string) : string :=
  match toks with
  | [] => ""
  | [t] => t
  | t :: rest => t +++ hd " " seps +++ ws_join (tl seps) rest
  end.
Definition layout_line (ly : layout) (toks : list string) : string :=
  ly_lead ly +++ ws_join (ly_seps ly) toks +++ ly_trail ly.

(* the i-th token line written with the i-th layout *)
Definition ws_lines (na : Z) (A : file_ast) (lys : list layout) : list string :=
  map (fun p => layout_line (fst p) (snd p)) (combine lys (ast_lines na A)).

(* the file: the laid-out token lines, then the trailer lines, separated by "\n"; the newline after the very
   last line is present iff [final_nl] (with [final_nl = true] every line is followed by "\n", as in [render]). *)
Definition render_ws (na : Z) (A : file_ast) (lys : list layout) (trailer : list string) (final_nl : bool) : string :=
  join (String nl "") (ws_lines na A lys ++ trailer) +++ (if final_nl then String nl "" else "").
