(* The documented instance-file format, generatively: an abstract file, the token lines it is written
   as, and the instance it denotes.  No proofs here. *)
From MP Require Export Text.Import.
Local Open Scope string_scope.
Local Open Scope list_scope.
Open Scope Z_scope.

(* a preference list is a list of tie groups (each non-empty) *)
Definition plist := list (list Z).

Record file_ast := mkAst {
  f_n1 : Z; f_n2 : Z; f_n3 : Z;
  f_first : list plist;                       (* one list per first-side agent *)
  f_second : list (Z * Z * Z);                (* per second-side agent: lower quota, upper quota, lecturer (3-agent only) *)
  f_second_lists : list plist;                (* 2-agent: per hospital its list (possibly empty) *)
  f_third : list (Z * Z * Z * plist) }.       (* 3-agent: per lecturer lower, target, upper, list *)

(* tokens of a tie group: "(a" "b" ... "z)" for two or more entries, "a" for one *)
Definition group_tokens (g : list Z) : list string :=
  match g with
  | [] => []
  | [a] => [str_of_Z a]
  | a :: rest => String "("%char (str_of_Z a) ::
                 map str_of_Z (removelast rest) ++ [str_of_Z (last rest 0) +++ ")"]
  end.
Definition plist_tokens (l : plist) : list string := flat_map group_tokens l.

Definition label (n : Z) : string := str_of_Z n +++ ":".

Fixpoint numbered {A} (f : Z -> A -> list string) (i : Z) (l : list A) : list (list string) :=
  match l with
  | [] => []
  | x :: t => f i x :: numbered f (i + 1) t
  end.

(* the token lines of the file; the trailing information block is any further lines *)
Definition ast_lines (na : Z) (A : file_ast) : list (list string) :=
  [ [str_of_Z (f_n1 A); str_of_Z (f_n2 A)] ++ (if na =? 3 then [str_of_Z (f_n3 A)] else []) ] ++
  numbered (fun i l => label i :: plist_tokens l) 1 (f_first A) ++
  (if na =? 3
   then numbered (fun j q => [label j; label (fst (fst q)); label (snd (fst q)); str_of_Z (snd q)]) 1 (f_second A) ++
        numbered (fun k q => let '(lq, tg, uq, l) := q in
                             [label k; label lq; label tg; label uq] ++ plist_tokens l) 1 (f_third A)
   else numbered (fun j ql => [label j; label (fst (fst (fst ql))); label (snd (fst (fst ql)))] ++ plist_tokens (snd ql)) 1
                 (combine (f_second A) (f_second_lists A))).

(* single-blank rendering of the token lines (the correspondence also exercises arbitrary blank runs) *)
Definition render (na : Z) (A : file_ast) (trailer : list string) : string :=
  concat_str (map (fun l => l +++ String nl "") (map (join " ") (ast_lines na A) ++ trailer)).

(* ---- the instance a file denotes ------------------------------------------------- *)

(* ranks by tie group, dense from 1 *)
Fixpoint ranked_from (r : Z) (l : plist) : list (Z * Z) :=
  match l with
  | [] => []
  | g :: t => map (fun x => (x, r)) g ++ ranked_from (r + 1) t
  end.
Definition ranked (l : plist) : list (Z * Z) := ranked_from 1 l.

Definition lec_of (na : Z) (A : file_ast) (p : Z) : Z :=
  if na =? 3 then snd (nth (Z.to_nat (p - 1)) (f_second A) (0, 0, 0)) else p.

Definition second_list_of (na : Z) (A : file_ast) (k : Z) : plist :=
  if na =? 3 then snd (nth (Z.to_nat (k - 1)) (f_third A) (0, 0, 0, []))
  else nth (Z.to_nat (k - 1)) (f_second_lists A) [].

(* rank of student s in lecturer k's list; the last occurrence wins, as in the dictionary update *)
Definition lec_rank (na : Z) (A : file_ast) (k s : Z) : option Z :=
  match find (fun xr => fst xr =? s) (rev (ranked (second_list_of na A k))) with
  | Some xr => Some (snd xr)
  | None => None
  end.

Definition denote_row (na : Z) (twopl : bool) (A : file_ast) (i : Z) (l : plist) : list pair :=
  map (fun pr => let k := lec_of na A (fst pr) in
                 mkPair i (fst pr) (snd pr) k (if twopl then lec_rank na A k i else None)) (ranked l).

Fixpoint denote_rows (na : Z) (twopl : bool) (A : file_ast) (i : Z) (ls : list plist) : list (list pair) :=
  match ls with
  | [] => []
  | l :: t => denote_row na twopl A i l :: denote_rows na twopl A (i + 1) t
  end.

Definition denote (na : Z) (twopl : bool) (A : file_ast) : instance :=
  let lqs := map (fun q => fst (fst q)) (f_second A) in
  let uqs := map (fun q => snd (fst q)) (f_second A) in
  if na =? 3 then
    mkInst (f_n1 A) (f_n2 A) (f_n3 A) lqs uqs (map snd (f_second A))
           (map (fun q => fst (fst (fst q))) (f_third A)) (map (fun q => snd (fst (fst q))) (f_third A))
           (map (fun q => snd (fst q)) (f_third A))
           (denote_rows na twopl A 1 (f_first A))
  else
    (* each hospital is one project of its own lecturer with the same quotas and target = upper quota *)
    mkInst (f_n1 A) (f_n2 A) (f_n2 A) lqs uqs (seqZ 1 (length (f_second A))) lqs uqs uqs
           (denote_rows na twopl A 1 (f_first A)).

(* well-formed abstract file: counts agree with the sections, groups non-empty, every listed project exists
   and its lecturer exists, and with -twopl every student is ranked by the lecturers of its projects *)
Definition wf_ast (na : Z) (twopl : bool) (A : file_ast) : bool :=
  ((na =? 2) || (na =? 3)) &&
  (zlen (f_first A) =? f_n1 A) && (zlen (f_second A) =? f_n2 A) &&
  (if na =? 3 then zlen (f_third A) =? f_n3 A else zlen (f_second_lists A) =? f_n2 A) &&
  (0 <=? f_n1 A) && (0 <=? f_n2 A) && (0 <=? f_n3 A) &&
  forallb (fun l => forallb (fun g => negb (Nat.eqb (length g) 0)) l)
          (f_first A ++ f_second_lists A ++ map snd (f_third A)) &&
  forallb (fun l => forallb (fun g => forallb (fun p => (1 <=? p) && (p <=? f_n2 A)) g) l) (f_first A) &&
  (if na =? 3 then forallb (fun q => (1 <=? snd q) && (snd q <=? f_n3 A)) (f_second A) else true) &&
  (negb twopl ||
   forallb (fun il => forallb (fun g => forallb (fun p =>
     match lec_rank na A (lec_of na A p) (fst il) with Some _ => true | None => false end) g) (snd il))
     (combine (seqZ 1 (length (f_first A))) (f_first A))).
