(* The documented instance-file format with numbers written with leading zeros ("007:", "(03", "12)") on top of
   the arbitrary blank/tab layout of Text/RenderWs.v.  Python's int() and the modelled int_of_str ignore leading
   zeros.  No proofs here. *)
From MP Require Export Text.RenderWs.
Local Open Scope string_scope. Local Open Scope list_scope. Open Scope Z_scope.

Fixpoint zeros (k : nat) : string := match k with O => "" | S k' => String "0" (zeros k') end.

(* k zeros in front of the digits of one token of [ast_lines]: tokens are digits, optionally preceded by "(" and
   optionally followed by ")" or ":" *)
Definition pad_token (k : nat) (t : string) : string :=
  match t with
  | String "(" rest => String "(" (zeros k +++ rest)
  | _ => zeros k +++ t
  end.

Fixpoint pad_line (ks : list nat) (toks : list string) : list string :=
  match ks, toks with
  | k :: ks', t :: toks' => pad_token k t :: pad_line ks' toks'
  | _, _ => toks
  end.

Fixpoint pad_lines (pads : list (list nat)) (lines : list (list string)) : list (list string) :=
  match pads, lines with
  | ks :: pads', l :: lines' => pad_line ks l :: pad_lines pads' lines'
  | _, _ => lines
  end.

(* the file: every token of every token line padded with its own number of zeros, laid out with its own blanks *)
Definition render_pad (na : Z) (A : file_ast) (pads : list (list nat)) (lys : list layout) (trailer : list string)
           (final_nl : bool) : string :=
  join (String nl "")
       (map (fun p => layout_line (fst p) (snd p)) (combine lys (pad_lines pads (ast_lines na A))) ++ trailer)
  +++ (if final_nl then String nl "" else "").
