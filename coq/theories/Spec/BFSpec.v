(* What brute-force mode must print: exact optima over all valid matchings, from the definitions. *)
From MP Require Export Spec.Matching BF.BruteForce.
Local Open Scope string_scope.
Open Scope Z_scope.

Fixpoint lex_lt (a b : list Z) : bool :=
  match a, b with
  | x :: a', y :: b' => (x <? y) || ((x =? y) && lex_lt a' b')
  | [], _ :: _ => true
  | _, _ => false
  end.

(* keep the best element of a non-empty list under a strict "better" test *)
Definition best {A} (better : A -> A -> bool) (d : A) (l : list A) : A :=
  fold_left (fun acc x => if better x acc then x else acc) l d.

Definition minZ_of (l : list Z) (d : Z) : Z := best Z.ltb d l.
Definition maxZ_of (l : list Z) (d : Z) : Z := best (fun x y => y <? x) d l.

Definition more_greedy (p q : list Z) : bool := lex_lt q p.
Definition more_generous (p q : list Z) : bool := lex_lt (rev p) (rev q).

Definition bf_spec (pc : bool) (I : instance) : option bf_acc :=
  match all_valid pc I with
  | [] => None
  | m0 :: rest =>
      let V := m0 :: rest in
      let smax := maxZ_of (map size rest) (size m0) in
      match filter (fun m => size m =? smax) V with
      | [] => None
      | v0 :: vrest =>
          let cost m := (cost_s I m, cost_l I m) in
          let costsq m := (costsq_s I m, costsq_l I m) in
          Some (mkBF smax
                     (best tup_lt (cost v0) (map cost vrest))
                     (minZ_of (map (degree I) vrest) (degree I v0))
                     (best tup_lt (costsq v0) (map costsq vrest))
                     (best more_generous (profile I v0) (map (profile I) vrest))
                     (best more_greedy (profile I v0) (map (profile I) vrest))
                     (best more_greedy (profile I m0) (map (profile I) rest))
                     (minZ_of (map (max_abs_diff I) rest) (max_abs_diff I m0))
                     (minZ_of (map (sum_abs_diff I) rest) (sum_abs_diff I m0)))
      end
  end.

Definition bf_spec_text (pc : bool) (I : instance) : string :=
  match bf_spec pc I with
  | None => bf_results_text (mkBF (-1) (0, 0) 0 (0, 0) [] [] [] 0 0)
  | Some a => bf_results_text a
  end.
