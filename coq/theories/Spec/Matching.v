(* Declarative specification side: matchings, validity and measures, stated directly over
   (instance, matching vector).  A matching is the printed 'matching:' line: the project of student i
   at position i (1-based), 0 = unassigned.  No proofs here. *)
From MP Require Export Inst.Instance.
Open Scope Z_scope.

Definition matching := list Z.

Definition find_pair (row : list pair) (p : Z) : option pair := find (fun q => pr q =? p) row.

(* the pairs a matching vector denotes, in student order; students assigned a project that is not on
   their list contribute nothing (such a vector is not valid) *)
Fixpoint matched_rows (rows : list (list pair)) (m : matching) : list pair :=
  match rows, m with
  | row :: rows', p :: m' =>
      match (if p =? 0 then None else find_pair row p) with
      | Some q => q :: matched_rows rows' m'
      | None => matched_rows rows' m'
      end
  | _, _ => []
  end.
Definition matched (I : instance) (m : matching) : list pair := matched_rows (pairs I) m.

Definition countb {A} (f : A -> bool) (l : list A) : Z := zlen (filter f l).

Definition size (m : matching) : Z := countb (fun p => negb (p =? 0)) m.

Definition rl0 (q : pair) : Z := match rl q with Some r => r | None => 0 end.

Definition cost_s (I : instance) (m : matching) : Z := sumZ (map rs (matched I m)).
Definition cost_l (I : instance) (m : matching) : Z := sumZ (map rl0 (matched I m)).
Definition costsq_s (I : instance) (m : matching) : Z := sumZ (map (fun q => rs q * rs q) (matched I m)).
Definition costsq_l (I : instance) (m : matching) : Z := sumZ (map (fun q => rl0 q * rl0 q) (matched I m)).
Definition degree (I : instance) (m : matching) : Z := fold_right Z.max 0 (map rs (matched I m)).
Definition count_at_rank (I : instance) (m : matching) (r : Z) : Z := countb (fun q => rs q =? r) (matched I m).
Definition profile (I : instance) (m : matching) : list Z :=
  map (count_at_rank I m) (seqZ 1 (Z.to_nat (max_rank I))).

Definition proj_load (I : instance) (m : matching) (j : Z) : Z := countb (fun q => pr q =? j) (matched I m).
Definition lec_load (I : instance) (m : matching) (k : Z) : Z := countb (fun q => lec q =? k) (matched I m).

Definition lec_abs_diff (I : instance) (m : matching) (k : Z) : Z := Z.abs (lec_load I m k - nth1 (l_tg I) k 0).
Definition lec_ids (I : instance) : list Z := seqZ 1 (Z.to_nat (nL I)).
Definition proj_ids (I : instance) : list Z := seqZ 1 (Z.to_nat (nP I)).
Definition max_abs_diff (I : instance) (m : matching) : Z := fold_right Z.max 0 (map (lec_abs_diff I m) (lec_ids I)).
Definition sum_abs_diff (I : instance) (m : matching) : Z := sumZ (map (lec_abs_diff I m) (lec_ids I)).

(* ---- validity ----------------------------------------------------------- *)

Fixpoint acceptable_rows (rows : list (list pair)) (m : matching) : bool :=
  match rows, m with
  | [], [] => true
  | row :: rows', p :: m' => ((p =? 0) || existsb (fun q => pr q =? p) row) && acceptable_rows rows' m'
  | _, _ => false
  end.

Definition proj_ok (pc : bool) (I : instance) (m : matching) (j : Z) : bool :=
  let n := proj_load I m j in
  ((nth1 (p_lq I) j 0 <=? n) && (n <=? nth1 (p_uq I) j 0)) || (pc && (n =? 0)).

Definition lec_ok (I : instance) (m : matching) (k : Z) : bool :=
  let n := lec_load I m k in (nth1 (l_lq I) k 0 <=? n) && (n <=? nth1 (l_uq I) k 0).

(* every student at most one project (by construction of the vector), only an acceptable one;
   project loads within quotas (or zero when closures are enabled); lecturer loads within quotas *)
Definition valid_b (pc : bool) (I : instance) (m : matching) : bool :=
  acceptable_rows (pairs I) m &&
  forallb (proj_ok pc I m) (proj_ids I) &&
  forallb (lec_ok I m) (lec_ids I).

Definition valid (pc : bool) (I : instance) (m : matching) : Prop := valid_b pc I m = true.

(* ---- enumeration of all candidate vectors (used by executable optimum specifications) ---- *)

Fixpoint all_vectors (rows : list (list pair)) : list matching :=
  match rows with
  | [] => [[]]
  | row :: rows' =>
      let rest := all_vectors rows' in
      flat_map (fun p => map (cons p) rest) (0 :: map pr row)
  end.

Definition all_valid (pc : bool) (I : instance) : list matching :=
  filter (valid_b pc I) (all_vectors (pairs I)).
