(* What the statistics block must say, computed from the instance and the printed matching line alone. *)
From MP Require Export Spec.Stability Run.Results.
Local Open Scope string_scope.
Open Scope Z_scope.

Definition students_of (I : instance) : list Z := seqZ 1 (Z.to_nat (nS I)).

Definition spec_student_lines (I : instance) (m : matching) : string :=
  concat_str (map (fun i =>
    match assigned_pair I m i with
    | Some q => "s_" ++ sZ i ++ ": p_" ++ sZ (pr q) ++ " (l_" ++ sZ (lec q) ++ ") " ++ NL
    | None => "s_" ++ sZ i ++ " no assignment" ++ NL
    end) (students_of I)).

Definition spec_project_lines (I : instance) (m : matching) : string :=
  concat_str (map (fun j =>
    let studs := filter (fun i => match assigned_pair I m i with Some q => pr q =? j | None => false end) (students_of I) in
    "p_" ++ sZ j ++ " (l_" ++ sZ (nth1 (p_lec I) j 0) ++ "): " ++
    (match studs with [] => "no assignment " | _ => concat_str (map (fun i => "s_" ++ sZ i ++ " ") studs) end) ++
    "    " ++ sZ (zlen studs) ++ "/" ++ sZ (nth1 (p_uq I) j 0) ++ NL) (proj_ids I)).

Definition spec_lecturer_lines (I : instance) (m : matching) : string :=
  concat_str (map (fun k =>
    let studs := filter (fun i => match assigned_pair I m i with Some q => lec q =? k | None => false end) (students_of I) in
    "l_" ++ sZ k ++ ": " ++
    (match studs with
     | [] => "no assignment "
     | _ => concat_str (map (fun i => "s_" ++ sZ i ++ " (p_" ++ sZ (nth1 m i 0) ++ ") ") studs)
     end) ++
    "    " ++ sZ (zlen studs) ++ "/" ++ sZ (nth1 (l_uq I) k 0) ++ " (" ++ sZ (nth1 (l_tg I) k 0) ++ ")" ++ NL)
    (lec_ids I)).

Definition spec_values (I : instance) (m : matching) : stat_values :=
  mkStats m (size m) (cost_s I m, cost_l I m) (costsq_s I m, costsq_l I m) (degree I m) (profile I m)
          (max_abs_diff I m) (sum_abs_diff I m)
          (spec_student_lines I m) (spec_project_lines I m) (spec_lecturer_lines I m).

Definition spec_stats_text (I : instance) (m : matching) (long : bool) : string :=
  stats_template (spec_values I m) long.
