(* C12 at the level of the written file: what "second-side lists rank exactly the agents that find them acceptable"
   means for an abstract instance file (Text/Render.v).  No proofs here. *)
From MP Require Export Text.Render.
From Coq Require Import List.
Local Open Scope list_scope. Open Scope Z_scope.

(* the preference list of first-side agent s *)
Definition first_list_of (A : file_ast) (s : Z) : plist := nth (Z.to_nat (s - 1)) (f_first A) [].

(* who offers project / hospital j: in a 2-agent file the hospital itself, in a 3-agent file the lecturer named
   on the project line *)
Definition project_lecturer (na : Z) (A : file_ast) (j : Z) : Z :=
  if na =? 3 then snd (nth (Z.to_nat (j - 1)) (f_second A) (0, 0, 0)) else j.

(* first-side agent s lists second-side agent k (2-agent), or at least one project that lecturer k offers (3-agent) *)
Definition finds_acceptable (na : Z) (A : file_ast) (k s : Z) : bool :=
  existsb (fun j => project_lecturer na A j =? k) (concat (first_list_of A s)).

(* every second-side list contains each first-side agent that finds its owner acceptable exactly once, and nobody else *)
Definition second_side_exact (na : Z) (A : file_ast) (nsecond : Z) : Prop :=
  (forall k s, 1 <= k <= nsecond -> 1 <= s <= f_n1 A ->
     count_occ Z.eq_dec (concat (second_list_of na A k)) s = if finds_acceptable na A k s then 1%nat else 0%nat) /\
  (forall k x, 1 <= k <= nsecond -> In x (concat (second_list_of na A k)) -> 1 <= x <= f_n1 A).
