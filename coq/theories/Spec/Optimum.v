(* Lexicographic optimality of a matching for a list of criteria, stated over (instance, matching):
   the documented meaning of the nine criteria (C03) and of their composition (C04).  Executable by
   enumeration on small instances.  No proofs here. *)
From MP Require Export Spec.Stability.
Open Scope Z_scope.

(* one primitive objective: a measure of the matching and a direction *)
Record objective := mkObjective { ob_max : bool; ob_meas : matching -> Z }.

Inductive criterion :=
| CMaxSize | CMinSize
| CGenerous (cut : Z)        (* fewest students at the worst rank, then next-worst, ... down to rank cut *)
| CGreedy (cut : Z)          (* most students at rank 1, then 2, ... up to rank cut *)
| CMinCost (y z : Z)         (* y * sum of student ranks + z * sum of lecturer ranks *)
| CMinSqCost (y z : Z)       (* the same with squared ranks *)
| CLmb                       (* max over lecturers of |load - target| *)
| CLsb                       (* sum over lecturers of |load - target| *)
| CMinCostLsb (y z : Z).     (* y * sum of student ranks + z * sum of |load - target| *)

Definition stages_of (I : instance) (c : criterion) : list objective :=
  match c with
  | CMaxSize => [mkObjective true size]
  | CMinSize => [mkObjective false size]
  | CGenerous cut =>
      map (fun r => mkObjective false (fun m => count_at_rank I m r))
          (rev (seqZ (Z.max 1 cut) (Z.to_nat (max_rank I - Z.max 1 cut + 1))))
  | CGreedy cut =>
      map (fun r => mkObjective true (fun m => count_at_rank I m r))
          (seqZ 1 (Z.to_nat (Z.min cut (max_rank I))))
  | CMinCost y z => [mkObjective false (fun m => y * cost_s I m + z * cost_l I m)]
  | CMinSqCost y z => [mkObjective false (fun m => y * costsq_s I m + z * costsq_l I m)]
  | CLmb => [mkObjective false (max_abs_diff I)]
  | CLsb => [mkObjective false (sum_abs_diff I)]
  | CMinCostLsb y z => [mkObjective false (fun m => y * cost_s I m + z * sum_abs_diff I m)]
  end.

(* value v is at least as good as w *)
Definition as_good (ob : objective) (v w : Z) : bool := if ob_max ob then w <=? v else v <=? w.

(* m is optimal for ob within the candidate list F *)
Definition optimal_in (ob : objective) (F : list matching) (m : matching) : bool :=
  forallb (fun m' => as_good ob (ob_meas ob m) (ob_meas ob m')) F.

(* lexicographic: optimal for the first objective within F, for the second within the first's optima, ... *)
Fixpoint lex_optimal_b (obs : list objective) (F : list matching) (m : matching) : bool :=
  match obs with
  | [] => true
  | ob :: rest =>
      optimal_in ob F m &&
      lex_optimal_b rest (filter (fun m' => ob_meas ob m' =? ob_meas ob m) F) m
  end.

(* the matchings the requested constraints allow: valid, and stable when requested *)
Definition feasible_set (pc stab : bool) (I : instance) : list matching :=
  filter (fun m => negb stab || stable_b I m) (all_valid pc I).

Definition mem_matching (m : matching) (F : list matching) : bool := existsb (list_eqb Z.eqb m) F.

Definition lex_optimal (pc stab : bool) (I : instance) (cs : list criterion) (m : matching) : bool :=
  let F := feasible_set pc stab I in
  mem_matching m F && lex_optimal_b (flat_map (stages_of I) cs) F m.
