(* SPA-STL blocking pairs and stability, from the definition in the property text (C05/C06),
   stated over (instance, matching vector).  No proofs here. *)
From MP Require Export Spec.Matching.
Open Scope Z_scope.

(* the pair student i holds under m *)
Definition assigned_pair (I : instance) (m : matching) (i : Z) : option pair :=
  match nth_error (pairs I) (Z.to_nat (i - 1)), nth_error m (Z.to_nat (i - 1)) with
  | Some row, Some p => if p =? 0 then None else find_pair row p
  | _, _ => None
  end.

(* lecturer rank of the worst assignee among [ps]; None when nobody is assigned *)
Definition worst_rank (ps : list pair) : option Z :=
  match ps with
  | [] => None
  | _ => Some (fold_right Z.max 0 (map rl0 ps))
  end.

(* "strictly prefers s to the worst assignee": false when there is no assignee *)
Definition prefers_to_worst (r : option Z) (w : option Z) : bool :=
  match r, w with
  | Some a, Some b => a <? b
  | _, _ => false
  end.

Definition M_of_lec (I : instance) (m : matching) (k : Z) : list pair := filter (fun q => lec q =? k) (matched I m).
Definition M_of_proj (I : instance) (m : matching) (j : Z) : list pair := filter (fun q => pr q =? j) (matched I m).

(* (s, p) = q blocks m *)
Definition blocking_b (I : instance) (m : matching) (q : pair) : bool :=
  let cur := assigned_pair I m (st q) in
  (* 2: s is unassigned or strictly prefers p to M(s) *)
  let c2 := match cur with None => true | Some c => rs q <? rs c end in
  let p_under := proj_load I m (pr q) <? nth1 (p_uq I) (pr q) 0 in
  let l_under := lec_load I m (lec q) <? nth1 (l_uq I) (lec q) 0 in
  (* 3a: p and l both undersubscribed *)
  let c3a := p_under && l_under in
  (* 3b: p undersubscribed, l full, and s in M(l) or l strictly prefers s to its worst assignee *)
  let c3b := p_under && negb l_under &&
             ((match cur with Some c => lec c =? lec q | None => false end) ||
              prefers_to_worst (rl q) (worst_rank (M_of_lec I m (lec q)))) in
  (* 3c: p full and l strictly prefers s to the worst assignee of p *)
  let c3c := negb p_under && prefers_to_worst (rl q) (worst_rank (M_of_proj I m (pr q))) in
  c2 && (c3a || c3b || c3c).

Definition exists_blocking_b (I : instance) (m : matching) : bool := existsb (blocking_b I m) (all_pairs I).
Definition stable_b (I : instance) (m : matching) : bool := negb (exists_blocking_b I m).
Definition stable (I : instance) (m : matching) : Prop := stable_b I m = true.

(* assignments that respect upper quotas (the domain of C06) *)
Definition respects_upper_b (I : instance) (m : matching) : bool :=
  acceptable_rows (pairs I) m &&
  forallb (fun j => proj_load I m j <=? nth1 (p_uq I) j 0) (proj_ids I) &&
  forallb (fun k => lec_load I m k <=? nth1 (l_uq I) k 0) (lec_ids I).
