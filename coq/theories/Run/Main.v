(* The Solver object from its command line: Solver(argv) parses and checks the options FIRST (a refused option set
   ends in the usage error before the instance file is touched), then reads the instance file, then is the session
   state machine of Run/Session.v.  argparse itself (which turns argv into the namespace) is trusted.  No proofs here. *)
From MP Require Export Text.Import Opts.SolverOpts Run.Session.
Local Open Scope string_scope.
Local Open Scope list_scope.
Open Scope Z_scope.

(* the parsed command line: the nine criteria slots, -na, -twopl, -stab, -pc, -bf *)
Record cli := mkCli { c_ns : ns; c_na : Z; c_twopl : bool; c_stab : bool; c_pc : bool; c_bf : bool }.

(* the file named by -f: absent / unreadable, or its content *)
Inductive construct_outcome :=
| SUsage                      (* parser.error: SystemExit(2) *)
| SNoFile                     (* open() failed: FileNotFoundError *)
| SBadFile (e : err)          (* the importer raised on the content *)
| SReady (s : session).

Definition solver_new (c : cli) (file : option string) (t0 : Z) : construct_outcome :=
  match parse_ns (c_ns c) (c_twopl c) (c_stab c) with
  | Crash _ => SUsage
  | Ok crits =>
      match file with
      | None => SNoFile
      | Some text =>
          match import_model text (c_na c) (c_twopl c) with
          | Crash e => SBadFile e
          | Ok M => SReady (init_session M (mkOpts (c_pc c) (c_stab c) crits) (c_bf c) (c_twopl c) t0)
          end
      end
  end.

(* a whole command-line run: construct, solve once, read the results *)
Definition solver_main (c : cli) (file : option string) (t0 : Z) (limit : option (Z * string)) (e : env)
  : option (result string) :=
  match solver_new c file t0 with
  | SReady s => Some (do s' <- do_solve s limit e; do_get s' GResults)
  | _ => None
  end.
