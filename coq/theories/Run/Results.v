(* Model of Model.get_results (short and long), its _get_* helpers and the three detailed listings,
   as string-producing functions of the instance and the list of assigned pairs
   (= Model._get_pair_assignments(), row-major).  The date header and the three time_* numbers are
   environment dependent: they are inputs ([hdr], [t1 t2 t3] strings).  No proofs here. *)
From MP Require Export Spec.Matching.
Local Open Scope string_scope.
Open Scope Z_scope.

Definition sZ := str_of_Z.
Definition NL := String nl "".

(* python l[i] = v for 0 <= i < len(l) *)
Fixpoint set_nth {A} (l : list A) (i : nat) (v : A) : list A :=
  match l, i with
  | [], _ => []
  | _ :: t, O => v :: t
  | x :: t, S k => x :: set_nth t k v
  end.

(* matching = ['0'] * num_students ; matching[pair.student_index] = str(pair.projectID) *)
Definition matching_vec (I : instance) (pa : list pair) : list Z :=
  fold_left (fun mv q => set_nth mv (Z.to_nat (st q - 1)) (pr q)) pa (repeat 0 (Z.to_nat (nS I))).

Definition matching_string (I : instance) (pa : list pair) : string :=
  join " " (map sZ (matching_vec I pa)).

Definition r_size (I : instance) (pa : list pair) : Z :=
  let mv := matching_vec I pa in zlen mv - countb (fun p => p =? 0) mv.

Definition tuple2 (a b : Z) : string := "(" ++ sZ a ++ ", " ++ sZ b ++ ")".

Definition r_degree (pa : list pair) : Z := fold_left (fun m q => if m <? rs q then rs q else m) pa 0.

Definition r_profile (I : instance) (pa : list pair) : list Z :=
  map (fun r => countb (fun q => rs q =? r) pa) (seqZ 1 (Z.to_nat (max_rank I))).

Definition profile_string (p : list Z) : string :=
  "< " ++ concat_str (map (fun n => sZ n ++ " ") p) ++ ">".

Definition r_lec_abs_diffs (I : instance) (pa : list pair) : list Z :=
  map (fun k => let n := countb (fun q => lec q =? k) pa in
                let lpos := n - nth1 (l_tg I) k 0 in
                let lneg := nth1 (l_tg I) k 0 - n in
                if lneg <? lpos then lpos else lneg) (lec_ids I).
Definition r_max_abs_diff (I : instance) (pa : list pair) : Z :=
  fold_left (fun m d => if m <? d then d else m) (r_lec_abs_diffs I pa) 0.
Definition r_sum_abs_diff (I : instance) (pa : list pair) : Z := sumZ (r_lec_abs_diffs I pa).

(* ---- detailed listings -------------------------------------------------- *)

Definition student_lines (I : instance) (pa : list pair) : string :=
  concat_str (map (fun i =>
    match find (fun q => st q =? i) (rev pa) with       (* the last assignment to the slot wins *)
    | Some q => "s_" ++ sZ (st q) ++ ": p_" ++ sZ (pr q) ++ " (l_" ++ sZ (lec q) ++ ") " ++ String nl ""
    | None => "s_" ++ sZ i ++ " no assignment" ++ String nl ""
    end) (seqZ 1 (Z.to_nat (nS I)))).

Definition project_lines (I : instance) (pa : list pair) : string :=
  concat_str (map (fun j =>
    let mine := filter (fun q => pr q =? j) pa in
    "p_" ++ sZ j ++ " (l_" ++ sZ (nth1 (p_lec I) j 0) ++ "): " ++
    (match mine with
     | [] => "no assignment "
     | _ => concat_str (map (fun q => "s_" ++ sZ (st q) ++ " ") mine)
     end) ++ "    " ++ sZ (zlen mine) ++ "/" ++ sZ (nth1 (p_uq I) j 0) ++ String nl "") (proj_ids I)).

Definition lecturer_lines (I : instance) (pa : list pair) : string :=
  concat_str (map (fun k =>
    let mine := filter (fun q => lec q =? k) pa in
    "l_" ++ sZ k ++ ": " ++
    (match mine with
     | [] => "no assignment "
     | _ => concat_str (map (fun q => "s_" ++ sZ (st q) ++ " (p_" ++ sZ (pr q) ++ ") ") mine)
     end) ++ "    " ++ sZ (zlen mine) ++ "/" ++ sZ (nth1 (l_uq I) k 0) ++ " (" ++ sZ (nth1 (l_tg I) k 0) ++ ")"
    ++ String nl "") (lec_ids I)).

(* everything the statistics block prints *)
Record stat_values := mkStats {
  sv_matching : list Z; sv_size : Z; sv_cost : Z * Z; sv_cost_sq : Z * Z; sv_degree : Z;
  sv_profile : list Z; sv_max_diff : Z; sv_sum_diff : Z;
  sv_students : string; sv_projects : string; sv_lecturers : string }.

Definition model_values (I : instance) (pa : list pair) : stat_values :=
  mkStats (matching_vec I pa) (r_size I pa)
          (sumZ (map rs pa), sumZ (map rl0 pa))
          (sumZ (map (fun q => rs q * rs q) pa), sumZ (map (fun q => rl0 q * rl0 q) pa))
          (r_degree pa) (r_profile I pa) (r_max_abs_diff I pa) (r_sum_abs_diff I pa)
          (student_lines I pa) (project_lines I pa) (lecturer_lines I pa).

(* the part of get_results from '# matching statistics' on *)
Definition stats_template (v : stat_values) (long : bool) : string :=
  let c (s : string) := if long then s else "" in
  "# matching statistics" ++ NL ++
  c ("# the projects assigned to each student" ++ NL) ++
  "matching: " ++ join " " (map sZ (sv_matching v)) ++ NL ++
  c ("# the number of assigned students" ++ NL) ++
  "size: " ++ sZ (sv_size v) ++ NL ++
  c ("# the sum of ranks of matched students" ++ NL) ++
  "cost: " ++ tuple2 (fst (sv_cost v)) (snd (sv_cost v)) ++ NL ++
  c ("# the sum of squares of ranks of matched students" ++ NL) ++
  "cost_sq: " ++ tuple2 (fst (sv_cost_sq v)) (snd (sv_cost_sq v)) ++ NL ++
  c ("# the highest rank of a matched student" ++ NL) ++
  "degree: " ++ sZ (sv_degree v) ++ NL ++
  c ("# the number of students gaining their 1st, 2nd, 3rd" ++ NL ++ "# choice project etc" ++ NL) ++
  "profile: " ++ profile_string (sv_profile v) ++ NL ++
  c ("# the maximum absolute difference between a " ++ NL ++
     "# lecturer's number of allocations and their target" ++ NL) ++
  "max_lec_abs_diff: " ++ sZ (sv_max_diff v) ++ NL ++
  c ("# the sum of differences between a lecturer's " ++ NL ++
     "# number of allocations and their target" ++ NL) ++
  "sum_lec_abs_diff: " ++ sZ (sv_sum_diff v) ++ NL ++ NL ++
  c ("# details of which project each student is assigned" ++ NL ++
     "Student_assignments:" ++ NL ++ sv_students v ++ NL ++
     "# details of which students each project is assigned," ++ NL ++
     "# and the number of students assigned compared to the" ++ NL ++
     "# projects maximum capacity" ++ NL ++
     "Project_assignments:" ++ NL ++ sv_projects v ++ NL ++
     "# details of which students each lecturer is" ++ NL ++
     "# assigned, and the number of students assigned" ++ NL ++
     "# compared to the lecturers maximum capacity (target" ++ NL ++
     "# in brackets)" ++ NL ++
     "Lecturer_assignments:" ++ NL ++ sv_lecturers v).

Definition stats_text (I : instance) (pa : list pair) (long : bool) : string :=
  stats_template (model_values I pa) long.

(* ---- the whole of get_results -------------------------------------------
   [limit] : None, or Some (exceeded, printed) where [exceeded] = (total_s > time_limit) as computed by
   python on the recorded timestamps and [printed] = str(time_limit);
   [stab] : Some b = the stability_correct line with check_stability's answer. *)
Record run_info := mkRunInfo {
  ri_hdr : string;                 (* '# Results for the run conducted on <date>' *)
  ri_info : string;                (* Model.info_string *)
  ri_status : string;              (* Model.pulp_status *)
  ri_limit : option (bool * string);
  ri_t1 : string; ri_t2 : string; ri_t3 : string }.

Definition results_frame (ri : run_info) (stab : option string) (stats : string) : string :=
  let head := ri_hdr ri ++ NL ++ NL ++ "# main constraints and optimisations" ++ NL ++ ri_info ri ++ NL in
  let timed_out := match ri_limit ri with
                   | Some (exceeded, _) => String.eqb (ri_status ri) "Not Solved" || exceeded
                   | None => false end in
  if timed_out then
    head ++ "Timeout: " ++ (match ri_limit ri with Some (_, printed) => printed | None => "" end) ++ " seconds" ++ NL
  else
    let st := head ++ "# solver status" ++ NL ++ "pulp_status: " ++ ri_status ri ++ NL ++ NL in
    if negb (String.eqb (ri_status ri) "Optimal") then st
    else st ++ "# timings" ++ NL ++
         "time_model_creation_seconds: " ++ ri_t1 ri ++ NL ++
         "time_solve_seconds: " ++ ri_t2 ri ++ NL ++
         "time_total_seconds: " ++ ri_t3 ri ++ NL ++ NL ++
         (match stab with Some b => "stability_correct: " ++ b ++ NL ++ NL | None => "" end) ++
         stats.

Definition get_results (I : instance) (ri : run_info) (pa : list pair) (long : bool) (stab : option string) : string :=
  results_frame ri stab (stats_text I pa long).
