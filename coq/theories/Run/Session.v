(* The Solver object as a state machine: solve (LP mode or brute force), the three result getters and
   get_debug.  The MILP back end and the wall clock are inputs of each solve.  No proofs here. *)
From MP Require Export LP.Run BF.BruteForce Checker.CheckStability.
Local Open Scope string_scope.
Local Open Scope list_scope.
Open Scope Z_scope.

Inductive getter := GResults | GShort | GLong | GDebug.

Inductive op :=
| OSolve (limit : option (Z * string))    (* timeLimit in microseconds and as printed by str() *)
| OGet (g : getter).

(* what the environment supplies to one solve: the clock readings taken by solve() in order
   (re-solve start [only when re-solving], after model creation, after solve) and the oracle *)
Record env := mkEnv { e_clock : list Z; e_solve : oracle }.

Record session := mkSess {
  s_inst : instance;
  s_opts : opts;
  s_bf : bool;
  s_twopl : bool;
  s_tstart : Z;                      (* Model.time_start *)
  s_solved : bool;                   (* a solve has completed *)
  s_tcreate : Z;
  s_tsolve : Z;
  s_limit : option (Z * string);
  s_status : string;                 (* Model.pulp_status ('' before the first LP solve) *)
  s_info : string;
  s_vals : list (var * Z);           (* varValue of the current LP variables *)
  s_has_vars : bool;                 (* the pairs carry lp_var attributes *)
  s_bfacc : option bf_acc }.

Definition init_session (M : instance) (o : opts) (bf twopl : bool) (t0 : Z) : session :=
  mkSess M o bf twopl t0 false 0 0 None "" "" [] false None.

Definition clock_at (e : env) (i : nat) : Z := nth i (e_clock e) 0.

(* Solver.solve *)
Definition do_solve (s : session) (limit : option (Z * string)) (e : env) : result session :=
  (* a re-solve measures from its own start (repair of F13) *)
  let '(tstart, i0) := if s_solved s then (clock_at e 0, 1%nat) else (s_tstart s, 0%nat) in
  let tcreate := clock_at e i0 in
  let tsolve := clock_at e (S i0) in
  if s_bf s then
    do a <- bf_run (o_pc (s_opts s)) (s_inst s);
    Ok (mkSess (s_inst s) (s_opts s) true (s_twopl s) tstart true tcreate tsolve limit
               (s_status s) (s_info s) (s_vals s) (s_has_vars s) (Some a))
  else
    do out <- run (s_inst s) (s_opts s) (e_solve e);
    Ok (mkSess (s_inst s) (s_opts s) false (s_twopl s) tstart true tcreate tsolve limit
               (status_string (out_status out)) (out_info out) (out_vals out) true None).

Definition val_of (vals : list (var * Z)) (x : var) : option Z := lookup vals x.

(* pairs with a truthy value, per row *)
Definition row_assigned (vals : list (var * Z)) (row : list pair) : list pair :=
  filter (fun q => match val_of vals (X (st q) (pr q)) with Some z => negb (z =? 0) | None => false end) row.

Definition pa_with_none (M : instance) (vals : list (var * Z)) : list (option pair) :=
  concat (map (fun row => match row_assigned vals row with [] => [None] | l => map Some l end) (pairs M)).

Definition show_bool (b : bool) : string := if b then "True" else "False".

Definition lp_results (s : session) (long : bool) : result string :=
  let M := s_inst s in
  let exceeded := match s_limit s with Some (lim, _) => lim <? s_tsolve s - s_tstart s | None => false end in
  let ri := mkRunInfo "#HDR" (s_info s) (s_status s)
                      (match s_limit s with Some (_, printed) => Some (exceeded, printed) | None => None end)
                      "T1" "T2" "T3" in
  let timed_out := match s_limit s with
                   | Some _ => String.eqb (s_status s) "Not Solved" || exceeded | None => false end in
  if timed_out || negb (String.eqb (s_status s) "Optimal") then Ok (results_frame ri None "")
  else
    do sb <- (if o_stab (s_opts s)
              then do b <- check_stability M (pa_with_none M (s_vals s)); Ok (Some (show_bool b))
              else Ok None);
    Ok (results_frame ri sb (stats_text M (concat (map (row_assigned (s_vals s)) (pairs M))) long)).

(* str(pair) *)
Definition pair_string (q : pair) : string :=
  "(s" +++ str_of_Z (st q) +++ " p" +++ str_of_Z (pr q) +++ " rs" +++ str_of_Z (rs q) +++ " l" +++ str_of_Z (lec q)
  +++ (match rl q with Some r => " rl" +++ str_of_Z r | None => "" end) +++ ")".

Definition pairs_string (M : instance) : string :=
  concat_str (map (fun row => concat_str (map (fun q => pair_string q +++ " ") row) +++ NL) (pairs M)).

Definition bit (o : option Z) : string :=
  match o with Some z => if 1 <=? z then "1 " else "0 " | None => "0 " end.

(* Model.get_debug (after the repair of F12: the variable sections are printed only when the variables
   exist, and a variable that is not part of the problem counts as 0) *)
Definition debug_text (s : session) : string :=
  let M := s_inst s in
  (* all(hasattr(pair, 'lp_var') ...) is vacuously true when the instance has no pair at all *)
  (if s_has_vars s || (match all_pairs M with [] => true | _ => false end) then
     "Main lp decision variables:" +++ NL +++
     concat_str (map (fun row => concat_str (map (fun q => bit (val_of (s_vals s) (X (st q) (pr q)))) row) +++ NL) (pairs M))
     +++ NL +++
     (if s_has_vars s && o_pc (s_opts s) then      (* hasattr(self, 'project_closures'): only after an LP solve with -pc *)
        "Project closure variables:" +++ NL +++
        concat_str (map (fun j => bit (val_of (s_vals s) (Closure j))) (proj_ids M)) +++ NL
      else "")
   else "") +++
  NL +++ "Model instance information:" +++ NL +++ pairs_string M.

Definition do_get (s : session) (g : getter) : result string :=
  match g with
  | GDebug => Ok (debug_text s)
  | GResults => if s_bf s then match s_bfacc s with Some a => Ok (bf_results_text a) | None => Crash AttributeError end
                else lp_results s false
  | GShort => lp_results s false
  | GLong => lp_results s true
  end.

(* one operation: new state and what the caller sees (a getter's text; "" for solve) *)
Definition step (s : session) (o : op) (e : env) : result (session * string) :=
  match o with
  | OSolve limit => do s' <- do_solve s limit e; Ok (s', "")
  | OGet g => do t <- do_get s g; Ok (s, t)
  end.
