(* Python str idioms used by the modelled code (ASCII only). No proofs here. *)
From MP Require Export Base.Py.
From Coq Require Import DecimalString DecimalZ Decimal.
Local Open Scope string_scope.
Open Scope Z_scope.

Fixpoint contains_char (c : ascii) (s : string) : bool :=
  match s with
  | EmptyString => false
  | String a t => Ascii.eqb a c || contains_char c t
  end.

(* s.replace(c, '') for a one-character c *)
Fixpoint remove_char (c : ascii) (s : string) : string :=
  match s with
  | EmptyString => EmptyString
  | String a t => if Ascii.eqb a c then remove_char c t else String a (remove_char c t)
  end.

Fixpoint join (sep : string) (l : list string) : string :=
  match l with
  | [] => ""
  | [x] => x
  | x :: t => x ++ sep ++ join sep t
  end.

Definition concat_str (l : list string) : string := fold_right append "" l.

(* whitespace of str.split() restricted to ASCII: \t \n \v \f \r, 0x1c-0x1f, space *)
Definition is_ws (c : ascii) : bool :=
  let n := N_of_ascii c in
  ((9 <=? n) && (n <=? 13))%N || ((28 <=? n) && (n <=? 32))%N.

(* str.split(): maximal runs of non-whitespace *)
Fixpoint split_ws_aux (s : string) (cur : string) : list string :=
  match s with
  | EmptyString => match cur with EmptyString => [] | _ => [cur] end
  | String a t =>
      if is_ws a
      then match cur with
           | EmptyString => split_ws_aux t EmptyString
           | _ => cur :: split_ws_aux t EmptyString
           end
      else split_ws_aux t (cur ++ String a EmptyString)
  end.
Definition split_ws (s : string) : list string := split_ws_aux s EmptyString.

Definition nl : ascii := "010"%char.

(* iteration over a text file: split at '\n'; a final piece without newline is a line iff non-empty *)
Fixpoint lines_aux (s : string) (cur : string) : list string :=
  match s with
  | EmptyString => match cur with EmptyString => [] | _ => [cur] end
  | String a t =>
      if Ascii.eqb a nl then cur :: lines_aux t EmptyString
      else lines_aux t (cur ++ String a EmptyString)
  end.
Definition lines (s : string) : list string := lines_aux s EmptyString.

(* str(int) *)
Definition str_of_Z (z : Z) : string := NilZero.string_of_int (Z.to_int z).

(* int(str) for the strings the modelled code can meet: optional '-' and decimal digits.
   Anything else is ValueError. *)
Definition int_of_str (s : string) : result Z :=
  match NilZero.int_of_string s with
  | Some d => Ok (Z.of_int d)
  | None => Crash ValueError
  end.

Definition string_eqb := String.eqb.

Infix "+++" := String.append (right associativity, at level 60).
