(* Python idioms shared by every model file.  No proofs here: the model must keep
   running (correspondence check) even when a proof elsewhere breaks. *)
From Coq Require Export String Ascii ZArith Bool List.
Export ListNotations.
Open Scope Z_scope.

(* Exceptions that the modelled code can raise. *)
Inductive err :=
| TypeError | IndexError | KeyError | ValueError | ZeroDivisionError
| AttributeError | PulpSolverError | SystemExit2 | OtherError.

Inductive result (A : Type) :=
| Ok (a : A)
| Crash (e : err).
Arguments Ok {A} a.
Arguments Crash {A} e.

Definition bind {A B} (r : result A) (f : A -> result B) : result B :=
  match r with Ok a => f a | Crash e => Crash e end.

Notation "'do' x <- r ; k" := (bind r (fun x => k))
  (at level 200, x name, r at level 100, k at level 200, right associativity).
Notation "'do' ' p <- r ; k" := (bind r (fun x => match x with p => k end))
  (at level 200, p pattern, r at level 100, k at level 200, right associativity).

Definition is_ok {A} (r : result A) : bool := match r with Ok _ => true | Crash _ => false end.

Definition err_eqb (a b : err) : bool :=
  match a, b with
  | TypeError, TypeError | IndexError, IndexError | KeyError, KeyError
  | ValueError, ValueError | ZeroDivisionError, ZeroDivisionError
  | AttributeError, AttributeError | PulpSolverError, PulpSolverError
  | SystemExit2, SystemExit2 | OtherError, OtherError => true
  | _, _ => false
  end.

Definition result_eqb {A} (eqb : A -> A -> bool) (x y : result A) : bool :=
  match x, y with
  | Ok a, Ok b => eqb a b
  | Crash e, Crash f => err_eqb e f
  | _, _ => false
  end.

(* map with a crashing function, left to right *)
Fixpoint mapM {A B} (f : A -> result B) (l : list A) : result (list B) :=
  match l with
  | [] => Ok []
  | x :: t => do y <- f x; do ys <- mapM f t; Ok (y :: ys)
  end.

(* --- list helpers ---------------------------------------------------- *)

Fixpoint list_eqb {A} (eqb : A -> A -> bool) (l1 l2 : list A) : bool :=
  match l1, l2 with
  | [], [] => true
  | x :: t, y :: u => eqb x y && list_eqb eqb t u
  | _, _ => false
  end.

Definition option_eqb {A} (eqb : A -> A -> bool) (x y : option A) : bool :=
  match x, y with
  | None, None => true
  | Some a, Some b => eqb a b
  | _, _ => false
  end.

Definition prod_eqb {A B} (ea : A -> A -> bool) (eb : B -> B -> bool) (x y : A * B) : bool :=
  ea (fst x) (fst y) && eb (snd x) (snd y).

Definition sumZ (l : list Z) : Z := fold_right Z.add 0 l.

Definition zlen {A} (l : list A) : Z := Z.of_nat (length l).

(* python l[i] for 0 <= i < len(l) ; negative indices are never used by the code on lists we model
   except where stated, so a negative index is modelled as IndexError-free python semantics:
   l[-k] = l[len-k].  *)
Definition py_nth {A} (l : list A) (i : Z) : result A :=
  let i' := if i <? 0 then i + zlen l else i in
  if (i' <? 0) || (zlen l <=? i') then Crash IndexError
  else match nth_error l (Z.to_nat i') with Some x => Ok x | None => Crash IndexError end.

(* 1-based total lookup with default, used in specifications *)
Definition nth1 (l : list Z) (i : Z) (d : Z) : Z :=
  if i <=? 0 then d else nth (Z.to_nat (i - 1)) l d.

(* [seqZ a n] = [a; a+1; ...; a+n-1] *)
Fixpoint seqZ (a : Z) (n : nat) : list Z :=
  match n with O => [] | S k => a :: seqZ (a + 1) k end.

Definition rangeZ (n : Z) : list Z := seqZ 0 (Z.to_nat n).

Fixpoint count_occZ (l : list Z) (x : Z) : Z :=
  match l with [] => 0 | y :: t => (if y =? x then 1 else 0) + count_occZ t x end.

Definition memZ (x : Z) (l : list Z) : bool := existsb (Z.eqb x) l.

Fixpoint nodupZ (l : list Z) : bool :=
  match l with [] => true | x :: t => negb (memZ x t) && nodupZ t end.

Definition maxZ_list (l : list Z) (d : Z) : Z := fold_left Z.max l d.

(* indices of the [false] verdicts in a list of case verdicts: what every generated
   cases file prints *)
Fixpoint failing_from (k : nat) (l : list bool) : list nat :=
  match l with
  | [] => []
  | true :: t => failing_from (S k) t
  | false :: t => k :: failing_from (S k) t
  end.
Definition failing (l : list bool) : list nat := failing_from 0 l.
