(* Model of brute_force_solver.Brute_force_solver (run, get_results, moregen, moregre,
   get_matching_pairs, is_valid).  No proofs here. *)
From MP Require Export Run.Results.
Local Open Scope string_scope.
Open Scope Z_scope.

Fixpoint product (choices : list Z) (n : nat) : list (list Z) :=
  match n with
  | O => [[]]
  | S k => flat_map (fun c => map (cons c) (product choices k)) choices
  end.

(* get_matching_pairs: for each student with a non-zero entry, the first pair of the row with that
   project id, or None *)
Fixpoint matching_pairs (rows : list (list pair)) (v : list Z) : list (option pair) :=
  match rows, v with
  | row :: rows', p :: v' =>
      if p =? 0 then matching_pairs rows' v' else find_pair row p :: matching_pairs rows' v'
  | _, _ => []
  end.

Definition somes_pairs (mp : list (option pair)) : list pair :=
  flat_map (fun o => match o with Some x => [x] | None => [] end) mp.

Definition is_valid (pc : bool) (I : instance) (mp : list (option pair)) : bool :=
  if existsb (fun o => match o with None => true | Some _ => false end) mp then false
  else
    let ps := somes_pairs mp in
    forallb (fun i => countb (fun q => st q =? i) ps <=? 1) (seqZ 1 (Z.to_nat (nS I))) &&
    forallb (fun j =>
      let n := countb (fun q => pr q =? j) ps in
      let lq := nth1 (p_lq I) j 0 in let uq := nth1 (p_uq I) j 0 in
      if pc then negb (((n <? lq) && negb (n =? 0)) || ((uq <? n) && negb (n =? 0)))
      else negb ((n <? lq) || (uq <? n))) (proj_ids I) &&
    forallb (fun k =>
      let n := countb (fun q => lec q =? k) ps in
      negb ((n <? nth1 (l_lq I) k 0) || (nth1 (l_uq I) k 0 <? n))) (lec_ids I).

(* python tuple comparison (a, b) < (c, d) *)
Definition tup_lt (x y : Z * Z) : bool := (fst x <? fst y) || ((fst x =? fst y) && (snd x <? snd y)).

(* moregen: scan from the last index down; IndexError if the second profile is shorter *)
Fixpoint moregen_rev (p1 p2 : list Z) : result bool :=   (* both reversed *)
  match p1 with
  | [] => Ok false
  | a :: t1 =>
      match p2 with
      | [] => Crash IndexError
      | b :: t2 => if a <? b then Ok true else if b <? a then Ok false else moregen_rev t1 t2
      end
  end.
(* p2[i] for i = len(p1)-1 .. 0 : the entries of p2 at p1's indices *)
Definition moregen (p1 p2 : list Z) : result bool :=
  if (length p2 <? length p1)%nat then Crash IndexError
  else moregen_rev (rev p1) (rev (firstn (length p1) p2)).

Fixpoint moregre (p1 p2 : list Z) : result bool :=
  match p1 with
  | [] => Ok false
  | a :: t1 =>
      match p2 with
      | [] => Crash IndexError
      | b :: t2 => if b <? a then Ok true else if a <? b then Ok false else moregre t1 t2
      end
  end.

Record bf_acc := mkBF {
  o_size : Z; o_mincost : Z * Z; o_mindegree : Z; o_minsqcost : Z * Z;
  o_genmax : list Z; o_gremax : list Z; o_gre : list Z; o_maxdiff : Z; o_sumdiff : Z }.

Definition max_lec_uq (I : instance) : Z := fold_right Z.max 0 (l_uq I).

(* the int-valued initial values of the cost accumulators are overwritten (by tuples) by the first valid
   matching before they are ever compared or printed; (n, 0) stands for them.
   optimal_greedyprofile starts as [0] * max_rank (after the repair of F09). *)
Definition bf_init (I : instance) : bf_acc :=
  mkBF (-1) (nP I * nS I, 0) (nP I) (nP I * nP I * nS I, 0) [] []
       (repeat 0 (Z.to_nat (max_rank I))) (max_lec_uq I) (max_lec_uq I * nL I).

Definition bf_step (pc : bool) (I : instance) (a : bf_acc) (v : list Z) : result bf_acc :=
  let mp := matching_pairs (pairs I) v in
  if negb (is_valid pc I mp) then Ok a
  else
    let ps := somes_pairs mp in
    let size := zlen mp in
    let cost := (sumZ (map rs ps), sumZ (map rl0 ps)) in
    let costsq := (sumZ (map (fun q => rs q * rs q) ps), sumZ (map (fun q => rl0 q * rl0 q) ps)) in
    let degree := r_degree ps in
    let profile := r_profile I ps in
    let maxd := r_max_abs_diff I ps in
    let sumd := r_sum_abs_diff I ps in
    (* save larger size *)
    let a1 := if o_size a <? size
              then mkBF size cost degree costsq profile profile (o_gre a) (o_maxdiff a) (o_sumdiff a)
              else a in
    (* same size *)
    do a2 <- (if size =? o_size a1 then
                let c := if tup_lt cost (o_mincost a1) then cost else o_mincost a1 in
                let d := if degree <? o_mindegree a1 then degree else o_mindegree a1 in
                let sq := if tup_lt costsq (o_minsqcost a1) then costsq else o_minsqcost a1 in
                do g <- moregen profile (o_genmax a1);
                do h <- moregre profile (o_gremax a1);
                Ok (mkBF (o_size a1) c d sq (if g then profile else o_genmax a1)
                         (if h then profile else o_gremax a1) (o_gre a1) (o_maxdiff a1) (o_sumdiff a1))
              else Ok a1);
    do gg <- moregre profile (o_gre a2);
    Ok (mkBF (o_size a2) (o_mincost a2) (o_mindegree a2) (o_minsqcost a2) (o_genmax a2) (o_gremax a2)
             (if gg then profile else o_gre a2)
             (if maxd <? o_maxdiff a2 then maxd else o_maxdiff a2)
             (if sumd <? o_sumdiff a2 then sumd else o_sumdiff a2)).

Fixpoint bf_fold (pc : bool) (I : instance) (a : bf_acc) (vs : list (list Z)) : result bf_acc :=
  match vs with
  | [] => Ok a
  | v :: t => do a' <- bf_step pc I a v; bf_fold pc I a' t
  end.

(* max(self.lec_upper_quotas) raises ValueError on an empty list *)
Definition bf_run (pc : bool) (I : instance) : result bf_acc :=
  match l_uq I with
  | [] => Crash ValueError
  | _ => bf_fold pc I (bf_init I) (product (rangeZ (nP I + 1)) (Z.to_nat (nS I)))
  end.

Definition bf_results_text (a : bf_acc) : string :=
  let head := "#HDR" ++ NL ++ NL ++ "# timings" ++ NL ++
              "time_model_creation_seconds: T1" ++ NL ++ "time_solve_seconds: T2" ++ NL ++
              "time_total_seconds: T3" ++ NL ++ NL in
  if o_size a =? -1 then head ++ "Infeasible"
  else head ++ "# optimal matching statistics" ++ NL ++
       "optimal_size: " ++ sZ (o_size a) ++ NL ++
       "optimal_maxsizemincost: " ++ tuple2 (fst (o_mincost a)) (snd (o_mincost a)) ++ NL ++
       "optimal_maxsizemindegree: " ++ sZ (o_mindegree a) ++ NL ++
       "optimal_maxsizeminsqcost: " ++ tuple2 (fst (o_minsqcost a)) (snd (o_minsqcost a)) ++ NL ++
       "optimal_generousmaxprofile: " ++ profile_string (o_genmax a) ++ NL ++
       "optimal_greedymaxprofile: " ++ profile_string (o_gremax a) ++ NL ++
       "optimal_greedyprofile: " ++ profile_string (o_gre a) ++ NL ++
       "optimal_max_lec_abs_diff: " ++ sZ (o_maxdiff a) ++ NL ++
       "optimal_sum_lec_abs_diff: " ++ sZ (o_sumdiff a) ++ NL ++ NL.

Definition bf_results (pc : bool) (I : instance) : result string :=
  do a <- bf_run pc I; Ok (bf_results_text a).
