(* C06 — the stability checker answers True exactly for matchings without a blocking pair. *)
From MP Require Import Checker.CheckStability Run.Session LP.Oracle Proofs.CheckerProofs Proofs.SessionProofs
                       Proofs.StabLineProofs Props.Examples.
Local Open Scope list_scope. Open Scope Z_scope.

(* on every well-formed two-sided instance (zero capacities and lecturers without assignees included) and every
   assignment of students to acceptable projects respecting upper quotas, the checker returns a boolean — it
   never fails — and that boolean is "no blocking pair" by the SPA-STL definition of Spec/Stability.v *)
Theorem C06_checker : forall (M : instance) (m : matching),
  wf M = true -> two_sided M = true -> respects_upper_b M m = true ->
  check_stability M (assignment_of M m) = Ok (stable_b M m).
Proof. exact check_correct. Qed.
Print Assumptions C06_checker.

(* consequently: after a solve with -stab that ended Optimal (any correct MILP back end, any criteria), both result
   getters print the line "stability_correct: True" *)
Theorem C06_printed_true : forall s lim e s' long,
  s_bf s = false -> o_stab (s_opts s) = true ->
  wf (s_inst s) = true -> two_sided (s_inst s) = true ->
  milp_ok (s_inst s) (e_solve e) ->
  do_solve s lim e = Ok s' -> s_status s' = "Optimal"%string ->
  timed_out s' = false ->
  exists ri body, lp_results s' long = Ok (results_frame ri (Some "True"%string) body).
Proof. exact printed_stability_correct. Qed.
Print Assumptions C06_printed_true.

Example C06_example :
  wf ex_inst = true /\ two_sided ex_inst = true /\ respects_upper_b ex_inst ex_matching = true /\
  respects_upper_b ex_inst [3; 0; 0] = true /\
  check_stability ex_inst (assignment_of ex_inst ex_matching) = Ok true /\
  check_stability ex_inst (assignment_of ex_inst [3; 0; 0]) = Ok false.
Proof. vm_compute. repeat split; reflexivity. Qed.
