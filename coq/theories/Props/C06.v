(* C06 — the stability checker answers True exactly for matchings without a blocking pair. *)
From MP Require Import Checker.CheckStability Proofs.CheckerProofs Props.Examples.
Local Open Scope list_scope. Open Scope Z_scope.

(* on every well-formed two-sided instance (zero capacities and lecturers without assignees included) and every
   assignment of students to acceptable projects respecting upper quotas, the checker returns a boolean — it
   never fails — and that boolean is "no blocking pair" by the SPA-STL definition of Spec/Stability.v *)
Theorem C06_checker : forall (M : instance) (m : matching),
  wf M = true -> two_sided M = true -> respects_upper_b M m = true ->
  check_stability M (assignment_of M m) = Ok (stable_b M m).
Proof. exact check_correct. Qed.
Print Assumptions C06_checker.

Example C06_example :
  wf ex_inst = true /\ two_sided ex_inst = true /\ respects_upper_b ex_inst ex_matching = true /\
  respects_upper_b ex_inst [3; 0; 0] = true /\
  check_stability ex_inst (assignment_of ex_inst ex_matching) = Ok true /\
  check_stability ex_inst (assignment_of ex_inst [3; 0; 0]) = Ok false.
Proof. vm_compute. repeat split; reflexivity. Qed.
