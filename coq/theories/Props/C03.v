(* C03 — each optimisation criterion optimises the quantity it is documented to optimise. *)
From MP Require Import LP.Canon Corr.LPMon Proofs.StageInv Proofs.StageAll Proofs.CritSpec Props.Examples.
Local Open Scope list_scope. Open Scope Z_scope.

(* the stages the code runs for a criterion (with the documented defaults of its optional arguments) are the
   documented objectives: maxsize/minsize = number of assigned students; generous = fewest students at the worst
   rank, then the next-worst, down to the cut-off (default 1); greedy = most students at rank 1, then 2, up to the
   cut-off (default maximum rank); mincost / minsqcost = y * sum of student ranks + z * sum of lecturer ranks
   (squared), defaults 1 and 0; lmb / lsb = maximum / sum over lecturers of |load - target|; mincostlsb =
   y * sum of student ranks + z * sum of |load - target|, defaults 1 and 1 *)
Theorem C03_stages_documented : forall M c,
  Forall2 same_objective (map (prim_objective_spec M) (expand M c)) (stages_of M (criterion_of M c)).
Proof. exact expand_is_documented. Qed.
Print Assumptions C03_stages_documented.

(* one criterion: the printed matching is feasible and optimal for the criterion's first stage among ALL feasible
   matchings, for its second stage among the optima of the first, ... (LexOpt), for any correct back end *)
Theorem C03_single_criterion : forall M pc stab c solve out,
  wf M = true -> admissible M (mkOpts pc stab [c]) = true -> milp_ok M solve ->
  run M (mkOpts pc stab [c]) solve = Ok out -> out_status out = Optimal ->
  LexOpt (Feas pc stab M) (map (prim_objective_spec M) (expand M c))
         (matching_of M (val_fun (out_vals out))).
Proof.
  intros M pc stab c solve out Hwf Hadm Hok Hrun Hst.
  pose proof (run_lex_optimal_all M (mkOpts pc stab [c]) solve out Hwf Hadm Hok) as H.
  unfold all_prims in H. cbn [o_crits o_pc o_stab flat_map] in H. rewrite app_nil_r in H.
  apply H; assumption.
Qed.
Print Assumptions C03_single_criterion.

(* spelled out for the single-stage criteria: no feasible matching does better *)
Corollary C03_single_stage : forall M pc stab c p solve out,
  wf M = true -> admissible M (mkOpts pc stab [c]) = true -> milp_ok M solve -> expand M c = [p] ->
  run M (mkOpts pc stab [c]) solve = Ok out -> out_status out = Optimal ->
  let m := matching_of M (val_fun (out_vals out)) in
  Feas pc stab M m /\
  forall m', Feas pc stab M m' ->
    if is_max p then prim_meas M p m' <= prim_meas M p m else prim_meas M p m <= prim_meas M p m'.
Proof.
  intros M pc stab c p solve out Hwf Hadm Hok He Hrun Hst m.
  pose proof (C03_single_criterion M pc stab c solve out Hwf Hadm Hok Hrun Hst) as H.
  rewrite He in H. cbn [map] in H. destruct (LexOpt_head _ _ _ _ H) as [HF Hbest].
  split; [exact HF|]. intros m' Hm'. specialize (Hbest m' Hm').
  unfold as_good, prim_objective_spec in Hbest. cbn [ob_max ob_meas] in Hbest.
  destruct (is_max p); now apply Z.leb_le in Hbest.
Qed.
Print Assumptions C03_single_stage.

Example C03_example :
  expand ex_inst (MinCost, [2]) = [PCost 2 0] /\ expand ex_inst (Generous, []) = [PRank false 2; PRank false 1] /\
  expand ex_inst (Greedy, [5]) = [PRank true 1; PRank true 2] /\
  prim_meas ex_inst (PCost 1 1) ex_matching = 6.
Proof. vm_compute. repeat split; reflexivity. Qed.
