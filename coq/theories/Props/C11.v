(* C11 — printed statistics and listings describe the printed matching. *)
From MP Require Import Spec.ResultsSpec Proofs.ResultsProofs LP.Oracle Run.Session Run.Main Text.Render Proofs.LPSound Proofs.EndToEnd
                       Proofs.SessionProofs Proofs.CommandLineResults Props.Examples.
Local Open Scope list_scope. Open Scope Z_scope.

(* every quantity of the statistics block (matching line, size, costs, squared costs, degree, profile, max and
   total lecturer deviation, the three listings) computed the code's way from the assigned pairs equals the value
   computed from the instance and the matching line alone *)
Theorem C11_values : forall (M : instance) (m : matching),
  wf M = true -> acceptable_rows (pairs M) m = true ->
  model_values M (matched M m) = spec_values M m.
Proof. exact model_values_spec. Qed.
Print Assumptions C11_values.

Theorem C11_text : forall (M : instance) (m : matching) (long : bool),
  wf M = true -> acceptable_rows (pairs M) m = true ->
  stats_text M (matched M m) long = spec_stats_text M m long.
Proof. exact stats_text_spec. Qed.
Print Assumptions C11_text.

(* and the assigned pairs of any 0/1 point of the student constraints ARE the pairs of its matching line *)
Theorem C11_assigned_pairs : forall (M : instance) (v : assignment),
  wf M = true -> binary v -> all_sat v (student_constrs M) ->
  filter (fun q => negb (v (X (st q) (pr q)) =? 0)) (all_pairs M) = matched M (matching_of M v).
Proof. exact assigned_is_matched. Qed.
Print Assumptions C11_assigned_pairs.

(* end to end: for any correct MILP back end, what get_results prints after '# matching statistics' for an Optimal
   run is exactly the specification block of the (valid) matching the returned values denote *)
Theorem C11_run_printed_block : forall M o solve out long,
  wf M = true -> milp_ok M solve -> run M o solve = Ok out -> out_status out = Optimal ->
  let m := matching_of M (val_fun (out_vals out)) in
  stats_text M (concat (map (row_assigned (out_vals out)) (pairs M))) long = spec_stats_text M m long /\
  valid_b (o_pc o) M m = true.
Proof. exact run_printed_block. Qed.
Print Assumptions C11_run_printed_block.

(* the whole getter on the Solver object built from its command line: Solver(argv) on a file of the documented format,
   one solve (any limit, any clock readings, any correct MILP back end) that ended Optimal within its limit; then
   get_results_short / get_results_long return the frame around EXACTLY the specification block of the matching the
   values denote, that matching is valid, and the stability line reads True exactly when -stab was given *)
Theorem C11_command_line : forall c A trailer t0 limit e s s' long,
  acceptable_ns (c_ns c) (c_twopl c) (c_stab c) = true ->
  wf_ast (c_na c) (c_twopl c) A = true ->
  wf (denote (c_na c) (c_twopl c) A) = true ->
  (c_stab c = true -> two_sided (denote (c_na c) (c_twopl c) A) = true) ->
  c_bf c = false ->
  milp_ok (denote (c_na c) (c_twopl c) A) (e_solve e) ->
  solver_new c (Some (render (c_na c) A trailer)) t0 = SReady s -> do_solve s limit e = Ok s' ->
  s_status s' = "Optimal"%string -> timed_out s' = false ->
  let M := denote (c_na c) (c_twopl c) A in
  let m := matching_of M (val_fun (s_vals s')) in
  valid_b (c_pc c) M m = true /\
  exists ri, lp_results s' long =
             Ok (results_frame ri (if c_stab c then Some "True"%string else None) (spec_stats_text M m long)).
Proof. exact command_line_results. Qed.
Print Assumptions C11_command_line.

Example C11_example :
  wf ex_inst = true /\ acceptable_rows (pairs ex_inst) [1; 0; 3] = true /\
  sv_cost (spec_values ex_inst [1; 0; 3]) = (2, 2) /\ sv_size (spec_values ex_inst [1; 0; 3]) = 2.
Proof. vm_compute. repeat split; reflexivity. Qed.
