(* C10 — the solver reads an instance file as the instance the file denotes.
   C10_import: single-blank rendering; C10_import_any_layout: ANY run of blanks/tabs between tokens, leading and
   trailing blanks on every line, any trailing block of lines, final newline present or not;
   C10_import_leading_zeros: additionally every number written with any number of leading zeros (files whose
   numbers are non-negative; a zero in front of a minus sign is not a number for Python either, see
   C10_leading_zeros_need_nonneg); C10_import_crlf: DOS line ends ("\r\n" after every line).  A lone "\r" inside a line
   is outside the model (Python's universal newlines end the line there). *)
From MP Require Import Text.Render Text.RenderWs Text.RenderPad Proofs.ImportProofs Proofs.ImportWsProofs
                       Proofs.ImportPadProofs Proofs.ImportCrlfProofs.
Local Open Scope list_scope. Open Scope Z_scope.

(* for every abstract file of the documented format (any counts, list lengths, tie groups anywhere, empty
   second-side lists), na = 2 or 3, with or without -twopl, with any trailing block of lines, the importer
   yields exactly the denoted instance: same counts, same preference order with dense tie-group ranks, same
   quotas / targets / project-lecturer assignment; 2-agent hospitals become one project of their own
   lecturer with target = upper quota; without -twopl second-side lists are ignored (rl = None) *)
Theorem C10_import : forall (na : Z) (twopl : bool) (A : file_ast) (trailer : list string),
  wf_ast na twopl A = true ->
  import_model (render na A trailer) na twopl = Ok (denote na twopl A).
Proof. exact import_render. Qed.
Print Assumptions C10_import.

(* arbitrary inter-token whitespace: every line laid out with its own non-empty blank/tab separators, optional
   leading and trailing blanks; optional trailer; optional final newline *)
Theorem C10_import_any_layout : forall na twopl A lys trailer final_nl,
  wf_ast na twopl A = true ->
  length lys = length (ast_lines na A) ->
  (forall i ly toks, nth_error lys i = Some ly -> nth_error (ast_lines na A) i = Some toks ->
                     layout_ok ly (length toks) = true) ->
  import_model (render_ws na A lys trailer final_nl) na twopl = Ok (denote na twopl A).
Proof. exact import_render_ws. Qed.
Print Assumptions C10_import_any_layout.

(* numbers written with leading zeros ("007:", "(03", "12)"), on top of any blank/tab layout: every token may carry
   its own number of zeros (pads is unconstrained).  nonneg_ast: the quotas / targets and second-side entries of the
   abstract file are non-negative, as in every documented file. *)
Theorem C10_import_leading_zeros : forall na twopl A pads lys trailer final_nl,
  wf_ast na twopl A = true ->
  nonneg_ast na A = true ->
  length lys = length (ast_lines na A) ->
  (forall i ly toks, nth_error lys i = Some ly -> nth_error (ast_lines na A) i = Some toks ->
                     layout_ok ly (length toks) = true) ->
  import_model (render_pad na A pads lys trailer final_nl) na twopl = Ok (denote na twopl A).
Proof. exact import_render_pad_nonneg. Qed.
Print Assumptions C10_import_leading_zeros.

(* without the non-negativity hypothesis the statement is false (and rightly so: "0-1" is no number for Python's int()
   either): a well-formed abstract file with a lower quota of -1, one zero in front of that token *)
Theorem C10_leading_zeros_need_nonneg :
  wf_ast 2 false cex_ast = true /\
  length cex_lys = length (ast_lines 2 cex_ast) /\
  (forall i ly toks, nth_error cex_lys i = Some ly -> nth_error (ast_lines 2 cex_ast) i = Some toks ->
                     layout_ok ly (length toks) = true) /\
  import_model (render_pad 2 cex_ast [[]; []; [0; 1]]%nat cex_lys [] true) 2 false = Crash ValueError /\
  import_model (render_pad 2 cex_ast [] cex_lys [] true) 2 false = Ok (denote 2 false cex_ast).
Proof. exact pad_counterexample. Qed.
Print Assumptions C10_leading_zeros_need_nonneg.

(* DOS line ends: every line (trailer included) followed by "\r\n" *)
Theorem C10_import_crlf : forall (na : Z) (twopl : bool) (A : file_ast) (trailer : list string),
  wf_ast na twopl A = true ->
  import_model (render_crlf na A trailer) na twopl = Ok (denote na twopl A).
Proof. exact import_render_crlf. Qed.
Print Assumptions C10_import_crlf.

Example C10_example :
  let A := mkAst 2 2 2 [[[1;2]]; [[2];[1]]] [(0,1,1);(0,2,1)] [] [(0,1,2,[[1];[2]]); (0,0,1,[])] in
  wf_ast 3 true A = true /\
  instance_eqb (denote 3 true A)
    (match import_model (render 3 A ["instance generation parameters"%string]) 3 true with
     | Ok M => M | Crash _ => denote 3 false A end) = true.
Proof. vm_compute. split; reflexivity. Qed.

(* leading zeros and blanks on a concrete 3-agent file: "001:  (1 002)" ... is read as the same instance *)
Example C10_leading_zeros_example :
  let A := mkAst 2 2 2 [[[1;2]]; [[2];[1]]] [(0,1,1);(0,2,1)] [] [(0,1,2,[[1];[2]]); (0,0,1,[])] in
  let lys := map (fun toks : list string => mkLayout " " (repeat "  "%string (pred (length toks))) " ") (ast_lines 3 A) in
  nonneg_ast 3 A = true /\ wf_ast 3 true A = true /\
  instance_eqb (denote 3 true A)
    (match import_model (render_pad 3 A [[2;0;1];[1;3;2];[0;0;2;1]]%nat lys ["x"%string] false) 3 true with
     | Ok M => M | Crash _ => denote 3 false A end) = true.
Proof. vm_compute. repeat split; reflexivity. Qed.
