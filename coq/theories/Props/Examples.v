(* Concrete instances used by the non-vacuity examples of the property files. *)
From MP Require Export Text.Import LP.Canon.
Local Open Scope string_scope.
Open Scope Z_scope.

(* a two-sided SPA instance: 3 students, 3 projects, 2 lecturers, ties on both sides, a lower quota *)
Definition ex_text : string :=
  "3 3 2
1: (1 2) 3
2: 2 1
3: 3
1: 0: 1: 1
2: 1: 2: 1
3: 0: 1: 2
1: 0: 1: 2: (1 2)
2: 0: 1: 1: 3 1
".

Definition ex_inst : instance :=
  match import_model ex_text 3 true with Ok M => M | Crash _ => mkInst 0 0 0 [] [] [] [] [] [] [] end.

Definition ex_matching : matching := [1; 2; 3].

Example ex_inst_wf : wf ex_inst = true /\ two_sided ex_inst = true /\ valid_b false ex_inst ex_matching = true
                     /\ stable_b ex_inst ex_matching = true.
Proof. vm_compute. repeat split; reflexivity. Qed.
