(* C18 — result getters are read-only and re-solving is reproducible. *)
From MP Require Import Run.Main Text.Render LP.Oracle Proofs.RunProofs Proofs.RunStructure Proofs.SessionProofs
                       Proofs.CommandLineResults.
From MP Require Import Run.Session.   (* last: `step` is the Solver object's step *)
Local Open Scope list_scope. Open Scope Z_scope.

Theorem C18_getter_pure : forall s g e s' t, step s (OGet g) e = Ok (s', t) -> s' = s.
Proof. exact getter_pure. Qed.
Print Assumptions C18_getter_pure.

(* any sequence of getters leaves the state unchanged and each call returns do_get of that one state *)
Theorem C18_same_text : forall ops s s' txts,
  all_getters ops -> drive_ops s ops = Ok (s', txts) ->
  s' = s /\ Forall2 (fun oe t => exists g, fst oe = OGet g /\ do_get s g = Ok t) ops txts.
Proof. exact getters_same_text. Qed.
Print Assumptions C18_same_text.

(* a second run of the same instance and options against any correct back end hands over the same problems
   (hence the same frozen optimum after every stage), ends with the same status and logs the same lines *)
Theorem C18_rerun : forall M o s1 s2 out1 out2,
  milp_ok M s1 -> milp_ok M s2 -> run M o s1 = Ok out1 -> run M o s2 = Ok out2 ->
  out_trace out1 = out_trace out2 /\ out_status out1 = out_status out2 /\ out_info out1 = out_info out2.
Proof. exact rerun_reproducible. Qed.
Print Assumptions C18_rerun.

(* ... and prints a valid matching again *)
Theorem C18_rerun_valid : forall M o solve out,
  wf M = true -> milp_ok M solve -> run M o solve = Ok out -> out_status out = Optimal ->
  valid_b (o_pc o) M (matching_of M (val_fun (out_vals out))) = true.
Proof. exact reported_valid. Qed.
Print Assumptions C18_rerun_valid.

(* the Solver OBJECT solved twice (any limits, any clock readings, any two correct back ends): the second solve gives
   the same status and logs the same lines; nothing of the first solve's values, status or timings flows into it *)
Theorem C18_resolve_object : forall s lim1 e1 s1 lim2 e2 s2,
  s_bf s = false ->
  milp_ok (s_inst s) (e_solve e1) -> milp_ok (s_inst s) (e_solve e2) ->
  do_solve s lim1 e1 = Ok s1 -> do_solve s1 lim2 e2 = Ok s2 ->
  s_status s2 = s_status s1 /\ s_info s2 = s_info s1.
Proof. exact resolve_reproducible. Qed.
Print Assumptions C18_resolve_object.

(* the same on the Solver object built from its command line (Solver(argv) on any file of the documented format, any
   acceptable option set): solve() twice, whatever the limits, clock readings and (correct) back ends *)
Theorem C18_command_line : forall c A trailer t0 s lim1 e1 s1 lim2 e2 s2,
  acceptable_ns (c_ns c) (c_twopl c) (c_stab c) = true ->
  wf_ast (c_na c) (c_twopl c) A = true ->
  c_bf c = false ->
  milp_ok (denote (c_na c) (c_twopl c) A) (e_solve e1) -> milp_ok (denote (c_na c) (c_twopl c) A) (e_solve e2) ->
  solver_new c (Some (render (c_na c) A trailer)) t0 = SReady s ->
  do_solve s lim1 e1 = Ok s1 -> do_solve s1 lim2 e2 = Ok s2 ->
  s_status s2 = s_status s1 /\ s_info s2 = s_info s1.
Proof. exact command_line_resolve. Qed.
Print Assumptions C18_command_line.
