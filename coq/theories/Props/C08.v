(* C08 — generated files are well-formed instances of the requested type and parameters.
   Proved here: the even spreading of quotas / targets / projects per lecturer and the tie-probability
   extremes.  The assembly of the file text from these pieces and from the random draws is tied to the code by
   the byte-exact correspondence R_genfile and judged by M_genfile (model importer + wf).  "Every list length
   can occur" is proved as: every vector of lengths in [pmin, pmax] is produced by draws that honour the RNG
   contract (C08_every_length_can_occur); that numpy actually draws each with positive probability, and the tie
   frequencies, are requests to numpy's RNG (checked: randint [pmin, pmax+1), p = [1-t, t]), whose distribution
   is trusted. *)
From MP Require Import Gen.Quotas Gen.Files Text.Ties Text.Import Proofs.TiesProofs Proofs.GenProofs Proofs.GenFiles
                       Proofs.PipelineProofs Proofs.GenLengths.
From Coq Require Import Lia.
Local Open Scope list_scope. Open Scope Z_scope.

Theorem C08_quotas_total : forall n q, 0 < n -> exists l, create_quotas n q = Ok l.
Proof. exact quotas_total. Qed.
Print Assumptions C08_quotas_total.

(* n shares summing to the requested total, differing by at most one, larger shares first *)
Theorem C08_quotas : forall n q l, 0 < n -> 0 <= q -> create_quotas n q = Ok l ->
  length l = Z.to_nat n /\ sumZ l = q /\
  (forall i, (i < length l)%nat -> nth i l 0 = q / n \/ nth i l 0 = q / n + 1) /\
  (forall i j, (i <= j)%nat -> (j < length l)%nat -> nth j l 0 <= nth i l 0).
Proof. exact quotas_spec. Qed.
Print Assumptions C08_quotas.

(* lower sum <= target sum <= upper sum gives lower <= target <= upper for every agent *)
Theorem C08_quotas_monotone : forall n q1 q2 l1 l2, 0 < n -> 0 <= q1 <= q2 ->
  create_quotas n q1 = Ok l1 -> create_quotas n q2 = Ok l2 ->
  forall i, (i < Z.to_nat n)%nat -> nth i l1 0 <= nth i l2 0.
Proof. exact quotas_monotone. Qed.
Print Assumptions C08_quotas_monotone.

Theorem C08_project_lecturers : forall n2 n3 l, 0 < n3 -> 0 <= n2 -> create_project_lecturers n2 n3 = Ok l ->
  length l = Z.to_nat n2 /\ (forall x, In x l -> 1 <= x <= n3) /\
  (forall k counts, create_quotas n3 n2 = Ok counts -> (k < Z.to_nat n3)%nat ->
       count_occZ l (Z.of_nat k + 1) = nth k counts 0) /\
  (forall i j, (i <= j)%nat -> (j < length l)%nat -> nth i l 0 <= nth j l 0).
Proof. exact project_lecturers_spec. Qed.
Print Assumptions C08_project_lecturers.

(* tie probability 0: no token carries a parenthesis; probability 1: a list of two or more is one group *)
Theorem C08_no_ties : forall l ties ts,
  write l ties = Ok ts -> (forall t, In t ties -> t = false) -> ts = map TPlain l.
Proof. exact no_ties_no_parens. Qed.
Print Assumptions C08_no_ties.

Theorem C08_all_ties : forall l ties ts,
  write l ties = Ok ts -> (2 <= length l)%nat -> length ties = length l -> (forall t, In t ties -> t = true) ->
  groups ts = Some [l].
Proof. exact all_ties_one_group. Qed.
Print Assumptions C08_all_ties.

(* exactly the requested number of files, named 0.txt, 1.txt, ... *)
Theorem C08_file_names : forall a ds files,
  generate a ds = Ok files -> (Z.to_nat (g_numinst a) <= length ds)%nat ->
  map fst files = map (fun k => sZ k +++ ".txt"%string) (rangeZ (g_numinst a)) /\
  length files = Z.to_nat (g_numinst a).
Proof. exact generate_names. Qed.
Print Assumptions C08_file_names.

(* each file is a well-formed instance of the requested type: it is read back, character by character, as a
   well-formed instance with the requested counts, second-side ranks present exactly when two-sided *)
Theorem C08_file_well_formed : forall a d text,
  gargs_ok a -> draws_contract a d -> instance_text a d = Ok text ->
  exists M, import_model text (na_of a) (g_twopl a) = Ok M /\ wf M = true /\
            nS M = g_n1 a /\ nP M = g_n2 a /\ (g_twopl a = true -> two_sided M = true) /\
            (g_twopl a = false -> one_sided M = true).
Proof. exact generated_file_imports. Qed.
Print Assumptions C08_file_well_formed.

(* one preference list per first-side agent containing between pmin and pmax distinct agents of the other side:
   the lists of the instance read back from the file ARE the drawn lists *)
Theorem C08_lists_are_the_draws : forall a d text M,
  gargs_ok a -> draws_contract a d -> instance_text a d = Ok text ->
  import_model text (na_of a) (g_twopl a) = Ok M ->
  map (map pr) (pairs M) = d_first d /\
  (forall row, In row (pairs M) ->
     g_pmin a <= Z.of_nat (length row) <= g_pmax a /\ NoDup (map pr row) /\
     (forall q, In q row -> 1 <= pr q <= g_n2 a)).
Proof. exact generated_lists_are_the_draws. Qed.
Print Assumptions C08_lists_are_the_draws.

(* every list length in [pmin, pmax] can occur: any vector of such lengths results from some draws honouring the
   contract, and the generator then writes the file *)
Theorem C08_every_length_can_occur : forall a lens,
  gargs_ok a -> length lens = Z.to_nat (g_n1 a) ->
  (forall x, In x lens -> g_pmin a <= x <= g_pmax a) ->
  exists d text, draws_contract a d /\ map (fun l => Z.of_nat (length l)) (d_first d) = lens /\
                 instance_text a d = Ok text.
Proof. exact every_length_vector_can_occur. Qed.
Print Assumptions C08_every_length_can_occur.

Example C08_example :
  create_quotas 4 10 = Ok [3; 3; 2; 2] /\ create_quotas 4 3 = Ok [1; 1; 1; 0] /\
  create_project_lecturers 5 3 = Ok [1; 1; 2; 2; 3] /\ 0 < 4 /\ 0 <= 3 <= 10.
Proof. vm_compute. repeat split; try reflexivity; discriminate. Qed.

(* the hypotheses of the file-level theorems are satisfiable: a concrete accepted argument vector, and draws honouring
   the contract with list lengths 2, 1, 2 *)
Definition C08_args : gargs := mkGargs 3 1 true 3 2 0 1 2 "0.0" "0.0" "1.0" 0 3 0 0 "0.0" 0.
Example C08_args_ok : gargs_ok C08_args.
Proof. unfold gargs_ok, C08_args; cbn. repeat split; try lia; try (intro H; discriminate H). Qed.
Example C08_lengths_example : exists d text,
  draws_contract C08_args d /\ map (fun l => Z.of_nat (length l)) (d_first d) = [2; 1; 2] /\
  instance_text C08_args d = Ok text.
Proof.
  apply C08_every_length_can_occur; [exact C08_args_ok|reflexivity|].
  intros x [<-|[<-|[<-|[]]]]; cbn; lia.
Qed.
