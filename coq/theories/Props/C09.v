(* C09 — every generated instance is solvable by the solver under the documented flags. *)
From MP Require Import Gen.Files Gen.ArgsBridge Run.Main Proofs.ArgsProofs Proofs.PipelineMain Text.Render Proofs.PipelineProofs LP.Canon Proofs.StageInv Proofs.StageAll
                       Proofs.RunStructure Spec.BFSpec Proofs.BFProofs.
Local Open Scope list_scope. Open Scope Z_scope.

(* the generator model never fails on accepted arguments and draws that honour numpy's contract
   (choice without replacement = distinct members of the population; shuffle = a permutation) *)
Theorem C09_generated_file_exists : forall a d,
  gargs_ok a -> draws_contract a d -> exists text, instance_text a d = Ok text.
Proof. exact generated_file_exists. Qed.
Print Assumptions C09_generated_file_exists.

(* every file the generator writes (ha/sm/hr with -na 2, spa with -na 3, -twopl exactly when generated two-sided)
   is read by the importer, character by character, without error, as a WELL-FORMED instance with the requested
   counts and sidedness — so every theorem stated for well-formed instances applies to generator output *)
Theorem C09_generated_file_imports : forall a d text,
  gargs_ok a -> draws_contract a d -> instance_text a d = Ok text ->
  exists M, import_model text (na_of a) (g_twopl a) = Ok M /\ wf M = true /\
            nS M = g_n1 a /\ nP M = g_n2 a /\ (g_twopl a = true -> two_sided M = true) /\
            (g_twopl a = false -> one_sided M = true).
Proof. exact generated_file_imports. Qed.
Print Assumptions C09_generated_file_imports.

(* ... in particular both solving modes produce a correct result on it: *)
(* LP mode: for any admissible option set and any correct MILP back end the run does not fail, is Optimal iff a
   matching satisfying the requested constraints exists, and then prints a valid matching *)
Corollary C09_lp_mode : forall a d text o solve,
  gargs_ok a -> draws_contract a d -> instance_text a d = Ok text ->
  exists M, import_model text (na_of a) (g_twopl a) = Ok M /\
    (admissible M o = true -> milp_ok M solve ->
       exists out, run M o solve = Ok out /\
         ((exists m, Feas (o_pc o) (o_stab o) M m) -> out_status out = Optimal) /\
         ((~ exists m, Feas (o_pc o) (o_stab o) M m) -> out_status out = Infeasible) /\
         (out_status out = Optimal -> valid_b (o_pc o) M (matching_of M (val_fun (out_vals out))) = true)).
Proof.
  intros a d text o solve Ha Hd Ht.
  destruct (generated_file_imports a d text Ha Hd Ht) as [M [Hi [Hwf _]]].
  exists M. split; [exact Hi|]. intros Hadm Hok.
  destruct (run_total M o solve Hwf Hadm Hok) as [out Hrun]. exists out. split; [exact Hrun|].
  destruct (run_status_all M o solve out Hwf Hadm Hok Hrun) as [H1 H2].
  split; [exact H1|]. split; [exact H2|]. intro Hst. now apply (reported_valid M o solve out).
Qed.
Print Assumptions C09_lp_mode.

(* brute-force mode: never fails and prints the exact optima *)
Corollary C09_bf_mode : forall a d text pc,
  gargs_ok a -> draws_contract a d -> instance_text a d = Ok text ->
  exists M, import_model text (na_of a) (g_twopl a) = Ok M /\ bf_results pc M = Ok (bf_spec_text pc M).
Proof.
  intros a d text pc Ha Hd Ht.
  destruct (generated_file_imports a d text Ha Hd Ht) as [M [Hi [Hwf _]]].
  exists M. split; [exact Hi|]. now apply bf_correct.
Qed.
Print Assumptions C09_bf_mode.

(* the pipeline from the two command lines: documented generator arguments (Gen/Args.v), any draws honouring the RNG
   contract; each written file given to Solver(argv) with -na as the type requires, -twopl exactly when generated
   two-sided, and any acceptable criteria selection (with or without -pc / -bf; -stab only with -twopl) yields a Solver
   working on a well-formed instance with the requested number of first-side agents — C09_lp_mode / C09_bf_mode then
   apply to its solve *)
Theorem C09_pipeline_constructs : forall a t1 t2 sk lts ds files c t0,
  documented_ok a = true ->
  (forall d, In d ds -> draws_contract (gargs_of (with_defaults a) t1 t2 sk lts) d) ->
  generator_run a t1 t2 sk lts ds = GFiles files ->
  c_na c = na_of (gargs_of (with_defaults a) t1 t2 sk lts) -> c_twopl c = a_twopl a ->
  acceptable_ns (c_ns c) (c_twopl c) (c_stab c) = true ->
  forall nt, In nt files ->
    exists s, solver_new c (Some (snd nt)) t0 = SReady s /\ wf (s_inst s) = true /\
              nS (s_inst s) = zv (a_n1 a) /\ s_bf s = c_bf c /\ o_pc (s_opts s) = c_pc c /\ o_stab (s_opts s) = c_stab c.
Proof. exact pipeline_constructs. Qed.
Print Assumptions C09_pipeline_constructs.
