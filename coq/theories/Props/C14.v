(* C14 — a run that was cut short or proved infeasible never presents a matching.
   The MILP back end is an ARBITRARY oracle here (any status, any values, at any solve): no assumption. *)
From MP Require Import Run.Session LP.Oracle Proofs.RunProofs Proofs.RunStructure Proofs.SessionProofs.
Local Open Scope list_scope. Open Scope Z_scope.

(* all solves but the last ended Optimal, and what is reported is the last solve's status and values *)
Theorem C14_run_structure : forall M o solve out base,
  run M o solve = Ok out -> base_constrs M o = Ok base ->
  out_trace out <> [] /\
  (forall k P, nth_error (out_trace out) k = Some P -> exists extra, pb_cs P = base ++ extra) /\
  (forall k P, nth_error (out_trace out) k = Some P -> (S k < length (out_trace out))%nat ->
               a_status (solve k P) = Optimal) /\
  (forall k P, nth_error (out_trace out) k = Some P -> S k = length (out_trace out) ->
               out_status out = a_status (solve k P) /\ out_vals out = a_vals (solve k P)).
Proof. exact run_structure. Qed.
Print Assumptions C14_run_structure.

(* a non-optimal solve (inside generous/greedy too) ends the run: it is the last one and ITS status is reported *)
Theorem C14_first_nonoptimal : forall M o solve out base k P,
  run M o solve = Ok out -> base_constrs M o = Ok base ->
  nth_error (out_trace out) k = Some P -> a_status (solve k P) <> Optimal ->
  S k = length (out_trace out) /\ out_status out = a_status (solve k P) /\ out_status out <> Optimal.
Proof. exact run_first_nonoptimal. Qed.
Print Assumptions C14_first_nonoptimal.

(* when the status is not Optimal, or a limit was set and the run exceeded it or was left unsolved, the result
   text is independent of the variable values (it carries no matching, no statistic) and is produced *)
Theorem C14_no_matching_presented : forall s long,
  timed_out s = true \/ String.eqb (s_status s) "Optimal" = false ->
  (forall vals', lp_results (with_vals s vals') long = lp_results s long) /\
  exists t, lp_results s long = Ok t.
Proof. exact no_matching_presented. Qed.
Print Assumptions C14_no_matching_presented.

Theorem C14_solve_nonoptimal : forall s lim e s' out base k P long,
  s_bf s = false -> do_solve s lim e = Ok s' ->
  run (s_inst s) (s_opts s) (e_solve e) = Ok out -> base_constrs (s_inst s) (s_opts s) = Ok base ->
  nth_error (out_trace out) k = Some P -> a_status (e_solve e k P) <> Optimal ->
  s_status s' = status_string (a_status (e_solve e k P)) /\
  (forall vals', lp_results (with_vals s' vals') long = lp_results s' long) /\
  exists t, lp_results s' long = Ok t.
Proof. exact solve_nonoptimal_no_matching. Qed.
Print Assumptions C14_solve_nonoptimal.

(* a time-limit stop (reported Optimal with an incumbent) took at least the limit, and model creation took
   some time: the run counts as timed out.  The corner total = limit with zero creation time is a runtime
   behaviour (microsecond clock) outside the model: partial. *)
Theorem C14_limit_stop_times_out : forall s lim printed,
  s_limit s = Some (lim, printed) -> s_tstart s < s_tcreate s -> lim <= s_tsolve s - s_tcreate s ->
  timed_out s = true.
Proof. exact limit_stop_times_out. Qed.
Print Assumptions C14_limit_stop_times_out.
